package main

// Conditions, assignments and field writes of the state-machine extractor.

import (
	"go/ast"
	"go/token"
	"strings"
)

var lifecycleField = map[string]string{
	"State": "", "Attempt": "FAttempt", "NextRunAt": "FNext", "LeaseID": "FLeaseId",
	"LeaseUntil": "FLeaseUntil", "DeadReason": "FReason",
}

var knobNames = map[string]string{
	"retentionMaxAge": "KRetAge", "deliveredRetentionMaxAge": "KDelivAge",
	"dlqRetentionMaxAge": "KDlqAge", "dlqMaxDepth": "KDlqDepth",
}

var enqueueMethods = map[string]bool{"Enqueue": false, "EnqueueBatch": true}

type refine struct {
	st   map[string]sset
	tags []string
}

func meetRefine(a, b refine) refine {
	out := refine{st: map[string]sset{}}
	for k, v := range a.st {
		out.st[k] = v
	}
	for k, v := range b.st {
		if w, ok := out.st[k]; ok {
			out.st[k] = w & v
		} else {
			out.st[k] = v
		}
	}
	out.tags = append(append([]string(nil), a.tags...), b.tags...)
	return out
}

func joinRefine(a, b refine) refine {
	out := refine{st: map[string]sset{}}
	for k, v := range a.st {
		if w, ok := b.st[k]; ok {
			out.st[k] = v | w
		}
	}
	for _, t := range a.tags {
		for _, u := range b.tags {
			if t == u {
				out.tags = append(out.tags, t)
			}
		}
	}
	return out
}

func (in *interp) applyRefine(sc *scope, r refine) {
	for name, st := range r.st {
		if m, ok := sc.vars[name].(avMsg); ok {
			sc.vars[name] = avMsg{m.st & st, m.key}
		}
	}
	for _, t := range r.tags {
		sc.addTag(t)
	}
}

// stateSubject: if e denotes the state of a tracked message returns its name
func (in *interp) stateSubject(e ast.Expr, sc *scope) (string, bool) {
	switch x := e.(type) {
	case *ast.SelectorExpr:
		if x.Sel.Name == "State" {
			if id, ok := x.X.(*ast.Ident); ok {
				if _, ok := sc.vars[id.Name].(avMsg); ok {
					return id.Name, true
				}
			}
		}
	case *ast.Ident:
		if r, ok := sc.vars[x.Name].(avRef); ok && r.role == "state" {
			return r.name, true
		}
	case *ast.CallExpr: // State(state)
		if id, ok := x.Fun.(*ast.Ident); ok && id.Name == "State" && len(x.Args) == 1 {
			return in.stateSubject(x.Args[0], sc)
		}
	}
	return "", false
}

func (in *interp) stateConstOf(e ast.Expr) (int, bool) {
	switch x := e.(type) {
	case *ast.Ident:
		i, ok := stateConst[x.Name]
		return i, ok
	case *ast.CallExpr:
		if id, ok := x.Fun.(*ast.Ident); ok && id.Name == "string" && len(x.Args) == 1 {
			return in.stateConstOf(x.Args[0])
		}
	case *ast.ParenExpr:
		return in.stateConstOf(x.X)
	}
	return 0, false
}

func (in *interp) mentionsState(e ast.Expr, sc *scope) bool {
	found := false
	ast.Inspect(e, func(n ast.Node) bool {
		if x, ok := n.(ast.Expr); ok {
			if _, ok := in.stateSubject(x, sc); ok {
				if _, isCall := x.(*ast.CallExpr); !isCall {
					found = true
				}
			}
		}
		if _, ok := n.(*ast.FuncLit); ok {
			return false
		}
		return true
	})
	return found
}

func (in *interp) countStateMentions(e ast.Expr, sc *scope) int {
	n := 0
	ast.Inspect(e, func(nd ast.Node) bool {
		switch x := nd.(type) {
		case *ast.SelectorExpr, *ast.Ident:
			if _, ok := in.stateSubject(x.(ast.Expr), sc); ok {
				n++
			}
		case *ast.FuncLit:
			return false
		}
		return true
	})
	return n
}

func (in *interp) cond(e ast.Expr, sc *scope) (refine, refine) {
	atoms := 0
	t, f := in.cond1(e, sc, &atoms)
	if m := in.countStateMentions(e, sc); m != atoms {
		in.fail(e.Pos(), "condition `%s` tests the state of a stored message in a way the extractor does not understand", in.render(e))
	}
	return t, f
}

func (in *interp) cond1(e ast.Expr, sc *scope, atoms *int) (refine, refine) {
	none := refine{st: map[string]sset{}}
	switch x := e.(type) {
	case *ast.ParenExpr:
		return in.cond1(x.X, sc, atoms)
	case *ast.UnaryExpr:
		if x.Op == token.NOT {
			t, f := in.cond1(x.X, sc, atoms)
			return f, t
		}
	case *ast.BinaryExpr:
		switch x.Op {
		case token.LAND:
			ta, fa := in.cond1(x.X, sc, atoms)
			tb, fb := in.cond1(x.Y, sc, atoms)
			return meetRefine(ta, tb), joinRefine(fa, fb)
		case token.LOR:
			ta, fa := in.cond1(x.X, sc, atoms)
			tb, fb := in.cond1(x.Y, sc, atoms)
			return joinRefine(ta, tb), meetRefine(fa, fb)
		case token.EQL, token.NEQ:
			subj, ok := in.stateSubject(x.X, sc)
			other := x.Y
			if !ok {
				subj, ok = in.stateSubject(x.Y, sc)
				other = x.X
			}
			if ok {
				idx, isConst := in.stateConstOf(other)
				*atoms++
				if !isConst {
					// compared with a run-time value (a list filter): no constraint either way
					return none, none
				}
				eq := refine{st: map[string]sset{subj: 1 << uint(idx)}}
				ne := refine{st: map[string]sset{subj: sAll &^ (1 << uint(idx))}}
				if x.Op == token.EQL {
					return eq, ne
				}
				return ne, eq
			}
			// env.State == "" on a value Envelope (enqueue default)
			if sel, ok := x.X.(*ast.SelectorExpr); ok && sel.Sel.Name == "State" && x.Op == token.EQL && in.render(x.Y) == `""` {
				return refine{st: map[string]sset{}, tags: []string{"blank-state"}}, none
			}
		case token.GTR:
			if sel, ok := x.X.(*ast.SelectorExpr); ok && in.render(x.Y) == "0" {
				if _, isKnob := knobNames[sel.Sel.Name]; isKnob {
					if id, ok := sel.X.(*ast.Ident); ok && id.Name == in.curRecv() {
						return refine{st: map[string]sset{}, tags: []string{"knob:" + sel.Sel.Name}},
							refine{st: map[string]sset{}, tags: []string{"!knob:" + sel.Sel.Name}}
					}
				}
			}
		}
	case *ast.CallExpr:
		if sel, ok := x.Fun.(*ast.SelectorExpr); ok {
			switch sel.Sel.Name {
			case "After", "Before":
				if len(x.Args) == 1 {
					col, isCol := in.eval(sel.X, sc).(avCol)
					cut, isCut := in.eval(x.Args[0], sc).(avTime)
					if isCol && isCut && cut.kind == "cutoff" {
						if sel.Sel.Name == "After" {
							return none, refine{st: map[string]sset{}, tags: []string{"age:" + col.col + ":le:" + cut.knob}}
						}
						return refine{st: map[string]sset{}, tags: []string{"age:" + col.col + ":lt:" + cut.knob}}, none
					}
				}
			case "IsZero":
				if id, ok := sel.X.(*ast.Ident); ok {
					if _, isCol := sc.vars[id.Name].(avCol); isCol {
						return refine{st: map[string]sset{}, tags: []string{"zero:" + id.Name}}, none
					}
				}
			}
		}
		in.eval(x, sc) // closures called in conditions (full()) are walked for completeness
	case *ast.SelectorExpr:
		if x.Sel.Name == "Valid" {
			if id, ok := x.X.(*ast.Ident); ok {
				if r, ok := sc.vars[id.Name].(avRef); ok && r.role == "until" {
					return none, refine{st: map[string]sset{}, tags: []string{"until-null"}}
				}
			}
		}
	}
	return none, none
}

// ---------------------------------------------------------------------------

func rootIdent(e ast.Expr) *ast.Ident {
	for {
		switch x := e.(type) {
		case *ast.Ident:
			return x
		case *ast.SelectorExpr:
			e = x.X
		case *ast.IndexExpr:
			e = x.X
		case *ast.StarExpr:
			e = x.X
		case *ast.ParenExpr:
			e = x.X
		default:
			return nil
		}
	}
}

func (in *interp) assign(s *ast.AssignStmt, sc *scope, groups map[string]*writeGroup, order *[]string) {
	if s.Tok != token.ASSIGN && s.Tok != token.DEFINE {
		// op-assignment: query += piece
		if s.Tok == token.ADD_ASSIGN && len(s.Lhs) == 1 {
			if id, ok := s.Lhs[0].(*ast.Ident); ok {
				if t, ok := sc.vars[id.Name].(avTmpl); ok {
					add, ok := in.eval(s.Rhs[0], sc).(avTmpl)
					if !ok {
						if ph, isPH := in.eval(s.Rhs[0], sc).(avPH); isPH {
							add = avTmpl{[]tpiece{{isPH: true, ph: ph.of}}}
						} else {
							add = avTmpl{[]tpiece{{unk: true}}}
						}
					}
					sc.vars[id.Name] = avTmpl{append(append([]tpiece(nil), t.pieces...), add.pieces...)}
				}
			}
			return
		}
		if len(s.Lhs) == 1 {
			if sel, ok := s.Lhs[0].(*ast.SelectorExpr); ok {
				if _, lc := lifecycleField[sel.Sel.Name]; lc {
					if id := rootIdent(sel); id != nil {
						if _, isMsg := sc.vars[id.Name].(avMsg); isMsg {
							in.fail(s.Pos(), "compound assignment to a field of a stored message")
						}
					}
				}
			}
		}
		return
	}
	vals := make([]aval, len(s.Lhs))
	if len(s.Lhs) == len(s.Rhs) {
		for i, r := range s.Rhs {
			vals[i] = in.eval(r, sc)
		}
	} else if len(s.Rhs) == 1 {
		v := in.eval(s.Rhs[0], sc)
		vals[0] = v
		if c, ok := s.Rhs[0].(*ast.CallExpr); ok && in.lastMultiCall == c && in.lastMulti != nil {
			for i := range vals {
				if i < len(in.lastMulti) {
					vals[i] = in.lastMulti[i]
				}
			}
		}
	}
	for i, l := range s.Lhs {
		var rhs ast.Expr
		if len(s.Lhs) == len(s.Rhs) {
			rhs = s.Rhs[i]
		} else if i == 0 {
			rhs = s.Rhs[0]
		}
		in.assignOne(l, rhs, vals[i], s, sc, groups, order)
	}
}

func (in *interp) assignOne(lhs ast.Expr, rhs ast.Expr, val aval, s *ast.AssignStmt, sc *scope, groups map[string]*writeGroup, order *[]string) {
	switch l := lhs.(type) {
	case *ast.Ident:
		if l.Name == "_" {
			return
		}
		// a re-bound alias ends its pending write group
		if g := groups[l.Name]; g != nil {
			in.emit("write", g.from, g.to, g.writes, g.tags, g.pos)
			delete(groups, l.Name)
		}
		isValue := false
		if rhs != nil {
			switch r := rhs.(type) {
			case *ast.Ident:
				isValue = sc.valueEnvs[r.Name]
			case *ast.IndexExpr:
				if id, ok := r.X.(*ast.Ident); ok {
					isValue = sc.valueEnvs["[]"+id.Name]
				}
			case *ast.StarExpr:
				if id, ok := r.X.(*ast.Ident); ok {
					_, isMsg := sc.vars[id.Name].(avMsg)
					isValue = isMsg // *env copies the envelope
				}
			}
		}
		if isValue {
			sc.valueEnvs[l.Name] = true
			if _, isMsg := val.(avMsg); isMsg {
				val = nil
			}
		} else {
			delete(sc.valueEnvs, l.Name)
		}
		// zero-time fallback: if ts.IsZero() { ts = env.ReceivedAt } keeps the primary column
		if cur, ok := sc.vars[l.Name].(avCol); ok && sc.hasTag("zero:"+l.Name) {
			if _, ok := val.(avCol); ok {
				val = cur
			}
		}
		in.bind(l.Name, val, sc)
		if m, ok := val.(avMsg); ok && rhs != nil {
			if ix, ok := rhs.(*ast.IndexExpr); ok {
				if k, ok := ix.Index.(*ast.Ident); ok {
					sc.vars[k.Name] = avRef{l.Name, "id"}
					sc.vars[l.Name] = avMsg{m.st, k.Name}
				}
			}
		}
	case *ast.SelectorExpr:
		in.fieldWrite(l, rhs, false, s.Pos(), sc, groups, order)
	case *ast.IndexExpr:
		base := in.render(l.X)
		if recv := in.curRecv(); recv != "" && base == recv+".items" && in.spec.sql == 0 {
			if _, ok := enqueueMethods[in.method]; !ok {
				in.fail(s.Pos(), "a message is stored into %s outside Enqueue/EnqueueBatch", base)
			}
			in.consumed[s.Pos()] = "insert"
			in.emit("insert", 0, 0, nil, sc.tags, s.Pos())
			return
		}
		if id, ok := l.X.(*ast.Ident); ok {
			if c, ok := sc.vars[id.Name].(*avColl); ok {
				in.collAdd(c, val)
			}
		}
	}
}

func (in *interp) collAdd(c *avColl, v aval) {
	if g, ok := idGuard(v); ok {
		c.st |= g
		if _, isMsg := v.(avMsg); isMsg {
			c.ptrs = true
		}
		return
	}
	if _, isZero := v.(avZero); isZero {
		return
	}
	c.untracked = true
}

func (in *interp) fieldWrite(sel *ast.SelectorExpr, rhs ast.Expr, inc bool, pos token.Pos, sc *scope, groups map[string]*writeGroup, order *[]string) {
	field := sel.Sel.Name
	coqField, lifecycle := lifecycleField[field]
	id, direct := sel.X.(*ast.Ident)
	if direct {
		if m, ok := sc.vars[id.Name].(avMsg); ok && in.spec.sql == 0 {
			if !lifecycle {
				in.fail(pos, "field %s of a stored message is written (only state, attempt, next_run_at, lease_id, lease_until, dead_reason may change)", field)
			}
			g := groups[id.Name]
			if g == nil {
				g = &writeGroup{name: id.Name, from: m.st, to: -1, writes: map[string]string{}, tags: append([]string(nil), sc.tags...), pos: pos}
				groups[id.Name] = g
				*order = append(*order, id.Name)
			}
			in.consumed[pos] = "store"
			if field == "State" {
				idx, ok := in.stateConstOf(rhs)
				if !ok {
					in.fail(pos, "state of a stored message set to `%s`, which is not a State constant", in.render(rhs))
				}
				g.to = idx
				sc.vars[id.Name] = avMsg{1 << uint(idx), m.key}
				return
			}
			g.writes[coqField] = in.classifyWrite(field, rhs, inc, g, pos, sc)
			return
		}
	}
	if !lifecycle {
		return
	}
	root := rootIdent(sel)
	if root == nil {
		return
	}
	if _, isMsg := sc.vars[root.Name].(avMsg); isMsg && in.spec.sql == 0 {
		in.fail(pos, "write to %s through a stored message in an unsupported form", in.render(sel))
	}
	if in.spec.sql != 0 || sc.valueEnvs[root.Name] || sc.valueEnvs["[]"+root.Name] {
		if field == "State" {
			if _, enq := enqueueMethods[in.method]; enq {
				idx, ok := in.stateConstOf(rhs)
				if !sc.hasTag("blank-state") || !ok || coqState[idx] != "Queued" {
					in.fail(pos, "%s sets the state of the envelope it inserts in an unexpected way (`%s`)", in.method, in.render(sel)+" = "+in.render(rhs))
				}
			} else if in.spec.sql == 0 {
				in.fail(pos, "state of a local envelope written outside Enqueue in the memory store")
			}
		}
		in.consumed[pos] = "local"
	}
}

func (in *interp) classifyWrite(field string, rhs ast.Expr, inc bool, g *writeGroup, pos token.Pos, sc *scope) string {
	if rhs == nil {
		if inc && field == "Attempt" {
			return "VIncr"
		}
		in.fail(pos, "increment/decrement of %s", field)
	}
	v := in.eval(rhs, sc)
	w, ok := wvalOf(v)
	if ok {
		return w
	}
	if t, isT := v.(avTime); isT && t.kind == "oldUntil" {
		if w, ok := g.writes["FLeaseUntil"]; ok {
			return w
		}
	}
	in.fail(pos, "value `%s` written to %s of a stored message is not one the extractor can classify", in.render(rhs), field)
	return ""
}

func wvalOf(v aval) (string, bool) {
	switch x := v.(type) {
	case avZero:
		return "VClear", true
	case avNewLease:
		return "VNewLease", true
	case avReason:
		return "VReasonArg", true
	case avTime:
		switch x.kind {
		case "now":
			return "VNow", true
		case "nowPlusDelay":
			return "VNowPlusDelay", true
		case "newUntil":
			return "VNewUntil", true
		case "oldUntilPlusBy":
			return "VOldUntilPlusBy", true
		case "nowPlusBy":
			return "VNowPlusBy", true
		}
	}
	return "", false
}

func hasPrefixAny(s string, ps ...string) bool {
	for _, p := range ps {
		if strings.HasPrefix(s, p) {
			return true
		}
	}
	return false
}
