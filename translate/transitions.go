package main

// genTransitions regenerates coq/Gen/Transitions.v: for each queue store
// (internal/queue/memory.go, sqlite.go, postgres.go) the table
//   operation -> accepted source states -> target state (or deleted) + lifecycle columns written,
// extracted from the Go statements / SQL text by the abstract interpreter in transinterp.go.
// Anything it does not understand is an error naming the method and the line, and every
// place of the file that writes the state (assignments to lifecycle fields of an Envelope,
// delete from / insert into s.items, UPDATE/DELETE/INSERT on queue_items) must have been
// consumed by the interpretation of some method: a refactoring cannot silently drop a
// transition, and a new method that writes the state makes the translator fail.

import (
	"fmt"
	"go/ast"
	"go/parser"
	"go/token"
	"path/filepath"
	"sort"
	"strconv"
	"strings"
)

type backendSpec struct {
	name string
	file string
	recv string
	sql  int // 0: Go data structure, 1: SQL with ?, 2: SQL with $n
}

func (b backendSpec) base() string { return filepath.Base(b.file) }

var backends = []backendSpec{
	{"memory", "internal/queue/memory.go", "MemoryStore", 0},
	{"sqlite", "internal/queue/sqlite.go", "SQLiteStore", 1},
	{"postgres", "internal/queue/postgres.go", "PostgresStore", 2},
}

func loadStates(repo string) error {
	fset := token.NewFileSet()
	f, err := parser.ParseFile(fset, filepath.Join(repo, "internal/queue/queue.go"), nil, 0)
	if err != nil {
		return err
	}
	for k := range stateConst {
		delete(stateConst, k)
	}
	for _, d := range f.Decls {
		gd, ok := d.(*ast.GenDecl)
		if !ok || gd.Tok != token.CONST {
			continue
		}
		for _, sp := range gd.Specs {
			vs := sp.(*ast.ValueSpec)
			if id, ok := vs.Type.(*ast.Ident); !ok || id.Name != "State" {
				continue
			}
			for i, n := range vs.Names {
				if i >= len(vs.Values) {
					return fmt.Errorf("queue.go: State constant %s without a value", n.Name)
				}
				bl, ok := vs.Values[i].(*ast.BasicLit)
				if !ok {
					return fmt.Errorf("queue.go: State constant %s is not a string literal", n.Name)
				}
				s, _ := strconv.Unquote(bl.Value)
				idx, ok := stateStrings[s]
				if !ok {
					return fmt.Errorf("queue.go: new State constant %s = %q: Model/Queue.v [st] has no such state", n.Name, s)
				}
				stateConst[n.Name] = idx
			}
		}
	}
	if len(stateConst) != 5 {
		return fmt.Errorf("queue.go: expected the 5 State constants queued/leased/delivered/dead/canceled, found %d", len(stateConst))
	}
	return nil
}

// ---------------------------------------------------------------------------
// which functions have to be followed

var providers = map[string]bool{"planDropOldestLocked": true, "lookupLeasesTx": true}

func isStoreItems(e ast.Expr, recv string) bool {
	sel, ok := e.(*ast.SelectorExpr)
	if !ok || sel.Sel.Name != "items" {
		return false
	}
	id, ok := sel.X.(*ast.Ident)
	return ok && id.Name == recv
}

// syntactic sinks of a node: positions -> description
func (in *interp) sinks(n ast.Node, recv string) map[token.Pos]string {
	out := map[token.Pos]string{}
	ast.Inspect(n, func(x ast.Node) bool {
		switch s := x.(type) {
		case *ast.AssignStmt:
			for _, l := range s.Lhs {
				switch t := l.(type) {
				case *ast.SelectorExpr:
					if _, ok := lifecycleField[t.Sel.Name]; ok {
						out[s.Pos()] = "assignment to " + in.render(l)
					}
				case *ast.IndexExpr:
					if in.spec.sql == 0 && isStoreItems(t.X, recv) {
						out[s.Pos()] = "store into " + in.render(t.X)
					}
				}
			}
		case *ast.IncDecStmt:
			if t, ok := s.X.(*ast.SelectorExpr); ok {
				if _, ok := lifecycleField[t.Sel.Name]; ok {
					out[s.Pos()] = "increment of " + in.render(s.X)
				}
			}
		case *ast.CallExpr:
			if id, ok := s.Fun.(*ast.Ident); ok && id.Name == "delete" && len(s.Args) == 2 && in.spec.sql == 0 && isStoreItems(s.Args[0], recv) {
				out[s.Pos()] = "delete from " + in.render(s.Args[0])
			}
		case *ast.BasicLit:
			if s.Kind == token.STRING && in.spec.sql != 0 {
				if v, err := strconv.Unquote(s.Value); err == nil && sqlWriteRe.MatchString(v) {
					out[s.Pos()] = "SQL statement " + strings.Join(strings.Fields(sqlWriteRe.FindString(v)), " ")
				}
			}
		}
		return true
	})
	return out
}

func recvOf(fd *ast.FuncDecl) (typ, name string) {
	if fd.Recv == nil || len(fd.Recv.List) == 0 {
		return "", ""
	}
	f := fd.Recv.List[0]
	t := f.Type
	if st, ok := t.(*ast.StarExpr); ok {
		t = st.X
	}
	if id, ok := t.(*ast.Ident); ok {
		typ = id.Name
	}
	if len(f.Names) > 0 {
		name = f.Names[0].Name
	}
	return
}

func (in *interp) computeRelevant() {
	in.relevant = map[string]bool{}
	calls := map[string]map[string]bool{}
	for name, fd := range in.funcs {
		if fd.Body == nil {
			continue
		}
		_, recv := recvOf(fd)
		if len(in.sinks(fd.Body, recv)) > 0 || providers[name] || filterSelectors[name] {
			in.relevant[name] = true
		}
		// wrapper: runs a query handed in as a parameter; higher-order: calls a function parameter
		params := map[string]string{}
		names, types := in.paramNames(fd.Type)
		for i, n := range names {
			params[n] = types[i]
		}
		calls[name] = map[string]bool{}
		ast.Inspect(fd.Body, func(x ast.Node) bool {
			c, ok := x.(*ast.CallExpr)
			if !ok {
				return true
			}
			switch f := c.Fun.(type) {
			case *ast.Ident:
				if t, ok := params[f.Name]; ok && strings.HasPrefix(t, "func(") {
					in.relevant[name] = true
				}
				calls[name][f.Name] = true
			case *ast.SelectorExpr:
				if id, ok := f.X.(*ast.Ident); ok && id.Name == recv && recv != "" {
					calls[name][f.Sel.Name] = true
				}
				if execNames[f.Sel.Name] && len(c.Args) > 1 {
					if id := rootIdent(c.Args[1]); id != nil {
						if t, ok := params[id.Name]; ok && t == "string" {
							in.relevant[name] = true
						}
					}
					// query := prefix + ...: any string parameter whose name says query
					for n, t := range params {
						if t == "string" && strings.Contains(strings.ToLower(n), "query") {
							in.relevant[name] = true
						}
					}
				}
			case *ast.IndexExpr:
				if id, ok := f.X.(*ast.Ident); ok {
					calls[name][id.Name] = true
				}
			}
			return true
		})
	}
	for changed := true; changed; {
		changed = false
		for name, cs := range calls {
			if in.relevant[name] {
				continue
			}
			for callee := range cs {
				if in.relevant[callee] {
					if _, ok := in.funcs[callee]; ok {
						in.relevant[name] = true
						changed = true
						break
					}
				}
			}
		}
	}
}

// ---------------------------------------------------------------------------
// labelling: which operation of the model a recorded write belongs to

var leaseMethods = map[string][2]string{
	"Ack": {"LAck", "false"}, "AckBatch": {"LAck", "true"},
	"Nack": {"LNack", "false"}, "NackBatch": {"LNack", "true"},
	"Extend":   {"LExtend", "false"},
	"MarkDead": {"LDead", "false"}, "MarkDeadBatch": {"LDead", "true"},
}

var manageMethods = map[string][2]string{
	"CancelMessages": {"MCancel", "false"}, "CancelMessagesByFilter": {"MCancel", "true"},
	"RequeueMessages": {"MRequeue", "false"}, "RequeueMessagesByFilter": {"MRequeue", "true"},
	"ResumeMessages": {"MResume", "false"}, "ResumeMessagesByFilter": {"MResume", "true"},
	"RequeueDead": {"MRequeueDead", "false"}, "DeleteDead": {"MDeleteDead", "false"},
}

var pruneFuncs = map[string]bool{"maybePruneLocked": true, "maybePrune": true}
var releaseFuncs = map[string]bool{"requeueLocked": true, "requeueLease": true, "requeueLeaseIDsTx": true, "requeueLeaseTx": true}
var sweepFuncs = map[string]bool{"requeueExpiredLeasesLocked": true, "requeueExpiredLeases": true, "requeueExpiredLeasesTx": true}
var evictFuncs = map[string]bool{"dropOldestQueued": true, "evictLocked": true}

type finalRow struct {
	op, cond string
	from     sset
	to       int
	writes   map[string]string
	where    []string
}

func (r finalRow) key() string {
	var ws []string
	for f, v := range r.writes {
		ws = append(ws, f+"="+v)
	}
	sort.Strings(ws)
	return fmt.Sprintf("%s|%s|%d|%d|%s", r.op, r.cond, r.from, r.to, strings.Join(ws, ","))
}

func (r finalRow) keyNoCond() string {
	c := r
	c.cond = ""
	return c.key()
}

func label(be backendSpec, r rawRow) (op, cond string, err error) {
	bad := func(format string, a ...interface{}) (string, string, error) {
		return "", "", fmt.Errorf("%s: method %s (call chain %s): %s", r.where, r.method, strings.Join(r.stack, " > "), fmt.Sprintf(format, a...))
	}
	in := func(set map[string]bool) bool {
		for _, f := range r.stack {
			if set[f] {
				return true
			}
		}
		return false
	}
	knobs := []string{}
	retention := ""
	untilNull := false
	age := []string{}
	for _, t := range r.tags {
		switch {
		case strings.HasPrefix(t, "knob:"):
			knobs = append(knobs, strings.TrimPrefix(t, "knob:"))
		case strings.HasPrefix(t, "!knob:"):
			if t == "!knob:deliveredRetentionMaxAge" {
				retention = "false"
			}
		case t == "until-null":
			untilNull = true
		case strings.HasPrefix(t, "age:"):
			age = append(age, t)
		}
	}
	if in(pruneFuncs) {
		if len(knobs) != 1 {
			return bad("a retention prune statement is guarded by %d configuration knobs %v (expected exactly one)", len(knobs), knobs)
		}
		k := knobs[0]
		if k == "dlqMaxDepth" {
			if len(age) != 0 {
				return bad("the DLQ depth prune carries an age rule")
			}
			return "TPruneDepth", "CAlways", nil
		}
		if len(age) != 1 {
			return bad("the age prune under %s has %d age comparisons (expected one)", k, len(age))
		}
		p := strings.Split(age[0], ":") // age col cmp knob
		if p[3] != k {
			return bad("the age prune under %s compares with a cut-off computed from %s", k, p[3])
		}
		col := map[string]string{"recv": "ColRecv", "next": "ColNext"}[p[1]]
		strict := map[string]string{"le": "false", "lt": "true"}[p[2]]
		return fmt.Sprintf("TPruneAge %s %s %s", knobNames[k], col, strict), "CAlways", nil
	}
	for _, k := range knobs {
		if k != "deliveredRetentionMaxAge" {
			return bad("a state write outside pruning depends on the configuration knob %s", k)
		}
		retention = "true"
	}
	cond = "CAlways"
	if retention != "" {
		cond = "CRetention " + retention
	}
	if untilNull {
		cond = "CUntilNull"
	}
	if in(releaseFuncs) {
		if in(sweepFuncs) || r.method == "Dequeue" {
			if r.method != "Dequeue" {
				return bad("the expired-lease sweep runs outside Dequeue")
			}
			return "TSweep", "CAlways", nil
		}
		if lm, ok := leaseMethods[r.method]; ok {
			return fmt.Sprintf("TLeaseExpired %s %s", lm[0], lm[1]), "CAlways", nil
		}
		return bad("a lease is released in a method that is not a lease operation")
	}
	if in(sweepFuncs) {
		if r.method != "Dequeue" {
			return bad("the expired-lease sweep runs outside Dequeue")
		}
		return "TSweep", "CAlways", nil
	}
	if in(evictFuncs) {
		b, ok := enqueueMethods[r.method]
		if !ok {
			return bad("a message is evicted in a method that is not an enqueue")
		}
		return fmt.Sprintf("TEvict %v", b), "CAlways", nil
	}
	if r.method == "Dequeue" {
		return "TDequeue", cond, nil
	}
	if lm, ok := leaseMethods[r.method]; ok {
		if lm[0] != "LAck" && retention != "" {
			return bad("a lease operation other than ack depends on delivered-retention")
		}
		return fmt.Sprintf("TLease %s %s", lm[0], lm[1]), cond, nil
	}
	if mm, ok := manageMethods[r.method]; ok {
		return fmt.Sprintf("TManage %s %s", mm[0], mm[1]), cond, nil
	}
	return bad("this method writes the state of a stored message, but the extractor knows no operation of the model for it (a new state-changing method?)")
}

// ---------------------------------------------------------------------------

func extractBackend(repo string, be backendSpec) (rows []finalRow, stats map[string]int, err error) {
	defer func() {
		if r := recover(); r != nil {
			if te, ok := r.(transErr); ok {
				err = fmt.Errorf("%s", te.msg)
				return
			}
			panic(r)
		}
	}()
	fset := token.NewFileSet()
	f, perr := parser.ParseFile(fset, filepath.Join(repo, be.file), nil, 0)
	if perr != nil {
		return nil, nil, perr
	}
	in := &interp{spec: be, fset: fset, file: f, funcs: map[string]*ast.FuncDecl{}, recvName: map[string]string{},
		consumed: map[token.Pos]string{}, selOK: map[string]bool{}}
	var entries []string
	for _, d := range f.Decls {
		fd, ok := d.(*ast.FuncDecl)
		if !ok {
			continue
		}
		typ, rn := recvOf(fd)
		if typ != "" && typ != be.recv {
			continue // methods of helper types (histograms, ...)
		}
		if _, dup := in.funcs[fd.Name.Name]; dup {
			return nil, nil, fmt.Errorf("%s: two functions named %s", be.base(), fd.Name.Name)
		}
		in.funcs[fd.Name.Name] = fd
		if rn != "" {
			in.recvName[fd.Name.Name] = rn
		}
	}
	in.computeRelevant()
	for name, fd := range in.funcs {
		if typ, _ := recvOf(fd); typ == be.recv && ast.IsExported(name) && in.relevant[name] {
			entries = append(entries, name)
		}
	}
	sort.Strings(entries)
	for _, name := range entries {
		fd := in.funcs[name]
		in.method = name
		sc := newScope()
		names, types := in.paramNames(fd.Type)
		for i, n := range names {
			switch types[i] {
			case "Envelope":
				sc.valueEnvs[n] = true
			case "[]Envelope":
				sc.valueEnvs["[]"+n] = true
			}
		}
		in.enter(name)
		in.block(fd.Body.List, sc)
		in.leave()
	}
	// completeness: every syntactic sink of the file was consumed
	stats = map[string]int{}
	for _, d := range f.Decls {
		fd, ok := d.(*ast.FuncDecl)
		if !ok || fd.Body == nil {
			// package-level string constants (schema) are covered below
			continue
		}
		_, rn := recvOf(fd)
		for p, what := range in.sinks(fd.Body, rn) {
			kind, ok := in.consumed[p]
			if ok {
				stats[kind]++
				continue
			}
			if foreignRoot(in, fd, p) {
				stats["foreign"]++
				continue
			}
			return nil, nil, fmt.Errorf("%s: function %s: %s is not reached by the interpretation of any store method: a state write the extractor would miss",
				in.posStr(p), fd.Name.Name, what)
		}
	}
	for _, d := range f.Decls {
		if gd, ok := d.(*ast.GenDecl); ok {
			for p, what := range in.sinks(gd, "") {
				return nil, nil, fmt.Errorf("%s: %s in a package-level declaration (trigger / migration writing queue_items?)", in.posStr(p), what)
			}
		}
	}
	// label, normalise, dedupe
	byKey := map[string]*finalRow{}
	var order []string
	inserts := 0
	for _, r := range in.rows {
		if r.kind == "insert" {
			inserts++
			continue
		}
		op, cond, lerr := label(be, r)
		if lerr != nil {
			return nil, nil, lerr
		}
		fr := finalRow{op: op, cond: cond, from: r.from, to: r.to, writes: r.writes, where: []string{r.where + " " + r.method}}
		if r.from == 0 {
			return nil, nil, fmt.Errorf("%s: method %s: this write can never execute (its state guards contradict each other)", r.where, r.method)
		}
		k := fr.key()
		if old, ok := byKey[k]; ok {
			dup := false
			for _, w := range old.where {
				if w == fr.where[0] {
					dup = true
				}
			}
			if !dup {
				old.where = append(old.where, fr.where[0])
			}
			continue
		}
		byKey[k] = &fr
		order = append(order, k)
	}
	if inserts == 0 {
		return nil, nil, fmt.Errorf("%s: no insertion of a message found in Enqueue", be.base())
	}
	stats["insert-sites"] = inserts
	// a CUntilNull row that does the same as its ordinary twin adds nothing
	twins := map[string]bool{}
	for _, k := range order {
		if byKey[k].cond != "CUntilNull" {
			twins[byKey[k].keyNoCond()] = true
		}
	}
	for _, k := range order {
		r := byKey[k]
		if r.cond == "CUntilNull" && twins[r.keyNoCond()] {
			continue
		}
		rows = append(rows, *r)
	}
	sort.SliceStable(rows, func(i, j int) bool {
		if rows[i].op != rows[j].op {
			return rows[i].op < rows[j].op
		}
		return rows[i].key() < rows[j].key()
	})
	stats["entry-methods"] = len(entries)
	return rows, stats, nil
}

// foreignRoot: the unconsumed assignment at p writes a field of a variable whose declared type
// is not an Envelope (DeliveryAttempt.DeadReason, ...).
func foreignRoot(in *interp, fd *ast.FuncDecl, p token.Pos) bool {
	var lhs ast.Expr
	ast.Inspect(fd.Body, func(n ast.Node) bool {
		switch s := n.(type) {
		case *ast.AssignStmt:
			if s.Pos() == p && len(s.Lhs) > 0 {
				lhs = s.Lhs[0]
			}
		case *ast.IncDecStmt:
			if s.Pos() == p {
				lhs = s.X
			}
		}
		return true
	})
	if lhs == nil {
		return false
	}
	root := rootIdent(lhs)
	if root == nil {
		return false
	}
	typ := ""
	names, types := in.paramNames(fd.Type)
	for i, n := range names {
		if n == root.Name {
			typ = types[i]
		}
	}
	ast.Inspect(fd.Body, func(n ast.Node) bool {
		if vs, ok := n.(*ast.ValueSpec); ok && vs.Type != nil {
			for _, nm := range vs.Names {
				if nm.Name == root.Name {
					typ = in.render(vs.Type)
				}
			}
		}
		return true
	})
	if typ == "" {
		return false
	}
	return !strings.Contains(typ, "Envelope")
}

// ---------------------------------------------------------------------------

func coqStates(s sset) string {
	var out []string
	for i := 0; i < 5; i++ {
		if s&(1<<uint(i)) != 0 {
			out = append(out, coqState[i])
		}
	}
	return "[" + strings.Join(out, "; ") + "]"
}

var fieldOrder = []string{"FAttempt", "FLeaseId", "FLeaseUntil", "FNext", "FReason"}

func coqRow(r finalRow) string {
	to := "TKeep"
	switch {
	case r.to == -2:
		to = "TDeleted"
	case r.to >= 0:
		to = "TSt " + coqState[r.to]
	}
	var ws []string
	for _, f := range fieldOrder {
		if v, ok := r.writes[f]; ok {
			ws = append(ws, fmt.Sprintf("(%s, %s)", f, v))
		}
	}
	cond := r.cond
	if strings.Contains(cond, " ") {
		cond = "(" + cond + ")"
	}
	op := r.op
	if strings.Contains(op, " ") {
		op = "(" + op + ")"
	}
	return fmt.Sprintf("mkTrans %s %s %s (%s) [%s]", op, cond, coqStates(r.from), to, strings.Join(ws, "; "))
}

func genTransitions(repo string) (string, error) {
	var b strings.Builder
	b.WriteString("(* GENERATED by /verif/translate (transitions.go) from internal/queue/{memory,sqlite,postgres}.go -- do not edit *)\n")
	b.WriteString("From Coq Require Import List ZArith NArith Bool.\nFrom HK Require Import Model.Queue Model.TransTable.\nImport ListNotations.\n\n")
	if err := loadStates(repo); err != nil {
		return "", err
	}
	for _, be := range backends {
		rows, stats, err := extractBackend(repo, be)
		if err != nil {
			return "", err
		}
		fmt.Fprintf(&b, "(** %s: %d rows; consumed state-writing sites:", be.file, len(rows))
		var ks []string
		for k := range stats {
			ks = append(ks, k)
		}
		sort.Strings(ks)
		for _, k := range ks {
			fmt.Fprintf(&b, " %s=%d", k, stats[k])
		}
		b.WriteString(" *)\n")
		fmt.Fprintf(&b, "Definition %s_table : list trans := [\n", be.name)
		for i, r := range rows {
			sep := ";"
			if i == len(rows)-1 {
				sep = ""
			}
			fmt.Fprintf(&b, "  (* %s *)\n  %s%s\n", strings.Join(r.where, ", "), coqRow(r), sep)
		}
		b.WriteString("].\n\n")
	}
	return b.String(), nil
}

// genTransitionsOrStub is what the default translator run uses: on failure the generated file
// is a well-formed stub with empty tables (so that only the proofs about the tables break, not
// the whole development) and the error is returned as well.
func genTransitionsOrStub(repo string) (string, error) {
	txt, err := genTransitions(repo)
	if err == nil {
		return txt + "Definition extraction_ok : bool := true.\n", nil
	}
	var b strings.Builder
	b.WriteString("(* GENERATED by /verif/translate (transitions.go) -- EXTRACTION FAILED, tables are empty:\n   ")
	b.WriteString(strings.ReplaceAll(strings.ReplaceAll(err.Error(), "*)", "* )"), "(*", "( *"))
	b.WriteString(" *)\n")
	b.WriteString("From Coq Require Import List ZArith NArith Bool.\nFrom HK Require Import Model.Queue Model.TransTable.\nImport ListNotations.\n\n")
	for _, be := range backends {
		fmt.Fprintf(&b, "Definition %s_table : list trans := [].\n", be.name)
	}
	b.WriteString("Definition extraction_ok : bool := false.\n")
	return b.String(), err
}
