package main

// SQL execution sites, row scans and the by-filter id selectors.

import (
	"fmt"
	"go/ast"
	"go/token"
	"regexp"
	"strconv"
	"strings"
)

var sqlWriteRe = regexp.MustCompile(`(?i)\b(UPDATE|DELETE\s+FROM|INSERT\s+INTO)\s+queue_items\b`)
var dollarRe = regexp.MustCompile(`\$(\d+)`)

var sqlCols = map[string]string{"attempt": "FAttempt", "next_run_at": "FNext", "lease_id": "FLeaseId",
	"lease_until": "FLeaseUntil", "dead_reason": "FReason"}

type boundSQL struct {
	text  string
	items []argItem
	lits  []token.Pos
}

func (in *interp) flatten(pieces []tpiece, cur *[]argItem, b *boundSQL, at token.Pos) {
	take := func(what string) argItem {
		if len(*cur) == 0 {
			in.fail(at, "the query has more placeholders than arguments (%s)", what)
		}
		it := (*cur)[0]
		*cur = (*cur)[1:]
		return it
	}
	mark := func(it argItem) {
		b.items = append(b.items, it)
		b.text += "\x00" + strconv.Itoa(len(b.items)-1) + "\x00"
	}
	for _, p := range pieces {
		switch {
		case p.opt != nil:
			g := take("optional clause")
			if g.opt == nil {
				in.fail(at, "a conditionally appended query clause is not matched by conditionally appended arguments")
			}
			sub := append([]argItem(nil), g.opt...)
			in.flatten(p.opt, &sub, b, at)
			if len(sub) != 0 {
				in.fail(at, "a conditionally appended query clause has fewer placeholders than its arguments")
			}
		case p.isPH:
			it := take("placeholder list")
			if !it.spread {
				in.fail(at, "a generated placeholder list is matched by the single argument `%s`", in.render(it.expr))
			}
			mark(it)
		default:
			b.lits = append(b.lits, p.pos)
			for _, ch := range p.lit {
				if ch == '?' {
					it := take("?")
					if it.spread || it.opt != nil {
						in.fail(at, "a single `?` is matched by a list of arguments")
					}
					mark(it)
				} else {
					b.text += string(ch)
				}
			}
		}
	}
}

func (in *interp) bindQuery(t avTmpl, items []argItem, at token.Pos) boundSQL {
	var b boundSQL
	if in.spec.sql == 2 {
		for _, p := range t.pieces {
			if p.opt != nil || p.isPH {
				in.fail(at, "conditionally built query in the Postgres store")
			}
			b.lits = append(b.lits, p.pos)
			b.text += p.lit
		}
		for _, it := range items {
			if it.opt != nil {
				in.fail(at, "conditionally built argument list in the Postgres store")
			}
		}
		b.items = items
		max := 0
		b.text = dollarRe.ReplaceAllStringFunc(b.text, func(m string) string {
			n, _ := strconv.Atoi(m[1:])
			if n > max {
				max = n
			}
			return "\x00" + strconv.Itoa(n-1) + "\x00"
		})
		if max != len(items) {
			in.fail(at, "the query uses placeholders up to $%d but %d arguments are passed", max, len(items))
		}
		return b
	}
	cur := append([]argItem(nil), items...)
	in.flatten(t.pieces, &cur, &b, at)
	if len(cur) != 0 {
		in.fail(at, "the query has fewer placeholders than arguments (%d left over)", len(cur))
	}
	return b
}

func (in *interp) handleExec(c *ast.CallExpr, qi int, sc *scope) aval {
	if len(c.Args) <= qi {
		return nil
	}
	tv, ok := in.eval(c.Args[qi], sc).(avTmpl)
	if !ok {
		// not a string the extractor can follow; a literal UPDATE/DELETE/INSERT on queue_items that
		// ends up here unseen is reported by the completeness check (unconsumed statement)
		for _, a := range c.Args[qi+1:] {
			in.eval(a, sc)
		}
		return avRows{}
	}
	var items []argItem
	for i, a := range c.Args[qi+1:] {
		v := in.eval(a, sc)
		if c.Ellipsis.IsValid() && i == len(c.Args)-qi-2 {
			if more, ok := v.(avArgs); ok {
				items = append(items, more.items...)
			} else {
				items = append(items, argItem{expr: a, val: v, spread: true})
			}
			continue
		}
		items = append(items, argItem{expr: a, val: v})
	}
	raw := ""
	var walk func(ps []tpiece)
	walk = func(ps []tpiece) {
		for _, p := range ps {
			raw += p.lit
			walk(p.opt)
		}
	}
	walk(tv.pieces)
	if hasUnknown(tv.pieces) {
		if sqlWriteRe.MatchString(raw) {
			in.fail(c.Pos(), "a statement writing queue_items is assembled from text the extractor cannot reconstruct")
		}
		return avRows{}
	}
	if !strings.Contains(strings.ToLower(raw), "queue_items") && !strings.Contains(strings.ToLower(raw), "candidate") {
		return avRows{}
	}
	isWrite := sqlWriteRe.MatchString(raw)
	if !isWrite {
		// a SELECT: bind what can be bound, never fail
		var res aval = avRows{st: sAll}
		func() {
			defer func() {
				if r := recover(); r != nil {
					if _, ok := r.(transErr); !ok {
						panic(r)
					}
				}
			}()
			b := in.bindQuery(tv, items, c.Pos())
			st, err := parseSQL(b.text)
			if err != nil || st.sel == nil {
				return
			}
			g, _, gerr := in.guardOf(st.sel.where, st.ctes, b, nil)
			if gerr != nil {
				g = sAll
			}
			res = avRows{cols: st.sel.cols, st: g}
		}()
		return res
	}
	b := in.bindQuery(tv, items, c.Pos())
	st, err := parseSQL(b.text)
	if err != nil {
		in.fail(c.Pos(), "statement on queue_items not understood: %v", err)
	}
	if st.table != "queue_items" {
		in.fail(c.Pos(), "statement writes table %s", st.table)
	}
	for _, p := range b.lits {
		in.consumed[p] = "sql"
	}
	tags := append([]string(nil), sc.tags...)
	at := c.Pos()
	if len(b.lits) > 0 {
		at = b.lits[0] // where the statement text is written, not the helper that executes it
	}
	switch st.verb {
	case "INSERT":
		if _, ok := enqueueMethods[in.method]; !ok {
			in.fail(c.Pos(), "INSERT INTO queue_items outside Enqueue/EnqueueBatch")
		}
		for i, col := range st.insCols {
			if col != "state" {
				continue
			}
			v := st.insVals[i]
			if len(v) != 1 || v[0].kind != "ph" {
				in.fail(c.Pos(), "INSERT sets state to something that is not a bound argument")
			}
			e := in.render(b.items[v[0].arg].expr)
			if e != "string(env.State)" && e != "string(p.env.State)" {
				in.fail(c.Pos(), "INSERT sets state to `%s` (expected the envelope's own state)", e)
			}
		}
		in.emit("insert", 0, 0, nil, tags, at)
		return nil
	case "UPDATE", "DELETE":
		from, ageTags, err := in.guardOf(st.where, st.ctes, b, &tags)
		_ = ageTags
		if err != nil {
			in.fail(c.Pos(), "WHERE clause not understood: %v", err)
		}
		to := -2
		writes := map[string]string{}
		if st.verb == "UPDATE" {
			to = -1
			for _, a := range st.assigns {
				if a.col == "state" {
					s, err := in.stateOfToks(a.expr, b)
					if err != nil || s == 0 || s&(s-1) != 0 {
						in.fail(c.Pos(), "SET state = ... is not a single State constant")
					}
					for i := 0; i < 5; i++ {
						if s == 1<<uint(i) {
							to = i
						}
					}
					continue
				}
				f, ok := sqlCols[a.col]
				if !ok {
					in.fail(c.Pos(), "UPDATE writes column %s (only state, attempt, next_run_at, lease_id, lease_until, dead_reason may change)", a.col)
				}
				w, err := in.classifySQL(a, b)
				if err != nil {
					in.fail(c.Pos(), "SET %s = ...: %v", a.col, err)
				}
				writes[f] = w
			}
		}
		in.emit(map[string]string{"UPDATE": "write", "DELETE": "delete"}[st.verb], from, to, writes, tags, at)
		return nil
	}
	in.fail(c.Pos(), "unexpected statement kind %s", st.verb)
	return nil
}

func (in *interp) stateOfToks(toks []sqlTok, b boundSQL) (sset, error) {
	var s sset
	for _, t := range toks {
		switch t.kind {
		case "str":
			i, ok := stateStrings[t.text]
			if !ok {
				return 0, fmt.Errorf("unknown state literal '%s'", t.text)
			}
			s |= 1 << uint(i)
		case "ph":
			it := b.items[t.arg]
			switch v := it.val.(type) {
			case avState:
				s |= 1 << uint(v.idx)
			case avStateList:
				s |= v.st
			default:
				return 0, fmt.Errorf("state compared with / set to `%s`, which is not a State constant", in.render(it.expr))
			}
		default:
			return 0, fmt.Errorf("unexpected token %s in a state expression", t.text)
		}
	}
	return s, nil
}

// guardOf: the states a row must be in to be touched by a statement with this WHERE clause.
// tags (when non-nil) receives the age rule of a retention prune.
func (in *interp) guardOf(where []sqlAtom, ctes map[string]*sqlSelect, b boundSQL, tags *[]string) (sset, []string, error) {
	g := sAll
	for _, a := range where {
		if a.op == "GROUP" {
			if toksMention(a.group, "state") {
				return 0, nil, fmt.Errorf("state tested inside a parenthesised / OR condition")
			}
			continue
		}
		if a.op == "CONST" {
			continue
		}
		if toksMention(a.vals, "state") {
			return 0, nil, fmt.Errorf("state used on the right-hand side of a comparison")
		}
		switch a.col {
		case "state":
			switch a.op {
			case "=", "IN", "ANY":
				if a.sub != nil {
					return 0, nil, fmt.Errorf("state compared with a sub-select")
				}
				s, err := in.stateOfToks(a.vals, b)
				if err != nil {
					return 0, nil, err
				}
				g &= s
			default:
				return 0, nil, fmt.Errorf("state tested with %s", a.op)
			}
		case "id":
			if a.sub != nil {
				w := a.sub.where
				if a.sub.table != "queue_items" {
					cte, ok := ctes[a.sub.table]
					if !ok {
						return 0, nil, fmt.Errorf("sub-select from unknown table %s", a.sub.table)
					}
					if len(a.sub.where) != 0 {
						return 0, nil, fmt.Errorf("sub-select on a CTE with its own WHERE")
					}
					w = cte.where
				}
				s, _, err := in.guardOf(w, ctes, b, tags)
				if err != nil {
					return 0, nil, err
				}
				g &= s
				continue
			}
			if a.op != "=" && a.op != "IN" && a.op != "ANY" {
				return 0, nil, fmt.Errorf("id tested with %s", a.op)
			}
			prov := sset(0)
			tracked := true
			for _, t := range a.vals {
				if t.kind != "ph" {
					tracked = false
					continue
				}
				s, ok := idGuard(b.items[t.arg].val)
				if !ok {
					tracked = false
				}
				prov |= s
			}
			if tracked && len(a.vals) > 0 {
				g &= prov
			}
		case "received_at", "next_run_at":
			if (a.op == "<=" || a.op == "<") && len(a.vals) == 1 && a.vals[0].kind == "ph" && tags != nil {
				if t, ok := b.items[a.vals[0].arg].val.(avTime); ok && t.kind == "cutoff" {
					col := map[string]string{"received_at": "recv", "next_run_at": "next"}[a.col]
					cmp := map[string]string{"<=": "le", "<": "lt"}[a.op]
					*tags = append(*tags, "age:"+col+":"+cmp+":"+t.knob)
				}
			}
		}
	}
	return g, nil, nil
}

func (in *interp) classifySQL(a sqlAssign, b boundSQL) (string, error) {
	e := a.expr
	if len(e) == 1 {
		switch e[0].kind {
		case "id":
			if e[0].up == "NULL" {
				return "VClear", nil
			}
		case "ph":
			it := b.items[e[0].arg]
			if w, ok := wvalOf(it.val); ok {
				return w, nil
			}
			return "", fmt.Errorf("bound value `%s` cannot be classified", in.render(it.expr))
		}
	}
	if len(e) == 3 && e[0].kind == "id" && e[1].text == "+" {
		col := strings.ToLower(e[0].text)
		if col == "attempt" && a.col == "attempt" && e[2].kind == "num" && e[2].text == "1" {
			return "VIncr", nil
		}
		if col == "lease_until" && e[2].kind == "ph" {
			if _, ok := b.items[e[2].arg].val.(avExtendBy); ok {
				return "VOldUntilPlusBy", nil
			}
		}
	}
	if len(e) > 2 && e[0].kind == "str" && e[0].text == "lease_" && a.col == "lease_id" {
		for _, t := range e {
			if t.kind == "id" && t.up == "RANDOMBLOB" {
				return "VNewLease", nil
			}
		}
	}
	var parts []string
	for _, t := range e {
		parts = append(parts, t.text)
	}
	return "", fmt.Errorf("expression `%s` cannot be classified", strings.Join(parts, " "))
}

// ---------------------------------------------------------------------------

func (in *interp) handleScan(c *ast.CallExpr, f *ast.SelectorExpr, sc *scope) {
	rows, ok := in.eval(f.X, sc).(avRows)
	if !ok || len(rows.cols) == 0 {
		return
	}
	hasState := false
	for _, col := range rows.cols {
		if col == "state" || col == "id" {
			hasState = true
		}
	}
	if !hasState {
		return
	}
	if len(rows.cols) != len(c.Args) {
		in.fail(c.Pos(), "Scan reads %d values from a SELECT of %d columns", len(c.Args), len(rows.cols))
	}
	in.rowSeq++
	name := "#row" + strconv.Itoa(in.rowSeq)
	sc.vars[name] = avMsg{rows.st, ""}
	for i, col := range rows.cols {
		role := map[string]string{"state": "state", "id": "id", "lease_until": "until"}[col]
		if role == "" {
			continue
		}
		u, ok := c.Args[i].(*ast.UnaryExpr)
		if !ok || u.Op != token.AND {
			continue
		}
		switch t := u.X.(type) {
		case *ast.Ident:
			sc.vars[t.Name] = avRef{name, role}
		case *ast.SelectorExpr:
			if root, ok := t.X.(*ast.Ident); ok && role == "id" {
				sc.vars[root.Name] = avRef{name, role}
			}
		}
	}
}

// ---------------------------------------------------------------------------
// by-filter selectors: checked structurally, statement by statement

var filterSelectors = map[string]bool{"filterManageCandidatesLocked": true, "selectMessageIDsByFilter": true}

var selectorShape = map[string][]string{
	"memory": {
		`for _, st := range allowed { allowedSet[st] = struct{}{} }`,
		`if req.State != "" { if _, ok := allowedSet[req.State]; !ok { return nil } allowedSet = map[State]struct{}{req.State: {}} }`,
		`if _, ok := allowedSet[env.State]; !ok { continue }`,
		`candidates = append(candidates, env)`,
		`return candidates`,
	},
	"sqlite": {
		`for _, st := range allowed { allowedSet[st] = struct{}{} }`,
		`if req.State != "" { if _, ok := allowedSet[req.State]; !ok { return nil, nil } states = append(states, req.State) } else { states = append(states, allowed...) }`,
		`if len(states) == 1 { query += " AND state = ?" args = append(args, string(states[0])) } else { query += " AND state IN (" + strings.TrimRight(strings.Repeat("?,", len(states)), ",") + ")" for _, st := range states { args = append(args, string(st)) } }`,
		`rows, err := s.db.QueryContext(context.Background(), query, args...)`,
		`ids = append(ids, id)`,
		`return ids, nil`,
	},
	"postgres": {
		`for _, st := range allowed { allowedSet[st] = struct{}{} }`,
		`if req.State != "" { if _, ok := allowedSet[req.State]; !ok { return nil, nil } states = append(states, req.State) } else { states = append(states, allowed...) }`,
		`for _, st := range states { stateStrings = append(stateStrings, string(st)) }`,
		`query += fmt.Sprintf(" AND state = ANY($%d)", len(args)+1)`,
		`args = append(args, stateStrings)`,
		`rows, err := s.db.QueryContext(context.Background(), query, args...)`,
		`ids = append(ids, id)`,
		`return ids, nil`,
	},
}

// how many times each tracked variable may be assigned in the selector
var selectorAssignCount = map[string]map[string]int{
	"memory":   {"allowedSet": 3, "candidates": 3},
	"sqlite":   {"allowedSet": 2, "states": 3, "ids": 2},
	"postgres": {"allowedSet": 2, "states": 3, "stateStrings": 2, "ids": 2},
}

func (in *interp) checkSelector(name string, fd *ast.FuncDecl) {
	if in.selOK[name] {
		return
	}
	have := map[string]int{}
	assigns := map[string]int{}
	ast.Inspect(fd.Body, func(n ast.Node) bool {
		if st, ok := n.(ast.Stmt); ok {
			have[in.render(st)]++
		}
		if as, ok := n.(*ast.AssignStmt); ok {
			for _, l := range as.Lhs {
				if id := rootIdent(l); id != nil {
					assigns[id.Name]++
				}
			}
		}
		return true
	})
	for _, want := range selectorShape[in.spec.name] {
		if have[want] != 1 {
			panic(transErr{fmt.Sprintf("%s: %s no longer contains exactly one statement `%s` (found %d): the by-filter state guard cannot be established",
				in.posStr(fd.Pos()), name, want, have[want])})
		}
	}
	for v, n := range selectorAssignCount[in.spec.name] {
		if assigns[v] != n {
			panic(transErr{fmt.Sprintf("%s: %s assigns %s %d times (expected %d): the by-filter state guard cannot be established",
				in.posStr(fd.Pos()), name, v, assigns[v], n)})
		}
	}
	in.selOK[name] = true
}

func (in *interp) callSelector(name string, fd *ast.FuncDecl, c *ast.CallExpr, sc *scope) []aval {
	in.checkSelector(name, fd)
	if len(c.Args) != 2 {
		in.fail(c.Pos(), "%s called with %d arguments", name, len(c.Args))
	}
	l, ok := in.eval(c.Args[1], sc).(avStateList)
	if !ok {
		in.fail(c.Pos(), "%s is called with an allowed-state list that is not a literal of State constants", name)
	}
	return []aval{&avColl{st: l.st, ptrs: in.spec.sql == 0}, nil}
}

func hasUnknown(ps []tpiece) bool {
	for _, p := range ps {
		if p.unk || hasUnknown(p.opt) {
			return true
		}
	}
	return false
}
