(** The rule of internal/config/compile.go Compile that keeps the Pull API closed:

      if (hasPullRoutes || cfg.PullAPI != nil) && len(compiled.PullAPI.AuthTokens) == 0 {
          if !hasPullRoutes || pullRoutesMissingAuth { error "pull_api requires auth token allowlist" } }

    together with the per-token rules (a token reference must be non-empty and a
    valid secret reference, else an error) and the loader fact (secrets.LoadRef
    returns an error instead of an empty value).  Token lists here are the lists
    of references that survived validation; [c_bad_token] says some reference was
    rejected (which is an error by itself). *)
From Coq Require Import List NArith Bool.
From HK Require Import Model.RBytes Model.Bearer.
Import ListNotations.

Record compile_in := {
  c_has_pull_api : bool;                 (* cfg.PullAPI != nil *)
  c_global : list bytes;                 (* compiled.PullAPI.AuthTokens *)
  c_pull_routes : list pull_route;       (* every route with a pull block, its endpoint and own tokens *)
  c_bad_token : bool                     (* some token reference was empty / invalid *)
}.

Definition has_pull_routes (c : compile_in) : bool :=
  match c_pull_routes c with [] => false | _ => true end.

(** pullRoutesMissingAuth *)
Definition routes_missing_auth (c : compile_in) : bool :=
  existsb (fun r => match pr_tokens r with [] => true | _ => false end) (c_pull_routes c).

Definition needs_allowlist_error (c : compile_in) : bool :=
  (has_pull_routes c || c_has_pull_api c)
  && (match c_global c with [] => true | _ => false end)
  && (negb (has_pull_routes c) || routes_missing_auth c).

(** res.OK as far as the token rules are concerned *)
Definition compile_ok (c : compile_in) : bool :=
  negb (c_bad_token c)
  && negb (has_pull_routes c && negb (c_has_pull_api c))   (* "pull_api block is required when using pull routes" *)
  && negb (needs_allowlist_error c).

(** the configuration loadAuth builds from a compiled config: [load] is secrets.LoadRef
    on references that compiled (it cannot fail into an empty value) *)
Definition loaded (load : bytes -> bytes) (admin : list bytes) (c : compile_in) : auth_cfg :=
  {| a_global := map load (c_global c);
     a_admin := map load admin;
     a_routes := map (fun r => {| pr_route := pr_route r; pr_endpoint := pr_endpoint r;
                                  pr_tokens := map load (pr_tokens r) |}) (c_pull_routes c) |}.
