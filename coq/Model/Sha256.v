(** Plain Gallina SHA-256 (FIPS 180-4) and HMAC-SHA256 (RFC 2104) over [N] words.
    TEST ORACLE ONLY: no theorem of the development depends on this file (the theorems are
    parametric in [sha256] and [hmac]); it is what the correspondence instantiates the
    parametric model with, and it is compared with Go's crypto/sha256 and crypto/hmac on every
    generated input in every run.  The [Example]s are FIPS 180-4 / RFC 4231 vectors. *)
From Coq Require Import NArith List.
Import ListNotations.
Open Scope N_scope.

Definition mask32 : N := 4294967295.
Definition w32 (x : N) : N := N.land x mask32.
Definition add32 (a b : N) : N := w32 (a + b).
Definition not32 (x : N) : N := N.lxor (w32 x) mask32.
Definition rotr (n x : N) : N := N.lor (N.shiftr x n) (w32 (N.shiftl x (32 - n))).
Definition shr (n x : N) : N := N.shiftr x n.

Definition ch (x y z : N) := N.lxor (N.land x y) (N.land (not32 x) z).
Definition maj (x y z : N) := N.lxor (N.lxor (N.land x y) (N.land x z)) (N.land y z).
Definition bsig0 x := N.lxor (N.lxor (rotr 2 x) (rotr 13 x)) (rotr 22 x).
Definition bsig1 x := N.lxor (N.lxor (rotr 6 x) (rotr 11 x)) (rotr 25 x).
Definition ssig0 x := N.lxor (N.lxor (rotr 7 x) (rotr 18 x)) (shr 3 x).
Definition ssig1 x := N.lxor (N.lxor (rotr 17 x) (rotr 19 x)) (shr 10 x).

Definition K : list N := [
 0x428a2f98; 0x71374491; 0xb5c0fbcf; 0xe9b5dba5; 0x3956c25b; 0x59f111f1; 0x923f82a4; 0xab1c5ed5;
 0xd807aa98; 0x12835b01; 0x243185be; 0x550c7dc3; 0x72be5d74; 0x80deb1fe; 0x9bdc06a7; 0xc19bf174;
 0xe49b69c1; 0xefbe4786; 0x0fc19dc6; 0x240ca1cc; 0x2de92c6f; 0x4a7484aa; 0x5cb0a9dc; 0x76f988da;
 0x983e5152; 0xa831c66d; 0xb00327c8; 0xbf597fc7; 0xc6e00bf3; 0xd5a79147; 0x06ca6351; 0x14292967;
 0x27b70a85; 0x2e1b2138; 0x4d2c6dfc; 0x53380d13; 0x650a7354; 0x766a0abb; 0x81c2c92e; 0x92722c85;
 0xa2bfe8a1; 0xa81a664b; 0xc24b8b70; 0xc76c51a3; 0xd192e819; 0xd6990624; 0xf40e3585; 0x106aa070;
 0x19a4c116; 0x1e376c08; 0x2748774c; 0x34b0bcb5; 0x391c0cb3; 0x4ed8aa4a; 0x5b9cca4f; 0x682e6ff3;
 0x748f82ee; 0x78a5636f; 0x84c87814; 0x8cc70208; 0x90befffa; 0xa4506ceb; 0xbef9a3f7; 0xc67178f2].

Definition H0 : list N := [
 0x6a09e667; 0xbb67ae85; 0x3c6ef372; 0xa54ff53a; 0x510e527f; 0x9b05688c; 0x1f83d9ab; 0x5be0cd19].

(** big-endian helpers *)
Definition be32 (a b c d : N) : N := N.lor (N.lor (N.shiftl a 24) (N.shiftl b 16)) (N.lor (N.shiftl c 8) d).
Definition bytes_of_w32 (w : N) : list N :=
  [N.land (N.shiftr w 24) 255; N.land (N.shiftr w 16) 255; N.land (N.shiftr w 8) 255; N.land w 255].

Fixpoint words_of_bytes (fuel : nat) (l : list N) : list N :=
  match fuel with
  | O => []
  | S f => match l with
           | a :: b :: c :: d :: tl => be32 a b c d :: words_of_bytes f tl
           | _ => []
           end
  end.

Definition bytes_of_w64 (n : N) : list N :=
  bytes_of_w32 (N.land (N.shiftr n 32) mask32) ++ bytes_of_w32 (N.land n mask32).

(** padding: 0x80, zeros up to 56 mod 64, 64-bit bit length *)
Definition pad (msg : list N) : list N :=
  let len := N.of_nat (length msg) in
  let r := (len + 1) mod 64 in
  let z := if r <=? 56 then 56 - r else 120 - r in
  msg ++ [128] ++ repeat 0 (N.to_nat z) ++ bytes_of_w64 (8 * len).

(** message schedule: [rev_w] holds the words computed so far, most recent first *)
Fixpoint schedule (n : nat) (rev_w : list N) : list N :=
  match n with
  | O => rev_w
  | S n' =>
      let w2 := nth 1 rev_w 0 in
      let w7 := nth 6 rev_w 0 in
      let w15 := nth 14 rev_w 0 in
      let w16 := nth 15 rev_w 0 in
      schedule n' (add32 (add32 (ssig1 w2) w7) (add32 (ssig0 w15) w16) :: rev_w)
  end.

Record regs := { ra : N; rb : N; rc : N; rd : N; re : N; rf : N; rg : N; rh : N }.

Definition round (s : regs) (kw : N * N) : regs :=
  let '(k, w) := kw in
  let t1 := add32 (add32 (add32 (rh s) (bsig1 (re s))) (add32 (ch (re s) (rf s) (rg s)) k)) w in
  let t2 := add32 (bsig0 (ra s)) (maj (ra s) (rb s) (rc s)) in
  {| ra := add32 t1 t2; rb := ra s; rc := rb s; rd := rc s;
     re := add32 (rd s) t1; rf := re s; rg := rf s; rh := rg s |}.

Definition regs_of (h : list N) : regs :=
  {| ra := nth 0 h 0; rb := nth 1 h 0; rc := nth 2 h 0; rd := nth 3 h 0;
     re := nth 4 h 0; rf := nth 5 h 0; rg := nth 6 h 0; rh := nth 7 h 0 |}.

Definition compress (h : list N) (block : list N) : list N :=
  let w := rev (schedule 48 (rev (words_of_bytes 16 block))) in
  let s0 := regs_of h in
  let s := fold_left round (combine K w) s0 in
  [add32 (ra s0) (ra s); add32 (rb s0) (rb s); add32 (rc s0) (rc s); add32 (rd s0) (rd s);
   add32 (re s0) (re s); add32 (rf s0) (rf s); add32 (rg s0) (rg s); add32 (rh s0) (rh s)].

Fixpoint blocks (fuel : nat) (h : list N) (l : list N) : list N :=
  match fuel with
  | O => h
  | S f => match l with
           | [] => h
           | _ => blocks f (compress h (firstn 64 l)) (skipn 64 l)
           end
  end.

Definition sha256 (msg : list N) : list N :=
  let p := pad msg in
  flat_map bytes_of_w32 (blocks (S (Nat.div (length p) 64)) H0 p).

Definition xor_pad (c : N) (key : list N) : list N := map (fun b => N.lxor b c) key.

Definition hmac_sha256 (key msg : list N) : list N :=
  let k0 := if (64 <? N.of_nat (length key)) then sha256 key else key in
  let k := k0 ++ repeat 0 (Nat.sub 64 (length k0)) in
  sha256 (xor_pad 92 k ++ sha256 (xor_pad 54 k ++ msg)).

(** ---- known-answer tests (evaluated by the kernel's VM at build time) *)
Definition hexd (n : N) : N := if n <? 10 then 48 + n else 87 + n.
Definition hex_of (l : list N) : list N := flat_map (fun b => [hexd (b / 16); hexd (b mod 16)]) l.

(* "abc" *)
Example sha256_abc : hex_of (sha256 [97; 98; 99]) =
  (* ba7816bf 8f01cfea 414140de 5dae2223 b00361a3 96177a9c b410ff61 f20015ad *)
  [98;97;55;56;49;54;98;102;56;102;48;49;99;102;101;97;52;49;52;49;52;48;100;101;53;100;97;101;50;50;50;51;
   98;48;48;51;54;49;97;51;57;54;49;55;55;97;57;99;98;52;49;48;102;102;54;49;102;50;48;48;49;53;97;100].
Proof. vm_compute. reflexivity. Qed.

(* "" : e3b0c442 98fc1c14 9afbf4c8 996fb924 27ae41e4 649b934c a495991b 7852b855 *)
Example sha256_empty : sha256 [] =
  [0xe3;0xb0;0xc4;0x42;0x98;0xfc;0x1c;0x14;0x9a;0xfb;0xf4;0xc8;0x99;0x6f;0xb9;0x24;
   0x27;0xae;0x41;0xe4;0x64;0x9b;0x93;0x4c;0xa4;0x95;0x99;0x1b;0x78;0x52;0xb8;0x55].
Proof. vm_compute. reflexivity. Qed.

(* "abcdbcdecdefdefgefghfghighijhijkijkljklmklmnlmnomnopnopq" (two blocks):
   248d6a61 d20638b8 e5c02693 0c3e6039 a33ce459 64ff2167 f6ecedd4 19db06c1 *)
Example sha256_two_blocks :
  sha256 [97;98;99;100;98;99;100;101;99;100;101;102;100;101;102;103;101;102;103;104;102;103;104;105;
          103;104;105;106;104;105;106;107;105;106;107;108;106;107;108;109;107;108;109;110;108;109;110;111;
          109;110;111;112;110;111;112;113] =
  [0x24;0x8d;0x6a;0x61;0xd2;0x06;0x38;0xb8;0xe5;0xc0;0x26;0x93;0x0c;0x3e;0x60;0x39;
   0xa3;0x3c;0xe4;0x59;0x64;0xff;0x21;0x67;0xf6;0xec;0xed;0xd4;0x19;0xdb;0x06;0xc1].
Proof. vm_compute. reflexivity. Qed.

(* RFC 4231 test case 1: key = 20 x 0x0b, data = "Hi There" *)
Example hmac_rfc4231_1 :
  hmac_sha256 (repeat 11 20) [72;105;32;84;104;101;114;101] =
  [0xb0;0x34;0x4c;0x61;0xd8;0xdb;0x38;0x53;0x5c;0xa8;0xaf;0xce;0xaf;0x0b;0xf1;0x2b;
   0x88;0x1d;0xc2;0x00;0xc9;0x83;0x3d;0xa7;0x26;0xe9;0x37;0x6c;0x2e;0x32;0xcf;0xf7].
Proof. vm_compute. reflexivity. Qed.

(* RFC 4231 test case 2: key = "Jefe", data = "what do ya want for nothing?" *)
Example hmac_rfc4231_2 :
  hmac_sha256 [74;101;102;101]
    [119;104;97;116;32;100;111;32;121;97;32;119;97;110;116;32;102;111;114;32;110;111;116;104;105;110;103;63] =
  [0x5b;0xdc;0xc1;0x46;0xbf;0x60;0x75;0x4e;0x6a;0x04;0x24;0x26;0x08;0x95;0x75;0xc7;
   0x5a;0x00;0x3f;0x08;0x9d;0x27;0x39;0x83;0x9d;0xec;0x58;0xb9;0x64;0xec;0x38;0x43].
Proof. vm_compute. reflexivity. Qed.

(* RFC 4231 test case 6: key = 131 x 0xaa (longer than the block), data = "Test Using Larger Than Block-Size Key - Hash Key First" *)
Example hmac_rfc4231_6 :
  hmac_sha256 (repeat 170 131)
    [84;101;115;116;32;85;115;105;110;103;32;76;97;114;103;101;114;32;84;104;97;110;32;66;108;111;99;107;45;83;105;122;101;
     32;75;101;121;32;45;32;72;97;115;104;32;75;101;121;32;70;105;114;115;116] =
  [0x60;0xe4;0x31;0x59;0x1e;0xe0;0xb6;0x7f;0x0d;0x8a;0x26;0xaa;0xcb;0xf5;0xb7;0x7f;
   0x8e;0x0b;0xc6;0x21;0x37;0x28;0xc5;0x14;0x05;0x46;0x04;0x0f;0x0e;0xe3;0x7f;0x54].
Proof. vm_compute. reflexivity. Qed.
