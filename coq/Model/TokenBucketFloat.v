(** Bit-exact binary64 twin of the ingress token bucket (internal/app/ratelimit.go),
    over Coq's primitive floats.  Times are int64 nanoseconds (time.Time values without a
    monotonic reading, as the injected clock produces them).  Used only by the correspondence;
    the theorems are about [Model/TokenBucket.v]. *)
From Coq Require Import ZArith Floats Uint63 List.
From HK Require Import Model.RetryFloat.
Import ListNotations.
Open Scope float_scope.

Record bucketF := { f_rate : float; f_burst : float; f_tokens : float; f_last : Z }.

(** newTokenBucketLimiter (rps given by its bit pattern at the call site) *)
Definition new_bucketF (rps : float) (burst : Z) (now : Z) : bucketF :=
  let r := if rps <=? 0 then 1 else rps in
  let b := if (burst <=? 0)%Z then 1 else float_of_int64 burst in
  {| f_rate := r; f_burst := b; f_tokens := b; f_last := now |}.

(** time.Time.Sub: saturating int64 nanoseconds *)
Definition sub_satZ (t last : Z) : Z := Z.max min_int64 (Z.min (t - last) max_int64).

(** time.Duration.Seconds(): sec := d / Second; nsec := d % Second (truncated division);
    float64(sec) + float64(nsec)/1e9 *)
Definition secondsF (d : Z) : float :=
  let s := Z.quot d 1000000000 in
  let n := Z.rem d 1000000000 in
  float_of_int64 s + float_of_int64 n / 1000000000.

Definition allow_atF (b : bucketF) (t : Z) : bucketF * bool :=
  let dt := secondsF (sub_satZ t (f_last b)) in
  let b1 :=
    if 0 <? dt then
      let tk := f_tokens b + dt * f_rate b in
      let tk' := if f_burst b <? tk then f_burst b else tk in
      {| f_rate := f_rate b; f_burst := f_burst b; f_tokens := tk'; f_last := t |}
    else b in
  if f_tokens b1 <? 1 then (b1, false)
  else ({| f_rate := f_rate b1; f_burst := f_burst b1; f_tokens := f_tokens b1 - 1; f_last := f_last b1 |}, true).

Fixpoint runF (b : bucketF) (ts : list Z) : bucketF * list bool :=
  match ts with
  | [] => (b, [])
  | t :: rest =>
      let '(b1, d) := allow_atF b t in
      let '(b2, ds) := runF b1 rest in
      (b2, d :: ds)
  end.

(** IEEE bit pattern of a float (math.Float64bits), NaN canonicalised to 0x7FF8000000000000 *)
Definition bits_of_float (f : float) : Z :=
  match Prim2SF f with
  | S754_zero s => if s then 9223372036854775808%Z else 0%Z
  | S754_infinity s => ((if s then 9223372036854775808 else 0) + 9218868437227405312)%Z
  | S754_nan => 9221120237041090560%Z
  | S754_finite s m e =>
      let sg := (if s then 9223372036854775808 else 0)%Z in
      (* Prim2SF normalises the mantissa to 53 bits; below 2^-1022 shift back to e = -1074 *)
      let m' := if (e <? -1074)%Z then Z.shiftr (Z.pos m) (-1074 - e) else Z.pos m in
      let e' := if (e <? -1074)%Z then (-1074)%Z else e in
      if (m' <? 4503599627370496)%Z then (sg + m')%Z
      else (sg + (e' + 1075) * 4503599627370496 + (m' - 4503599627370496))%Z
  end.

(** correspondence entry: decisions as a number list (1 admit, 0 refuse) followed by the bit
    pattern of the final token count and the final [last] *)
Definition runF_case (c : Z * Z * Z * list Z) : list Z :=
  let '(rps_bits, burst, now, ts) := c in
  let '(b, ds) := runF (new_bucketF (float_of_bits rps_bits) burst now) ts in
  map (fun d : bool => if d then 1%Z else 0%Z) ds ++ [bits_of_float (f_tokens b); f_last b].
