(** internal/app/run.go normalizeHost and matchHosts, on bytes, plus the part of
    Go's net.SplitHostPort they rely on (the host result / error or not).
    normalizeHost is mirrored AS WRITTEN: the trailing dot is stripped before the
    port, so "example.com.:8080" keeps its dot ("example.com.") while
    "example.com." and "example.com:8080" both give "example.com". *)
From Coq Require Import List NArith Bool.
From HK Require Import Model.RBytes.
Import ListNotations.
Open Scope N_scope.

Definition colon : N := 58.
Definition lbrack : N := 91.
Definition rbrack : N := 93.

(** net.SplitHostPort(hostport): [Some host] when err == nil, [None] otherwise. *)
Definition split_host_port (hp : bytes) : option bytes :=
  match last_index_byte colon hp with
  | None => None                                           (* missing port *)
  | Some i =>
      match hp with
      | c :: _ =>
          if c =? lbrack then
            match index_byte rbrack hp with
            | None => None                                 (* missing ']' *)
            | Some e =>
                if Nat.eqb (S e) (List.length hp) then None      (* missing port *)
                else if Nat.eqb (S e) i then
                  (* j, k = 1, end+1 *)
                  if contains_byte lbrack (skipn 1 hp) then None
                  else if contains_byte rbrack (skipn (S e) hp) then None
                  else Some (slice 1 e hp)
                else None                                  (* too many colons / missing port *)
            end
          else
            let host := firstn i hp in
            if contains_byte colon host then None          (* too many colons *)
            else if contains_byte lbrack hp then None
            else if contains_byte rbrack hp then None
            else Some host
      | [] => None
      end
  end.

Definition brackets : bytes := [lbrack; rbrack].

(** normalizeHost *)
Definition normalize_host (host : bytes) : bytes :=
  let h := trim host in
  if is_empty h then []
  else
    let h := lower h in
    let h := trim_suffix [46] h in
    if prefixb [lbrack] h then
      match split_host_port h with
      | Some x => trim_set brackets x
      | None => trim_set brackets h
      end
    else if Nat.ltb 1 (count_byte colon h) then trim_set brackets h
    else match split_host_port h with
         | Some x => x
         | None => h
         end.

Definition star : bytes := [42].
Definition star_dot : bytes := [42; 46].

(** the loop of matchHosts *)
Fixpoint match_hosts_loop (req : bytes) (allowed : list bytes) : bool :=
  match allowed with
  | [] => false
  | h :: t =>
      if beq h star then true
      else if beq req h then true
      else if prefixb star_dot h then
        let suffix := trim_prefix star_dot h in
        if is_empty suffix || beq req suffix then match_hosts_loop req t       (* continue *)
        else if suffixb (46 :: suffix) req then true
        else match_hosts_loop req t
      else match_hosts_loop req t
  end.

(** matchHosts(requestHost, allowed) *)
Definition match_hosts (req : bytes) (allowed : list bytes) : bool :=
  match allowed with
  | [] => true
  | _ => if is_empty req then false else match_hosts_loop req allowed
  end.
