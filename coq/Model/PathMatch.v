(** internal/router/pathmatch.go MatchPath, on bytes. *)
From Coq Require Import List NArith Bool.
From HK Require Import Model.RBytes.
Import ListNotations.
Open Scope N_scope.

(** router.MatchPath(requestPath, routePath) *)
Definition match_path (p r : bytes) : bool :=
  if is_empty r then false
  else if beq r [47] then true
  else if beq p r then true
  else prefixb r p && (Nat.ltb (List.length r) (List.length p)) && (nth (List.length r) p 0 =? 47).
