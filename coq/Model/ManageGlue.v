(** Request parsing and handler skeletons in front of the operator queue mutations (C14):

    internal/admin/http.go   parseManageIDs, parseMessageManageFilter, parseQueueState, parseTimeParam,
                             parseOptionalRoutePath, parseManagementAudit, mutationAuditPolicyError,
                             scopedManagedMutationByIDs, resolveManagedRoute, filterMutationTouchesManagedRoute,
                             handleMessagesCancel / Requeue / Resume, handleDLQRequeue / handleDLQDelete,
                             handleMessages{Cancel,Requeue,Resume}ByFilter,
                             handleApplicationEndpoint{Cancel,Requeue,Resume}ByFilter, ServeHTTP (auth, method)
    internal/mcp/server.go   parseIDs, parseLimit, parseMessageManageFilterArgs, parseMutationAuditArgs,
                             validateScopedManagedAuditPolicyForIDMutation / ...ForFilterMutation,
                             toolMessagesCancel / Requeue / Resume, toolDLQRequeue / toolDLQDelete,
                             toolMessages{Cancel,Requeue,Resume}ByFilter (direct SQLite path)

    A handler is modelled as a *decision* ([DReject status code] or [DCall store-call]) followed by
    [serve], which executes the store call on Model/Queue.v ([step_manage] / [step_manage_f]) and
    builds the response from the store's [RCount].  The decision reads the stored messages (the
    handlers call LookupMessages for the managed-route rule) but never writes.

    The admin server is the one internal/app/run.go startServers wires (ManagementModel,
    ManagedRouteSet, ManagedRouteInfoForRoute, ResolveManaged, TargetsForRoute all set and derived
    from one compiled route table): the branches "resolver missing", "ownership sources out of sync",
    "targets out of sync" and the fail-closed lookups cannot be taken and are not in the model.  The
    configuration record [ctx], the audit-header model ([parse_audit], [audit_policy_error]) and the
    selector types [rsel], [lsel], [tsel] are those of Model/Publish.v (C15).

    Conventions (DESIGN section 4): ids / routes / targets / labels are numbers; a string the code trims is
    [RBlank | RPadded n | RPlain n]; verdicts of the Go library (encoding/json with
    DisallowUnknownFields, time.Parse, the label pattern, Go type switches on decoded JSON) are
    inputs ([IBBad], [FBBad], [TBad], [LInvalid], [ma_wf], [mi_wf], [mf_wf]). *)
From Coq Require Import List ZArith NArith Bool.
From HK Require Import Gen.Consts Model.Queue Model.QueueHash Model.QueueMon Model.Headers Model.Publish.
Import ListNotations.
Open Scope Z_scope.

(** admin/http.go: defaultListLimit, maxListLimit; mcp/server.go: maxListLimit, parseLimit's default.
    (The harness exports the Go constants and the check compares them with these.) *)
Definition admin_default_list_limit : Z := 100.
Definition admin_max_list_limit : Z := 1000.
Definition mcp_default_list_limit : Z := 100.
Definition mcp_max_list_limit : Z := 1000.

(** ** the allowed-state sets as the handlers spell them out *)
Inductive fkind := FCancel | FRequeue | FResume.
Definition fk_kind (k : fkind) : manage_kind :=
  match k with FCancel => MCancel | FRequeue => MRequeue | FResume => MResume end.

(** handleMessagesCancel/Requeue/Resume, handleDLQRequeue/Delete: the map literal handed to
    scopedManagedMutationByIDs *)
Definition ids_endpoint_states (k : manage_kind) : list st :=
  match k with
  | MCancel => [Queued; Leased; Dead]
  | MRequeue => [Dead; Canceled]
  | MResume => [Canceled]
  | MRequeueDead => [Dead]
  | MDeleteDead => [Dead]
  end.

(** handleMessages*ByFilter and handleApplicationEndpoint*ByFilter: the map literal handed to
    parseMessageManageFilter *)
Definition filter_endpoint_states (k : fkind) : list st :=
  match k with
  | FCancel => [Queued; Leased; Dead]
  | FRequeue => [Dead; Canceled]
  | FResume => [Canceled]
  end.

(** mcp/server.go tool*: the literals handed to validateScopedManagedAuditPolicyForIDMutation and
    parseMessageManageFilterArgs *)
Definition mcp_ids_tool_states (k : manage_kind) : list st :=
  match k with
  | MCancel => [Queued; Leased; Dead]
  | MRequeue => [Dead; Canceled]
  | MResume => [Canceled]
  | MRequeueDead => [Dead]
  | MDeleteDead => [Dead]
  end.

Definition mcp_filter_tool_states (k : fkind) : list st :=
  match k with
  | FCancel => [Queued; Leased; Dead]
  | FRequeue => [Dead; Canceled]
  | FResume => [Canceled]
  end.

Definition st_in (s : st) (l : list st) : bool := existsb (st_eqb s) l.

(** ** parseManageIDs (admin) / parseIDs (mcp): the same loop in both files *)
Fixpoint dedup_trim (raw : list rid) (seen : list N) : option (list N) :=
  match raw with
  | [] => Some []
  | r :: tl =>
      match trimmed_id r with
      | None => None                                   (* id == "" after TrimSpace: refuse the request *)
      | Some i => if memN i seen then dedup_trim tl seen
                  else option_map (cons i) (dedup_trim tl (i :: seen))
      end
  end.

Definition parse_ids_with (cap : Z) (raw : list rid) : option (list N) :=
  let n := Z.of_nat (length raw) in
  if (n =? 0) || (cap <? n) then None                 (* len(req.IDs) == 0 || len(req.IDs) > maxListLimit *)
  else match dedup_trim raw [] with
       | None => None
       | Some [] => None                               (* len(ids) == 0 (unreachable; kept as written) *)
       | Some ids => Some ids
       end.

Definition parse_manage_ids (raw : list rid) : option (list N) := parse_ids_with admin_max_list_limit raw.
Definition mcp_parse_ids (raw : list rid) : option (list N) := parse_ids_with mcp_max_list_limit raw.

(** what the handler puts into queue.MessageCancelRequest{IDs: ids} etc. *)
Definition store_ids (ids : list N) : list rid := map RPlain ids.

(** ** parseMessageManageFilter (admin) *)
Inductive rroute := RtBlank | RtNoSlash | RtPlain (r : N) | RtPadded (r : N).   (* route string as sent *)
Inductive rstate := RsBlank | RsKnown (s : st) | RsUnknown.                     (* TrimSpace + ToLower, parseQueueState *)

Definition trim_route (r : rroute) : rsel :=                                    (* strings.TrimSpace(req.Route) *)
  match r with RtBlank => RSBlank | RtNoSlash => RSNoSlash | RtPlain x | RtPadded x => RSPath x end.

Record fbody := mkFBody {
  fb_route : rroute; fb_app : lsel; fb_ep : lsel; fb_target : rid;
  fb_state : rstate; fb_before : tsel; fb_limit : Z; fb_preview : bool }.

Inductive filter_body := FBBad | FBOk (b : fbody).          (* decodeJSONBodyStrict verdict *)
Inductive ids_body := IBBad | IBIds (raw : list rid).

Record pfilt := mkPF {
  pf_route : rsel; pf_target : option N; pf_state : option st; pf_limit : Z;
  pf_before : option Z; pf_preview : bool; pf_app : lsel; pf_ep : lsel }.

(** limit := req.Limit; if 0 -> defaultListLimit; if < 0 -> refuse; if > maxListLimit -> maxListLimit *)
Definition admin_limit (raw : Z) : option Z :=
  let l1 := if raw =? 0 then admin_default_list_limit else raw in
  if l1 <? 0 then None
  else Some (if admin_max_list_limit <? l1 then admin_max_list_limit else l1).

Definition parse_state (allowed : list st) (s : rstate) : option (option st) :=
  match s with
  | RsBlank => Some None
  | RsUnknown => None
  | RsKnown x => if st_in x allowed then Some (Some x) else None
  end.

Definition parse_filter (allowed : list st) (b : fbody) : option pfilt :=
  match admin_limit (fb_limit b) with
  | None => None
  | Some lim =>
      match parse_state allowed (fb_state b) with
      | None => None
      | Some stt =>
          match time_of (fb_before b) with
          | None => None
          | Some before =>
              Some (mkPF (trim_route (fb_route b)) (trimmed_id (fb_target b)) stt lim before (fb_preview b)
                         (fb_app b) (fb_ep b))
          end
      end
  end.

(** ** responses and store calls *)
Inductive gcode :=
| GPub (c : code)                (* the codes shared with the publish handlers *)
| GSelectorMismatch              (* selector_scope_mismatch *)
| GMethodNotAllowed | GUnauthorized | GNotFound
| GToolError.                    (* MCP: isError result (no status / code) *)

Inductive scall := SCIds (k : manage_kind) (ids : list rid) | SCFilter (k : fkind) (f : filt).
Inductive decision := DReject (status : Z) (c : gcode) | DCall (c : scall).

Inductive hresp :=
| HErr (status : Z) (c : gcode)
| HIdsOk (n : Z)                                        (* {"canceled"|"requeued"|"resumed"|"deleted": n} *)
| HFilterOk (matched changed : Z) (preview : bool).     (* {"matched", "<verb>", "preview_only"} *)

Definition exec_call (now : Z) (c : scall) (s : state) : state * res :=
  match c with
  | SCIds k ids => step_manage now k ids s
  | SCFilter k f => step_manage_f now (fk_kind k) f s
  end.

Definition respond (c : scall) (r : res) : hresp :=
  match c, r with
  | SCIds _ _, RCount n _ _ => HIdsOk n                 (* resp.Canceled / Requeued / Resumed / Deleted *)
  | SCFilter _ _, RCount n m p => HFilterOk m n p       (* resp.Matched, resp.Canceled.., resp.PreviewOnly *)
  | _, _ => HErr 503 (GPub CStoreUnavailable)
  end.

Definition serve (now : Z) (d : decision) (s : state) : state * hresp :=
  match d with
  | DReject st c => (s, HErr st c)
  | DCall c => let '(s', r) := exec_call now c s in (s', respond c r)
  end.

Definition status_of (r : hresp) : Z := match r with HErr st _ => st | _ => 200 end.

(** ** the managed-route rule *)
(** scopedManagedMutationByIDs / queue.IDMutationTouchesManagedRoute: LookupMessages(ids), keep the
    items whose state is in the endpoint's set, does one of them sit on a managed route? *)
Definition touches_managed (x : ctx) (allowed : list st) (ids : list N) (ms : list msg) : bool :=
  existsb (fun i => match find_id i ms with
                    | Some m => st_in (m_st m) allowed && route_is_managed x (m_route m)
                    | None => false
                    end) ids.

Definition any_managed (x : ctx) : bool := existsb has_owner (x_routes x).

Definition opt_route (r : rsel) : option N := match r with RSPath x => Some x | _ => None end.

Definition mk_store_filt (route : option N) (p : pfilt) : filt :=
  mkFilt route (pf_target p) (pf_state p) (pf_limit p) (pf_before p) (pf_preview p).

(** ** admin HTTP requests *)
Record hreq := mkHReq { h_auth : bool;          (* Authorize(r): bearer-token verdict *)
                        h_post : bool;          (* r.Method == POST *)
                        h_audit : audit }.

(** ServeHTTP head: 401 before anything else, then the per-path method check *)
Definition gate (q : hreq) (k : decision) : decision :=
  if negb (h_auth q) then DReject 401 GUnauthorized
  else if negb (h_post q) then DReject 405 GMethodNotAllowed
  else k.

(** handleMessagesCancel / handleMessagesRequeue / handleMessagesResume / handleDLQRequeue / handleDLQDelete *)
Definition decide_ids (x : ctx) (k : manage_kind) (q : hreq) (body : ids_body) (ms : list msg) : decision :=
  gate q
    match parse_audit x (h_audit q) with
    | None => DReject 400 (GPub CAuditReason)
    | Some (_, actor, reqid) =>
        match body with
        | IBBad => DReject 400 (GPub CInvalidBody)
        | IBIds raw =>
            match parse_manage_ids raw with
            | None => DReject 400 (GPub CInvalidBody)
            | Some ids =>
                let call := DCall (SCIds k (store_ids ids)) in
                if touches_managed x (ids_endpoint_states k) ids ms then
                  match audit_policy_error x actor reqid true with
                  | Some c => DReject 400 (GPub c)
                  | None => call
                  end
                else call
            end
        end
    end.

(** handleMessagesCancelByFilter / RequeueByFilter / ResumeByFilter *)
Definition decide_filter (x : ctx) (k : fkind) (q : hreq) (body : filter_body) : decision :=
  gate q
    match body with
    | FBBad => DReject 400 (GPub CInvalidBody)
    | FBOk b =>
        match parse_filter (filter_endpoint_states k) b with
        | None => DReject 400 (GPub CInvalidBody)
        | Some p =>
            (* validateManagedSelectorLabels *)
            if (match pf_app p with LInvalid => true | _ => false end)
               || (match pf_ep p with LInvalid => true | _ => false end)
            then DReject 400 (GPub CInvalidBody)
            else if negb (blank_l (pf_app p)) && negb (blank_r (pf_route p)) then DReject 400 GSelectorMismatch
            else
              match pf_route p with
              | RSNoSlash => DReject 400 (GPub CInvalidBody)          (* parseOptionalRoutePath *)
              | _ =>
                  (* resolveManagedRoute *)
                  let resolved : (option N * bool) + (Z * gcode) :=    (* route for the store, scoped? *)
                    if negb (Bool.eqb (blank_l (pf_app p)) (blank_l (pf_ep p))) then inr (400, GSelectorMismatch)
                    else match pf_app p, pf_ep p with
                         | LValid a, LValid e =>
                             match find_endpoint x a e with
                             | Some rt => inl (Some (r_path rt), true)
                             | None => inr (404, GPub CEndpointNotFound)
                             end
                         | _, _ => inl (opt_route (pf_route p), false)
                         end in
                  match resolved with
                  | inr (st, c) => DReject st c
                  | inl (route, with_selector) =>
                      match parse_audit x (h_audit q) with
                      | None => DReject 400 (GPub CAuditReason)
                      | Some (_, actor, reqid) =>
                          (* filterMutationTouchesManagedRoute *)
                          let scoped :=
                            if with_selector then true
                            else match route with
                                 | Some r => route_is_managed x r
                                 | None => any_managed x
                                 end in
                          if negb with_selector && scoped then DReject 400 (GPub CManagedSelectorRequired)
                          else
                            let call := DCall (SCFilter k (mk_store_filt route p)) in
                            if scoped then
                              match audit_policy_error x actor reqid true with
                              | Some c => DReject 400 (GPub c)
                              | None => call
                              end
                            else call
                      end
                  end
              end
        end
    end.

(** handleApplicationResource + handleApplicationEndpoint{Cancel,Requeue,Resume}ByFilter:
    POST /applications/{app}/endpoints/{ep}/messages/<verb>_by_filter *)
Definition decide_scoped_filter (x : ctx) (k : fkind) (app ep : lsel) (q : hreq) (body : filter_body) : decision :=
  if negb (h_auth q) then DReject 401 GUnauthorized
  else
    match app, ep with
    | LValid a, LValid e =>
        if negb (h_post q) then DReject 405 GMethodNotAllowed
        else
          match find_endpoint x a e with                               (* resolveManagedPathRoute *)
          | None => DReject 404 (GPub CEndpointNotFound)
          | Some rt =>
              match body with
              | FBBad => DReject 400 (GPub CInvalidBody)
              | FBOk b =>
                  match parse_filter (filter_endpoint_states k) b with
                  | None => DReject 400 (GPub CInvalidBody)
                  | Some p =>
                      (* hasScopedManagedSelectorHints(req.Route, app, ep) *)
                      if negb (blank_r (pf_route p)) || negb (blank_l (pf_app p)) || negb (blank_l (pf_ep p))
                      then DReject 400 (GPub CSelectorForbidden)
                      else
                        match parse_audit x (h_audit q) with
                        | None => DReject 400 (GPub CAuditReason)
                        | Some (_, actor, reqid) =>
                            match audit_policy_error x actor reqid true with
                            | Some c => DReject 400 (GPub c)
                            | None => DCall (SCFilter k (mk_store_filt (Some (r_path rt)) p))
                            end
                        end
                  end
              end
          end
    | LBlank, _ | _, LBlank => DReject 404 GNotFound                   (* parseApplicationResourcePath finds no such resource *)
    | _, _ => DReject 400 (GPub CInvalidBody)                          (* IsValidManagementLabel fails *)
    end.

Inductive endpoint :=
| EpIds (k : manage_kind)                          (* /messages/cancel|requeue|resume, /dlq/requeue|delete *)
| EpFilter (k : fkind)                             (* /messages/<verb>_by_filter *)
| EpScopedFilter (k : fkind) (app ep : lsel).      (* /applications/{app}/endpoints/{ep}/messages/<verb>_by_filter *)

Inductive hbody := BIds (b : ids_body) | BFilter (b : filter_body).

Definition decide (x : ctx) (e : endpoint) (q : hreq) (body : hbody) (ms : list msg) : decision :=
  match e, body with
  | EpIds k, BIds b => decide_ids x k q b ms
  | EpIds k, BFilter _ => decide_ids x k q IBBad ms                     (* a filter document has fields unknown to dlqManageRequest *)
  | EpFilter k, BFilter b => decide_filter x k q b
  | EpFilter k, BIds _ => decide_filter x k q FBBad
  | EpScopedFilter k a e', BFilter b => decide_scoped_filter x k a e' q b
  | EpScopedFilter k a e', BIds _ => decide_scoped_filter x k a e' q FBBad
  end.

Definition admin_request (x : ctx) (now : Z) (e : endpoint) (q : hreq) (body : hbody) (s : state) : state * hresp :=
  serve now (decide x e q body (msgs s)) s.

(** ** MCP tools (direct SQLite path: the compiled queue backend is sqlite / mixed / no config) *)
Record menv := mkMEnv {
  me_gate : bool;                  (* toolAccessError = nil: role, --enable-mutations, principal set (C20) *)
  me_principal : bytes;            (* trimmed principal (non-empty when the gate allows a mutating tool) *)
  me_cfg : option ctx }.           (* Some: --config is set and the file compiles; None: no --config *)

Record maudit := mkMA {
  ma_wf : bool;                    (* reason/actor/request_id are strings within the length caps *)
  ma_reason : bool;                (* reason non-blank *)
  ma_actor_ok : bool;              (* actor absent, blank, or equal to the principal (bindAuditActorToPrincipal) *)
  ma_reqid : bytes }.              (* trimmed request_id *)

(** parseMutationAuditArgs: the request id, or None = error *)
Definition parse_maudit (a : maudit) : option bytes :=
  if negb (ma_wf a) then None
  else if negb (ma_reason a) then None
  else if negb (ma_actor_ok a) then None
  else Some (ma_reqid a).

(** validateScopedManagedAuditPolicyForManagedMutation: the actor is the principal *)
Definition mcp_managed_policy_ok (x : ctx) (principal reqid : bytes) : bool :=
  if x_req_actor x && is_nil principal then false
  else if x_req_reqid x && is_nil reqid then false
  else if negb (actor_policy_on x) then true
  else if is_nil principal then false
  else actor_allowed x principal.

Record midargs := mkMI {
  mi_unknown : bool;               (* validateAllowedKeys(idMutationAllowedKeys) fails *)
  mi_audit : maudit;
  mi_ids : ids_body }.             (* IBBad: "ids" absent / not an array / an element is not a string *)

Definition mreject : decision := DReject 0 GToolError.

(** toolMessagesCancel / Requeue / Resume / toolDLQRequeue / toolDLQDelete *)
Definition mcp_decide_ids (e : menv) (k : manage_kind) (a : midargs) (ms : list msg) : decision :=
  if negb (me_gate e) then mreject
  else if mi_unknown a then mreject
  else
    match parse_maudit (mi_audit a) with
    | None => mreject
    | Some reqid =>
        match mi_ids a with
        | IBBad => mreject
        | IBIds raw =>
            match mcp_parse_ids raw with
            | None => mreject
            | Some ids =>
                let call := DCall (SCIds k (store_ids ids)) in
                match me_cfg e with
                | None => call                                          (* compiledAvailable = false *)
                | Some x =>
                    if any_managed x && touches_managed x (mcp_ids_tool_states k) ids ms then
                      if mcp_managed_policy_ok x (me_principal e) reqid then call else mreject
                    else call
                end
            end
        end
    end.

Inductive mlimit := MLAbsent | MLInt (n : Z) | MLBad.      (* a JSON integer or a string strconv.Atoi accepts; MLBad: anything else *)

(** parseLimit(args, maxListLimit) *)
Definition mcp_limit (l : mlimit) : option Z :=
  match l with
  | MLAbsent => Some mcp_default_list_limit
  | MLInt n => if (n <=? 0) || (mcp_max_list_limit <? n) then None else Some n
  | MLBad => None
  end.

Record mfargs := mkMF {
  mf_unknown : bool;               (* validateAllowedKeys(messageManageFilterAllowedKeys) fails *)
  mf_wf : bool;                    (* before/state/route/application/endpoint_name/target are strings, preview_only a boolean *)
  mf_audit : maudit;
  mf_route : rroute; mf_app : lsel; mf_ep : lsel; mf_target : rid;
  mf_state : rstate; mf_before : tsel; mf_limit : mlimit; mf_preview : bool }.

(** parseMessageManageFilterArgs *)
Definition mcp_parse_filter (allowed : list st) (a : mfargs) : option pfilt :=
  if mf_unknown a then None
  else if negb (mf_wf a) then None
  else
    match time_of (mf_before a) with
    | None => None
    | Some before =>
        match parse_state allowed (mf_state a) with
        | None => None
        | Some stt =>
            match mcp_limit (mf_limit a) with
            | None => None
            | Some lim =>
                let route := trim_route (mf_route a) in
                match route with
                | RSNoSlash => None                                      (* validateOptionalRoutePath *)
                | _ =>
                    if negb (Bool.eqb (blank_l (mf_app a)) (blank_l (mf_ep a))) then None
                    else if (match mf_app a with LInvalid => true | _ => false end)
                            || (match mf_ep a with LInvalid => true | _ => false end) then None
                    else if negb (blank_l (mf_app a)) && negb (blank_r route) then None
                    else Some (mkPF route (trimmed_id (mf_target a)) stt lim before (mf_preview a) (mf_app a) (mf_ep a))
                end
            end
        end
    end.

(** toolMessagesCancelByFilter / RequeueByFilter / ResumeByFilter *)
Definition mcp_decide_filter (e : menv) (k : fkind) (a : mfargs) : decision :=
  if negb (me_gate e) then mreject
  else
    match parse_maudit (mf_audit a) with
    | None => mreject
    | Some reqid =>
        match mcp_parse_filter (mcp_filter_tool_states k) a with
        | None => mreject
        | Some p =>
            match pf_app p, pf_ep p with
            | LValid ap, LValid ep =>
                match me_cfg e with
                | None => mreject                                       (* loadCompiledConfig fails without --config *)
                | Some x =>
                    if negb (mcp_managed_policy_ok x (me_principal e) reqid) then mreject
                    else match find_endpoint x ap ep with
                         | None => mreject
                         | Some rt => DCall (SCFilter k (mk_store_filt (Some (r_path rt)) p))
                         end
                end
            | _, _ =>
                let call := DCall (SCFilter k (mk_store_filt (opt_route (pf_route p)) p)) in
                match me_cfg e with
                | None => call
                | Some x =>
                    (* validateScopedManagedAuditPolicyForFilterMutation with no selector *)
                    match opt_route (pf_route p) with
                    | None => if any_managed x then mreject else call
                    | Some r => if route_is_managed x r then mreject else call
                    end
                end
            end
        end
    end.

Inductive mtool := MtIds (k : manage_kind) (a : midargs) | MtFilter (k : fkind) (a : mfargs).

Definition mcp_decide (e : menv) (t : mtool) (ms : list msg) : decision :=
  match t with
  | MtIds k a => mcp_decide_ids e k a ms
  | MtFilter k a => mcp_decide_filter e k a
  end.

Definition mcp_request (e : menv) (now : Z) (t : mtool) (s : state) : state * hresp :=
  serve now (mcp_decide e t (msgs s)) s.

(** ** observables for the correspondence (not part of any theorem) *)
Definition code_num (c : gcode) : Z :=
  match c with
  | GPub CAuditReason => 1 | GPub CAuditActor => 2 | GPub CAuditActorNotAllowed => 3 | GPub CAuditReqId => 4
  | GPub CInvalidBody => 5 | GPub CManagedSelectorRequired => 6 | GPub CEndpointNotFound => 7
  | GPub CSelectorForbidden => 8 | GPub CStoreUnavailable => 9 | GPub _ => 10
  | GSelectorMismatch => 11 | GMethodNotAllowed => 12 | GUnauthorized => 13 | GNotFound => 14 | GToolError => 15
  end.

(** (status, code, count, matched, changed, preview) *)
Definition resp_obs (r : hresp) : list Z :=
  match r with
  | HErr st c => [st; code_num c; 0; 0; 0; 0]
  | HIdsOk n => [200; 0; n; 0; 0; 0]
  | HFilterOk m n p => [200; 0; 0; m; n; b2z p]
  end.

(** stored messages, with next_run_at blanked when the clock of the run is not controlled (MCP) *)
Definition blank_next (m : msg) : msg :=
  mkMsg (m_id m) (m_route m) (m_target m) (m_st m) (m_recv m) (m_attempt m) 0
        (m_body m) (m_hdr m) (m_trace m) (m_reason m) (m_lease m) (m_until m).

Definition snap_obs (with_next : bool) (l : list msg) : Z :=
  hash_snap (if with_next then l else map blank_next l).

Definition msg_tuple (with_next : bool) (m : msg) : list Z :=
  [Z.of_N (m_id m); Z.of_N (m_route m); Z.of_N (m_target m); st_code (m_st m); m_recv m; m_attempt m;
   if with_next then m_next m else 0; Z.of_N (m_body m); Z.of_N (m_hdr m); Z.of_N (m_trace m); Z.of_N (m_reason m);
   match m_lease m with Some l => Z.of_N l + 1 | None => 0 end; m_until m].

(** the rows that differ between two states: count, then 13 numbers per changed row (state code 0 = deleted).
    The operator mutations keep the order of the stored rows and never add one, so one walk suffices. *)
Fixpoint diff_walk (with_next : bool) (before after : list msg) : list (list Z) :=
  match before with
  | [] => []
  | m :: tl =>
      let gone := [Z.of_N (m_id m); 0; 0; 0; 0; 0; 0; 0; 0; 0; 0; 0; 0] in
      match after with
      | m' :: tl' =>
          if N.eqb (m_id m) (m_id m')
          then (if msg_eqb m' m then [] else [msg_tuple with_next m']) ++ diff_walk with_next tl tl'
          else gone :: diff_walk with_next tl after
      | [] => gone :: diff_walk with_next tl []
      end
  end.

Fixpoint zip_add (a b : list Z) : list Z :=
  match a, b with
  | x :: ta, y :: tb => (x + y) :: zip_add ta tb
  | _, _ => []
  end.

(** column sums of the changed rows plus sum(id * state code): a cheap summary for very large changes *)
Definition sum_rows (ch : list (list Z)) : list Z :=
  fold_left (fun acc r => zip_add acc (r ++ [nth 0 r 0 * nth 3 r 0])) ch [0; 0; 0; 0; 0; 0; 0; 0; 0; 0; 0; 0; 0; 0].

Definition diff_obs (with_next : bool) (before after : list msg) : list Z :=
  let ch := diff_walk with_next before after in
  if Nat.leb (length ch) 64 then Z.of_nat (length ch) :: concat ch
  else (- Z.of_nat (length ch)) :: sum_rows ch.

Definition state_of (l : list msg) : state := mkState l [] None 0 [].

Inductive areq :=
| AHttp (x : ctx) (now : Z) (e : endpoint) (q : hreq) (b : hbody)
| AMcp (e : menv) (t : mtool).

(** run a list of requests from a population; per request: the response observables followed by the rows
    that changed; at the end one checksum of all stored rows (next_run_at blanked) *)
Fixpoint run_requests (l : list msg) (rs : list areq) : list (list Z) :=
  match rs with
  | [] => [[snap_obs false l]]
  | AHttp x now e q b :: tl =>
      let '(s', r) := admin_request x now e q b (state_of l) in
      (resp_obs r ++ diff_obs true l (msgs s')) :: run_requests (msgs s') tl
  | AMcp e t :: tl =>
      let '(s', r) := mcp_request e 0 t (state_of l) in
      (resp_obs r ++ diff_obs false l (msgs s')) :: run_requests (msgs s') tl
  end.
