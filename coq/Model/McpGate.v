(** Model of the MCP tool gate (internal/mcp/server.go: toolAccessError, callTool,
    toolDescriptors, emitMutationAuditEvent, bindAuditActorToPrincipal,
    resolveConfigPath).  The tables and the order of the checks come from
    Gen/McpTables.v, which the translator regenerates from the Go source on every run. *)
From Coq Require Import String List Bool Arith Lia.
From HK Require Import Gen.McpTables.
Import ListNotations.
Open Scope string_scope.

Definition mem_str (x : string) (l : list string) : bool :=
  existsb (String.eqb x) l.

Fixpoint lookup_role (t : string) (tbl : list (string * role)) : option role :=
  match tbl with
  | [] => None
  | (k, r) :: tl => if String.eqb t k then Some r else lookup_role t tl
  end.

Definition required (t : string) : option role := lookup_role t required_role_table.
Definition known (t : string) : bool := match required t with Some _ => true | None => false end.
Definition needs_mut (t : string) : bool := mem_str t needs_mut_list.
Definition needs_rt (t : string) : bool := mem_str t needs_rt_list.
Definition mutating (t : string) : bool := mem_str t mutating_list.

(** Server settings as callTool sees them.  [s_principal] is the *trimmed*
    principal (auditPrincipal); the empty string means "not configured". *)
Record srv := { s_role : role; s_mut : bool; s_rt : bool; s_principal : string }.

Inductive verdict := Allowed | Denied (why : gate_check).

Definition check_fails (s : srv) (t : string) (c : gate_check) : bool :=
  match c with
  | CkUnknown => negb (known t)
  | CkMutFlag => needs_mut t && negb (s_mut s)
  | CkRtFlag => needs_rt t && negb (s_rt s)
  | CkRole => match required t with
              | Some r => negb (Nat.leb (rank r) (rank (s_role s)))
              | None => true
              end
  | CkPrincipal => mutating t && String.eqb (s_principal s) ""
  | CkUnrecognized => true
  end.

Fixpoint run_checks (s : srv) (t : string) (cs : list gate_check) : verdict :=
  match cs with
  | [] => Allowed
  | c :: tl => if check_fails s t c then Denied c else run_checks s t tl
  end.

(** toolAccessError, with the check order read off the source. *)
Definition access (s : srv) (t : string) : verdict := run_checks s t access_order.

Definition allowedb (s : srv) (t : string) : bool :=
  match access s t with Allowed => true | Denied _ => false end.

(** tools/list *)
Definition list_tools (s : srv) : list string :=
  if descriptors_filtered_by_gate then filter (allowedb s) descriptor_list else descriptor_list.

(** tools/call: what callTool does before/after the tool body. *)
Inductive call_outcome :=
| ODenied (why : gate_check)     (* refused by the gate, no tool body ran *)
| ODispatched                    (* tool body ran *)
| ONoHandler.                    (* passed the gate but the dispatch switch has no case *)

Definition call (s : srv) (t : string) : call_outcome :=
  match access s t with
  | Denied c => ODenied c
  | Allowed => if gate_before_dispatch
               then (if mem_str t dispatch_list then ODispatched else ONoHandler)
               else ODispatched
  end.

Inductive audit_result := ADenied | AError | ASuccess.

(** The audit records one tools/call appends ([body_ok]: did the tool body succeed). *)
Definition audit (s : srv) (t : string) (body_ok : bool) : list audit_result :=
  if mutating t then
    match call s t with
    | ODenied _ => [ADenied]
    | ODispatched => [if body_ok then ASuccess else AError]
    | ONoHandler => []
    end
  else [].

(** bindAuditActorToPrincipal on trimmed inputs: None = refused. *)
Definition bind_actor (actor principal : string) : option string :=
  let a := if String.eqb actor "" then principal else actor in
  if negb (String.eqb a "") && negb (String.eqb principal "") && negb (String.eqb a principal)
  then None else Some a.

(** resolveConfigPath on trimmed inputs: [arg = None] when the key is absent. *)
Definition resolve_config_path (cfg : string) (arg : option string) : option string :=
  match arg with
  | Some a =>
      if String.eqb a "" then (if String.eqb cfg "" then None else Some cfg)
      else if String.eqb cfg "" then None
      else if String.eqb a cfg then Some a else None
  | None => if String.eqb cfg "" then None else Some cfg
  end.
