(** Go [path.Clean] (lexical) and [path.Base], on bytes, plus the cleaning the
    ingress handler applies (internal/ingress/http.go ServeHTTP:
    [requestPath := path.Clean(r.URL.Path)] and nothing else).

    [clean] follows the stdlib algorithm element by element: the output buffer of
    path.Clean is represented as the stack of elements written so far (top =
    last element); "out.w > dotdot" (Go) = "the top element exists and is not a
    protected [..]".  Validated against the real path.Clean / path.Base on
    generated strings on every run (harness command [strfuncs]). *)
From Coq Require Import List NArith Bool.
From HK Require Import Model.RBytes.
Import ListNotations.
Open Scope N_scope.

Definition slash : N := 47.
Definition dot : bytes := [46].
Definition dotdot : bytes := [46; 46].

Definition is_rooted (p : bytes) : bool :=
  match p with c :: _ => c =? slash | [] => false end.

(** one path element of the main loop of path.Clean *)
Definition clean_step (rooted : bool) (st : list bytes) (seg : bytes) : list bytes :=
  if is_empty seg || beq seg dot then st                    (* empty element, "." *)
  else if beq seg dotdot then
    let can_backtrack := match st with top :: _ => negb (beq top dotdot) | [] => false end in
    if can_backtrack then tl st                             (* case out.w > dotdot *)
    else if rooted then st                                  (* rooted: ".." at the root is dropped *)
    else dotdot :: st                                       (* case !rooted: append ".." *)
  else seg :: st.                                           (* real element *)

Definition clean_stack (rooted : bool) (p : bytes) : list bytes :=
  fold_left (clean_step rooted) (split_on slash p) [].

(** path.Clean *)
Definition clean (p : bytes) : bytes :=
  match p with
  | [] => dot
  | _ =>
      let rooted := is_rooted p in
      let out := join [slash] (rev (clean_stack rooted p)) in
      if rooted then slash :: out
      else if is_empty out then dot else out
  end.

(** path.Base *)
Fixpoint strip_trailing_slashes_rev (r : bytes) : bytes :=
  match r with
  | c :: t => if c =? slash then strip_trailing_slashes_rev t else r
  | [] => []
  end.

Definition base (p : bytes) : bytes :=
  match p with
  | [] => dot
  | _ =>
      let q := rev (strip_trailing_slashes_rev (rev p)) in
      let q' := match last_index_byte slash q with
                | Some i => skipn (S i) q
                | None => q
                end in
      if is_empty q' then [slash] else q'
  end.

(** What the ingress handler matches routes against. *)
Definition ingress_request_path (url_path : bytes) : bytes := clean url_path.

(** A "good" element of a cleaned rooted path. *)
Definition good_seg (s : bytes) : Prop :=
  s <> [] /\ s <> dot /\ s <> dotdot /\ ~ In slash s.
