(** Small model of the route `auth` rules of config.Compile (internal/config/compile.go, the block
    starting at "var hmacSecrets []string" up to the forward-auth mix check).  Input = the values as
    Compile sees them after resolveValue + strings.TrimSpace.  Everything else Compile does is not
    modelled (exercised differentially by the C08 check through the real Parse/Compile). *)
From Coq Require Import ZArith List Bool NArith.
From HK Require Import Model.NonceCache.
Import ListNotations.
Open Scope Z_scope.

Inductive secret_kind :=
| KRef                         (* secret_ref "ID" *)
| KInline (valid_ref : bool).  (* secret "<ref>"; secrets.ValidateRef result *)

Record raw_auth := {
  ra_secrets : list (bytes * secret_kind);
  ra_sig : option bytes; ra_ts : option bytes; ra_nonce : option bytes;   (* Some = directive present *)
  ra_tol : option (option Z);      (* Some = directive present; inner = parseDurationValue result (None: error/off) *)
  ra_basic : list (bytes * bytes);
  ra_forward : bool
}.

Definition default_sig : bytes := [88;45;83;105;103;110;97;116;117;114;101]%N.      (* X-Signature *)
Definition default_ts : bytes := [88;45;84;105;109;101;115;116;97;109;112]%N.       (* X-Timestamp *)
Definition default_nonce : bytes := [88;45;78;111;110;99;101]%N.                    (* X-Nonce *)

Definition is_token_char (c : N) : bool :=
  ((N.leb 65 c && N.leb c 90) || (N.leb 97 c && N.leb c 122) || (N.leb 48 c && N.leb c 57) ||
   existsb (N.eqb c) [33;35;36;37;38;39;42;43;45;46;94;95;96;124;126]%N)%bool.

Definition is_method_token (s : bytes) : bool :=
  match s with [] => false | _ => forallb is_token_char s end.

Definition lower (c : N) : N := if (N.leb 65 c && N.leb c 90)%bool then (c + 32)%N else c.
(** strings.EqualFold restricted to ASCII (header names are tokens) *)
Definition fold_eq (a b : bytes) : bool := beqb (map lower a) (map lower b).

Definition effective (o : option bytes) (d : bytes) : bytes := match o with Some raw => raw | None => d end.

Definition has_hmac_options (ra : raw_auth) : bool :=
  match ra_sig ra, ra_ts ra, ra_nonce ra, ra_tol ra with
  | None, None, None, None => false
  | _, _, _, _ => true
  end.

Definition header_ok (o : option bytes) : bool :=
  match o with None => true | Some raw => is_method_token raw end.

Fixpoint secrets_ok (known : list bytes) (seen_refs : list bytes) (l : list (bytes * secret_kind)) : bool :=
  match l with
  | [] => true
  | (s, k) :: tl =>
      match s with
      | [] => false
      | _ => match k with
             | KRef => existsb (beqb s) known && negb (existsb (beqb s) seen_refs) && secrets_ok known (s :: seen_refs) tl
             | KInline v => v && secrets_ok known seen_refs tl
             end
      end
  end.

Fixpoint basic_ok (seen : list bytes) (l : list (bytes * bytes)) : bool :=
  match l with
  | [] => true
  | (u, p) :: tl =>
      match u, p with
      | [], _ | _, [] => false
      | _, _ => negb (existsb (beqb u) seen) && basic_ok (u :: seen) tl
      end
  end.

Definition tol_ok (t : option (option Z)) : bool :=
  match t with None => true | Some (Some d) => 0 <? d | Some None => false end.

Definition is_nil {A} (l : list A) : bool := match l with [] => true | _ => false end.

(** true = Compile reports no error for this route's auth section *)
Definition compile_auth (known : list bytes) (ra : raw_auth) : bool :=
  secrets_ok known [] (ra_secrets ra) &&
  header_ok (ra_sig ra) && header_ok (ra_ts ra) && header_ok (ra_nonce ra) &&
  tol_ok (ra_tol ra) &&
  negb (has_hmac_options ra && is_nil (ra_secrets ra)) &&
  (is_nil (ra_secrets ra) ||
   (let sg := effective (ra_sig ra) default_sig in
    let ts := effective (ra_ts ra) default_ts in
    let nn := effective (ra_nonce ra) default_nonce in
    negb (fold_eq sg ts) && negb (fold_eq sg nn) && negb (fold_eq ts nn))) &&
  basic_ok [] (ra_basic ra) &&
  negb (negb (is_nil (ra_basic ra)) && (negb (is_nil (ra_secrets ra)) || has_hmac_options ra)) &&
  negb (ra_forward ra && (negb (is_nil (ra_basic ra)) || negb (is_nil (ra_secrets ra)) || has_hmac_options ra)).
