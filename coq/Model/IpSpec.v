(** Independent specification of the address classes the egress property names
    (loopback, private, link-local, multicast, unspecified), written as the address
    *ranges* of the RFCs - first and last address of each block - and not in terms of the
    byte tests of Go's net package.  IPv4-mapped IPv6 addresses (::ffff:a.b.c.d,
    RFC 4291 2.5.5.2) are classified by the IPv4 address they embed.

    These definitions are what C16_rebind_safe is stated against. *)
From Coq Require Import NArith List Bool.
From HK Require Import Model.IpClass.
Import ListNotations.
Local Open Scope N_scope.

(** dotted quad and 16-bit-group notation *)
Definition quad (a b c d : N) : N := ((a * 256 + b) * 256 + c) * 256 + d.
Definition hex8 (g0 g1 g2 g3 g4 g5 g6 g7 : N) : N :=
  ((((((g0 * 65536 + g1) * 65536 + g2) * 65536 + g3) * 65536 + g4) * 65536 + g5) * 65536 + g6) * 65536 + g7.

(** The address an [ip] denotes: IPv4 (32 bit) or IPv6 (128 bit); the mapped block
    ::ffff:0.0.0.0 .. ::ffff:255.255.255.255 denotes the embedded IPv4 address. *)
Inductive addr := A4 (v : N) | A6 (w : N) | ANone.

Definition mapped_lo : N := hex8 0 0 0 0 0 65535 0 0.
Definition mapped_hi : N := hex8 0 0 0 0 0 65535 65535 65535.

Definition denotes (i : ip) : addr :=
  match ip_fam i with
  | F4 => A4 (ip_val i)
  | F6 => if (mapped_lo <=? ip_val i) && (ip_val i <=? mapped_hi) then A4 (ip_val i - mapped_lo) else A6 (ip_val i)
  | FBad => ANone
  end.

Definition between (lo hi x : N) : Prop := lo <= x /\ x <= hi.

(** RFC 1122 3.2.1.3 (127/8); RFC 4291 2.5.3 (::1) *)
Definition spec_loopback (i : ip) : Prop :=
  match denotes i with
  | A4 v => between (quad 127 0 0 0) (quad 127 255 255 255) v
  | A6 w => w = hex8 0 0 0 0 0 0 0 1
  | ANone => False
  end.

(** RFC 1918 (10/8, 172.16/12, 192.168/16); RFC 4193 (fc00::/7) *)
Definition spec_private (i : ip) : Prop :=
  match denotes i with
  | A4 v => between (quad 10 0 0 0) (quad 10 255 255 255) v
            \/ between (quad 172 16 0 0) (quad 172 31 255 255) v
            \/ between (quad 192 168 0 0) (quad 192 168 255 255) v
  | A6 w => between (hex8 64512 0 0 0 0 0 0 0) (hex8 65023 65535 65535 65535 65535 65535 65535 65535) w   (* fc00:: .. fdff:ffff:.. *)
  | ANone => False
  end.

(** RFC 3927 (169.254/16); RFC 4291 2.5.6 (fe80::/10) *)
Definition spec_link_local (i : ip) : Prop :=
  match denotes i with
  | A4 v => between (quad 169 254 0 0) (quad 169 254 255 255) v
  | A6 w => between (hex8 65152 0 0 0 0 0 0 0) (hex8 65215 65535 65535 65535 65535 65535 65535 65535) w    (* fe80:: .. febf:ffff:.. *)
  | ANone => False
  end.

(** RFC 5771 (224/4); RFC 4291 2.7 (ff00::/8) *)
Definition spec_multicast (i : ip) : Prop :=
  match denotes i with
  | A4 v => between (quad 224 0 0 0) (quad 239 255 255 255) v
  | A6 w => between (hex8 65280 0 0 0 0 0 0 0) (hex8 65535 65535 65535 65535 65535 65535 65535 65535) w    (* ff00:: .. ffff:ffff:.. *)
  | ANone => False
  end.

(** 0.0.0.0 and :: *)
Definition spec_unspecified (i : ip) : Prop :=
  match denotes i with
  | A4 v => v = 0
  | A6 w => w = 0
  | ANone => False
  end.

(** 255.255.255.255 (RFC 919) - not one of the five classes the property names, but Go's
    IsGlobalUnicast excludes it, so the exact characterisation of isAllowedIP mentions it. *)
Definition spec_broadcast (i : ip) : Prop :=
  match denotes i with A4 v => v = quad 255 255 255 255 | _ => False end.

Definition spec_forbidden (i : ip) : Prop :=
  spec_loopback i \/ spec_private i \/ spec_link_local i \/ spec_multicast i \/ spec_unspecified i.

(** CIDR membership, specified on denoted addresses by first/last address of the block.
    [blk_lo]/[blk_hi]: the block of size 2^(len-bits) that contains [a]. *)
Definition blk_size (len bits : N) : N := 2 ^ (len - bits).
Definition spec_in_block (len bits base x : N) : Prop :=
  bits <= len /\ base / blk_size len bits = x / blk_size len bits.
