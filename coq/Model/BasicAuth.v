(** Model of BasicAuth.Verify (internal/ingress/basic_auth.go) together with the library function
    it calls, Request.BasicAuth = parseBasicAuth (net/http) over base64.StdEncoding
    (modelled executable-ly; compared with Go's r.BasicAuth() on every generated header). *)
From Coq Require Import ZArith List Bool NArith.
From HK Require Import Model.NonceCache Model.Hmac.
Import ListNotations.

(** base64 standard alphabet *)
Definition b64_val (c : N) : option N :=
  if (N.leb 65 c && N.leb c 90)%bool then Some (c - 65)%N
  else if (N.leb 97 c && N.leb c 122)%bool then Some (c - 71)%N
  else if (N.leb 48 c && N.leb c 57)%bool then Some (c + 4)%N
  else if N.eqb c 43 then Some 62%N
  else if N.eqb c 47 then Some 63%N
  else None.

Definition pad_char : N := 61.

(** base64.StdEncoding.DecodeString on input from which CR/LF have been removed (the decoder skips them):
    quanta of four characters; padding only in the last quantum ("xx==" or "xxx="); anything after
    the padding, a short last quantum, or a character outside the alphabet is an error; non-zero
    trailing bits are accepted (the encoding is not Strict). *)
Fixpoint b64_decode (fuel : nat) (s : bytes) : option bytes :=
  match fuel with
  | O => match s with [] => Some [] | _ => None end
  | S f =>
    match s with
    | [] => Some []
    | a :: b :: c :: d :: tl =>
        match b64_val a, b64_val b with
        | Some x, Some y =>
            let b0 := (N.shiftl x 2 + N.shiftr y 4)%N in
            if N.eqb c pad_char then
              if (N.eqb d pad_char && match tl with [] => true | _ => false end)%bool then Some [b0] else None
            else match b64_val c with
                 | None => None
                 | Some z =>
                     let b1 := (N.shiftl (N.land y 15) 4 + N.shiftr z 2)%N in
                     if N.eqb d pad_char then
                       match tl with [] => Some [b0; b1] | _ => None end
                     else match b64_val d with
                          | None => None
                          | Some w =>
                              let b2 := (N.shiftl (N.land z 3) 6 + w)%N in
                              match b64_decode f tl with
                              | Some r => Some (b0 :: b1 :: b2 :: r)
                              | None => None
                              end
                          end
                 end
        | _, _ => None
        end
    | _ => None
    end
  end.

Definition lower_ascii (c : N) : N := if (N.leb 65 c && N.leb c 90)%bool then (c + 32)%N else c.

(** strings.Cut(cs, ":") *)
Fixpoint cut_colon (s : bytes) : option (bytes * bytes) :=
  match s with
  | [] => None
  | c :: tl => if N.eqb c 58 then Some ([], tl)
               else match cut_colon tl with
                    | Some (u, p) => Some (c :: u, p)
                    | None => None
                    end
  end.

Definition authorization_name : bytes := [65;117;116;104;111;114;105;122;97;116;105;111;110]%N.
Definition basic_prefix_lower : bytes := [98;97;115;105;99;32]%N.   (* "basic " *)

(** parseBasicAuth on the value of the Authorization header *)
Definition parse_basic (auth : bytes) : option (bytes * bytes) :=
  match auth with
  | [] => None
  | _ =>
    if beqb (map lower_ascii (firstn 6 auth)) basic_prefix_lower then
      (* the decoder ignores CR and LF wherever they occur *)
      match b64_decode (length auth) (filter (fun c => negb (N.eqb c 10 || N.eqb c 13)) (skipn 6 auth)) with
      | Some cs => cut_colon cs
      | None => None
      end
    else None
  end.

Fixpoint lookup_user (u : bytes) (users : list (bytes * bytes)) : option bytes :=
  match users with
  | [] => None
  | (k, p) :: tl => if beqb u k then Some p else lookup_user u tl
  end.

(** BasicAuth.Verify: no users configured = no basic auth on the route (true);
    otherwise the user must exist with exactly this password (secureEqual = equality). *)
Definition basic_verify (users : list (bytes * bytes)) (h : headers) : bool :=
  match users with
  | [] => true
  | _ => match parse_basic (header_get authorization_name h) with
         | None => false
         | Some (u, p) => match lookup_user u users with
                          | None => false
                          | Some want => beqb p want
                          end
         end
  end.
