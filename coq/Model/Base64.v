(** encoding/base64 StdEncoding as hookaido uses it (C07, C15):
      - [EncodeToString] in internal/pullapi/http.go handleDequeue and internal/admin/http.go
        handleMessages (payload_b64),
      - [DecodeString] in internal/admin/http.go publishEnvelopeFromItem.
    The decoder is Go's non-strict StdEncoding decoder: '\r' and '\n' are ignored wherever
    they stand, padding is mandatory, nothing may follow the padding, any other byte outside
    the alphabet is an error, trailing bits of a padded quantum are not checked. *)
From Coq Require Import List NArith Bool.
From HK Require Import Model.Headers.
Import ListNotations.
Open Scope N_scope.

Definition pad : N := 61.   (* '=' *)

Definition enc6 (i : N) : N :=
  if i <? 26 then 65 + i
  else if i <? 52 then 97 + (i - 26)
  else if i <? 62 then 48 + (i - 52)
  else if i =? 62 then 43 else 47.

Definition dec6 (c : N) : option N :=
  if is_upper c then Some (c - 65)
  else if is_lower c then Some (c - 97 + 26)
  else if is_digit c then Some (c - 48 + 52)
  else if c =? 43 then Some 62
  else if c =? 47 then Some 63
  else None.

Definition is_b64 (c : N) : bool := match dec6 c with Some _ => true | None => false end.

Fixpoint encode (s : bytes) : bytes :=
  match s with
  | [] => []
  | [a] =>
      let n := a * 65536 in
      [enc6 (n / 262144); enc6 ((n / 4096) mod 64); pad; pad]
  | [a; b] =>
      let n := a * 65536 + b * 256 in
      [enc6 (n / 262144); enc6 ((n / 4096) mod 64); enc6 ((n / 64) mod 64); pad]
  | a :: b :: c :: tl =>
      let n := a * 65536 + b * 256 + c in
      enc6 (n / 262144) :: enc6 ((n / 4096) mod 64) :: enc6 ((n / 64) mod 64) :: enc6 (n mod 64) :: encode tl
  end.

(** decoding of a string without '\r' / '\n' *)
Fixpoint decode_q (s : bytes) : option bytes :=
  match s with
  | [] => Some []
  | a :: b :: c :: d :: tl =>
      match dec6 a, dec6 b with
      | Some x, Some y =>
          if c =? pad then
            if d =? pad then
              match tl with
              | [] => Some [(x * 4 + y / 16) mod 256]
              | _ => None
              end
            else None
          else
            match dec6 c with
            | Some z =>
                if d =? pad then
                  match tl with
                  | [] => Some [(x * 4 + y / 16) mod 256; ((y mod 16) * 16 + z / 4) mod 256]
                  | _ => None
                  end
                else
                  match dec6 d with
                  | Some w =>
                      match decode_q tl with
                      | Some r => Some ((x * 4 + y / 16) mod 256 :: ((y mod 16) * 16 + z / 4) mod 256
                                        :: ((z mod 4) * 64 + w) mod 256 :: r)
                      | None => None
                      end
                  | None => None
                  end
            | None => None
            end
      | _, _ => None
      end
  | _ => None
  end.

Definition is_newline (c : N) : bool := (c =? 13) || (c =? 10).

Definition decode (s : bytes) : option bytes := decode_q (filter (fun c => negb (is_newline c)) s).
