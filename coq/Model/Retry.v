(** Exact-rational model of the retry back-off (internal/dispatcher/push.go: retryDelay).
    The real number the Go code approximates in float64 is computed here over [Q];
    [Model/RetryFloat.v] is the bit-exact binary64 twin used by the correspondence.
    Time is nanoseconds.  The jitter draw [u] (Go: rand.Float64(), in [0,1)) is an
    argument, never predicted. *)
From Coq Require Import ZArith QArith Qminmax Qround.
Open Scope Q_scope.

Definition Qltb (x y : Q) : bool := negb (Qle_bool y x).

(** math.Pow(2, n) for an integer n, as a real number *)
Definition pow2Q (n : Z) : Q := Qpower (2 # 1) n.

(** d = min(base * 2^(attempt-1), cap): the un-jittered back-off the property names *)
Definition backoffQ (base cap attempt : Z) : Q :=
  Qmin (inject_Z base * pow2Q (attempt - 1)) (inject_Z cap).

(** retryDelay, before the conversion to time.Duration.
      if retry.Base <= 0 { return 0 }
      delay := base * 2^(attempt-1)
      if retry.Cap > 0 && delay > cap { delay = cap }
      if retry.Jitter > 0 { j := min(jitter,1); delay *= 1 + (u*2-1)*j; if delay < 0 { delay = 0 } } *)
Definition delayQ (base cap attempt : Z) (u j : Q) : Q :=
  if (base <=? 0)%Z then 0
  else
    let d0 := inject_Z base * pow2Q (attempt - 1) in
    let d1 := if (0 <? cap)%Z && Qltb (inject_Z cap) d0 then inject_Z cap else d0 in
    if Qltb 0 j then
      let j' := if Qltb 1 j then 1 else j in
      let delta := (u * 2 - 1) * j' in
      let d2 := d1 * (1 + delta) in
      if Qltb d2 0 then 0 else d2
    else d1.

Definition max_int64 : Z := 9223372036854775807.

(** the time.Duration the function returns: saturate at MaxInt64 (float64(MaxInt64) = 2^63),
    otherwise truncate toward zero (the value is >= 0 here, so truncation = floor). *)
Definition delay_ns (base cap attempt : Z) (u j : Q) : Z :=
  Z.min (Qfloor (delayQ base cap attempt u j)) max_int64.
