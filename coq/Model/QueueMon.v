(** The executable property monitors P_Cxx over queue traces, and the entry points used
    by the correspondence check.  A trace is a list of [event]s (operation, oracle,
    result, stored messages before, stored messages after); the same monitors are
    evaluated on model traces (theorems in Properties/) and on traces observed on the
    Go stores (the checks).  They are written against the property statements, not
    against the model's step function. *)
From Coq Require Import List ZArith NArith Bool.
From HK Require Import Gen.Consts Model.Queue Model.QueueHash.
Import ListNotations.
Open Scope Z_scope.

(** ** equality on messages *)
Definition optN_eqb (a b : option N) : bool :=
  match a, b with
  | Some x, Some y => N.eqb x y
  | None, None => true
  | _, _ => false
  end.

Definition imm_eq (a b : msg) : bool :=
  N.eqb (m_id a) (m_id b) && N.eqb (m_route a) (m_route b) && N.eqb (m_target a) (m_target b)
  && (m_recv a =? m_recv b) && N.eqb (m_body a) (m_body b) && N.eqb (m_hdr a) (m_hdr b)
  && N.eqb (m_trace a) (m_trace b).

Definition msg_eqb (a b : msg) : bool :=
  imm_eq a b && st_eqb (m_st a) (m_st b) && (m_attempt a =? m_attempt b) && (m_next a =? m_next b)
  && N.eqb (m_reason a) (m_reason b) && optN_eqb (m_lease a) (m_lease b) && (m_until a =? m_until b).

Definition opt_msg_eqb (a b : option msg) : bool :=
  match a, b with
  | Some x, Some y => msg_eqb x y
  | None, None => true
  | _, _ => false
  end.

(** ** reading an event *)
Definition res_ok (r : res) : bool :=
  match r with RErr _ | RBadOracle => false | _ => true end.

Definition deq_items (r : res) : list (N * N * Z * Z) :=
  match r with RItems l => l | _ => [] end.
Definition item_ids (r : res) : list N := map (fun it => fst (fst (fst it))) (deq_items r).
Definition item_leases (r : res) : list N := map (fun it => snd (fst (fst it))) (deq_items r).

Definition enq_list (x : op) : list enq :=
  match x with Enqueue _ e => [e] | EnqueueBatch _ es => es | _ => [] end.

Definition enq_assigned (e : event) : list (N * enq) :=
  match assign_ids (enq_list (ev_op e)) (o_genids (ev_orc e)) with Some l => l | None => [] end.

Definition enq_success (e : event) : bool :=
  match ev_op e, ev_res e with
  | Enqueue _ _, RUnit => true
  | EnqueueBatch _ (_ :: _), RCount _ _ _ => true
  | _, _ => false
  end.

Definition is_dequeue (x : op) : bool := match x with Dequeue _ _ _ _ _ => true | _ => false end.

Definition prunes (x : op) : bool :=
  match x with
  | Enqueue _ _ | EnqueueBatch _ (_ :: _) | Dequeue _ _ _ _ _ | ListMessages _ _ _ | ListDead _ _ _ _ | Stats _ => true
  | _ => false
  end.

Definition lref_id (l : lref) : option N := match l with LKnown x _ => Some x | _ => None end.

(** the lease ids an operation presents *)
Definition presented (x : op) : list N :=
  match x with
  | LeaseOp _ _ l => match lref_id l with Some i => [i] | None => [] end
  | LeaseBatch _ _ ls => flat_map (fun l => match lref_id l with Some i => [i] | None => [] end) ls
  | _ => []
  end.

Definition lease_op_kind (x : op) : option lease_kind :=
  match x with
  | LeaseOp _ k _ => Some k
  | LeaseBatch _ k _ => Some (match k with KNack d => KNack (Z.max d 0) | _ => k end)
  | _ => None
  end.

Definition presents (x : op) (m : msg) : bool :=
  match m_lease m with Some l => memN l (presented x) | None => false end.

(** this operation settled [m]'s current, unexpired lease with kind [want] *)
Definition settles (e : event) (want : lease_kind -> bool) (m : msg) : bool :=
  let now := op_now (ev_op e) in
  match lease_op_kind (ev_op e) with
  | Some k =>
      want k && presents (ev_op e) m && is_leased m && (now <? m_until m)
      && match ev_op e with LeaseOp _ _ _ => res_ok (ev_res e) | _ => true end
  | None => false
  end.

Definition is_ack (k : lease_kind) := match k with KAck => true | _ => false end.
Definition is_nack (k : lease_kind) := match k with KNack _ => true | _ => false end.
Definition is_dead (k : lease_kind) := match k with KDead _ => true | _ => false end.
Definition is_extend (k : lease_kind) := match k with KExtend _ => true | _ => false end.

Definition manage_of (x : op) : option (manage_kind * bool) :=   (* kind, preview *)
  match x with
  | Manage _ k _ => Some (k, false)
  | ManageF _ k f => Some (k, f_preview f)
  | _ => None
  end.

(** ** retention eligibility (what a prune may remove) *)
Definition dead_count (l : list msg) : Z := count_st (st_eqb Dead) l.

Definition prune_eligible (c : cfg) (e : event) (m : msg) : bool :=
  let now := op_now (ev_op e) in
  prunes (ev_op e) && (0 <? c_prune_iv c) &&
  (prune_age_eligible c now m
   || (st_eqb (m_st m) Dead && (0 <? c_dlq_depth c) && (c_dlq_depth c <? dead_count (ev_before e))
       && forallb (fun d => negb (st_eqb (m_st d) Dead) || (m_recv m <=? m_recv d)) (ev_after e))).

(** ** C02: conservation and legal transitions *)
Definition coherent (m : msg) : bool :=
  match m_st m, m_lease m with
  | Leased, Some _ => true
  | Leased, None => false
  | _, Some _ => false
  | _, None => true
  end.

Definition insert_ok (e : event) (m' : msg) : bool :=
  enq_success e &&
  match find (fun p : N * enq => N.eqb (fst p) (m_id m')) (enq_assigned e) with
  | Some p => msg_eqb m' (mk_msg (op_now (ev_op e)) (fst p) (snd p))
  | None => false
  end.

Definition evict_ok (c : cfg) (e : event) (m : msg) : bool :=
  enq_success e && c_drop_oldest c && (0 <? c_max_depth c) && queuedb m.

Definition change_ok (c : cfg) (e : event) (m m' : msg) : bool :=
  let x := ev_op e in
  let now := op_now x in
  if msg_eqb m m' then true
  else
    match m_st m, m_st m' with
    | Queued, Leased =>
        is_dequeue x && memN (m_id m) (item_ids (ev_res e)) && (m_attempt m' =? m_attempt m + 1)
    | Leased, Leased =>
        (settles e is_extend m && optN_eqb (m_lease m) (m_lease m') && (m_attempt m' =? m_attempt m))
        || (is_dequeue x && expired now m && memN (m_id m) (item_ids (ev_res e))
            && negb (optN_eqb (m_lease m) (m_lease m')) && (m_attempt m' =? m_attempt m + 1))
    | Leased, Queued =>
        (m_attempt m' =? m_attempt m)
        && ((expired now m && (is_dequeue x || presents x m)) || settles e is_nack m)
    | Leased, Delivered => (m_attempt m' =? m_attempt m) && settles e is_ack m
    | Leased, Dead => (m_attempt m' =? m_attempt m) && settles e is_dead m
    | (Queued | Leased | Dead), Canceled =>
        (m_attempt m' =? m_attempt m) && match manage_of x with Some (MCancel, false) => true | _ => false end
    | Dead, Queued =>
        (m_attempt m' =? m_attempt m)
        && match manage_of x with Some ((MRequeue | MRequeueDead), false) => true | _ => false end
    | Canceled, Queued =>
        (m_attempt m' =? m_attempt m)
        && match manage_of x with Some ((MRequeue | MResume), false) => true | _ => false end
    | _, _ => false
    end.

Definition removal_ok (c : cfg) (e : event) (m : msg) : bool :=
  settles e is_ack m
  || match ev_op e with
     | Manage _ MDeleteDead ids => st_eqb (m_st m) Dead && memN (m_id m) (norm_ids ids [])
     | _ => false
     end
  || prune_eligible c e m
  || evict_ok c e m.

(** the incarnation [m] of its id is no longer stored afterwards (absent, or replaced by a
    different message under the same id) *)
Definition survivor (e : event) (m : msg) : option msg :=
  match find_id (m_id m) (ev_after e) with
  | Some m' => if imm_eq m m' then Some m' else None
  | None => None
  end.

Definition removed (e : event) : list msg :=
  filter (fun m => match survivor e m with Some _ => false | None => true end) (ev_before e).

Definition inserted (e : event) : list msg :=
  filter (fun m' => match find_id (m_id m') (ev_before e) with
                    | Some m => negb (imm_eq m m')
                    | None => true
                    end) (ev_after e).

Definition evicted (c : cfg) (e : event) : list msg :=
  filter (fun m => negb (settles e is_ack m) && negb (prune_eligible c e m)
                   && match ev_op e with Manage _ MDeleteDead _ => false | _ => true end) (removed e).

Definition c02_event (c : cfg) (e : event) : bool :=
  nodupN (map m_id (ev_after e))
  && forallb coherent (ev_after e)
  && forallb (fun m => match survivor e m with
                       | Some m' => change_ok c e m m'
                       | None => removal_ok c e m
                       end) (ev_before e)
  && forallb (insert_ok e) (inserted e)
  (* evictions only in favour of messages actually stored (how many per stored message is C12's clause,
     which excludes queues an operator has lifted above max_depth: there both backends evict more than they store) *)
  && (Nat.eqb (length (evicted c e)) 0 || negb (Nat.eqb (length (filter (insert_ok e) (ev_after e))) 0)).

(** ** C03: lease exclusivity *)
Definition lease_ids (l : list msg) : list N :=
  flat_map (fun m => match m_lease m with Some x => [x] | None => [] end) l.

Definition c03_item (e : event) (route target : option N) (it : N * N * Z * Z) : bool :=
  let '(i, lid, att, un) := it in
  let now := op_now (ev_op e) in
  match find_id i (ev_before e), find_id i (ev_after e) with
  | Some m, Some m' =>
      opt_match route (m_route m) && opt_match target (m_target m)
      && ((queuedb m && (m_next m <=? now)) || expired now m)
      && is_leased m' && optN_eqb (m_lease m') (Some lid)
      && (m_attempt m' =? m_attempt m + 1) && (att =? m_attempt m')
      && (un =? m_until m') && (now <? un)
      && negb (memN lid (lease_ids (ev_before e)))
  | _, _ => false
  end.

Definition c03_event (issued_before : list N) (e : event) : bool :=
  nodupN (lease_ids (ev_after e))
  && match ev_op e with
     | Dequeue _ route target _ _ =>
         match ev_res e with
         | RItems items =>
             nodupN (item_ids (ev_res e)) && nodupN (item_leases (ev_res e))
             && forallb (fun l => negb (memN l issued_before)) (item_leases (ev_res e))
             && forallb (c03_item e route target) items
         | RErr _ => true
         | _ => false
         end
     | _ =>
         (* nothing but a dequeue creates a lease or changes which lease a message carries *)
         forallb (fun m' => match m_lease m' with
                            | None => true
                            | Some l => match find_id (m_id m') (ev_before e) with
                                        | Some m => optN_eqb (m_lease m) (Some l)
                                        | None => false
                                        end
                            end) (ev_after e)
     end.

(** ** C04: lease fencing *)
Definition current (now : Z) (l : N) (ms : list msg) : option msg :=
  match find_lease l ms with
  | Some m => if is_leased m && (now <? m_until m) then Some m else None
  | None => None
  end.

Definition c04_msg (c : cfg) (e : event) (k : lease_kind) (single_ok : bool) (m : msg) : bool :=
  let now := op_now (ev_op e) in
  let after := find_id (m_id m) (ev_after e) in
  if presents (ev_op e) m && is_leased m then
    if now <? m_until m then
      (* the current lease: the operation's effect, or - for a single op that failed - nothing *)
      (single_ok && opt_msg_eqb after (lease_effect c now k m))
      || (negb single_ok && opt_msg_eqb after (Some m))
    else
      (* an expired lease: nothing, or the message goes back to the queue *)
      opt_msg_eqb after (Some m) || opt_msg_eqb after (Some (release now m))
  else opt_msg_eqb after (Some m).

Definition c04_event (c : cfg) (e : event) : bool :=
  let now := op_now (ev_op e) in
  match ev_op e with
  | LeaseOp _ k l =>
      if is_noop_extend k then
        match ev_res e with RUnit => forallb (fun m => opt_msg_eqb (find_id (m_id m) (ev_after e)) (Some m)) (ev_before e)
                                         && (Nat.eqb (length (ev_after e)) (length (ev_before e)))
                       | _ => false end
      else
        let ok := res_ok (ev_res e) in
        (* success only for the current, unexpired lease *)
        (negb ok || match lref_id l with
                    | Some x => match current now x (ev_before e) with Some _ => true | None => false end
                    | None => false
                    end)
        && forallb (c04_msg c e k ok) (ev_before e)
        && (Nat.eqb (length (inserted e)) 0)
  | LeaseBatch _ k ls =>
      match lease_op_kind (ev_op e), ev_res e with
      | Some k', RBatch n cs =>
          forallb (c04_msg c e k' true) (ev_before e)
          && (Nat.eqb (length (inserted e)) 0)
          (* succeeded = number of distinct current leases presented; every other presented id is a conflict *)
          && (n =? Z.of_nat (length (filter (fun m => presents (ev_op e) m && is_leased m && (now <? m_until m)) (ev_before e))))
          && (Z.of_nat (length cs) =? Z.of_nat (length ls) - n)
          && (Z.of_nat (length (filter (fun p : cref * bool => snd p) cs))
              =? Z.of_nat (length (filter (fun m => presents (ev_op e) m && expired now m) (ev_before e))))
      | _, _ => false
      end
  | _ => true
  end.

(** ** C05: at-least-once redelivery *)
Definition c05_event (e : event) : bool :=
  match ev_op e with
  | Dequeue now route target batch _ =>
      match ev_res e with
      | RItems items =>
          let b := clamp_batch batch in
          let survives (m : msg) := has_id (m_id m) (ev_after e) in
          let matches (m : msg) := opt_match route (m_route m) && opt_match target (m_target m) && survives m in
          let due (m : msg) := queuedb m && (m_next m <=? now) in
          let rmax := Z.of_nat (length (filter (fun m => matches m && (due m || expired now m)) (ev_before e))) in
          let rmin := Z.of_nat (length (filter (fun m => matches m && (due m || expired (now - sql_sweep_interval_ns) m)) (ev_before e))) in
          let n := Z.of_nat (length items) in
          (Z.min b rmin <=? n) && (n <=? Z.min b rmax)
          && forallb (fun i => match find_id i (ev_before e) with
                               | Some m => due m || expired now m
                               | None => false end) (item_ids (ev_res e))
      | RErr _ => true
      | _ => false
      end
  | _ => true
  end.

(** ** C12: admission by depth and drop policy *)
Fixpoint pos_in (i : N) (l : list N) : Z :=
  match l with
  | [] => 1000000000
  | x :: tl => if N.eqb x i then 0 else 1 + pos_in i tl
  end.

Definition c12_event (fl : flavour) (c : cfg) (ins_order : list N) (e : event) : bool :=
  match ev_op e with
  | Enqueue _ _ | EnqueueBatch _ (_ :: _) =>
      let k := Z.of_nat (length (enq_list (ev_op e))) in
      let pruned := filter (prune_eligible c e) (removed e) in
      let ev := filter (fun m => negb (prune_eligible c e m)) (removed e) in
      let base := filter (fun m => negb (memN (m_id m) (map m_id pruned))) (ev_before e) in
      let a := active base in
      let a' := match fl with
                | Mem => if 0 <? c_deliv_age c then Z.max a (active_deliv base) else a
                | Sql => a
                end in
      let rest := filter (fun m => negb (memN (m_id m) (map m_id ev))) base in
      if (0 <? c_max_depth c) && (c_max_depth c <? a') then true   (* active count already lifted above max_depth by an operator requeue/resume: excluded by the statement *)
      else if enq_success e then
        (Z.of_nat (length (filter (insert_ok e) (ev_after e))) =? k)
        && if 0 <? c_max_depth c then
             if c_drop_oldest c then
               forallb queuedb ev
               && (Z.of_nat (length ev) =? Z.max 0 (a' + k - c_max_depth c))
               (* oldest first: by received_at or by insertion order *)
               && forallb (fun v => forallb (fun q => negb (queuedb q)
                                                      || (m_recv v <=? m_recv q)
                                                      || (pos_in (m_id v) ins_order <? pos_in (m_id q) ins_order)) rest) ev
             else (Nat.eqb (length ev) 0) && (a' + k <=? c_max_depth c)
           else Nat.eqb (length ev) 0
      else
        (* refused: nothing evicted, nothing stored, nothing else touched *)
        (Nat.eqb (length ev) 0) && (Nat.eqb (length (inserted e)) 0)
        && forallb (fun m => opt_msg_eqb (find_id (m_id m) (ev_after e)) (Some m)) base
  | _ => true
  end.

(** ** C14: operator mutations touch exactly what they name *)
Definition c14_event (e : event) : bool :=
  let b := ev_before e in
  match ev_op e with
  | Manage now k ids =>
      let nids := norm_ids ids [] in
      let sel (m : msg) := memN (m_id m) nids && allowed_from k (m_st m) in
      forallb (fun m => opt_msg_eqb (find_id (m_id m) (ev_after e)) (if sel m then manage_effect now k m else Some m)) b
      && (Nat.eqb (length (inserted e)) 0)
      && match ev_res e with
         | RCount n _ false => n =? Z.of_nat (length (filter sel b))
         | _ => false
         end
  | ManageF now k f =>
      let ids := filter_select k f b in
      let sel (m : msg) := memN (m_id m) ids in
      match ev_res e with
      | RCount n matched prev =>
          Bool.eqb prev (f_preview f)
          && (matched =? Z.of_nat (length ids))
          && (Nat.eqb (length (inserted e)) 0)
          && if f_preview f then
               (n =? 0) && forallb (fun m => opt_msg_eqb (find_id (m_id m) (ev_after e)) (Some m)) b
             else
               (n =? Z.of_nat (length ids))
               && forallb (fun m => opt_msg_eqb (find_id (m_id m) (ev_after e))
                                                (if sel m then manage_effect now k m else Some m)) b
      | _ => false
      end
  | _ => true
  end.

(** ** running the monitors over a trace *)
Definition upd_ins (ins : list N) (e : event) : list N :=
  filter (fun i => has_id i (ev_after e) && negb (memN i (map m_id (filter (insert_ok e) (ev_after e))))) ins
  ++ map m_id (filter (insert_ok e) (ev_after e)).

(** index of the first event at which the monitor fails, -1 if none *)
Fixpoint first_fail (k : Z) (l : list bool) : Z :=
  match l with
  | [] => -1
  | true :: tl => first_fail (k + 1) tl
  | false :: _ => k
  end.

Fixpoint mon_all (fl : flavour) (c : cfg) (issued_before ins : list N) (evs : list event)
  : list (bool * bool * bool * bool * bool * bool) :=
  match evs with
  | [] => []
  | e :: tl =>
      (c02_event c e, c03_event issued_before e, c04_event c e, c05_event e, c12_event fl c ins e, c14_event e)
      :: mon_all fl c (issued_before ++ item_leases (ev_res e)) (upd_ins ins e) tl
  end.

Definition P_C02 (fl : flavour) (c : cfg) (evs : list event) : bool :=
  forallb (fun t => fst (fst (fst (fst (fst t))))) (mon_all fl c [] [] evs).
Definition P_C03 (fl : flavour) (c : cfg) (evs : list event) : bool :=
  forallb (fun t => snd (fst (fst (fst (fst t))))) (mon_all fl c [] [] evs).
Definition P_C04 (fl : flavour) (c : cfg) (evs : list event) : bool :=
  forallb (fun t => snd (fst (fst (fst t)))) (mon_all fl c [] [] evs).
Definition P_C05 (fl : flavour) (c : cfg) (evs : list event) : bool :=
  forallb (fun t => snd (fst (fst t))) (mon_all fl c [] [] evs).
Definition P_C12 (fl : flavour) (c : cfg) (evs : list event) : bool :=
  forallb (fun t => snd (fst t)) (mon_all fl c [] [] evs).
Definition P_C14 (fl : flavour) (c : cfg) (evs : list event) : bool :=
  forallb (fun t => snd t) (mon_all fl c [] [] evs).

Definition mon_summary (fl : flavour) (c : cfg) (evs : list event) : list Z :=
  let rows := mon_all fl c [] [] evs in
  [first_fail 0 (map (fun t => fst (fst (fst (fst (fst t))))) rows);
   first_fail 0 (map (fun t => snd (fst (fst (fst (fst t))))) rows);
   first_fail 0 (map (fun t => snd (fst (fst (fst t)))) rows);
   first_fail 0 (map (fun t => snd (fst (fst t))) rows);
   first_fail 0 (map (fun t => snd (fst t)) rows);
   first_fail 0 (map (fun t => snd t) rows);
   first_fail 0 (map (fun e => match ev_res e with RBadOracle => false | _ => true end) evs)].

(** correspondence entry point: checksums of the model trace + monitors on the model trace *)
Definition check_case (fl : flavour) (c : cfg) (xs : list (op * oracle)) (mask : list bool) : list Z * list Z :=
  let evs := model_trace fl c xs in
  (hash_trace mask evs, mon_summary fl c evs).
