(** Entry point used by the correspondence check, and the executable property
    monitors P_Cxx over traces (model traces and traces observed on the Go stores). *)
From Coq Require Import List ZArith NArith Bool.
From HK Require Import Gen.Consts Model.Queue Model.QueueHash.
Import ListNotations.
Open Scope Z_scope.

Definition check_case (fl : flavour) (c : cfg) (xs : list (op * oracle)) (mask : list bool) : list Z * list Z :=
  let evs := model_trace fl c xs in
  (hash_trace mask evs, []).
