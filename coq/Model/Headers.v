(** Byte-level model of the header plumbing on the ingress path (C07):
      - Go's [textproto.CanonicalMIMEHeaderKey] (= [http.CanonicalHeaderKey]),
      - [strings.ToLower] on ASCII, [strings.TrimSpace] on valid UTF-8,
      - how net/http collects the wire header lines into [r.Header] ([group]),
      - internal/ingress/http.go [copyHeadersWithExtra], [appendHeaderExtras], [headerKVSize],
      - internal/ingress/forward_auth.go: the copy_headers extras of [ForwardAuth.Authorize],
      - internal/dispatcher/push.go [classifyDelivery]: delivery headers/body.
    Bytes are [N] (each < 256, see [wf_bytes]); a Go [map[string]string] is an association
    list with set semantics ([mset]/[mget]); a nil map and an empty map are the same value. *)
From Coq Require Import List NArith ZArith Bool Ascii String.
Import ListNotations.
Open Scope N_scope.

Definition bytes := list N.
Definition wf_bytes (s : bytes) : bool := forallb (fun c => c <? 256) s.

(** byte string literal helper (ASCII) *)
Definition bs (s : string) : bytes := map N_of_ascii (list_ascii_of_string s).

Fixpoint beq (a b : bytes) : bool :=
  match a, b with
  | [], [] => true
  | x :: a', y :: b' => (x =? y) && beq a' b'
  | _, _ => false
  end.

Definition is_nil (a : bytes) : bool := match a with [] => true | _ => false end.

Definition in_range (lo hi c : N) : bool := (lo <=? c) && (c <=? hi).
Definition is_lower (c : N) : bool := in_range 97 122 c.
Definition is_upper (c : N) : bool := in_range 65 90 c.
Definition is_digit (c : N) : bool := in_range 48 57 c.

(** net/textproto validHeaderFieldByte (RFC 7230 token byte); identical to
    internal/httpheader isTokenByte *)
Definition token_specials : list N := [33; 35; 36; 37; 38; 39; 42; 43; 45; 46; 94; 95; 96; 124; 126].
Definition is_token (c : N) : bool :=
  is_digit c || is_lower c || is_upper c || existsb (N.eqb c) token_specials.

(** ** CanonicalMIMEHeaderKey *)
Definition canon_char (upper : bool) (c : N) : N :=
  if upper && is_lower c then c - 32
  else if negb upper && is_upper c then c + 32
  else c.

Fixpoint canon_go (upper : bool) (s : bytes) : bytes :=
  match s with
  | [] => []
  | c :: tl => let c' := canon_char upper c in c' :: canon_go (c' =? 45) tl
  end.

(** unchanged if any byte is not a token byte (a space included: both the quick path of
    CanonicalMIMEHeaderKey and the noCanon path of canonicalMIMEHeaderKey return the input),
    otherwise first letter and letters after '-' upper case, all other letters lower case *)
Definition canon_key (s : bytes) : bytes :=
  if forallb is_token s then canon_go true s else s.

(** ** strings.ToLower restricted to ASCII letters (all a header name can carry) *)
Definition to_lower (c : N) : N := if is_upper c then c + 32 else c.
Definition lower (s : bytes) : bytes := map to_lower s.

(** ** strings.TrimSpace on a valid UTF-8 string: unicode.IsSpace code points as byte sequences *)
Definition space_seqs : list bytes :=
  [ [9]; [10]; [11]; [12]; [13]; [32];
    [194; 133]; [194; 160];                         (* U+0085 U+00A0 *)
    [225; 154; 128];                                (* U+1680 *)
    [226; 128; 128]; [226; 128; 129]; [226; 128; 130]; [226; 128; 131]; [226; 128; 132]; [226; 128; 133];
    [226; 128; 134]; [226; 128; 135]; [226; 128; 136]; [226; 128; 137]; [226; 128; 138];   (* U+2000..U+200A *)
    [226; 128; 168]; [226; 128; 169]; [226; 128; 175];  (* U+2028 U+2029 U+202F *)
    [226; 129; 159];                                (* U+205F *)
    [227; 128; 128] ].                              (* U+3000 *)

Fixpoint strip_prefix (p s : bytes) : option bytes :=
  match p with
  | [] => Some s
  | x :: p' => match s with
               | y :: s' => if x =? y then strip_prefix p' s' else None
               | [] => None
               end
  end.

Fixpoint strip_any (ps : list bytes) (s : bytes) : option bytes :=
  match ps with
  | [] => None
  | p :: tl => match strip_prefix p s with Some r => Some r | None => strip_any tl s end
  end.

Fixpoint ltrim_with (ps : list bytes) (fuel : nat) (s : bytes) : bytes :=
  match fuel with
  | O => s
  | S f => match strip_any ps s with Some r => ltrim_with ps f r | None => s end
  end.

Definition ltrim (s : bytes) : bytes := ltrim_with space_seqs (List.length s) s.
Definition rtrim (s : bytes) : bytes :=
  rev (ltrim_with (map (@rev N) space_seqs) (List.length s) (rev s)).
Definition trim_space (s : bytes) : bytes := rtrim (ltrim s).

(** ** maps *)
Definition smap := list (bytes * bytes).            (* map[string]string *)
Definition hdr := list (bytes * list bytes).        (* http.Header *)

Fixpoint mget (k : bytes) (m : smap) : option bytes :=
  match m with
  | [] => None
  | (k', v) :: tl => if beq k k' then Some v else mget k tl
  end.

Fixpoint mset (k v : bytes) (m : smap) : smap :=
  match m with
  | [] => [(k, v)]
  | (k', v') :: tl => if beq k k' then (k, v) :: tl else (k', v') :: mset k v tl
  end.

Fixpoint hget (k : bytes) (h : hdr) : option (list bytes) :=
  match h with
  | [] => None
  | (k', vs) :: tl => if beq k k' then Some vs else hget k tl
  end.

(** textproto.MIMEHeader.Add on an already canonical key *)
Fixpoint hadd (k v : bytes) (h : hdr) : hdr :=
  match h with
  | [] => [(k, [v])]
  | (k', vs) :: tl => if beq k k' then (k', vs ++ [v]) :: tl else (k', vs) :: hadd k v tl
  end.

(** http.Header.Set on an already canonical key *)
Fixpoint hset (k : bytes) (vs : list bytes) (h : hdr) : hdr :=
  match h with
  | [] => [(k, vs)]
  | (k', vs') :: tl => if beq k k' then (k, vs) :: tl else (k', vs') :: hset k vs tl
  end.

(** what net/http's request reader does with the header lines it accepted: the key is
    canonicalised, values of one key are appended in wire order *)
Definition group (w : list (bytes * bytes)) : hdr :=
  fold_left (fun h p => hadd (canon_key (fst p)) (snd p) h) w [].

(** strings.Join(v, ",") *)
Fixpoint join_comma (vs : list bytes) : bytes :=
  match vs with
  | [] => []
  | v :: tl => match tl with [] => v | _ => v ++ 44 :: join_comma tl end
  end.

(** ** the stripped names (switch in copyHeadersWithExtra) *)
Definition s_authorization : bytes := Eval compute in bs "authorization".
Definition s_proxy_authorization : bytes := Eval compute in bs "proxy-authorization".
Definition s_cookie : bytes := Eval compute in bs "cookie".
Definition stripped_names : list bytes := [s_authorization; s_proxy_authorization; s_cookie].

Definition stripped (k : bytes) : bool := existsb (beq (lower k)) stripped_names.

(** ** copyHeadersWithExtra *)
Definition copy_step (out : smap) (e : bytes * list bytes) : smap :=
  if stripped (fst e) then out else mset (canon_key (fst e)) (join_comma (snd e)) out.

Definition copy_base (h : hdr) : smap := fold_left copy_step h [].

(** appendHeaderExtras *)
Definition extra_step (out : smap) (e : bytes * bytes) : smap :=
  let name := canon_key (trim_space (fst e)) in
  if is_nil name then out else mset name (snd e) out.

Definition append_extras (out : smap) (extra : smap) : smap := fold_left extra_step extra out.

(** headerKVSize *)
Definition kv_size (m : smap) : Z :=
  fold_right (fun e acc => (Z.of_nat (List.length (fst e)) + Z.of_nat (List.length (snd e)) + acc)%Z) 0%Z m.

Inductive copy_res := CopyReject | CopyOk (m : smap).   (* CopyOk [] is the nil map *)

Definition copy_headers (h : hdr) (max : Z) (extra : smap) : copy_res :=
  if (max <=? 0)%Z then
    match h, extra with [], [] => CopyOk [] | _, _ => CopyReject end
  else
    let out := append_extras (copy_base h) extra in
    if (max <? kv_size out)%Z then CopyReject else CopyOk out.

(** ** ForwardAuth.Authorize, 2xx branch: the extras handed to copyHeadersWithExtra.
    [resp] is the auth service's response header as net/http parsed it (canonical keys). *)
Definition forward_step (resp : hdr) (out : smap) (name : bytes) : smap :=
  let n := canon_key (trim_space name) in
  if is_nil n then out
  else match hget n resp with
       | Some (v :: vs) => mset n (join_comma (v :: vs)) out
       | _ => out
       end.

Definition forward_extras (copy_names : list bytes) (resp : hdr) : smap :=
  fold_left (forward_step resp) copy_names [].

(** ** push delivery (classifyDelivery): header.Set(k, v) per stored pair; body = payload *)
Definition delivery_headers (stored : smap) : hdr :=
  fold_left (fun h e => hset (canon_key (fst e)) [snd e] h) stored [].
Definition delivery_body (payload : bytes) : bytes := payload.

(** the value appendHeaderExtras leaves under key [k]: the last extra whose trimmed,
    canonicalised name is [k] *)
Definition extra_upd (k : bytes) (r : option bytes) (e : bytes * bytes) : option bytes :=
  let n := canon_key (trim_space (fst e)) in
  if negb (is_nil n) && beq k n then Some (snd e) else r.
Definition extra_lookup (k : bytes) (extra : smap) : option bytes := fold_left (extra_upd k) extra None.

(** the values, in wire order, of all received lines whose name canonicalises like [n] *)
Definition wire_values (n : bytes) (w : list (bytes * bytes)) : list bytes :=
  map snd (filter (fun p => beq (canon_key (fst p)) (canon_key n)) w).

(** checksum used by the correspondence (not part of any theorem) *)
Definition HM : N := 2305843009213693951.
Definition hash_bytes (b : bytes) : N := fold_left (fun h c => (h * 1000003 + c + 1) mod HM) b 7.
Definition hash_smap (m : smap) : N :=
  fold_left (fun acc e => (acc + (hash_bytes (fst e) * 31 + hash_bytes (snd e)) mod HM) mod HM) m 11.
