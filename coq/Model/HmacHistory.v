(** Histories of one HMAC-protected route path: requests (each one atomic step: the clock reading,
    the tolerance test and the nonce cache step happen under the cache mutex, the rest of Verify is
    a pure function of the request) interleaved with configuration reloads.  The order of the list
    is the lock order.  Also the executable property predicate [P_C09] over observation traces. *)
From Coq Require Import ZArith List Bool NArith.
From HK Require Import Model.NonceCache Model.Hmac Model.ReloadAuth.
Import ListNotations.
Open Scope Z_scope.

Inductive event :=
| EReq (now : Z) (r : hreq)               (* a request reaches HMACAuthFor(route) / Verify; [now] = its clock reading *)
| EReload (new : option hmac_cfg).        (* loadAuth with a configuration giving the path these settings *)

(** The part of Verify before the cache: trimmed (signature, timestamp text, nonce) and the parsed
    timestamp.  [None] = rejected before the nonce cache is consulted. *)
Definition verify_pre (cfg : hmac_cfg) (r : hreq) : option (bytes * bytes * bytes * Z) :=
  let sig_hex := trim_space (header_get (h_sig cfg) (q_headers r)) in
  let ts_text := trim_space (header_get (h_ts cfg) (q_headers r)) in
  let nonce := trim_space (header_get (h_nonce cfg) (q_headers r)) in
  match sig_hex, ts_text, nonce with
  | [], _, _ | _, [], _ | _, _, [] => None
  | _, _, _ => match parse_int ts_text with
               | None => None
               | Some ts => Some (sig_hex, ts_text, nonce, ts)
               end
  end.

(** (nonce, signed instant) when the request is admitted by the nonce step (nonceCache.cache_admit = true) *)
Definition admitted (cfg : hmac_cfg) (c : cache) (now : Z) (r : hreq) : option (bytes * Z) :=
  if no_secrets_configured cfg then None else
  match verify_pre cfg r with
  | None => None
  | Some (_, _, nonce, ts) =>
      if fst (cache_admit nonce (ts * sec) (h_tol cfg) now c) then Some (nonce, ts * sec) else None
  end.

Section Crypto.
Variable sha256 : bytes -> bytes.
Variable hmac : bytes -> bytes -> bytes.

(** one step; the boolean = "the request passed the HMAC stage" *)
Definition step (s : pstate) (e : event) : pstate * bool :=
  match e with
  | EReload new => (reload_path new s, false)
  | EReq now r =>
      match p_active s with
      | None => (s, true)                                   (* HMACAuthFor(route) == nil *)
      | Some a =>
          let '(ok, c') := verify sha256 hmac (a_cfg a) (a_cache a) now r in
          ({| p_active := Some {| a_cfg := a_cfg a; a_cache := c' |}; p_retired := p_retired s |}, ok)
      end
  end.

Fixpoint run (s : pstate) (h : list event) : pstate :=
  match h with
  | [] => s
  | e :: tl => run (fst (step s e)) tl
  end.

Fixpoint results (s : pstate) (h : list event) : list bool :=
  match h with
  | [] => []
  | e :: tl => snd (step s e) :: results (fst (step s e)) tl
  end.

(** (clock reading, tolerance in force) of every request that found an authenticator *)
Fixpoint checkpoints (s : pstate) (h : list event) : list (Z * Z) :=
  match h with
  | [] => []
  | e :: tl =>
      match e, p_active s with
      | EReq now _, Some a => (now, h_tol (a_cfg a)) :: checkpoints (fst (step s e)) tl
      | _, _ => checkpoints (fst (step s e)) tl
      end
  end.

End Crypto.

Definition admit_of (s : pstate) (now : Z) (r : hreq) : option (bytes * Z) :=
  match p_active s with
  | None => None
  | Some a => admitted (a_cfg a) (a_cache a) now r
  end.

(** clock readings non-decreasing along the history, starting from [t0] *)
Fixpoint clock_mono (t0 : Z) (h : list event) : Prop :=
  match h with
  | [] => True
  | EReq now _ :: tl => t0 <= now /\ clock_mono now tl
  | EReload _ :: tl => clock_mono t0 tl
  end.

(** every authenticator a reload installs has a positive tolerance (Compile + loadAuth: a
    non-positive tolerance is refused / replaced by the default 5m) *)
Fixpoint tol_positive (h : list event) : Prop :=
  match h with
  | [] => True
  | EReload (Some cfg) :: tl => 0 < h_tol cfg /\ tol_positive tl
  | _ :: tl => tol_positive tl
  end.

(** ** The property as an executable predicate over an observation trace.
    One record per request that was ACCEPTED on the route: nonce (numbered), signed instant (ns),
    clock reading, tolerance in force.  No two acceptances of one nonce unless the earlier one's
    window [.. , signed + tol] was over at the later reading. *)
Record acc := { ac_nonce : N; ac_signed : Z; ac_now : Z; ac_tol : Z }.

Fixpoint no_later_dup (a : acc) (later : list acc) : bool :=
  match later with
  | [] => true
  | b :: tl => (negb (N.eqb (ac_nonce a) (ac_nonce b)) || (ac_signed a + ac_tol b <? ac_now b)) && no_later_dup a tl
  end.

Fixpoint P_C09 (tr : list acc) : bool :=
  match tr with
  | [] => true
  | a :: tl => no_later_dup a tl && P_C09 tl
  end.
