(** Model of ingress.Server.ServeHTTP (internal/ingress/http.go), in the order the handler is
    written: route -> rate limit -> adaptive backpressure -> basic auth -> bounded body read ->
    forward auth -> HMAC -> header copy/size -> per-target enqueue -> 202.
    Everything the handler asks somebody else is an oracle input: route resolution (C10), the token
    bucket (C12), the forward-auth service, the header size test (C07), the store's answers. *)
From Coq Require Import ZArith List Bool NArith.
From HK Require Import Model.NonceCache Model.Hmac Model.BasicAuth.
Import ListNotations.
Open Scope Z_scope.

(** what ForwardAuth.Authorize observes of the auth service *)
Inductive fwd_answer :=
| F2xx (copied : list (bytes * bytes))   (* any 2xx; the copy_headers it returned *)
| F401 | F403
| FOther                                 (* any other status (1xx, 3xx not followed, 4xx, 5xx) *)
| FTimeout | FUnreachable.               (* client.Do returned an error *)

(** ForwardAuth.Authorize: 0 = allow *)
Definition forward_status (a : fwd_answer) : Z :=
  match a with
  | F2xx _ => 0
  | F401 => 401
  | F403 => 403
  | FOther | FTimeout | FUnreachable => 503
  end.

Record route_cfg := {
  rc_basic : list (bytes * bytes);      (* basicByRoute: users; [] = none *)
  rc_forward : bool;                    (* forwardByRoute <> nil *)
  rc_hmac : option hmac_cfg;            (* hmacByRoute *)
  rc_targets : list bytes;              (* TargetsFor(route); [] = the single default target *)
  rc_max_body : Z
}.

Inductive resolved :=
| RNone (allowed_methods : bool)        (* no route; true = AllowedMethodsFor non-empty -> 405 *)
| RRoute (rc : route_cfg).

Record oracle := {
  o_rate_ok : bool;                     (* AllowRequestFor *)
  o_backpressure : option Z;            (* AllowEnqueueFor refused with this status (<=0 -> 503) *)
  o_body_err : bool;                    (* reading the body failed for a reason other than its size *)
  o_fwd : fwd_answer;
  o_hdr_fit : bool;                     (* copyHeadersWithExtra ok *)
  o_enq : list bool                     (* result of the k-th Store.Enqueue (missing = success) *)
}.

Definition default_target : bytes := [112;117;108;108]%N.   (* "pull" *)

(** the enqueue loop: stops at the first failure; returns (all succeeded, targets enqueued) *)
Fixpoint enqueue_all (targets : list bytes) (res : list bool) : bool * list bytes :=
  match targets with
  | [] => (true, [])
  | t :: tl =>
      match res with
      | false :: _ => (false, [])
      | _ => let '(ok, done) := enqueue_all tl (List.tl res) in (ok, t :: done)
      end
  end.

Section Crypto.
Variable sha256 : bytes -> bytes.
Variable hmac : bytes -> bytes -> bytes.

(** result: HTTP status, targets for which Store.Enqueue succeeded (in order), nonce cache *)
Definition serve (rs : resolved) (c : cache) (now : Z) (r : hreq) (o : oracle) : Z * list bytes * cache :=
  match rs with
  | RNone allowed => (if allowed then 405 else 404, [], c)
  | RRoute rc =>
    if negb (o_rate_ok o) then (429, [], c) else
    match o_backpressure o with
    | Some st => (if st <=? 0 then 503 else st, [], c)
    | None =>
      if negb (basic_verify (rc_basic rc) (q_headers r)) then (401, [], c) else
      if Z.of_nat (length (q_body r)) >? rc_max_body rc then (413, [], c) else
      if o_body_err o then (400, [], c) else
      let fst_ := if rc_forward rc then forward_status (o_fwd o) else 0 in
      if negb (fst_ =? 0) then (fst_, [], c) else
      let '(hok, c1) := match rc_hmac rc with
                        | None => (true, c)
                        | Some cfg => verify sha256 hmac cfg c now r
                        end in
      if negb hok then (401, [], c1) else
      if negb (o_hdr_fit o) then (413, [], c1) else
      let targets := match rc_targets rc with [] => [default_target] | ts => ts end in
      let '(ok, done) := enqueue_all targets (o_enq o) in
      (if ok then 202 else 503, done, c1)
    end
  end.

End Crypto.
