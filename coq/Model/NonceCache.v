(** Model of the nonce cache of internal/ingress/hmac.go (nonceCache.cache_admit, nonceCache.seenOnceLocked,
    nonceCache.extend, HMACAuth.InheritNonces).  Time = [Z] nanoseconds since the epoch; a nonce is a byte list.
    The Go map nonce -> expiry is an association list with unique keys (invariant [NoDup (map fst c)],
    kept by every operation; order is not observable). *)
From Coq Require Import ZArith List Bool NArith.
Import ListNotations.
Open Scope Z_scope.

Definition bytes := list N.
Definition bytes_eq_dec : forall a b : bytes, {a = b} + {a <> b} := list_eq_dec N.eq_dec.
Definition beqb (a b : bytes) : bool := if bytes_eq_dec a b then true else false.

Definition cache := list (bytes * Z).

Fixpoint lookup (k : bytes) (c : cache) : option Z :=
  match c with
  | [] => None
  | (k', e) :: tl => if beqb k k' then Some e else lookup k tl
  end.

Definition remove_key (k : bytes) (c : cache) : cache :=
  filter (fun kv => negb (beqb k (fst kv))) c.

(** c.m[nonce] = expiresAt *)
Definition set_key (k : bytes) (e : Z) (c : cache) : cache := (k, e) :: remove_key k c.

(** "Opportunistic cleanup": for k, exp := range c.m { if now.After(exp) { delete(c.m, k) } } *)
Definition cleanup (now : Z) (c : cache) : cache :=
  filter (fun kv => negb (now >? snd kv)) c.

(** nonceCache.seenOnceLocked(nonce, expiresAt, now): reports whether the nonce was new. *)
Definition seen_once_locked (nonce : bytes) (expires_at now : Z) (c : cache) : bool * cache :=
  match nonce with
  | [] => (false, c)                                   (* if nonce == "" { return false } *)
  | _ =>
      let c1 := cleanup now c in
      match lookup nonce c1 with
      | Some e => if negb (now >? e)                  (* ok && !now.After(exp) *)
                  then (false, c1)
                  else (true, set_key nonce expires_at c1)
      | None => (true, set_key nonce expires_at c1)
      end
  end.

(** nonceCache.cache_admit(nonce, signedAt, tolerance): ONE critical section = one atomic step:
    read the clock ([now] is that reading), test the tolerance, then seenOnceLocked. *)
Definition cache_admit (nonce : bytes) (signed_at tol now : Z) (c : cache) : bool * cache :=
  let d := now - signed_at in
  if (0 <? tol) && ((d <? - tol) || (tol <? d)) then (false, c)
  else seen_once_locked nonce (signed_at + tol) now c.

(** nonceCache.extend(by) *)
Definition extend (by_ : Z) (c : cache) : cache := map (fun kv => (fst kv, snd kv + by_)) c.

(** HMACAuth.InheritNonces(prev): [prev] = (tolerance, cache) of the authenticator being replaced,
    [None] when there is none (prev == nil).  Result: the cache the new authenticator starts with. *)
Definition inherit_nonces (new_tol : Z) (prev : option (Z * cache)) : cache :=
  match prev with
  | None => []                                         (* keeps the fresh cache of NewHMACAuth *)
  | Some (ptol, c) =>
      let grow := new_tol - ptol in
      if grow >? 0 then extend grow c else c
  end.
