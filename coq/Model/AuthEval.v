(** Glue used only by the correspondence (props/c08.py, props/c09.py): runs the models, instantiated
    with the Gallina SHA-256/HMAC test oracle, over generated cases and projects the observables to
    numbers.  No theorem depends on this file. *)
From Coq Require Import ZArith List Bool NArith.
From HK Require Import Model.NonceCache Model.Hmac Model.Sha256 Model.BasicAuth Model.Ingress
  Model.Reload Model.HmacHistory Model.AuthCompile.
Import ListNotations.
Open Scope Z_scope.

Definition verify_c := verify sha256 hmac_sha256.
Definition serve_c := serve sha256 hmac_sha256.
Definition step_c := step sha256 hmac_sha256.

(** order-independent checksum of a cache (cheap: no division): sum of expiry * (weighted byte sum of the nonce) *)
Fixpoint nonce_weight (i : Z) (n : bytes) : Z :=
  match n with
  | [] => 1
  | b :: tl => i * (Z.of_N b + 1) + nonce_weight (i + 1) tl
  end.
Definition cache_checksum (c : cache) : Z :=
  fold_left (fun acc kv => acc + nonce_weight 1 (fst kv) * snd kv) c 0.

(** ** white-box histories of one authenticator (C09) *)
Inductive wev :=
| WReq (now : Z) (r : hreq) (snap : bool)
| WInherit (cfg : hmac_cfg) (snap : bool).

(** per event: (accepted, cache size, checksum or 0) *)
Fixpoint wb_run (cfg : hmac_cfg) (c : cache) (h : list wev) : list (Z * Z * Z) :=
  match h with
  | [] => []
  | WReq now r snap :: tl =>
      let '(ok, c') := verify_c cfg c now r in
      ((if ok then 1 else 0), Z.of_nat (length c'), if snap then cache_checksum c' else 0) :: wb_run cfg c' tl
  | WInherit cfg' snap :: tl =>
      let c' := inherit_nonces (h_tol cfg') (Some (h_tol cfg, c)) in
      (1, Z.of_nat (length c'), if snap then cache_checksum c' else 0) :: wb_run cfg' c' tl
  end.

(** ** black-box histories of one route path (C09): results of HmacHistory.step *)
Fixpoint bb_run (s : pstate) (h : list event) : list Z :=
  match h with
  | [] => []
  | e :: tl => let '(s', ok) := step_c s e in (if ok then 1 else 0) :: bb_run s' tl
  end.

(** ** sequences of requests through the handler model (C08): (status, number enqueued) *)
Record scase := { sc_rs : resolved; sc_now : Z; sc_req : hreq; sc_or : oracle }.

Fixpoint serve_run (c : cache) (l : list scase) : list (Z * Z) :=
  match l with
  | [] => []
  | x :: tl =>
      let '(st, enq, c') := serve_c (sc_rs x) c (sc_now x) (sc_req x) (sc_or x) in
      (st, Z.of_nat (length enq)) :: serve_run c' tl
  end.

(** library twins compared with Go on every generated input *)
Definition opt_bytes_code (o : option (bytes * bytes)) : list bytes :=
  match o with None => [] | Some (u, p) => [[1%N]; u; p] end.
