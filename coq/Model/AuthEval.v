(** Glue used only by the correspondence (props/c08.py, props/c09.py): runs the models, instantiated
    with the Gallina SHA-256/HMAC test oracle, over generated cases and projects the observables to
    numbers.  No theorem depends on this file. *)
From Coq Require Import ZArith List Bool NArith.
From HK Require Import Model.NonceCache Model.Hmac Model.Sha256 Model.BasicAuth Model.Ingress
  Model.ReloadAuth Model.HmacHistory Model.AuthCompile.
Import ListNotations.
Open Scope Z_scope.

Definition verify_c := verify sha256 hmac_sha256.
Definition serve_c := serve sha256 hmac_sha256.
Definition step_c := step sha256 hmac_sha256.

(** order-independent checksum of a cache (cheap: no division): sum of expiry * (weighted byte sum of the nonce) *)
Fixpoint nonce_weight (i : Z) (n : bytes) : Z :=
  match n with
  | [] => 1
  | b :: tl => i * (Z.of_N b + 1) + nonce_weight (i + 1) tl
  end.
Definition cache_checksum (c : cache) : Z :=
  fold_left (fun acc kv => acc + nonce_weight 1 (fst kv) * snd kv) c 0.

(** decimal spelling of a non-negative number (only used to build filler requests compactly) *)
Fixpoint dec_digits (fuel : nat) (n : N) (acc : bytes) : bytes :=
  match fuel with
  | O => acc
  | S f => let acc' := (48 + n mod 10)%N :: acc in
           if (n <? 10)%N then acc' else dec_digits f (n / 10)%N acc'
  end.
Definition dec_bytes (n : N) : bytes := dec_digits 40 n [].

(** a request carrying exactly the three HMAC headers, once each *)
Definition wreq3 (names : bytes * bytes * bytes) (m p sg ts nn body : bytes) : hreq :=
  let '(a, b, c) := names in
  {| q_method := m; q_path := p; q_headers := [(a, [sg]); (b, [ts]); (c, [nn])]; q_body := body |}.

(** filler: POST /hooks, empty body, signature "zz" (not hex: rejected after the nonce is recorded),
    timestamp [ts] and nonce "f<idx>" in decimal *)
Definition wfill (names : bytes * bytes * bytes) (ts idx : N) : hreq :=
  wreq3 names [80;79;83;84]%N [47;104;111;111;107;115]%N [122;122]%N (dec_bytes ts) (102%N :: dec_bytes idx) [].

(** ** white-box histories of one authenticator (C09) *)
Inductive wev :=
| WReq (now : Z) (r : hreq) (snap : bool)
| WInherit (cfg : hmac_cfg) (snap : bool).

(** per event: (accepted, cache size, checksum or 0) *)
Fixpoint wb_run (cfg : hmac_cfg) (c : cache) (h : list wev) : list (Z * Z * Z) :=
  match h with
  | [] => []
  | WReq now r snap :: tl =>
      let '(ok, c') := verify_c cfg c now r in
      ((if ok then 1 else 0), Z.of_nat (length c'), if snap then cache_checksum c' else 0) :: wb_run cfg c' tl
  | WInherit cfg' snap :: tl =>
      let c' := inherit_nonces (h_tol cfg') (Some (h_tol cfg, c)) in
      (1, Z.of_nat (length c'), if snap then cache_checksum c' else 0) :: wb_run cfg' c' tl
  end.

(** ** black-box histories of one route path (C09): results of HmacHistory.step *)
Fixpoint bb_run (s : pstate) (h : list event) : list Z :=
  match h with
  | [] => []
  | e :: tl => let '(s', ok) := step_c s e in (if ok then 1 else 0) :: bb_run s' tl
  end.

(** ** sequences of requests through the handler model (C08): (status, number enqueued) *)
Record scase := { sc_rs : resolved; sc_now : Z; sc_req : hreq; sc_or : oracle }.

Fixpoint serve_run (c : cache) (l : list scase) : list (Z * Z) :=
  match l with
  | [] => []
  | x :: tl =>
      let '(st, enq, c') := serve_c (sc_rs x) c (sc_now x) (sc_req x) (sc_or x) in
      (st, Z.of_nat (length enq)) :: serve_run c' tl
  end.

(** library twins compared with Go on every generated input *)
Definition opt_bytes_code (o : option (bytes * bytes)) : list bytes :=
  match o with None => [] | Some (u, p) => [[1%N]; u; p] end.

Fixpoint bweight (i : Z) (n : bytes) : Z :=
  match n with [] => 0 | b :: tl => i * (Z.of_N b + 1) + bweight (i + 1) tl end.

(** parseBasicAuth projected to numbers: (ok, |user|, weight user, |pass|, weight pass) *)
Definition basic_code (v : bytes) : Z * Z * Z * Z * Z :=
  match parse_basic v with
  | None => (0, 0, 0, 0, 0)
  | Some (u, p) => (1, Z.of_nat (length u), bweight 1 u, Z.of_nat (length p), bweight 1 p)
  end.

(** strings.TrimSpace / strconv.ParseInt / hex.DecodeString projected to numbers *)
Definition trim_code (v : bytes) : Z * Z := (Z.of_nat (length (trim_space v)), bweight 1 (trim_space v)).
Definition parse_int_code (v : bytes) : Z * Z := match parse_int v with None => (0, 0) | Some z => (1, z) end.
Definition hex_code (v : bytes) : Z * Z * Z :=
  match hex_decode v with None => (0, 0, 0) | Some b => (1, Z.of_nat (length b), bweight 1 b) end.
Definition secrets_code (cfg : hmac_cfg) (t : Z) : Z * Z :=
  let l := secrets_at cfg t in (Z.of_nat (length l), fold_left (fun acc k => acc + bweight 1 k) l 0).
