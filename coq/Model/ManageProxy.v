(** The MCP queue-mutation tools in Admin-proxy mode (C14; audit clause of C20):

    internal/mcp/server.go   queueBackendUsesAdminProxy, resolveIDMutationPolicyContext, queueToolsUseAdminProxy,
                             toolMessagesCancel / Requeue / Resume, toolDLQRequeue / toolDLQDelete,
                             toolMessages{Cancel,Requeue,Resume}ByFilter (the [useAdminProxy] branches),
                             mutationAuditHeaders, messageManageFilterPayload, scopedMessageManageFilterPayload,
                             managedEndpointMessageActionPath, callAdminJSON, shouldRetryAdminProxyCall,
                             validateAdminProxyEndpointURL, withAuditPrincipal

    When the compiled queue backend is not SQLite (memory, postgres) a tool call is

        MCP argument validation  (the functions of Model/ManageGlue.v: parse_maudit, mcp_parse_ids, mcp_parse_filter)
      ; one Admin API request     ([admin_request] of Model/ManageGlue.v, on the store of the running instance)
      ; the Admin answer handed back as the tool result (a 2xx JSON object is passed through, anything else is an
        error result).

    [callAdminJSON] is the transport: a loop of at most [max_attempts] attempts, 1 for every method except GET.
    What the network does to an attempt is an input ([fault]): the request may not reach the handler, the handler
    may run and its answer be lost, something in between may answer with a status of its own.

    Conventions as in Model/ManageGlue.v.  Audit strings ([paudit]) are the values parseString returns
    (strings.TrimSpace applied). *)
From Coq Require Import List ZArith NArith Bool.
From HK Require Import Gen.Consts Gen.AdminProxy Model.Queue Model.QueueHash Model.QueueMon Model.Headers Model.Publish Model.ManageGlue.
Import ListNotations.
Open Scope Z_scope.

(** ** callAdminJSON: the retry policy as the code has it *)
(** The numbers are read from the source on every run (translate/adminproxy.go -> Gen/AdminProxy.v): [maxAttempts := 1],
    raised to adminProxyRetryMaxGET only under [strings.EqualFold(method, http.MethodGet)]; the statuses of
    shouldRetryAdminProxyCall's switch.  The same file records that callAdminJSON has the shape this model assumes: one
    client.Do inside [for attempt := 1; attempt <= maxAttempts; attempt++], every [continue] directly under
    shouldRetryAdminProxyCall(attempt, maxAttempts, ..), which starts with [if attempt >= maxAttempts { return false }]
    ([ap_shape_ok]; Properties/C14proxy.v C14proxy_source_shape). *)
Definition proxy_retry_max_get : nat := Z.to_nat ap_attempts_get.
Definition proxy_attempts_other : nat := Z.to_nat ap_attempts_default.
(** shouldRetryAdminProxyCall: 408, 429, 500, 502, 503, 504 *)
Definition proxy_retry_statuses : list Z := ap_retry_statuses.

Inductive meth := MGet | MPost.

(** maxAttempts := 1; if strings.EqualFold(method, http.MethodGet) { maxAttempts = adminProxyRetryMaxGET } *)
Definition max_attempts (m : meth) : nat :=
  match m with MGet => proxy_retry_max_get | MPost => proxy_attempts_other end.

(** what happens to one attempt on the way (input) *)
Inductive fault :=
| FtPass                (* the request reaches the handler, the answer reaches the MCP server *)
| FtNoReach             (* connection refused / closed or reset before the request was read / held until the client
                           timed out and then dropped: client.Do fails, the handler never ran *)
| FtLost                (* the handler ran and answered; the answer never arrives (connection dropped after the
                           handler finished, answer cut short, request delivered after the client's timeout):
                           client.Do - or the decoding of the answer - fails *)
| FtGarbled             (* the handler ran; its status line arrives but the body is cut short: a 2xx answer cannot be
                           decoded ("decode admin response", returned without looking at the retry policy), any other
                           status is handled by its status *)
| FtStatus (st : Z).    (* something in between answers with status [st] (not 2xx); the handler never ran *)

Inductive cres := CErr | CResp (r : hresp).

Definition handler := state -> state * hresp.

Definition retry_status (st : Z) : bool := existsb (Z.eqb st) proxy_retry_statuses.

(** shouldRetryAdminProxyCall(attempt, maxAttempts, statusCode, err); [last]: attempt >= maxAttempts;
    [st = None]: err != nil *)
Definition should_retry (last : bool) (st : option Z) : bool :=
  if last then false
  else match st with None => true | Some s => retry_status s end.

Definition ok_status (st : Z) : bool := (200 <=? st) && (st <? 300).

(** the attempt loop; [left] = attempts not yet made.  Result: the store afterwards, what the caller gets, the
    number of requests sent and the number of requests the handler served *)
Fixpoint call_admin (left : nat) (fs : list fault) (h : handler) (s : state) : state * cres * (nat * nat) :=
  match left with
  | O => (s, CErr, (O, O))                 (* "request failed after N attempts" (not reachable for N >= 1) *)
  | S left' =>
      let last := match left' with O => true | _ => false end in
      let again (s1 : state) (served : nat) :=
        let '(s2, c, (sent, seen)) := call_admin left' (tl fs) h s1 in (s2, c, (S sent, (served + seen)%nat)) in
      match hd FtPass fs with
      | FtPass =>
          let '(s1, r) := h s in
          if ok_status (status_of r) then (s1, CResp r, (1%nat, 1%nat))
          else if should_retry last (Some (status_of r)) then again s1 1%nat
          else (s1, CResp r, (1%nat, 1%nat))
      | FtGarbled =>
          let '(s1, r) := h s in
          if ok_status (status_of r) then (s1, CErr, (1%nat, 1%nat))
          else if should_retry last (Some (status_of r)) then again s1 1%nat
          else (s1, CResp r, (1%nat, 1%nat))
      | FtNoReach => if should_retry last None then again s 0%nat else (s, CErr, (1%nat, 0%nat))
      | FtLost => let '(s1, _) := h s in
                  if should_retry last None then again s1 1%nat else (s1, CErr, (1%nat, 1%nat))
      | FtStatus st => if should_retry last (Some st) then again s 0%nat
                       else (s, CResp (HErr st (GPub CStoreUnavailable)), (1%nat, 0%nat))
      end
  end.

(** ** the tool side *)
Record xenv := mkXEnv {
  xe_gate : bool;                  (* toolAccessError = nil (C20) *)
  xe_principal : bytes;            (* trimmed --principal *)
  xe_cfg : ctx;                    (* the compiled configuration; the instance behind the Admin API runs with the same one *)
  xe_auth : bool;                  (* the bearer token loadAdminHealthToken takes from the configuration is accepted by the
                                      Admin server (or neither side has one) *)
  xe_allowed : bool }.             (* validateAdminProxyEndpointURL: no --admin-endpoint-allowlist, or an entry matches *)

Record paudit := mkPA {
  pa_wf : bool;                    (* reason / actor / request_id are strings within the length caps *)
  pa_reason : bytes; pa_actor : bytes; pa_reqid : bytes }.

(** the view parseMutationAuditArgs takes (Model/ManageGlue.v parse_maudit) *)
Definition ma_of (principal : bytes) (a : paudit) : maudit :=
  mkMA (pa_wf a) (negb (is_nil (pa_reason a)))
       (is_nil (pa_actor a) || is_nil principal || beq (pa_actor a) principal)
       (pa_reqid a).

(** bindAuditActorToPrincipal followed by mutationAuditHeaders: X-Hookaido-Audit-Reason, -Actor, X-Request-ID
    (an empty value = header not set) *)
Definition sent_audit (principal : bytes) (a : paudit) : audit :=
  mkAudit (pa_reason a) (if is_nil (pa_actor a) then principal else pa_actor a) (pa_reqid a).

Record pidargs := mkXI { xi_unknown : bool; xi_audit : paudit; xi_ids : ids_body }.

Record pfargs := mkXF {
  xf_unknown : bool; xf_wf : bool; xf_audit : paudit;
  xf_route : rroute; xf_app : lsel; xf_ep : lsel; xf_target : rid;
  xf_state : rstate; xf_before : tsel; xf_limit : mlimit; xf_preview : bool }.

Definition mi_of (principal : bytes) (a : pidargs) : midargs :=
  mkMI (xi_unknown a) (ma_of principal (xi_audit a)) (xi_ids a).

Definition mf_of (principal : bytes) (a : pfargs) : mfargs :=
  mkMF (xf_unknown a) (xf_wf a) (ma_of principal (xf_audit a)) (xf_route a) (xf_app a) (xf_ep a)
       (xf_target a) (xf_state a) (xf_before a) (xf_limit a) (xf_preview a).

(** one Admin API request as the tool builds it *)
Record sent := mkSent { sn_ep : endpoint; sn_req : hreq; sn_body : hbody }.
Inductive pdecision := PReject | PSend (r : sent).

Definition sent_hreq (e : xenv) (a : paudit) : hreq :=
  mkHReq (xe_auth e) true (sent_audit (xe_principal e) a).       (* http.MethodPost *)

(** toolMessagesCancel / Requeue / Resume, toolDLQRequeue / toolDLQDelete with ctx.useAdminProxy: the managed-route
    rule is left to the Admin server; map[string]any{"ids": ids} with the list parseIDs returned *)
Definition proxy_decide_ids (e : xenv) (k : manage_kind) (a : pidargs) : pdecision :=
  if negb (xe_gate e) then PReject
  else if xi_unknown a then PReject
  else
    match parse_maudit (ma_of (xe_principal e) (xi_audit a)) with
    | None => PReject
    | Some _ =>
        match xi_ids a with
        | IBBad => PReject
        | IBIds raw =>
            match mcp_parse_ids raw with
            | None => PReject
            | Some ids =>
                if negb (xe_allowed e) then PReject           (* callAdminJSON: the allowlist is checked before anything is sent *)
                else PSend (mkSent (EpIds k) (sent_hreq e (xi_audit a)) (BIds (IBIds (store_ids ids))))
            end
        end
    end.

(** messageManageFilterPayload (with_route) / scopedMessageManageFilterPayload: limit and preview_only always, the
    other keys only when set *)
Definition body_of_pfilt (with_route : bool) (p : pfilt) : fbody :=
  mkFBody (if with_route then match pf_route p with RSPath r => RtPlain r | _ => RtBlank end else RtBlank)
          LBlank LBlank
          (match pf_target p with Some t => RPlain t | None => RBlank end)
          (match pf_state p with Some s => RsKnown s | None => RsBlank end)
          (match pf_before p with Some t => TOk t | None => TAbsent end)
          (pf_limit p) (pf_preview p).

(** toolMessages{Cancel,Requeue,Resume}ByFilter with useAdmin *)
Definition proxy_decide_filter (e : xenv) (k : fkind) (a : pfargs) : pdecision :=
  if negb (xe_gate e) then PReject
  else
    match parse_maudit (ma_of (xe_principal e) (xf_audit a)) with
    | None => PReject
    | Some reqid =>
        match mcp_parse_filter (mcp_filter_tool_states k) (mf_of (xe_principal e) a) with
        | None => PReject
        | Some p =>
            let x := xe_cfg e in
            let q := sent_hreq e (xf_audit a) in
            match pf_app p, pf_ep p with
            | LValid ap, LValid ep =>
                (* validateScopedManagedAuditPolicyForFilterMutation, then resolveManagedRouteFilterWithCompiled *)
                if negb (mcp_managed_policy_ok x (xe_principal e) reqid) then PReject
                else match find_endpoint x ap ep with
                     | None => PReject
                     | Some _ =>
                         if negb (xe_allowed e) then PReject
                         else PSend (mkSent (EpScopedFilter k (LValid ap) (LValid ep)) q
                                            (BFilter (FBOk (body_of_pfilt false p))))
                     end
            | _, _ =>
                let blocked := match opt_route (pf_route p) with
                               | None => any_managed x
                               | Some r => route_is_managed x r
                               end in
                if blocked then PReject
                else if negb (xe_allowed e) then PReject
                else PSend (mkSent (EpFilter k) q (BFilter (FBOk (body_of_pfilt true p))))
            end
        end
    end.

Inductive ptool := PtIds (k : manage_kind) (a : pidargs) | PtFilter (k : fkind) (a : pfargs).

Definition proxy_decide (e : xenv) (t : ptool) : pdecision :=
  match t with
  | PtIds k a => proxy_decide_ids e k a
  | PtFilter k a => proxy_decide_filter e k a
  end.

(** the direct-mode twin of a proxy-mode call (same arguments, the SQLite path of Model/ManageGlue.v) *)
Definition direct_tool (e : xenv) (t : ptool) : mtool :=
  match t with
  | PtIds k a => MtIds k (mi_of (xe_principal e) a)
  | PtFilter k a => MtFilter k (mf_of (xe_principal e) a)
  end.

Definition direct_env (e : xenv) : menv := mkMEnv (xe_gate e) (xe_principal e) (Some (xe_cfg e)).

(** callAdminJSON's result handed back by the tool: a 2xx object is passed through (withAuditPrincipal only adds
    audit.principal), everything else is an error result *)
Definition tool_result (c : cres) : hresp :=
  match c with
  | CErr => HErr 0 GToolError
  | CResp (HErr _ _) => HErr 0 GToolError
  | CResp r => r
  end.

Definition sent_handler (x : ctx) (now : Z) (r : sent) : handler :=
  admin_request x now (sn_ep r) (sn_req r) (sn_body r).

(** one tool call under a fault script: store afterwards, tool result, (requests sent, requests served) *)
Definition proxy_request (e : xenv) (now : Z) (t : ptool) (fs : list fault) (s : state) : state * hresp * (nat * nat) :=
  match proxy_decide e t with
  | PReject => (s, HErr 0 GToolError, (O, O))
  | PSend r =>
      let '(s', c, n) := call_admin (max_attempts MPost) fs (sent_handler (xe_cfg e) now r) s in
      (s', tool_result c, n)
  end.

(** the listing tools (messages_list, dlq_list, ...): GET, the handler reads.  Only the transport is modelled:
    valid arguments, the listing itself is compared with the stored rows by the check *)
Definition read_handler (auth : bool) : handler :=
  fun s => (s, if auth then HIdsOk 0 else HErr 401 GUnauthorized).

Definition proxy_read (e : xenv) (fs : list fault) (s : state) : state * hresp * (nat * nat) :=
  if negb (xe_gate e) then (s, HErr 0 GToolError, (O, O))
  else if negb (xe_allowed e) then (s, HErr 0 GToolError, (O, O))
  else let '(s', c, n) := call_admin (max_attempts MGet) fs (read_handler (xe_auth e)) s in
       (s', tool_result c, n).

(** ** observables for the correspondence (not part of any theorem) *)
Inductive pcall :=
| PcTool (now : Z) (t : ptool) (fs : list fault)
| PcRead (fs : list fault).

(** the request a tool call sends, as numbers (compared with the request the forwarder of the harness read) *)
Definition hz (l : list Z) : Z := fold_left (fun a x => (a * 131 + x + 1) mod 1000000007) l 7.
Definition hbytes (b : bytes) : Z := hz (map Z.of_N b).
Definition lsel_num (l : lsel) : Z := match l with LBlank => 0 | LInvalid => -1 | LValid n => Z.of_N n end.
Definition kind_num (k : manage_kind) : Z :=
  match k with MCancel => 1 | MRequeue => 2 | MResume => 3 | MRequeueDead => 4 | MDeleteDead => 5 end.
Definition fkind_num (k : fkind) : Z := match k with FCancel => 1 | FRequeue => 2 | FResume => 3 end.

Definition body_obs (b : hbody) : list Z :=
  match b with
  | BIds IBBad | BFilter FBBad => [-1]
  | BIds (IBIds raw) =>
      [Z.of_nat (length raw);
       hz (map (fun r => match r with RBlank => 0 | RPlain i => Z.of_N i | RPadded i => - Z.of_N i end) raw)]
  | BFilter (FBOk f) =>
      [match fb_route f with RtBlank => 0 | RtNoSlash => -1 | RtPlain r => Z.of_N r | RtPadded r => - Z.of_N r end;
       lsel_num (fb_app f); lsel_num (fb_ep f);
       match fb_target f with RBlank => 0 | RPlain t => Z.of_N t | RPadded t => - Z.of_N t end;
       match fb_state f with RsBlank => 0 | RsKnown s => st_code s | RsUnknown => -1 end;
       match fb_before f with TAbsent => -1 | TBad => -2 | TOk t => t end;
       fb_limit f; b2z (fb_preview f)]
  end.

Definition sent_obs (d : pdecision) : list Z :=
  match d with
  | PReject => [0]
  | PSend r =>
      [1] ++ match sn_ep r with
             | EpIds k => [0; kind_num k; 0; 0]
             | EpFilter k => [1; fkind_num k; 0; 0]
             | EpScopedFilter k a e => [2; fkind_num k; lsel_num a; lsel_num e]
             end
          ++ [b2z (h_auth (sn_req r)); b2z (h_post (sn_req r));
              hbytes (a_reason (h_audit (sn_req r))); hbytes (a_actor (h_audit (sn_req r)));
              hbytes (a_reqid (h_audit (sn_req r)))]
          ++ body_obs (sn_body r)
  end.

(** per call: (status, code, count, matched, changed, preview), requests sent, requests served, the length of the
    description of the request, that description, then the rows that changed; at the end one checksum of all stored rows *)
Fixpoint run_proxy (e : xenv) (l : list msg) (cs : list pcall) : list (list Z) :=
  match cs with
  | [] => [[snap_obs true l]]
  | PcTool now t fs :: tl =>
      let '(s', r, (sent, seen)) := proxy_request e now t fs (state_of l) in
      let so := sent_obs (proxy_decide e t) in
      (resp_obs r ++ [Z.of_nat sent; Z.of_nat seen; Z.of_nat (length so)] ++ so ++ diff_obs true l (msgs s'))
        :: run_proxy e (msgs s') tl
  | PcRead fs :: tl =>
      let '(s', r, (sent, seen)) := proxy_read e fs (state_of l) in
      (resp_obs r ++ [Z.of_nat sent; Z.of_nat seen; 0] ++ diff_obs true l (msgs s')) :: run_proxy e (msgs s') tl
  end.
