(** Validated mutation of the configuration file
    (run.go mutateManagedEndpointConfig; mcp/server.go toolConfigApply + rollbackConfigFile,
    reached also from toolManagementEndpointUpsert/Delete).

    The file is one cell ([None] = does not exist).  writeFileAtomic either installs its argument or
    fails leaving the cell as it was (Model/FsAtomic.v is about that).  Oracles: does the candidate
    parse+compile; does each write succeed; does the post-write validation pass; does the reload
    (app: reloadConfig; mcp: waitForAdminHealth) succeed. *)
From Coq Require Import List Bool NArith.
Import ListNotations.

Definition cbytes := list N.

Inductive flavour := FApp | FMcpWriteOnly | FMcpWriteAndReload | FMcpPreview.

Inductive mres :=
| MInvalid                                   (* candidate does not parse/compile: refused before any write *)
| MPreviewed                                 (* mcp preview_only: validated, nothing written *)
| MWriteFailed
| MPostValidateFailed (rolled_back : bool)   (* app only: PostWriteValidate returned an error *)
| MReloadFailed (rolled_back : bool)
| MApplied.

Record morc := mkOrc { o_write : bool; o_post : bool; o_reload : bool; o_rollback : bool }.

Section Mutation.
  Variable valid : cbytes -> bool.           (* config.Parse + config.Compile accept *)

  (** [mutate fl file cand orc] = (file afterwards, result, contents written in order;
      [None] in that list = the file was removed by the rollback). *)
  Definition mutate (fl : flavour) (file : option cbytes) (cand : cbytes) (o : morc)
    : option cbytes * mres * list (option cbytes) :=
    if negb (valid cand) then (file, MInvalid, [])
    else match fl with
    | FMcpPreview => (file, MPreviewed, [])
    | FMcpWriteOnly =>
        if o_write o then (Some cand, MApplied, [Some cand]) else (file, MWriteFailed, [])
    | FMcpWriteAndReload =>
        if negb (o_write o) then (file, MWriteFailed, [])
        else if o_reload o then (Some cand, MApplied, [Some cand])
        else if o_rollback o then (file, MReloadFailed true, [Some cand; file])
        else (Some cand, MReloadFailed false, [Some cand])
    | FApp =>
        if negb (o_write o) then (file, MWriteFailed, [])
        else if negb (o_post o) then
               (if o_rollback o then (file, MPostValidateFailed true, [Some cand; file])
                else (Some cand, MPostValidateFailed false, [Some cand]))
        else if negb (o_reload o) then
               (if o_rollback o then (file, MReloadFailed true, [Some cand; file])
                else (Some cand, MReloadFailed false, [Some cand]))
        else (Some cand, MApplied, [Some cand])
    end.
End Mutation.
