(** Executable glue for evaluating generated C17 cases on the signing model (no part of any
    theorem).  The model is parametric in the hash functions; to *run* it the glue plugs in
    transparent stand-ins - sha256 := identity, hmac k m := k ++ "\n" ++ m - so that the
    result shows which secret was used and which canonical string was signed; the driver then
    applies the real SHA-256 / HMAC (Python hashlib) to exactly those.  (For the volume runs
    the driver passes the SHA-256 digest of the received body as the value of the sha256
    parameter - [const_sha] - instead of shipping the body through Coq.) *)
From Coq Require Import String Ascii List Bool ZArith NArith.
From HK Require Import Model.StrUtil Model.Signing.
Import ListNotations.
Local Open Scope string_scope.

Fixpoint sb (l : list N) : string :=
  match l with [] => EmptyString | b :: t => String (ascii_of_N b) (sb t) end.
Definition str_bytes (s : string) : list N := map N_of_ascii (list_ascii_of_string s).

Definition mkver (id ref : string) (from : Z) (has_until : bool) (until : Z) : version :=
  {| v_id := id; v_ref := ref; v_from := from; v_has_until := has_until; v_until := until |}.

Definition mkcfg (ref : string) (vs : list version) (m : option mode) (sigh tsh : string) : sign_cfg :=
  {| c_secret_ref := ref; c_versions := vs; c_mode := m; c_sig_header := sigh; c_ts_header := tsh |}.

(** secrets.LoadRef as a table: trimmed reference -> value (None = cannot be loaded) *)
Fixpoint load_tbl (tbl : list (string * option string)) (ref : string) : option string :=
  match tbl with
  | [] => None
  | (k, v) :: t => if (k =? trim_space ref) then v else load_tbl t ref
  end.

Definition id_sha (b : string) : string := b.
Definition const_sha (digest : string) (_ : string) : string := digest.
Definition cat_hmac (k m : string) : string := k ++ nl ++ m.

Fixpoint index_of (id : string) (vs : list version) (n : N) : N :=
  match vs with
  | [] => 0
  | v :: t => if (v_id v =? id) then n else index_of id t (n + 1)
  end.

(** "0" = nothing may be sent; "1,<selected version index+1, 0 = plain secret_ref>,<ts>,<sig>"
    where sig = hex (secret ++ "\n" ++ METHOD\npath\nts\nhex(digest)).  The result is an ASCII
    string (printing one string is far cheaper than printing a list of numerals). *)
Definition run_sign (c : sign_cfg) (tbl : list (string * option string)) (now : Z) (meth path digest : string) : string :=
  match sign (const_sha digest) cat_hmac (load_tbl tbl) c now meth path EmptyString with
  | None => "0"
  | Some (ts, sg) =>
      let sel := match c_versions c, c_mode c with
                 | [], _ => 0%N
                 | vs, Some m => match select m vs now with Some v => index_of (v_id v) vs 1 | None => 0%N end
                 | _, None => 0%N
                 end in
      "1," ++ dec (Z.of_N sel) ++ "," ++ ts ++ "," ++ sg
  end.

(** validity flags of every version at [t], then the selection under both rules (index+1, 0 = none) *)
Definition run_windows (vs : list version) (t : Z) : list N :=
  (map (fun v => if valid_at v t then 1%N else 0%N) vs
   ++ [match select Newest vs t with Some v => index_of (v_id v) vs 1 | None => 0%N end;
       match select Oldest vs t with Some v => index_of (v_id v) vs 1 | None => 0%N end])%list.

(** inbound: which versions are valid at the signed second [ts], and is a signature made with
    [key] accepted (hmac stand-in: the key itself) *)
Definition mkiv (id value : string) (from until : Z) : in_version :=
  {| iv_id := id; iv_value := value; iv_from := from; iv_until := until |}.

Definition run_inbound (vs : list in_version) (inline : list string) (ts : Z) (key : string) : list N :=
  ((if accepts (fun k _ => k) (secrets_for vs inline ts) "" key then 1%N else 0%N)
   :: map (fun v => if iv_valid_at v (ts * ns_per_s) then 1%N else 0%N) vs)%list.
