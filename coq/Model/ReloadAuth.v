(** Fragment of runtimeState.loadAuth / reloadConfig (internal/app/run.go) that concerns the HMAC
    authenticators: a reload REPLACES the authenticator of every route, the new one INHERITS the
    nonce cache of the one it replaces (HMACAuth.InheritNonces), and the authenticator of a route
    (or `auth hmac` block) that a reload drops is kept in [retiredHMAC] and inherited from when the
    path returns.  loadAuth treats every path independently, so the state is a function of the path. *)
From Coq Require Import ZArith List Bool NArith.
From HK Require Import Model.NonceCache Model.Hmac.
Import ListNotations.
Open Scope Z_scope.

Record auth := { a_cfg : hmac_cfg; a_cache : cache }.

(** what the runtime holds for one route path: hmacByRoute[path], retiredHMAC[path] *)
Record pstate := { p_active : option auth; p_retired : option auth }.

Definition p_init : pstate := {| p_active := None; p_retired := None |}.

Definition prev_of (s : pstate) : option auth :=
  match p_active s with Some a => Some a | None => p_retired s end.

(** loadAuth for one path; [new] = the HMAC settings the new configuration gives the path
    ([None]: route absent or without `auth hmac`). *)
Definition reload_path (new : option hmac_cfg) (s : pstate) : pstate :=
  match new with
  | None =>
      {| p_active := None;
         p_retired := match p_active s with Some a => Some a | None => p_retired s end |}
  | Some cfg =>
      {| p_active := Some {| a_cfg := cfg;
                             a_cache := inherit_nonces (h_tol cfg)
                                          (option_map (fun a => (h_tol (a_cfg a), a_cache a)) (prev_of s)) |};
         p_retired := None |}
  end.

(** whole runtime: path -> pstate; a configuration: path -> option hmac_cfg *)
Definition rstate := bytes -> pstate.
Definition r_init : rstate := fun _ => p_init.
Definition load_auth (new : bytes -> option hmac_cfg) (st : rstate) : rstate :=
  fun p => reload_path (new p) (st p).
