(** internal/app/run.go: resolveIngress, allowedMethodsFor, routeAcceptsIngress,
    matchMethods, matchHeaders, matchHeaderValues, matchQuery, matchQueryValues,
    parseRemoteAddrIP, matchRemoteIPs; net/netip Prefix.Contains / Addr.Unmap;
    net/textproto CanonicalMIMEHeaderKey; and the no-match branch of
    internal/ingress/http.go ServeHTTP.

    A request is what the handler sees after net/http parsed it: method,
    URL.Path, Host, the header map, URL.Query() and RemoteAddr.  [netip.ParseAddr]
    is a function argument (library, trusted base). *)
From Coq Require Import List NArith Bool.
From Coq Require Strings.String.
Import Coq.Strings.String.StringSyntax.
Delimit Scope string_scope with string.
From HK Require Import Model.RBytes Model.PathClean Model.PathMatch Model.HostMatch.
Import ListNotations.
Open Scope N_scope.

(** ---- addresses (net/netip) *)
Record ip := { ip_v4 : bool; ip_bits : N; ip_zone : bool }.
Record prefix := { p_v4 : bool; p_addr : N; p_len : N }.

Definition two32 : N := 4294967296.

(** Addr.Is4In6 / Addr.Unmap *)
Definition is4in6 (a : ip) : bool := negb (ip_v4 a) && (N.shiftr (ip_bits a) 32 =? 65535).
Definition unmap (a : ip) : ip :=
  if is4in6 a then {| ip_v4 := true; ip_bits := N.modulo (ip_bits a) two32; ip_zone := false |} else a.

Definition width (v4 : bool) : N := if v4 then 32 else 128.

(** Prefix.Contains: no zone, same family, equal on the first [p_len] bits. *)
Definition prefix_contains (p : prefix) (a : ip) : bool :=
  negb (ip_zone a) && Bool.eqb (p_v4 p) (ip_v4 a)
  && (N.shiftr (N.lxor (ip_bits a) (p_addr p)) (width (p_v4 p) - p_len p) =? 0).

(** ---- routes (config.CompiledRoute, the parts resolution reads) *)
Record route := {
  r_channel : bytes;                       (* ChannelType: "", "inbound", "outbound", "internal" *)
  r_path : bytes;
  r_methods : list bytes;
  r_hosts : list bytes;
  r_headers : list (bytes * bytes);        (* Match.Headers: name, value *)
  r_header_exists : list bytes;
  r_query : list (bytes * bytes);
  r_query_exists : list bytes;
  r_remote : list prefix;
  r_targets : list bytes                   (* deliver URLs; [] for pull routes *)
}.

Record request := {
  q_method : bytes;
  q_url_path : bytes;                      (* r.URL.Path as parsed by net/http *)
  q_host : bytes;                          (* r.Host *)
  q_headers : list (bytes * list bytes);   (* r.Header as stored (canonical keys) *)
  q_query : list (bytes * list bytes);     (* r.URL.Query() *)
  q_remote : bytes                         (* r.RemoteAddr *)
}.

Definition ch_outbound : bytes := s2b "outbound"%string.
Definition ch_internal : bytes := s2b "internal"%string.
Definition m_post : bytes := s2b "POST"%string.

(** routeAcceptsIngress *)
Definition accepts_ingress (r : route) : bool :=
  negb (beq (r_channel r) ch_outbound) && negb (beq (r_channel r) ch_internal).

(** matchMethods *)
Definition match_methods (m : bytes) (allowed : list bytes) : bool :=
  if is_empty m then false
  else match allowed with
       | [] => beq m m_post
       | _ => mem m allowed
       end.

(** ---- headers *)
(** textproto validHeaderFieldByte (RFC 7230 token characters) *)
Definition is_token_byte (c : N) : bool :=
  ((48 <=? c) && (c <=? 57)) || ((65 <=? c) && (c <=? 90)) || ((97 <=? c) && (c <=? 122))
  || existsb (N.eqb c) [33; 35; 36; 37; 38; 39; 42; 43; 45; 46; 94; 95; 96; 124; 126].

Fixpoint canon_loop (up : bool) (s : bytes) : bytes :=
  match s with
  | [] => []
  | c :: t => let c' := if up then upper_byte c else lower_byte c in
              c' :: canon_loop (c' =? 45) t
  end.

(** textproto.CanonicalMIMEHeaderKey: unchanged unless every byte is a token byte *)
Definition canon_key (s : bytes) : bytes :=
  if forallb is_token_byte s then canon_loop true s else s.

(** http.Header.Values(name) *)
Fixpoint assoc_values (k : bytes) (m : list (bytes * list bytes)) : list bytes :=
  match m with
  | [] => []
  | (k', vs) :: t => if beq k k' then vs else assoc_values k t
  end.
Fixpoint assoc_present (k : bytes) (m : list (bytes * list bytes)) : bool :=
  match m with
  | [] => false
  | (k', _) :: t => if beq k k' then true else assoc_present k t
  end.

Definition header_values (name : bytes) (h : list (bytes * list bytes)) : list bytes :=
  assoc_values (canon_key name) h.

(** matchHeaderValues: exact value, or a comma-separated part after TrimSpace *)
Definition header_value_matches (expected v : bytes) : bool :=
  beq v expected || existsb (fun part => beq (trim part) expected) (split_on 44 v).
Definition match_header_values (values : list bytes) (expected : bytes) : bool :=
  existsb (header_value_matches expected) values.

Definition is_nil {A} (l : list A) : bool := match l with [] => true | _ => false end.

(** matchHeaders *)
Definition match_headers (h : list (bytes * list bytes)) (expected : list (bytes * bytes)) (required : list bytes) : bool :=
  forallb (fun name => negb (is_nil (header_values name h))) required
  && forallb (fun nv => let vs := header_values (fst nv) h in
                        negb (is_nil vs) && match_header_values vs (snd nv)) expected.

(** ---- query *)
(** matchQuery: [values[name]] with presence *)
Definition match_query (q : list (bytes * list bytes)) (expected : list (bytes * bytes)) (required : list bytes) : bool :=
  forallb (fun name => assoc_present name q && negb (is_nil (assoc_values name q))) required
  && forallb (fun nv => assoc_present (fst nv) q && mem (snd nv) (assoc_values (fst nv) q)) expected.

(** ---- remote address *)
Section WithParseAddr.
Variable parse_addr : bytes -> option ip.           (* netip.ParseAddr *)

(** parseRemoteAddrIP *)
Definition parse_remote_addr (remote : bytes) : option ip :=
  let raw := trim remote in
  if is_empty raw then None
  else
    let raw := match split_host_port raw with Some h => h | None => raw end in
    let raw := trim_set brackets raw in
    if is_empty raw then None
    else match parse_addr raw with
         | Some a => Some (unmap a)
         | None => None
         end.

(** matchRemoteIPs *)
Definition match_remote (a : option ip) (allowed : list prefix) : bool :=
  match allowed with
  | [] => true
  | _ => match a with
         | None => false
         | Some x => existsb (fun p => prefix_contains p x) allowed
         end
  end.

(** every criterion of resolveIngress except the method, for the cleaned path [p] *)
Definition criteria_but_method (q : request) (p : bytes) (r : route) : bool :=
  accepts_ingress r
  && match_path p (r_path r)
  && match_hosts (normalize_host (q_host q)) (r_hosts r)
  && match_headers (q_headers q) (r_headers r) (r_header_exists r)
  && match_query (q_query q) (r_query r) (r_query_exists r)
  && match_remote (parse_remote_addr (q_remote q)) (r_remote r).

Definition criteria (q : request) (p : bytes) (r : route) : bool :=
  criteria_but_method q p r && match_methods (q_method q) (r_methods r).

(** resolveIngress: first route in configuration order whose criteria all hold *)
Definition resolve (rs : list route) (q : request) (p : bytes) : option route :=
  find (criteria q p) rs.

Fixpoint resolve_index (rs : list route) (q : request) (p : bytes) (i : N) : N :=
  match rs with
  | [] => 0
  | r :: t => if criteria q p r then i + 1 else resolve_index t q p (i + 1)
  end.

Definition methods_of (r : route) : list bytes :=
  match r_methods r with [] => [m_post] | ms => ms end.

Fixpoint add_new (seen : list bytes) (ms : list bytes) : list bytes :=
  match ms with
  | [] => seen
  | m :: t => if mem m seen then add_new seen t else add_new (seen ++ [m]) t
  end.

(** allowedMethodsFor: methods of every route matching on all but the method, first occurrence order *)
Definition allowed_methods (rs : list route) (q : request) (p : bytes) : list bytes :=
  fold_left (fun seen r => if criteria_but_method q p r then add_new seen (methods_of r) else seen) rs [].

(** ---- ingress.Server.ServeHTTP *)
Record response := { rs_status : N; rs_allow : option bytes }.

Variable store : Type.
(** everything after a route was chosen (rate limit, auth, body limits, enqueue) *)
Variable pipeline : route -> request -> bytes -> store -> N * store.

Definition comma_space : bytes := [44; 32].

Definition ingress_serve (rs : list route) (q : request) (st : store) : response * store :=
  let p := ingress_request_path (q_url_path q) in
  match resolve rs q p with
  | Some r => let '(code, st') := pipeline r q p st in ({| rs_status := code; rs_allow := None |}, st')
  | None =>
      match allowed_methods rs q p with
      | [] => ({| rs_status := 404; rs_allow := None |}, st)
      | al => ({| rs_status := 405; rs_allow := Some (join comma_space al) |}, st)
      end
  end.

End WithParseAddr.

(** What the pipeline enqueues when nothing refuses the request (no auth, no
    limits): one envelope per target, "pull" when the route has no deliver target. *)
Definition expected_targets (r : route) : list bytes :=
  match r_targets r with [] => [s2b "pull"%string] | ts => ts end.
