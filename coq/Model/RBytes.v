(** Byte strings for the routing / bearer models (C10, C11).
    A Go [string] is a [list N] with every element < 256.  The functions mirror
    the Go standard-library helpers the hookaido code calls on request data:
    strings.HasPrefix/HasSuffix/TrimPrefix/TrimSuffix/TrimSpace/ToLower (ASCII)/
    Split/Join/Count/Trim(cutset)/IndexByte/LastIndexByte.
    They are validated against the real functions on generated strings by the
    C10/C11 harness (command [strfuncs]). *)
From Coq Require Import List NArith Bool String Ascii.
Import ListNotations.
Open Scope N_scope.

Definition bytes := list N.

(** Coq string literal -> bytes (for readable constants). *)
Definition s2b (s : string) : bytes := map N_of_ascii (list_ascii_of_string s).

(** Go [a == b] on strings. *)
Fixpoint beq (a b : bytes) : bool :=
  match a, b with
  | [], [] => true
  | x :: a', y :: b' => (x =? y) && beq a' b'
  | _, _ => false
  end.

Definition is_empty (a : bytes) : bool := match a with [] => true | _ => false end.

(** strings.HasPrefix(s, p) *)
Fixpoint prefixb (p s : bytes) : bool :=
  match p, s with
  | [], _ => true
  | x :: p', y :: s' => (x =? y) && prefixb p' s'
  | _ :: _, [] => false
  end.

(** strings.HasSuffix(s, p) *)
Definition suffixb (p s : bytes) : bool := prefixb (rev p) (rev s).

(** strings.TrimPrefix(s, p) *)
Definition trim_prefix (p s : bytes) : bytes :=
  if prefixb p s then skipn (List.length p) s else s.

(** strings.TrimSuffix(s, p) *)
Definition trim_suffix (p s : bytes) : bytes :=
  if suffixb p s then firstn (List.length s - List.length p) s else s.

(** strings.ToLower / ToUpper restricted to ASCII letters (see docs/notes/C10.md:
    net/http only lets ASCII through in Host; method tokens are ASCII). *)
Definition lower_byte (c : N) : N := if (65 <=? c) && (c <=? 90) then c + 32 else c.
Definition lower (s : bytes) : bytes := map lower_byte s.
Definition upper_byte (c : N) : N := if (97 <=? c) && (c <=? 122) then c - 32 else c.

(** strings.Count(s, string(c)) for a single byte c. *)
Fixpoint count_byte (c : N) (s : bytes) : nat :=
  match s with
  | [] => 0%nat
  | x :: t => if x =? c then S (count_byte c t) else count_byte c t
  end.

Definition contains_byte (c : N) (s : bytes) : bool := existsb (N.eqb c) s.

(** strings.IndexByte *)
Fixpoint index_byte (c : N) (s : bytes) : option nat :=
  match s with
  | [] => None
  | x :: t => if x =? c then Some 0%nat
              else match index_byte c t with Some i => Some (S i) | None => None end
  end.

(** strings.LastIndexByte *)
Fixpoint last_index_byte (c : N) (s : bytes) : option nat :=
  match s with
  | [] => None
  | x :: t => match last_index_byte c t with
              | Some i => Some (S i)
              | None => if x =? c then Some 0%nat else None
              end
  end.

(** strings.Split(s, string(c)) for a single byte c: never empty. *)
Fixpoint split_on (c : N) (s : bytes) : list bytes :=
  match s with
  | [] => [[]]
  | x :: t => if x =? c then [] :: split_on c t
              else match split_on c t with
                   | h :: r => (x :: h) :: r
                   | [] => [[x]]
                   end
  end.

(** strings.Join(l, sep) *)
Fixpoint join (sep : bytes) (l : list bytes) : bytes :=
  match l with
  | [] => []
  | [x] => x
  | x :: t => x ++ sep ++ join sep t
  end.

(** strings.Trim(s, cutset) *)
Fixpoint trim_left_set (cut : bytes) (s : bytes) : bytes :=
  match s with
  | x :: t => if contains_byte x cut then trim_left_set cut t else s
  | [] => []
  end.
Definition trim_set (cut s : bytes) : bytes :=
  rev (trim_left_set cut (rev (trim_left_set cut s))).

(** ---- strings.TrimSpace, byte-exact.
    White space = unicode.IsSpace: the six ASCII characters and the UTF-8
    encodings of U+0085, U+00A0, U+1680, U+2000..U+200A, U+2028, U+2029, U+202F,
    U+205F, U+3000.  An invalid or non-space sequence stops the trimming. *)
Definition is_ascii_space (c : N) : bool :=
  (c =? 9) || (c =? 10) || (c =? 11) || (c =? 12) || (c =? 13) || (c =? 32).

Definition e2_80_space (d : N) : bool :=
  ((128 <=? d) && (d <=? 138)) || (d =? 168) || (d =? 169) || (d =? 175).

(** number of bytes of a leading white-space rune; 0 when there is none *)
Definition space_prefix (s : bytes) : nat :=
  match s with
  | [] => 0%nat
  | c :: t =>
      if is_ascii_space c then 1%nat
      else match c, t with
           | 194, d :: _ => if (d =? 133) || (d =? 160) then 2%nat else 0%nat
           | 225, 154 :: 128 :: _ => 3%nat
           | 226, 128 :: d :: _ => if e2_80_space d then 3%nat else 0%nat
           | 226, 129 :: 159 :: _ => 3%nat
           | 227, 128 :: 128 :: _ => 3%nat
           | _, _ => 0%nat
           end
  end.

(** the same on the reversed string (trailing white-space rune) *)
Definition space_prefix_rev (s : bytes) : nat :=
  match s with
  | [] => 0%nat
  | c :: t =>
      if is_ascii_space c then 1%nat
      else match t with
           | 194 :: _ => if (c =? 133) || (c =? 160) then 2%nat else 0%nat
           | 154 :: 225 :: _ => if c =? 128 then 3%nat else 0%nat
           | 128 :: 226 :: _ => if e2_80_space c then 3%nat else 0%nat
           | 129 :: 226 :: _ => if c =? 159 then 3%nat else 0%nat
           | 128 :: 227 :: _ => if c =? 128 then 3%nat else 0%nat
           | _ => 0%nat
           end
  end.

Fixpoint trim_with (pre : bytes -> nat) (fuel : nat) (s : bytes) : bytes :=
  match fuel with
  | O => s
  | S f => match pre s with
           | O => s
           | k => trim_with pre f (skipn k s)
           end
  end.

Definition trim_left (s : bytes) : bytes := trim_with space_prefix (List.length s) s.
Definition trim_right (s : bytes) : bytes := rev (trim_with space_prefix_rev (List.length s) (rev s)).
Definition trim (s : bytes) : bytes := trim_right (trim_left s).

(** slice s[a:b] *)
Definition slice (a b : nat) (s : bytes) : bytes := firstn (b - a) (skipn a s).

(** membership with Go string equality *)
Definition mem (x : bytes) (l : list bytes) : bool := existsb (beq x) l.
