(** Model of one micro-batch of PushDispatcher.runRoute (internal/dispatcher/push.go): the store
    calls the dispatcher makes for the messages one Dequeue handed it.

      for i, env := range resp.Items {
        select { case <-d.stopCh: <flush pending actions>; requeueLeases(resp.Items[i:], 0); return; default: }
        target, ok := targetsByURL[env.Target]
        if !ok { applyLeaseAction(nack 1s, tolerateNotFound); continue }
        action := classifyDelivery(env, target)
        if !useBatchMutations { applyLeaseAction(action); continue }
        actions = append(actions, action)
        if len(actions) >= mutationBatch { applyLeaseActions(actions); actions = actions[:0] }
      }
      if useBatchMutations && len(actions) > 0 { applyLeaseActions(actions) }

    applyLeaseActions groups the actions (acks; nacks by delay; mark-dead by reason) and issues one
    AckBatch / NackBatch / MarkDeadBatch per group when the store offers batched lease operations,
    otherwise one single call per action.  The order of the nack / dead groups is Go map order; the
    model emits them in order of first appearance and every theorem is stated up to permutation.

    What the target answers ([it_result]), the jitter draw, whether the route configures the
    message's target, and the item at which the stop channel is seen closed ([stop]) are inputs. *)
From Coq Require Import ZArith QArith List Bool NArith.
From HK Require Import Model.Queue Model.Retry Model.Dispatcher.
Import ListNotations.
Open Scope Z_scope.

(** dead_reason strings as the numbers the queue model stores *)
Definition reason_code (r : reason) : N :=
  match r with NoRetry => 1 | PolicyDeniedR => 2 | MaxRetries => 3 end%N.

Record item := mkItem {
  it_lease : N;                        (* env.LeaseID *)
  it_attempt : Z;                      (* env.Attempt *)
  it_target : option retry_cfg;        (* targetsByURL[env.Target]: None = not configured on this route *)
  it_result : result;                  (* what Deliver returns (only looked at when the item is sent) *)
  it_draw : Q                          (* the jitter draw of retryDelay *)
}.

(** a lease mutation the dispatcher asks the store for *)
Inductive scall :=
| SOne (k : lease_kind) (l : N)                 (* Ack / Nack / MarkDead *)
| SBatch (k : lease_kind) (ls : list N).        (* AckBatch / NackBatch / MarkDeadBatch *)

Definition act := (lease_kind * N)%type.

(** classifyDelivery's leaseAction for a sent item *)
Definition settle_kind (rc : retry_cfg) (it : item) : lease_kind :=
  match classify (it_result it) (it_attempt it) (rc_max rc) with
  | AAck => KAck
  | ANack => KNack (delay_ns (rc_base rc) (rc_cap rc) (it_attempt it) (it_draw it) (rc_jitter rc))
  | ADead why => KDead (reason_code why)
  end.

Definition kind_eqb (a b : lease_kind) : bool :=
  match a, b with
  | KAck, KAck => true
  | KNack x, KNack y => x =? y
  | KDead x, KDead y => N.eqb x y
  | KExtend x, KExtend y => x =? y
  | _, _ => false
  end.

(** 0 ack, 1 nack, 2 mark-dead (3 extend: never produced by the dispatcher) *)
Definition kclass (k : lease_kind) : nat :=
  match k with KAck => 0 | KNack _ => 1 | KDead _ => 2 | KExtend _ => 3 end%nat.

(** nacksByDelay[delay] = append(..., action) *)
Fixpoint add_group (k : lease_kind) (l : N) (gs : list (lease_kind * list N)) : list (lease_kind * list N) :=
  match gs with
  | [] => [(k, [l])]
  | (k', ls) :: tl => if kind_eqb k k' then (k', ls ++ [l]) :: tl else (k', ls) :: add_group k l tl
  end.

Definition groups (acts : list act) : list (lease_kind * list N) :=
  fold_left (fun gs a => add_group (fst a) (snd a) gs) acts [].

Definition in_class (n : nat) (g : lease_kind * list N) : bool := Nat.eqb (kclass (fst g)) n.
Definition in_class_ge (n : nat) (g : lease_kind * list N) : bool := Nat.leb n (kclass (fst g)).

(** applyLeaseActions *)
Definition flush (batch_store : bool) (acts : list act) : list scall :=
  if batch_store then
    let gs := groups acts in
    map (fun g => SBatch (fst g) (snd g))
        (filter (in_class 0) gs ++ filter (in_class 1) gs ++ filter (in_class_ge 2) gs)
  else map (fun a => SOne (fst a) (snd a)) acts.

Definition missing_target_backoff : Z := sec.

(** the inner loop.  [use_batch] = len(targetsByURL) == 1; [mb] = routeMutationBatch(dequeueBatch);
    [stop] = the number of items handled before the stop channel is seen closed. *)
Fixpoint run_items (use_batch batch_store : bool) (mb : nat) (stop : nat) (its : list item) (pending : list act) {struct its}
  : list scall :=
  match its with
  | [] => flush batch_store pending
  | it :: tl =>
      match stop with
      | O => flush batch_store pending ++ map (fun i => SOne (KNack 0) (it_lease i)) its
      | S stop' =>
          match it_target it with
          | None => SOne (KNack missing_target_backoff) (it_lease it) :: run_items use_batch batch_store mb stop' tl pending
          | Some rc =>
              let a := (settle_kind rc it, it_lease it) in
              if negb use_batch then SOne (fst a) (snd a) :: run_items use_batch batch_store mb stop' tl pending
              else
                let p := pending ++ [a] in
                if Nat.leb mb (length p) then flush batch_store p ++ run_items use_batch batch_store mb stop' tl []
                else run_items use_batch batch_store mb stop' tl p
          end
      end
  end.

(** what the property prescribes for every leased item: a sent item gets the settlement of its
    classification, an item whose target the route does not configure is retried in a second, an item
    not reached before the stop is handed back at once *)
Fixpoint expected (stop : nat) (its : list item) {struct its} : list act :=
  match its with
  | [] => []
  | it :: tl =>
      match stop with
      | O => (KNack 0, it_lease it) :: expected O tl
      | S stop' =>
          (match it_target it with
           | None => KNack missing_target_backoff
           | Some rc => settle_kind rc it
           end, it_lease it) :: expected stop' tl
      end
  end.

(** the (kind, lease) pairs a list of store calls carries *)
Definition call_acts (c : scall) : list act :=
  match c with
  | SOne k l => [(k, l)]
  | SBatch k ls => map (fun l => (k, l)) ls
  end.
Definition calls_acts (cs : list scall) : list act := flat_map call_acts cs.

(** * The calls as operations of the queue model *)
Definition call_op (now : Z) (c : scall) : op :=
  match c with
  | SOne k l => LeaseOp now k (LKnown l false)
  | SBatch k ls => LeaseBatch now k (map (fun l => LKnown l false) ls)
  end.

(** run timed calls on the store; the results, in order *)
Fixpoint run_calls (fl : flavour) (c : cfg) (s : state) (cs : list (Z * scall)) : state * list res :=
  match cs with
  | [] => (s, [])
  | (t, x) :: tl =>
      let '(s1, r) := step fl c s (call_op t x) (mkOracle [] [] [] []) in
      let '(s2, rs) := run_calls fl c s1 tl in
      (s2, r :: rs)
  end.

(** a result that reports no conflict *)
Definition settled_ok (r : res) : bool :=
  match r with
  | RUnit => true
  | RBatch _ [] => true
  | _ => false
  end.

(** * Encodings for the correspondence *)
(** an item is (lease, attempt, target known?, (error kind or 0, status)), the retry config is shared *)
Definition enc_kind (k : lease_kind) : list Z :=
  match k with
  | KAck => [0; 0]
  | KNack d => [1; d]
  | KDead r => [2; Z.of_N r]
  | KExtend b => [3; b]
  end.

Definition enc_call (c : scall) : list Z :=
  match c with
  | SOne k l => 0 :: enc_kind k ++ [Z.of_N l]
  | SBatch k ls => 1 :: enc_kind k ++ map Z.of_N ls
  end.

Definition mk_item (rc : retry_cfg) (x : Z * Z * bool * (Z * Z)) : item :=
  let '(l, a, known, (kd, code)) := x in
  mkItem (Z.to_N l) a (if known then Some rc else None)
         (if kd =? 0 then RStatus code else RErr (kind_of_code kd)) 0.

(** (max, base, cap), use_batch, batch_store, mutation batch, stop, items *)
Definition loop_case (c : (Z * Z * Z) * bool * bool * Z * Z * list (Z * Z * bool * (Z * Z))) : list (list Z) :=
  let '(r, ub, bs, mb, stop, xs) := c in
  let '(mx, b, cp) := r in
  let rc := {| rc_max := mx; rc_base := b; rc_cap := cp; rc_jitter := 0 |} in
  map enc_call (run_items ub bs (Z.to_nat mb) (Z.to_nat stop) (map (mk_item rc) xs) []).

(** * The attempt records of a micro-batch
    classifyDelivery hands exactly one record to recordAttempt on every path (Dispatcher.attempt_records); runRoute calls it for the
    items it sends - not for an item whose target the route does not configure, not for an item it does not reach before the stop. *)
Fixpoint run_records (stop : nat) (its : list item) {struct its} : list (N * attempt_rec) :=
  match its with
  | [] => []
  | it :: tl =>
      match stop with
      | O => []
      | S stop' =>
          match it_target it with
          | None => run_records stop' tl
          | Some rc => map (pair (it_lease it)) (attempt_records rc (it_attempt it) (it_result it) (it_draw it)) ++ run_records stop' tl
          end
      end
  end.

(** the items that are sent: reached before the stop, target configured *)
Fixpoint sent_items (stop : nat) (its : list item) {struct its} : list item :=
  match its with
  | [] => []
  | it :: tl =>
      match stop with
      | O => []
      | S stop' => match it_target it with None => sent_items stop' tl | Some _ => it :: sent_items stop' tl end
      end
  end.

(** the outcome a settlement kind is recorded under *)
Definition kind_outcome (k : lease_kind) : option outcome :=
  match k with KAck => Some OAcked | KNack _ => Some ORetry | KDead _ => Some ODead | KExtend _ => None end.

Definition outcome_code (o : outcome) : Z := match o with ORetry => 1 | OAcked => 2 | ODead => 3 end.

Definition enc_record (x : N * attempt_rec) : list Z :=
  let '(l, r) := x in
  [Z.of_N l; ar_attempt r; outcome_code (ar_outcome r);
   match ar_reason r with Some why => Z.of_N (reason_code why) | None => 0 end;
   match ar_result r with RStatus c => c | RErr _ => 0 end].

(** (max, base, cap), stop, items -> the attempt records, in order *)
Definition records_case (c : (Z * Z * Z) * Z * list (Z * Z * bool * (Z * Z))) : list (list Z) :=
  let '(r, stop, xs) := c in
  let '(mx, b, cp) := r in
  let rc := {| rc_max := mx; rc_base := b; rc_cap := cp; rc_jitter := 0 |} in
  map enc_record (run_records (Z.to_nat stop) (map (mk_item rc) xs)).
