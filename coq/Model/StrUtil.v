(** ASCII byte-string helpers shared by the egress and signing models: the Go [strings]
    functions the modelled code calls (ToLower, ToUpper, TrimSpace, TrimSuffix, HasSuffix),
    [hex.EncodeToString] and [strconv.FormatInt].  One [ascii] = one byte.  Executable only.
    Go's versions also treat non-ASCII (UTF-8) letters/spaces; the models are used on ASCII. *)
From Coq Require Import String Ascii List Bool NArith ZArith DecimalString.
Import ListNotations.
Local Open Scope string_scope.

Definition lower_ascii (c : ascii) : ascii :=
  let n := N_of_ascii c in
  if (65 <=? n)%N && (n <=? 90)%N then ascii_of_N (n + 32) else c.

Fixpoint to_lower (s : string) : string :=
  match s with
  | EmptyString => EmptyString
  | String c t => String (lower_ascii c) (to_lower t)
  end.

Definition is_space (c : ascii) : bool :=
  let n := N_of_ascii c in
  ((9 <=? n)%N && (n <=? 13)%N) || (n =? 32)%N.

Fixpoint trim_left (s : string) : string :=
  match s with
  | EmptyString => EmptyString
  | String c t => if is_space c then trim_left t else s
  end.

Fixpoint trim_right (s : string) : string :=
  match s with
  | EmptyString => EmptyString
  | String c t =>
      let t' := trim_right t in
      if is_space c && (t' =? "") then EmptyString else String c t'
  end.

Definition trim_space (s : string) : string := trim_right (trim_left s).

(** strings.TrimSuffix(s, "."): removes one trailing dot *)
Fixpoint trim_suffix_dot (s : string) : string :=
  match s with
  | EmptyString => EmptyString
  | String c t => if (c =? ".")%char && (t =? "") then EmptyString else String c (trim_suffix_dot t)
  end.

(** strings.HasSuffix(s, suf) *)
Fixpoint has_suffix (suf s : string) : bool :=
  if s =? suf then true
  else match s with
       | EmptyString => false
       | String _ t => has_suffix suf t
       end.


Definition upper_ascii (c : ascii) : ascii :=
  let n := N_of_ascii c in
  if (97 <=? n)%N && (n <=? 122)%N then ascii_of_N (n - 32) else c.

(** strings.ToUpper *)
Fixpoint to_upper (s : string) : string :=
  match s with
  | EmptyString => EmptyString
  | String c t => String (upper_ascii c) (to_upper t)
  end.

Definition nl : string := String (ascii_of_N 10) EmptyString.

Definition hex_digit (n : N) : ascii :=
  if (n <? 10)%N then ascii_of_N (48 + n) else ascii_of_N (87 + n).

(** hex.EncodeToString *)
Fixpoint hex (s : string) : string :=
  match s with
  | EmptyString => EmptyString
  | String c t => let n := N_of_ascii c in String (hex_digit (n / 16)) (String (hex_digit (n mod 16)) (hex t))
  end.

(** strconv.FormatInt(z, 10) *)
Definition dec (z : Z) : string := NilZero.string_of_int (Z.to_int z).
