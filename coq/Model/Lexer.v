(** Model of the Hookaidofile lexer (internal/config/lexer.go), position-free.

    Input representation.  The Go lexer walks its source with
    [utf8.DecodeRuneInString]; that function (Go standard library, trusted, executed by the
    harness) turns a byte string into a sequence of steps, each of which is either a valid
    rune or RuneError-with-size-1 (one undecodable byte).  The model works on that
    sequence: a [list rune] with [rune := N], where

      r <  0x110000   is the decoded code point,
      r >= 0x110000   stands for ONE undecodable byte b, encoded as 0x110000 + b.

    So nothing about UTF-8 is re-implemented here; the harness sends the step sequence Go
    computed.  Token texts are slices of the source ([readIdent], comments, placeholders)
    or re-encoded runes ([readString]); both are step sequences again.

    Only executable definitions in this file; the lemmas are in Proofs/LexerProofs.v. *)
From Coq Require Import List NArith Bool.
Import ListNotations.
Open Scope N_scope.

Notation rune := N (only parsing).

(** [r == utf8.RuneError && size == 1] *)
Definition invalid (r : rune) : bool := 0x110000 <=? r.

(** lexer.go isSpace: ' ', '\t', '\n', '\r' *)
Definition is_space (r : rune) : bool :=
  (r =? 32) || (r =? 9) || (r =? 10) || (r =? 13).

(** the stop set of lexer.go readIdent: isSpace(r) || r == '{' || r == '}' || r == 'DQUOTE' || r == '#' *)
Definition is_ident_stop (r : rune) : bool :=
  is_space r || (r =? 123) || (r =? 125) || (r =? 34) || (r =? 35).

Inductive token :=
| TEOF
| TIdent (text : list rune)
| TString (text : list rune)
| TLBrace
| TRBrace
| TComment (text : list rune).

(** the three families of errors nextToken can return (positions dropped) *)
Inductive lex_error := EInvalidUtf8 | EUnterminatedString | EUnterminatedEscape.

Inductive lex_result :=
| LTok (t : token) (rest : list rune)
| LErr (e : lex_error).

(** lexer.go readIdent: the maximal run up to the first stop rune; undecodable bytes are
    NOT checked here (the Go loop only compares the decoded rune with the stop set). *)
Fixpoint read_ident (s : list rune) : list rune * list rune :=
  match s with
  | [] => ([], [])
  | r :: tl =>
      if is_ident_stop r then ([], s)
      else let (a, b) := read_ident tl in (r :: a, b)
  end.

(** lexer.go nextToken, case '#': everything up to (not including) the next '\n';
    undecodable bytes are not checked. *)
Fixpoint read_comment (s : list rune) : list rune * list rune :=
  match s with
  | [] => ([], [])
  | r :: tl =>
      if r =? 10 then ([], s)
      else let (a, b) := read_comment tl in (r :: a, b)
  end.

(** lexer.go readString, the switch on the rune after a backslash *)
Definition unescape (e : rune) : rune :=
  if e =? 110 then 10          (* \n *)
  else if e =? 116 then 9      (* \t *)
  else if e =? 114 then 13     (* \r *)
  else e.                      (* \\ \DQUOTE and (unknown escapes kept as-is) *)

Inductive str_result :=
| SOk (text rest : list rune)
| SErr (e : lex_error).

Definition str_cons (r : rune) (x : str_result) : str_result :=
  match x with
  | SOk t rest => SOk (r :: t) rest
  | SErr e => SErr e
  end.

(** lexer.go readString, after the opening quote has been consumed *)
Fixpoint read_string (s : list rune) : str_result :=
  match s with
  | [] => SErr EUnterminatedString
  | r :: tl =>
      if invalid r then SErr EInvalidUtf8
      else if r =? 10 then SErr EUnterminatedString
      else if r =? 34 then SOk [] tl
      else if r =? 92 then
        match tl with
        | [] => SErr EUnterminatedEscape
        | e :: tl' =>
            if invalid e then SErr EInvalidUtf8
            else str_cons (unescape e) (read_string tl')
        end
      else str_cons r (read_string tl)
  end.

Fixpoint has_prefix (p s : list rune) : bool :=
  match p, s with
  | [], _ => true
  | _ :: _, [] => false
  | a :: p', b :: s' => (a =? b) && has_prefix p' s'
  end.

Definition pfx_dollar : list rune := [123; 36].                        (* {$     *)
Definition pfx_env : list rune := [123; 101; 110; 118; 46].            (* {env.  *)
Definition pfx_file : list rune := [123; 102; 105; 108; 101; 46].      (* {file. *)

Definition ph_prefix (s : list rune) : bool :=
  has_prefix pfx_dollar s || has_prefix pfx_env s || has_prefix pfx_file s.

Inductive ph_result :=
| PhNo                                   (* not a placeholder: '{' is a brace *)
| PhErr                                  (* undecodable byte inside the candidate *)
| PhOk (text rest : list rune).

Definition ph_cons (r : rune) (x : ph_result) : ph_result :=
  match x with
  | PhOk t rest => PhOk (r :: t) rest
  | other => other
  end.

(** lexer.go readPlaceholder, the scanning loop after the opening '{' *)
Fixpoint ph_scan (s : list rune) : ph_result :=
  match s with
  | [] => PhNo
  | r :: tl =>
      if invalid r then PhErr
      else if is_space r || (r =? 123) then PhNo
      else if r =? 125 then PhOk [r] tl
      else ph_cons r (ph_scan tl)
  end.

(** lexer.go readPlaceholder; [s] starts with '{' *)
Definition read_placeholder (s : list rune) : ph_result :=
  if ph_prefix s then
    match s with
    | r :: tl => ph_cons r (ph_scan tl)
    | [] => PhNo
    end
  else PhNo.

(** the dispatch of nextToken on the first rune *)
Inductive cls := CInvalid | CSpace | CLBrace | CHash | CRBrace | CQuote | COther.

Definition classify (r : rune) : cls :=
  if invalid r then CInvalid
  else if is_space r then CSpace
  else if r =? 123 then CLBrace
  else if r =? 35 then CHash
  else if r =? 125 then CRBrace
  else if r =? 34 then CQuote
  else COther.

(** lexer.go nextToken *)
Fixpoint next_token (s : list rune) : lex_result :=
  match s with
  | [] => LTok TEOF []
  | r :: tl =>
      match classify r with
      | CInvalid => LErr EInvalidUtf8
      | CSpace => next_token tl
      | CLBrace =>
          match read_placeholder s with
          | PhErr => LErr EInvalidUtf8
          | PhOk t rest => LTok (TIdent t) rest
          | PhNo => LTok TLBrace tl
          end
      | CHash => let (c, rest) := read_comment s in LTok (TComment c) rest
      | CRBrace => LTok TRBrace tl
      | CQuote =>
          match read_string tl with
          | SOk t rest => LTok (TString t) rest
          | SErr e => LErr e
          end
      | COther => let (i, rest) := read_ident s in LTok (TIdent i) rest
      end
  end.

(** Calling nextToken until EOF or the first error, as the parser does. *)
Inductive lex_end := EndEOF | EndErr (e : lex_error) | EndFuel.

Fixpoint tokenize_fuel (fuel : nat) (s : list rune) : list token * lex_end :=
  match fuel with
  | O => ([], EndFuel)
  | S n =>
      match next_token s with
      | LErr e => ([], EndErr e)
      | LTok TEOF _ => ([], EndEOF)
      | LTok t rest => let (ts, e) := tokenize_fuel n rest in (t :: ts, e)
      end
  end.

(** every non-EOF token consumes at least one rune, so this fuel always suffices
    (LexerProofs.tokenize_never_out_of_fuel) *)
Definition tokenize (s : list rune) : list token * lex_end :=
  tokenize_fuel (S (length s)) s.
