(** Model of the egress policy of the push dispatcher:
    internal/dispatcher/egress.go (checkEgressPolicyURL, hasCIDRRules, resolveHostIPs,
    matchEgressRules, matchHostRule), the hop loop of internal/dispatcher/http_deliverer.go
    (Deliver, checkRedirect, the CheckRedirect closure installed by NewHTTPDeliverer) and the
    policy_denied branch of internal/dispatcher/push.go (shouldRetry, isSuccess, classifyDelivery).

    Strings are Coq [string]s (one [ascii] = one byte).  What Go's libraries compute
    ([url.Parse] -> scheme and [Hostname()], [netip.ParseAddr] on the normalised host, the
    resolver's answer, the redirect targets the HTTP client derives from the responses) is
    *input* of the model, attached to each hop.  Executable Gallina only. *)
From Coq Require Import String Ascii List Bool NArith ZArith.
From HK Require Import Model.StrUtil Model.IpClass.
Import ListNotations.
Local Open Scope string_scope.

(** * Policy *)

(** dispatcher.EgressRule as compiled by config.parseEgressRule / app.mapEgressRules *)
Record rule := { r_is_cidr : bool; r_host : string; r_sub : bool; r_px : prefix }.

Record policy := {
  p_https_only : bool; p_redirects : bool; p_rebind : bool;
  p_allow : list rule; p_deny : list rule }.

(** The resolver's answer for one LookupIPAddr call: an error, or addresses
    ([None] = an entry whose IP is nil). *)
Inductive dns := DnsErr | DnsOk (l : list (option ip)).

(** One URL the deliverer is about to contact, as Go's libraries present it. *)
Record hop := {
  h_scheme : string;          (* u.Scheme *)
  h_hostname : string;        (* u.Hostname() *)
  h_literal : option ip;      (* netip.ParseAddr(normalised host) as net.IP(addr.AsSlice()), None = not an IP literal *)
  h_dns : dns }.              (* what the resolver answers if asked at this moment *)

Inductive reason := RScheme | RHttpsOnly | REmptyHost | RDisallowedIP | RDenied | RNotAllowlisted.
Inductive verdict := Allow | Deny (why : reason) | LookupFailed.

(** host := TrimSuffix(ToLower(TrimSpace(u.Hostname())), ".") *)
Definition norm_host (h : string) : string := trim_suffix_dot (to_lower (trim_space h)).

(** hasCIDRRules *)
Definition has_cidr_rules (p : policy) : bool :=
  existsb r_is_cidr (p_allow p) || existsb r_is_cidr (p_deny p).

Definition need_ips (p : policy) : bool := p_rebind p || has_cidr_rules p.

Fixpoint somes {A} (l : list (option A)) : list A :=
  match l with
  | [] => []
  | Some x :: t => x :: somes t
  | None :: t => somes t
  end.

(** resolveHostIPs: [None] = an error (lookup failed / no addresses) *)
Definition resolve (need : bool) (u : hop) : option (list ip) :=
  if negb need then Some []
  else match h_literal u with
       | Some a => Some [a]
       | None =>
           match h_dns u with
           | DnsErr => None
           | DnsOk l => match somes l with [] => None | ips => Some ips end
           end
       end.

(** matchHostRule *)
Definition match_host (host : string) (r : rule) : bool :=
  if (r_host r =? "") || (host =? "") then false
  else if r_host r =? "*" then true
  else if negb (r_sub r) then host =? r_host r
  else if host =? r_host r then false
  else has_suffix ("." ++ r_host r) host.

Definition cidr_hit (px : prefix) (i : ip) : bool :=
  match netip_from_ip i with
  | Some a => prefix_contains px a
  | None => false
  end.

Definition match_rule (host : string) (ips : list ip) (r : rule) : bool :=
  if r_is_cidr r then existsb (cidr_hit (r_px r)) ips else match_host host r.

(** matchEgressRules *)
Definition match_rules (host : string) (ips : list ip) (rules : list rule) : bool :=
  existsb (match_rule host ips) rules.

Definition is_nil {A} (l : list A) : bool := match l with [] => true | _ => false end.

Definition scheme_ok (s : string) : bool := (to_lower s =? "http") || (to_lower s =? "https").

(** checkEgressPolicyURL *)
Definition check (p : policy) (u : hop) : verdict :=
  if negb (scheme_ok (h_scheme u)) then Deny RScheme
  else if p_https_only p && negb (to_lower (h_scheme u) =? "https") then Deny RHttpsOnly
  else
    let host := norm_host (h_hostname u) in
    if host =? "" then Deny REmptyHost
    else match resolve (need_ips p) u with
         | None => LookupFailed
         | Some ips =>
             if p_rebind p && negb (forallb is_allowed_ip ips) then Deny RDisallowedIP
             else if negb (is_nil (p_deny p)) && match_rules host ips (p_deny p) then Deny RDenied
             else if negb (is_nil (p_allow p)) && negb (match_rules host ips (p_allow p)) then Deny RNotAllowlisted
             else Allow
         end.

Definition allowed (p : policy) (u : hop) : bool :=
  match check p u with Allow => true | _ => false end.

(** The host the resolver is asked for while checking [u] (None = no lookup happens). *)
Definition dns_query (p : policy) (u : hop) : option string :=
  if negb (scheme_ok (h_scheme u)) then None
  else if p_https_only p && negb (to_lower (h_scheme u) =? "https") then None
  else if norm_host (h_hostname u) =? "" then None
  else if negb (need_ips p) then None
  else match h_literal u with Some _ => None | None => Some (norm_host (h_hostname u)) end.

(** * The deliverer's hop loop.

    [chain] = the target URL followed by the redirect targets the HTTP client derives from the
    successive 3xx responses (the last element answers with a non-redirect).  The remote
    parties are arbitrary: every theorem quantifies over all chains.

    Deliver: check hop 0, then send it.  For each following hop the client calls
    CheckRedirect *before* sending: with redirects off it is the closure returning
    ErrUseLastResponse; with redirects on it is checkRedirect: [len(via) >= 10] ->
    ErrUseLastResponse, otherwise the same policy check. *)

Definition max_requests : nat := 10.

Inductive outcome :=
| OResponse                   (* a response was returned to the dispatcher (final, or the last 3xx) *)
| OStopped (v : verdict)      (* a hop was refused: [v] is [Deny _] or [LookupFailed] *)
| ONoTarget.

(** [sent] = number of requests already made (= len(via) at the next CheckRedirect) *)
Fixpoint follow (p : policy) (sent : nat) (rest : list hop) : list hop * outcome :=
  match rest with
  | [] => ([], OResponse)
  | nxt :: rest' =>
      if negb (p_redirects p) then ([], OResponse)
      else if Nat.leb max_requests sent then ([], OResponse)
      else match check p nxt with
           | Allow => let (s, o) := follow p (S sent) rest' in (nxt :: s, o)
           | v => ([], OStopped v)
           end
  end.

(** HTTPDeliverer.Deliver: (requests sent in order, outcome) *)
Definition deliver (p : policy) (chain : list hop) : list hop * outcome :=
  match chain with
  | [] => ([], ONoTarget)
  | h0 :: rest =>
      match check p h0 with
      | Allow => let (s, o) := follow p 1 rest in (h0 :: s, o)
      | v => ([], OStopped v)
      end
  end.

(** * push.go: what the dispatcher does with the Result *)

Inductive result := ResStatus (code : Z) | ResPolicyDenied | ResOtherErr.

(** Result.Err as Deliver returns it: errors.Is(err, ErrPolicyDenied) holds exactly for a
    [Deny _] verdict (also through the *url.Error the HTTP client wraps around a CheckRedirect error). *)
Definition result_of (o : outcome) (status : Z) : result :=
  match o with
  | OResponse => ResStatus status
  | OStopped (Deny _) => ResPolicyDenied
  | OStopped _ => ResOtherErr
  | ONoTarget => ResOtherErr
  end.

(** shouldRetry *)
Definition should_retry (r : result) : bool :=
  match r with
  | ResPolicyDenied => false
  | ResOtherErr => true
  | ResStatus c => (c =? 408)%Z || (c =? 429)%Z || (500 <=? c)%Z
  end.

(** isSuccess *)
Definition is_success (r : result) : bool :=
  match r with ResStatus c => (200 <=? c)%Z && (c <? 300)%Z | _ => false end.

Inductive dead_reason := DPolicyDenied | DMaxRetries | DNoRetry.
Inductive lease_action := LAck | LNack | LMarkDead (why : dead_reason).

(** classifyDelivery ([attempt] starts at 1, [max] = retry.max) *)
Definition classify (r : result) (attempt max : Z) : lease_action :=
  if is_success r then LAck
  else if should_retry r && (attempt <=? max)%Z then LNack
  else LMarkDead (match r with
                  | ResPolicyDenied => DPolicyDenied
                  | _ => if should_retry r then DMaxRetries else DNoRetry
                  end).
