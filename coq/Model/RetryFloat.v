(** Bit-exact binary64 twin of retryDelay (internal/dispatcher/push.go), over Coq's
    primitive floats (IEEE-754 binary64, round-to-nearest-even, evaluated by vm_compute).
    Mirrors the Go code operation by operation, in Go's order (amd64: no fused multiply-add).
    Used only by the correspondence (the int64 result must be reproduced EXACTLY);
    the theorems are about [Model/Retry.v]. *)
From Coq Require Import ZArith Floats Uint63.
Open Scope float_scope.

(** float64 from its IEEE bit pattern (Go: math.Float64frombits). *)
Definition float_of_bits (b : Z) : float :=
  let s := Z.testbit b 63 in
  let e := Z.land (Z.shiftr b 52) 2047 in
  let f := Z.land b 4503599627370495 in
  if (e =? 2047)%Z then (if (f =? 0)%Z then (if s then neg_infinity else infinity) else nan)
  else
    let m := if (e =? 0)%Z then f else (f + 4503599627370496)%Z in
    let ex := if (e =? 0)%Z then (-1074)%Z else (e - 1075)%Z in
    let v := Z.ldexp (of_uint63 (Uint63.of_Z m)) ex in
    if s then - v else v.

(** float64(x) for an int64 x (round to nearest even, as the Go conversion does). *)
Definition float_of_int64 (x : Z) : float :=
  if (x <? 0)%Z then - (of_uint63 (Uint63.of_Z (- x))) else of_uint63 (Uint63.of_Z x).

(** math.Pow(2, float64(n)) for an integer n: Go's Pow computes it by repeated squaring of
    the Frexp mantissa 0.5 and one final Ldexp, i.e. the exact power of two,
    +Inf above 2^1023, 0 below 2^-1074. *)
Definition pow2F (n : Z) : float := Z.ldexp 1 n.

Definition max_int64 : Z := 9223372036854775807.
Definition min_int64 : Z := (-9223372036854775808)%Z.

(** int64(f) as amd64 computes it (CVTTSD2SQ): truncation toward zero; NaN, infinities and
    values outside the int64 range give the "integer indefinite" value MinInt64. *)
Definition trunc_float (f : float) : Z :=
  match Prim2SF f with
  | S754_finite s m e =>
      let a := if (0 <=? e)%Z then (Z.pos m * 2 ^ e)%Z else Z.shiftr (Z.pos m) (- e) in
      let v := if s then (- a)%Z else a in
      if orb (v <? min_int64)%Z (max_int64 <? v)%Z then min_int64 else v
  | S754_zero _ => 0%Z
  | _ => min_int64
  end.
Definition two63F : float := Z.ldexp 1 63.      (* float64(math.MaxInt64) *)

(** the float64 value [delay] holds just before the conversion to time.Duration *)
Definition delayF_raw (base cap attempt : Z) (u j : float) : float :=
  let exp := (attempt - 1)%Z in                           (* float64(attempt-1): exact *)
  let b := float_of_int64 base in
  let d0 := b * pow2F exp in
  let d1 := if (0 <? cap)%Z then (let c := float_of_int64 cap in if c <? d0 then c else d0) else d0 in
  if 0 <? j then
    let j' := if 1 <? j then 1 else j in
    let delta := (u * 2 - 1) * j' in
    let d2 := d1 * (1 + delta) in
    if d2 <? 0 then 0 else d2
  else d1.

(** retryDelay's int64 result: `if delay >= math.MaxInt64 { return MaxInt64 }` (the constant
    converts to the float 2^63), otherwise the truncating conversion. *)
Definition delayF (base cap attempt : Z) (u j : float) : Z :=
  if (base <=? 0)%Z then 0%Z
  else
    let d := delayF_raw base cap attempt u j in
    if two63F <=? d then max_int64 else trunc_float d.

(** case encoding for the correspondence: (base, cap, attempt, bits of u, bits of jitter) *)
Definition delayF_bits (c : Z * Z * Z * Z * Z) : Z :=
  let '(base, cap, attempt, ub, jb) := c in
  delayF base cap attempt (float_of_bits ub) (float_of_bits jb).
