(** Model of Go's [net.IP] address-class predicates exactly as the Go standard library
    (net/ip.go, go1.25) defines them, and of [isAllowedIP] / [netipFromIP] /
    [netip.Prefix.Contains] as used by internal/dispatcher/egress.go.

    An address is what the Go code holds: a byte slice.  Only the length class and the
    big-endian value matter: [F4] = 4 bytes, [F6] = 16 bytes, [FBad] = any other length
    (a resolver may hand back anything).  Executable Gallina only. *)
From Coq Require Import NArith List Bool.
Import ListNotations.
Local Open Scope N_scope.

Inductive fam := F4 | F6 | FBad.
Record ip := { ip_fam : fam; ip_val : N }.

Definition fam_eqb (a b : fam) : bool :=
  match a, b with F4, F4 | F6, F6 | FBad, FBad => true | _, _ => false end.

(** Powers of two written out (no [N.pow] left for the proofs to unfold). *)
Definition c8   : N := 256.
Definition c16  : N := 65536.
Definition c24  : N := 16777216.
Definition c32  : N := 4294967296.
Definition c112 : N := 5192296858534827628530496329220096.
Definition c120 : N := 1329227995784915872903807060280344576.
Definition c128 : N := 340282366920938463463374607431768211456.

(** Well-formed = the value fits the length. *)
Definition wf_ip (i : ip) : Prop :=
  match ip_fam i with F4 => ip_val i < c32 | F6 => ip_val i < c128 | FBad => True end.

(** net.IP.To4: a 4-byte slice is itself; a 16-byte slice whose first ten bytes are zero
    and bytes 10,11 are 0xff (IPv4-mapped) is its last four bytes; anything else nil. *)
Definition to4 (i : ip) : option N :=
  match ip_fam i with
  | F4 => Some (ip_val i)
  | F6 => if ip_val i / c32 =? 65535 then Some (ip_val i mod c32) else None
  | FBad => None
  end.

(** bytes of a 4-byte address [ip4[0..2]] and of a 16-byte address [ip[0]], [ip[1]] *)
Definition a0 (v : N) : N := v / c24.
Definition a1 (v : N) : N := (v / c16) mod 256.
Definition a2 (v : N) : N := (v / c8) mod 256.
Definition s0 (w : N) : N := w / c120.
Definition s1 (w : N) : N := (w / c112) mod 256.

Definition is16 (i : ip) : bool := fam_eqb (ip_fam i) F6.

(** IP.Equal against the three package constants it is used with. *)
Definition equal_v4const (i : ip) (k : N) : bool :=   (* k given as a 4-byte value; the constant is its mapped 16-byte form *)
  match ip_fam i with
  | F4 => ip_val i =? k
  | F6 => ip_val i =? 65535 * c32 + k
  | FBad => false
  end.
Definition equal_v6const (i : ip) (k : N) : bool :=   (* a 16-byte constant that is not IPv4-mapped *)
  match ip_fam i with F6 => ip_val i =? k | _ => false end.

(** IP.IsUnspecified *)
Definition is_unspecified (i : ip) : bool := equal_v4const i 0 || equal_v6const i 0.

(** IP.IsLoopback *)
Definition is_loopback (i : ip) : bool :=
  match to4 i with
  | Some v => a0 v =? 127
  | None => equal_v6const i 1
  end.

(** IP.IsPrivate *)
Definition is_private (i : ip) : bool :=
  match to4 i with
  | Some v => (a0 v =? 10) || ((a0 v =? 172) && (a1 v / 16 =? 1)) || ((a0 v =? 192) && (a1 v =? 168))
  | None => is16 i && (s0 (ip_val i) / 2 =? 126)                  (* ip[0]&0xfe == 0xfc *)
  end.

(** IP.IsMulticast *)
Definition is_multicast (i : ip) : bool :=
  match to4 i with
  | Some v => a0 v / 16 =? 14                                      (* ip4[0]&0xf0 == 0xe0 *)
  | None => is16 i && (s0 (ip_val i) =? 255)
  end.

(** IP.IsLinkLocalMulticast *)
Definition is_ll_multicast (i : ip) : bool :=
  match to4 i with
  | Some v => (a0 v =? 224) && (a1 v =? 0) && (a2 v =? 0)
  | None => is16 i && (s0 (ip_val i) =? 255) && (s1 (ip_val i) mod 16 =? 2)
  end.

(** IP.IsLinkLocalUnicast *)
Definition is_ll_unicast (i : ip) : bool :=
  match to4 i with
  | Some v => (a0 v =? 169) && (a1 v =? 254)
  | None => is16 i && (s0 (ip_val i) =? 254) && (s1 (ip_val i) / 64 =? 2)   (* ip[1]&0xc0 == 0x80 *)
  end.

(** IP.IsGlobalUnicast *)
Definition is_global_unicast (i : ip) : bool :=
  (fam_eqb (ip_fam i) F4 || fam_eqb (ip_fam i) F6)
  && negb (equal_v4const i 4294967295)
  && negb (is_unspecified i)
  && negb (is_loopback i)
  && negb (is_multicast i)
  && negb (is_ll_unicast i).

(** egress.go isAllowedIP (the nil case is filtered before: resolveHostIPs drops nil entries) *)
Definition is_allowed_ip (i : ip) : bool :=
  if is_loopback i || is_ll_unicast i || is_ll_multicast i || is_multicast i || is_unspecified i then false
  else if is_private i then false
  else if negb (is_global_unicast i) then false
  else true.

(** egress.go netipFromIP: To16 (nil for odd lengths), AddrFrom16, Unmap when To4() != nil.
    Result: a netip.Addr, i.e. a 32-bit or a 128-bit value (never IPv4-mapped). *)
Definition netip_from_ip (i : ip) : option ip :=
  match ip_fam i with
  | FBad => None
  | _ => match to4 i with
         | Some v => Some {| ip_fam := F4; ip_val := v |}
         | None => Some i
         end
  end.

(** A netip.Prefix (address, bits).  The address keeps its parsed form: [F4] for dotted quads,
    [F6] for everything written with colons - netip keeps ::ffff:a.b.c.d as a 128-bit address
    (Is4In6); config.parseEgressRule turns such a rule into its IPv4 form, see [compile_prefix]
    at the end of this file. *)
Record prefix := { px_fam : fam; px_addr : N; px_bits : N }.

Definition fam_bits (f : fam) : N := match f with F4 => 32 | F6 => 128 | FBad => 0 end.

(** netip.Prefix.Contains on a zone-less address: same bit length, and the first [bits]
    bits agree ((ip xor prefix) >> (len - bits) == 0). *)
Definition prefix_contains (p : prefix) (a : ip) : bool :=
  match px_fam p, ip_fam a with
  | F4, F4 | F6, F6 =>
      (px_bits p <=? fam_bits (px_fam p)) &&
      (N.shiftr (N.lxor (ip_val a) (px_addr p)) (fam_bits (px_fam p) - px_bits p) =? 0)
  | _, _ => false
  end.

(** config.parseEgressRule (after fix 4e2df4c) applied to what netip.ParsePrefix / netip.ParseAddr
    return ([ParseAddr a] = the prefix a/BitLen): a rule written in IPv4-mapped notation
    (Addr.Is4In6, i.e. ::ffff:a.b.c.d) with at least 96 prefix bits is unmapped -
    PrefixFrom(Unmap(), Bits-96) - because the addresses it is compared with are unmapped too.
    Everything else (plain IPv4, plain IPv6, a mapped address with fewer than 96 bits) is kept. *)
Definition is4in6 (a : N) : bool := a / c32 =? 65535.

Definition compile_prefix (p : prefix) : prefix :=
  match px_fam p with
  | F6 => if is4in6 (px_addr p) && (96 <=? px_bits p)
          then {| px_fam := F4; px_addr := px_addr p mod c32; px_bits := px_bits p - 96 |}
          else p
  | _ => p
  end.
