(** Dialect normaliser for the statement skeletons of the SQLite and Postgres stores
    (Gen/PgTie.v, produced by translate/pgtie.go).

    A skeleton is a list of tokens ([string]s):
      - SQL tokens as lexed by the translator (words, punctuation, ['...'] literals);
      - bound placeholders: SQLite [?{e}] / [?*{xs}] (a [?,?,..] list over the slice [xs]),
        Postgres [$3{e}] / [$*{e}] (computed index); [e] is the Go expression passed for the
        placeholder, state constants already resolved to SQL literals (['leased']), a
        [[]string{..}] of such constants rendered [['a','b']];
      - control markers starting with [#]: [#stmt:exec .. #endstmt], [#begin] [#commit]
        [#rollback] [#defer-rollback], [#call:f], [#callparam:f], [#closure], [#ret:E],
        [#if go{c} .. #else .. #end], [#for go{c} .. #end], [#switch] [#case],
        [#assign go{x = e}], [#field go{k: v}], [#opt go{c} .. #optelse .. #endopt] (a piece
        of SQL text that is present only under condition [c]), [#sep{AND}];
      - [go{..}]: Go source text of a condition / assignment (constants of the two files
        resolved).

    The normaliser has two passes.
      pass A, token by token ([norm_tok]): a bound placeholder becomes the literal it is
        bound to, or [@{e'}] where [e'] is [e] without the representation conversions
        [.UnixNano()] / [.UTC()] (SQLite stores instants as integer nanoseconds, Postgres as
        timestamptz) and with the clock read [s.now()] written [now]; the statement
        terminator [;] is dropped; [#call:f] becomes [#do:g] through the call map of the
        dialect (or [#begin]/[#commit]/[#rollback] for the SQLite transaction helpers);
        SQL keywords are upper-cased; a quoted plain identifier loses its quotes.
      pass B ([any_in]): [= ANY ( x )] becomes [IN ( x )].
    Everything else that differs between the two files is NOT normalised away: it has to be
    listed in Model/PgAllowedDiffs.v. *)
From Coq Require Import String Ascii List Bool NArith.
Import ListNotations.
Local Open Scope string_scope.

Inductive dialect := Sqlite | Pg.

(* ------------------------------------------------------------------------- *)
(** characters *)

Definition is_lower (c : ascii) : bool :=
  let n := N_of_ascii c in (97 <=? n)%N && (n <=? 122)%N.
Definition is_digit (c : ascii) : bool :=
  let n := N_of_ascii c in (48 <=? n)%N && (n <=? 57)%N.
Definition is_ident_char (c : ascii) : bool := is_lower c || is_digit c || (c =? "_")%char.

Definition up (c : ascii) : ascii :=
  if is_lower c then ascii_of_N (N_of_ascii c - 32) else c.

Fixpoint upper (s : string) : string :=
  match s with
  | EmptyString => EmptyString
  | String c t => String (up c) (upper t)
  end.

(** the characters that select a rule of [norm_tok] by the first character of a token *)
Definition is_special (c : ascii) : bool :=
  (c =? "?")%char || (c =? "$")%char || (c =? ";")%char || (c =? "#")%char
  || (c =? """")%char || (c =? "`")%char.

(* ------------------------------------------------------------------------- *)
(** strings *)

Fixpoint mem (x : string) (l : list string) : bool :=
  match l with
  | [] => false
  | y :: r => (x =? y) || mem x r
  end.

Fixpoint all_chars (p : ascii -> bool) (s : string) : bool :=
  match s with
  | EmptyString => true
  | String c t => p c && all_chars p t
  end.

(** [strip_suffix suf s]: [Some s'] when [s = s' ++ suf] *)
Fixpoint strip_suffix (suf s : string) : option string :=
  if s =? suf then Some EmptyString
  else match s with
       | EmptyString => None
       | String c t => match strip_suffix suf t with
                       | Some r => Some (String c r)
                       | None => None
                       end
       end.

(** text after the first [{], without the final [}] *)
Fixpoint after_brace (s : string) : option string :=
  match s with
  | EmptyString => None
  | String c t => if (c =? "{")%char then strip_suffix "}" t else after_brace t
  end.

(** split at top-level commas (the list literals the translator emits contain no nested commas) *)
Fixpoint split_commas (acc : string) (s : string) : list string :=
  match s with
  | EmptyString => [acc]
  | String c t => if (c =? ",")%char then acc :: split_commas EmptyString t
                  else split_commas (acc ++ String c EmptyString) t
  end.

Definition is_quoted_lit (s : string) : bool :=
  match s with
  | String c _ => (c =? "'")%char
  | EmptyString => false
  end.

Fixpoint intersperse (sep : string) (l : list string) : list string :=
  match l with
  | [] => []
  | [x] => [x]
  | x :: r => x :: sep :: intersperse sep r
  end.

(* ------------------------------------------------------------------------- *)
(** SQL keywords (upper case).  A bare word is a keyword iff its upper-casing is in this list. *)

Definition keywords : list string :=
  ["SELECT"; "FROM"; "WHERE"; "AND"; "OR"; "NOT"; "NULL"; "IS"; "IN"; "ANY"; "UPDATE"; "SET"; "DELETE";
   "INSERT"; "INTO"; "VALUES"; "ORDER"; "BY"; "ASC"; "DESC"; "LIMIT"; "OFFSET"; "GROUP"; "HAVING";
   "RETURNING"; "WITH"; "AS"; "CASE"; "WHEN"; "THEN"; "ELSE"; "END"; "FOR"; "SKIP"; "LOCKED";
   "COUNT"; "MIN"; "MAX"; "SUM"; "COALESCE"; "BEGIN"; "IMMEDIATE"; "COMMIT"; "ROLLBACK"; "ON";
   "CONFLICT"; "DO"; "NOTHING"; "IGNORE"; "REPLACE"; "TRUE"; "FALSE"; "EXISTS"; "DISTINCT"; "UNION";
   "ALL"; "JOIN"; "LEFT"; "INNER"; "OUTER"; "USING"; "BETWEEN"; "LIKE"; "CREATE"; "TABLE"; "INDEX";
   "PRAGMA"; "ALTER"; "ADD"; "COLUMN"; "TRIGGER"; "AFTER"; "OF"; "IF"; "PRIMARY"; "KEY"; "CHECK";
   "EXTRACT"; "EPOCH"; "NOW"].

Definition kw_upper (t : string) : string :=
  if mem (upper t) keywords then upper t else t.

(** a plain identifier: lower-case letters, digits, underscore; first character a letter; not a keyword *)
Definition is_plain_ident (s : string) : bool :=
  match s with
  | EmptyString => false
  | String c t => is_lower c && all_chars is_ident_char t && negb (mem (upper s) keywords)
  end.

(* ------------------------------------------------------------------------- *)
(** bound arguments *)

Fixpoint strip_prefix (pre s : string) : option string :=
  match pre with
  | EmptyString => Some s
  | String a p => match s with
                  | String c t => if (a =? c)%char then strip_prefix p t else None
                  | EmptyString => None
                  end
  end.

(** [fn(X)] -> [X] *)
Definition strip_call (fn e : string) : option string :=
  match strip_prefix (fn ++ "(") e with
  | Some r => strip_suffix ")" r
  | None => None
  end.

(** the Go expression of a bound argument without representation conversions: [.UnixNano()] / [.UTC()], and the saturating
    form of the former (fix 9344673: SQLite clamps instants to the int64 nanosecond range, Postgres stores a timestamptz) *)
Fixpoint strip_conv (fuel : nat) (e : string) : string :=
  match fuel with
  | O => e
  | S f =>
    match strip_call "saturatingUnixNano" e with
    | Some r => strip_conv f r
    | None =>
      match strip_suffix ".UnixNano()" e with
      | Some r => strip_conv f r
      | None => match strip_suffix ".UTC()" e with
                | Some r => strip_conv f r
                | None => e
                end
      end
    end
  end.

Definition norm_arg (e : string) : string :=
  let e' := strip_conv 4 e in
  if e' =? "s.now()" then "now" else e'.

(** ['a','b'] inside [[..]] -> the literals separated by commas; otherwise one argument token *)
Definition bind_arg (e : string) : list string :=
  if is_quoted_lit e then [e]
  else
    match e with
    | String "[" t =>
      match strip_suffix "]" t with
      | Some inner =>
        let parts := split_commas EmptyString inner in
        if forallb is_quoted_lit parts then intersperse "," parts
        else ["@{" ++ norm_arg e ++ "}"]
      | None => ["@{" ++ norm_arg e ++ "}"]
      end
    | _ => ["@{" ++ norm_arg e ++ "}"]
    end.

Definition ph_start (d : dialect) (c : ascii) : bool :=
  match d with
  | Sqlite => (c =? "?")%char
  | Pg => (c =? "$")%char
  end.

(* ------------------------------------------------------------------------- *)
(** calls *)

Inductive target := TBegin | TCommit | TRollback | TDo (g : string).

Definition render_target (t : target) : string :=
  match t with
  | TBegin => "#begin"
  | TCommit => "#commit"
  | TRollback => "#rollback"
  | TDo g => "#do:" ++ g
  end.

Definition callmap := list (string * target).

Fixpoint lookup_call (cm : callmap) (f : string) : target :=
  match cm with
  | [] => TDo f
  | (k, v) :: r => if k =? f then v else lookup_call r f
  end.

(** [#call:f] -> [Some f] *)
Definition call_name (t : string) : option string :=
  match t with
  | String "#" (String "c" (String "a" (String "l" (String "l" (String ":" f))))) => Some f
  | _ => None
  end.

(* ------------------------------------------------------------------------- *)
(** pass A *)

Definition unquote (t : string) : string :=
  match t with
  | String q r =>
    match strip_suffix (String q EmptyString) r with
    | Some inner => if is_plain_ident inner then inner else t
    | None => t
    end
  | EmptyString => t
  end.

Definition norm_tok (cm : callmap) (d : dialect) (t : string) : list string :=
  match t with
  | EmptyString => [t]
  | String c r =>
    if ph_start d c then
      match after_brace t with
      | Some e => bind_arg e
      | None => [t]
      end
    else if (c =? ";")%char then (if r =? "" then [] else [t])
    else if (c =? "#")%char then
      match call_name t with
      | Some f => [render_target (lookup_call cm f)]
      | None => [t]
      end
    else if ((c =? """")%char || (c =? "`")%char) then [unquote t]
    else if is_special c then [t]
    else [kw_upper t]
  end.

Definition pass_a (cm : callmap) (d : dialect) (l : list string) : list string :=
  flat_map (norm_tok cm d) l.

(* ------------------------------------------------------------------------- *)
(** pass B: [= ANY ( x )] -> [IN ( x )] *)

Definition is_any_redex (x y z : string) : bool := (x =? "=") && (y =? "ANY") && (z =? "(").

Fixpoint any_in (l : list string) : list string :=
  match l with
  | [] => []
  | x :: r =>
    match r with
    | y :: ((z :: _) as r2) =>
      if is_any_redex x y z then "IN" :: any_in r2 else x :: any_in r
    | _ => x :: any_in r
    end
  end.

Definition norm (cm : callmap) (d : dialect) (l : list string) : list string :=
  any_in (pass_a cm d l).

(* ------------------------------------------------------------------------- *)
(** what the normaliser must never touch *)

Definition cmp_ops : list string := ["<"; "<="; ">"; ">="; "<>"; "!="].

Definition guard_keywords : list string :=
  ["WHERE"; "AND"; "OR"; "NOT"; "IS"; "NULL"; "ORDER"; "BY"; "ASC"; "DESC"; "LIMIT"; "OFFSET"; "GROUP";
   "SET"; "FROM"; "UPDATE"; "DELETE"; "INSERT"; "SELECT"; "RETURNING"; "FOR"; "SKIP"; "LOCKED"].

(** column / table names, string literals (states), comparison operators other than [=],
    and the keywords that structure guards and ordering *)
Definition keep (t : string) : bool :=
  is_plain_ident t || is_quoted_lit t || mem t cmp_ops || mem t guard_keywords.

(** placeholder binding (and the unquoting of a quoted plain identifier) alone: besides keyword case,
    the only rules that can produce or remove a [keep] token *)
Definition resolve_tok (d : dialect) (t : string) : list string :=
  match t with
  | EmptyString => [t]
  | String c _ =>
    if ph_start d c then
      match after_brace t with
      | Some e => bind_arg e
      | None => [t]
      end
    else if ((c =? """")%char || (c =? "`")%char) then [unquote t]
    else [t]
  end.

Definition resolve (d : dialect) (l : list string) : list string := flat_map (resolve_tok d) l.

(* ------------------------------------------------------------------------- *)
(** listed differences: contiguous token replacement *)

Fixpoint is_prefix (p l : list string) : bool :=
  match p, l with
  | [], _ => true
  | _, [] => false
  | a :: p', b :: l' => (a =? b) && is_prefix p' l'
  end.

(** replace every occurrence of [from] (non-empty) by [to]; returns the number of replacements *)
Fixpoint replace_all (fuel : nat) (from to l : list string) : list string * nat :=
  match fuel with
  | O => (l, 0)
  | S f =>
    match l with
    | [] => ([], 0)
    | x :: r =>
      if is_prefix from l then
        let (out, n) := replace_all f from to (skipn (length from) l) in ((to ++ out)%list, S n)
      else
        let (out, n) := replace_all f from to r in (x :: out, n)
    end
  end.

(** inlining of helper calls: [#do:f] is replaced by the (already normalised) skeleton of [f] *)
Definition do_name (t : string) : option string :=
  match t with
  | String "#" (String "d" (String "o" (String ":" f))) => Some f
  | _ => None
  end.

Fixpoint assoc (k : string) (tbl : list (string * list string)) : option (list string) :=
  match tbl with
  | [] => None
  | (a, v) :: r => if a =? k then Some v else assoc k r
  end.

Definition inline_once (names : list string) (tbl : list (string * list string)) (l : list string) : list string :=
  flat_map (fun t =>
    match do_name t with
    | Some f => if mem f names then match assoc f tbl with Some b => b | None => [t] end else [t]
    | None => [t]
    end) l.

Fixpoint inline (rounds : nat) (names : list string) (tbl : list (string * list string)) (l : list string) : list string :=
  match rounds with
  | O => l
  | S n => inline n names tbl (inline_once names tbl l)
  end.

(** the SQL statements of a skeleton, in order *)
Fixpoint stmts_aux (cur : option (list string)) (l : list string) : list (list string) :=
  match l with
  | [] => match cur with Some c => [rev c] | None => [] end
  | t :: r =>
    match cur with
    | Some c => if t =? "#endstmt" then rev c :: stmts_aux None r else stmts_aux (Some (t :: c)) r
    | None => if String.prefix "#stmt:" t then stmts_aux (Some []) r else stmts_aux None r
    end
  end.

Definition stmts_of (l : list string) : list (list string) := stmts_aux None l.

(** fragments of the table of listed differences are written as one string: tokens separated by single
    spaces; a space inside [{ .. }] (Go text) does not separate *)
Fixpoint words_aux (depth : nat) (acc : string) (s : string) : list string :=
  match s with
  | EmptyString => if acc =? "" then [] else [acc]
  | String c t =>
    if (c =? " ")%char && Nat.eqb depth 0 then
      (if acc =? "" then words_aux depth EmptyString t else acc :: words_aux depth EmptyString t)
    else
      let depth' := if (c =? "{")%char then S depth
                    else if (c =? "}")%char then Nat.pred depth else depth in
      words_aux depth' (acc ++ String c EmptyString) t
  end.

Definition words (s : string) : list string := words_aux 0 EmptyString s.

Fixpoint list_eqb (a b : list string) : bool :=
  match a, b with
  | [], [] => true
  | x :: a', y :: b' => (x =? y) && list_eqb a' b'
  | _, _ => false
  end.
