(** Model of configuration reload (internal/app/run.go: runtimeState, reloadConfig,
    loadAuth, updateAll and the locked accessors that the HTTP handlers call).

    Three layers, all executable:

    1. [runtime]   - the record of fields of [runtimeState]; every field carries the value
                     that was last written into it.
    2. [reload]    - reloadConfig as a function of its external inputs (file read, parser,
                     compiler, restart comparison, secret loading are arguments: oracles);
                     every failure exit is an explicit [outcome].
    3. schedules   - a request is the sequence of separately locked reads the handler performs;
                     a reload is the sequence of its separately locked writes; a schedule is an
                     arbitrary interleaving.  [observations] returns, for every request, which
                     version of which field each of its reads saw. *)
From Coq Require Import List Bool Arith.
Import ListNotations.

(** * 1. Fields of runtimeState (run.go, type runtimeState).
    First group: assigned by updateAll (incl. configureIngressRateLimits);
    second group: assigned by loadAuth.  [s.now], [s.mu] and the pointer
    [adaptiveController] itself are never reassigned by a reload. *)
Inductive field :=
| FRoutes | FPathToRoute | FTrend | FAdaptive | FGlobalLimit | FRouteLimits
| FPullAuth | FWorkerAuth | FAdminAuth | FPullByRoute | FWorkerByRoute
| FBasic | FForward | FHmac.

Definition field_eqb (a b : field) : bool :=
  match a, b with
  | FRoutes, FRoutes | FPathToRoute, FPathToRoute | FTrend, FTrend | FAdaptive, FAdaptive
  | FGlobalLimit, FGlobalLimit | FRouteLimits, FRouteLimits
  | FPullAuth, FPullAuth | FWorkerAuth, FWorkerAuth | FAdminAuth, FAdminAuth
  | FPullByRoute, FPullByRoute | FWorkerByRoute, FWorkerByRoute
  | FBasic, FBasic | FForward, FForward | FHmac, FHmac => true
  | _, _ => false
  end.

(** updateAll: s.routes, s.pathToRoute, s.trendSignals, s.adaptiveBackpressure (+ the
    controller's updateConfig), s.ingressGlobalLimit, s.ingressRouteLimits - one critical section. *)
Definition table_fields : list field :=
  [FRoutes; FPathToRoute; FTrend; FAdaptive; FGlobalLimit; FRouteLimits].

(** loadAuth, the block between s.mu.Lock() and s.mu.Unlock() at its end. *)
Definition auth_fields : list field :=
  [FPullAuth; FWorkerAuth; FAdminAuth; FPullByRoute; FWorkerByRoute; FBasic; FForward; FHmac].

Definition all_fields : list field := table_fields ++ auth_fields.

(** [T] = type of the values of the table fields, [A] = of the authenticator fields. *)
Record runtime (T A : Type) := mkRuntime {
  r_routes : T; r_path_to_route : T; r_trend : T; r_adaptive : T;
  r_global_limit : T; r_route_limits : T;
  r_pull_auth : A; r_worker_auth : A; r_admin_auth : A; r_pull_by_route : A;
  r_worker_by_route : A; r_basic : A; r_forward : A; r_hmac : A }.
Arguments mkRuntime {T A}.
Arguments r_routes {T A}. Arguments r_path_to_route {T A}. Arguments r_trend {T A}.
Arguments r_adaptive {T A}. Arguments r_global_limit {T A}. Arguments r_route_limits {T A}.
Arguments r_pull_auth {T A}. Arguments r_worker_auth {T A}. Arguments r_admin_auth {T A}.
Arguments r_pull_by_route {T A}. Arguments r_worker_by_route {T A}. Arguments r_basic {T A}.
Arguments r_forward {T A}. Arguments r_hmac {T A}.

(** * 2. reloadConfig *)
Section Reload.
  Variables bytes ast compiled authset : Type.
  (** External steps, as oracles: *)
  Variable read_file : option bytes.                        (* os.ReadFile(path) *)
  Variable parse : bytes -> option ast.                      (* config.Parse *)
  Variable compile : ast -> option compiled.                 (* config.Compile, res.OK *)
  Variable requires_restart : compiled -> compiled -> bool.  (* requiresRestartForReload(compiled, running) *)
  Variable load_secrets : compiled -> option authset.        (* every secrets.LoadRef / Set.Validate /
                                                                secret_ref lookup of loadAuth; None = any of them failed *)
  Variable inherit : authset -> authset -> authset.          (* HMACAuth.InheritNonces(old): new hmac table keeps old nonces *)

  Definition rt := runtime compiled authset.

  (** newRuntimeState + the first loadAuth of run(). *)
  Definition initial (c : compiled) (a : authset) : rt :=
    mkRuntime c c c c c c a a a a a a a a.

  (** loadAuth's critical section: one Lock, eight assignments, one Unlock. *)
  Definition write_auth (a : authset) (r : rt) : rt :=
    mkRuntime (r_routes r) (r_path_to_route r) (r_trend r) (r_adaptive r)
              (r_global_limit r) (r_route_limits r)
              a a a a a a a (inherit a (r_hmac r)).

  (** updateAll: one Lock (deferred Unlock), six assignments. *)
  Definition write_tables (c : compiled) (r : rt) : rt :=
    mkRuntime c c c c c c
              (r_pull_auth r) (r_worker_auth r) (r_admin_auth r) (r_pull_by_route r)
              (r_worker_by_route r) (r_basic r) (r_forward r) (r_hmac r).

  Inductive outcome :=
  | ReadFailed | ParseFailed | CompileFailed | RestartRequired | AuthFailed | Reloaded.

  (** reloadConfig(path, running, state, ...) = (config to keep as running, state', outcome);
      the Go function's boolean result is [outcome = Reloaded]. *)
  Definition reload (running : compiled) (r : rt) : rt * compiled * outcome :=
    match read_file with
    | None => (r, running, ReadFailed)
    | Some data =>
      match parse data with
      | None => (r, running, ParseFailed)
      | Some cfg =>
        match compile cfg with
        | None => (r, running, CompileFailed)
        | Some c =>
          if requires_restart c running then (r, running, RestartRequired)
          else match load_secrets c with
               | None => (r, running, AuthFailed)              (* loadAuth returned an error: before its Lock *)
               | Some a => (write_tables c (write_auth a r), c, Reloaded)
               end
        end
      end
    end.
End Reload.

(** ** The same function as a straight-line program of fallible steps and writes, so that
    "every failure exit precedes the first write" is a property of a step list. *)
Inductive fail_point := PRead | PParse | PCompile | PRestart | PSecrets.
Inductive wkind := WAuth | WTables.
Inductive rstep := SFallible (p : fail_point) | SWrite (w : wkind).

(** reloadConfig + loadAuth read top to bottom. *)
Definition reload_prog : list rstep :=
  [SFallible PRead; SFallible PParse; SFallible PCompile; SFallible PRestart;
   SFallible PSecrets; SWrite WAuth; SWrite WTables].

(** [exec fails prog] = (writes performed, failure exit taken). *)
Fixpoint exec (fails : fail_point -> bool) (prog : list rstep) : list wkind * option fail_point :=
  match prog with
  | [] => ([], None)
  | SFallible p :: tl => if fails p then ([], Some p) else exec fails tl
  | SWrite w :: tl => let '(ws, e) := exec fails tl in (w :: ws, e)
  end.

Fixpoint fallible_first (prog : list rstep) : bool :=
  match prog with
  | [] => true
  | SFallible _ :: tl => fallible_first tl
  | SWrite _ :: tl => forallb (fun s => match s with SWrite _ => true | SFallible _ => false end) tl
  end.

(** * 3. Requests, reload shapes, schedules *)

(** The locked accessors of runtimeState that request handlers call.  One constructor =
    one RLock/RUnlock pair. *)
Inductive callback :=
| CResolveIngress      (* ingress.Server.ResolveRoute      = state.resolveIngress *)
| CAllowedMethods      (* AllowedMethodsFor (only when the route did not resolve) *)
| CAllowIngress        (* AllowRequestFor   = state.allowIngress *)
| CAllowEnqueue        (* AllowEnqueueFor   = state.allowIngressEnqueue *)
| CBasicAuth           (* BasicAuthFor *)
| CLimits              (* LimitsFor *)
| CForwardAuth         (* ForwardAuthFor *)
| CHmacAuth            (* HMACAuthFor *)
| CTargets             (* TargetsFor *)
| CAuthorizePull       (* pullapi.Server.Authorize  = state.authorizePull *)
| CResolvePull         (* pullapi/workerapi ResolveRoute = state.resolvePull *)
| CAuthorizeWorker     (* workerapi Authorize = state.authorizeWorker *)
| CAuthorizeAdmin      (* admin.Server.Authorize = state.authorizeAdmin *)
| CAdminRoutes         (* any of the admin per-route lookups: resolveManagedEndpoint, managedRouteInfoForRoute,
                          targetsForRoute, modeForRoute, publish*ForRoute, limitsFor, managementModel *)
| CSnapshot.           (* NOT in the code: one read of everything (the repair target) *)

(** Which fields the accessor reads inside its critical section. *)
Definition fields_of (c : callback) : list field :=
  match c with
  | CResolveIngress => [FRoutes]
  | CAllowedMethods => [FRoutes]
  | CAllowIngress => [FRouteLimits; FGlobalLimit]
  | CAllowEnqueue => [FAdaptive]
  | CBasicAuth => [FBasic]
  | CLimits => [FRoutes]
  | CForwardAuth => [FForward]
  | CHmacAuth => [FHmac]
  | CTargets => [FRoutes]
  | CAuthorizePull => [FPullAuth; FPullByRoute; FPathToRoute]
  | CResolvePull => [FPathToRoute]
  | CAuthorizeWorker => [FWorkerAuth; FWorkerByRoute; FPathToRoute]
  | CAuthorizeAdmin => [FAdminAuth]
  | CAdminRoutes => [FRoutes]
  | CSnapshot => all_fields
  end.

Definition request := list callback.

(** ingress.Server.ServeHTTP on a request that passes every check (http.go, top to bottom). *)
Definition ingress_request : request :=
  [CResolveIngress; CAllowIngress; CAllowEnqueue; CBasicAuth; CLimits; CForwardAuth; CHmacAuth; CTargets].
(** ... on a path no route resolves. *)
Definition ingress_unresolved_request : request := [CResolveIngress; CAllowedMethods].
(** pullapi.Server.ServeHTTP. *)
Definition pull_request : request := [CAuthorizePull; CResolvePull].
(** workerapi (gRPC). *)
Definition worker_request : request := [CAuthorizeWorker; CResolvePull].
(** admin publish through a managed endpoint (authorize, then several per-route lookups). *)
Definition admin_publish_request : request :=
  [CAuthorizeAdmin; CAdminRoutes; CAdminRoutes; CAdminRoutes; CAdminRoutes].

(** A reload as a list of critical sections, each the list of fields it assigns. *)
Definition reload_shape := list (list field).
(** reloadConfig on the pinned tree: loadAuth's section, then updateAll's. *)
Definition code_shape : reload_shape := [auth_fields; table_fields].
(** The repair target: one section that assigns everything. *)
Definition single_write_shape : reload_shape := [all_fields].

(** Versions: 0 = the configuration the process started with, k = the k-th successful reload. *)
Definition vrt := runtime nat nat.

Definition get (f : field) (r : vrt) : nat :=
  match f with
  | FRoutes => r_routes r | FPathToRoute => r_path_to_route r | FTrend => r_trend r
  | FAdaptive => r_adaptive r | FGlobalLimit => r_global_limit r | FRouteLimits => r_route_limits r
  | FPullAuth => r_pull_auth r | FWorkerAuth => r_worker_auth r | FAdminAuth => r_admin_auth r
  | FPullByRoute => r_pull_by_route r | FWorkerByRoute => r_worker_by_route r
  | FBasic => r_basic r | FForward => r_forward r | FHmac => r_hmac r
  end.

Definition set (f : field) (v : nat) (r : vrt) : vrt :=
  match f with
  | FRoutes => mkRuntime v (r_path_to_route r) (r_trend r) (r_adaptive r) (r_global_limit r) (r_route_limits r) (r_pull_auth r) (r_worker_auth r) (r_admin_auth r) (r_pull_by_route r) (r_worker_by_route r) (r_basic r) (r_forward r) (r_hmac r)
  | FPathToRoute => mkRuntime (r_routes r) v (r_trend r) (r_adaptive r) (r_global_limit r) (r_route_limits r) (r_pull_auth r) (r_worker_auth r) (r_admin_auth r) (r_pull_by_route r) (r_worker_by_route r) (r_basic r) (r_forward r) (r_hmac r)
  | FTrend => mkRuntime (r_routes r) (r_path_to_route r) v (r_adaptive r) (r_global_limit r) (r_route_limits r) (r_pull_auth r) (r_worker_auth r) (r_admin_auth r) (r_pull_by_route r) (r_worker_by_route r) (r_basic r) (r_forward r) (r_hmac r)
  | FAdaptive => mkRuntime (r_routes r) (r_path_to_route r) (r_trend r) v (r_global_limit r) (r_route_limits r) (r_pull_auth r) (r_worker_auth r) (r_admin_auth r) (r_pull_by_route r) (r_worker_by_route r) (r_basic r) (r_forward r) (r_hmac r)
  | FGlobalLimit => mkRuntime (r_routes r) (r_path_to_route r) (r_trend r) (r_adaptive r) v (r_route_limits r) (r_pull_auth r) (r_worker_auth r) (r_admin_auth r) (r_pull_by_route r) (r_worker_by_route r) (r_basic r) (r_forward r) (r_hmac r)
  | FRouteLimits => mkRuntime (r_routes r) (r_path_to_route r) (r_trend r) (r_adaptive r) (r_global_limit r) v (r_pull_auth r) (r_worker_auth r) (r_admin_auth r) (r_pull_by_route r) (r_worker_by_route r) (r_basic r) (r_forward r) (r_hmac r)
  | FPullAuth => mkRuntime (r_routes r) (r_path_to_route r) (r_trend r) (r_adaptive r) (r_global_limit r) (r_route_limits r) v (r_worker_auth r) (r_admin_auth r) (r_pull_by_route r) (r_worker_by_route r) (r_basic r) (r_forward r) (r_hmac r)
  | FWorkerAuth => mkRuntime (r_routes r) (r_path_to_route r) (r_trend r) (r_adaptive r) (r_global_limit r) (r_route_limits r) (r_pull_auth r) v (r_admin_auth r) (r_pull_by_route r) (r_worker_by_route r) (r_basic r) (r_forward r) (r_hmac r)
  | FAdminAuth => mkRuntime (r_routes r) (r_path_to_route r) (r_trend r) (r_adaptive r) (r_global_limit r) (r_route_limits r) (r_pull_auth r) (r_worker_auth r) v (r_pull_by_route r) (r_worker_by_route r) (r_basic r) (r_forward r) (r_hmac r)
  | FPullByRoute => mkRuntime (r_routes r) (r_path_to_route r) (r_trend r) (r_adaptive r) (r_global_limit r) (r_route_limits r) (r_pull_auth r) (r_worker_auth r) (r_admin_auth r) v (r_worker_by_route r) (r_basic r) (r_forward r) (r_hmac r)
  | FWorkerByRoute => mkRuntime (r_routes r) (r_path_to_route r) (r_trend r) (r_adaptive r) (r_global_limit r) (r_route_limits r) (r_pull_auth r) (r_worker_auth r) (r_admin_auth r) (r_pull_by_route r) v (r_basic r) (r_forward r) (r_hmac r)
  | FBasic => mkRuntime (r_routes r) (r_path_to_route r) (r_trend r) (r_adaptive r) (r_global_limit r) (r_route_limits r) (r_pull_auth r) (r_worker_auth r) (r_admin_auth r) (r_pull_by_route r) (r_worker_by_route r) v (r_forward r) (r_hmac r)
  | FForward => mkRuntime (r_routes r) (r_path_to_route r) (r_trend r) (r_adaptive r) (r_global_limit r) (r_route_limits r) (r_pull_auth r) (r_worker_auth r) (r_admin_auth r) (r_pull_by_route r) (r_worker_by_route r) (r_basic r) v (r_hmac r)
  | FHmac => mkRuntime (r_routes r) (r_path_to_route r) (r_trend r) (r_adaptive r) (r_global_limit r) (r_route_limits r) (r_pull_auth r) (r_worker_auth r) (r_admin_auth r) (r_pull_by_route r) (r_worker_by_route r) (r_basic r) (r_forward r) v
  end.

Definition set_fields (fs : list field) (v : nat) (r : vrt) : vrt :=
  fold_left (fun acc f => set f v acc) fs r.

Definition uniform (v : nat) : vrt := mkRuntime v v v v v v v v v v v v v v.

(** Pending critical sections of [n] successive reloads (reloads are serialised by reloadMu in run()):
    reload k assigns version k. *)
Fixpoint writes_from (shape : reload_shape) (k n : nat) : list (list field * nat) :=
  match n with
  | O => []
  | S n' => map (fun w => (w, k)) shape ++ writes_from shape (S k) n'
  end.
Definition writes_of (shape : reload_shape) (n : nat) := writes_from shape 1 n.

(** One read = (callback, field, version seen). *)
Definition obs := list (callback * field * nat).

(** A request in flight: the callbacks still to run, and what it has read so far. *)
Definition inflight := (list callback * obs)%type.

Inductive actor := AReload | AReq (i : nat).
Definition schedule := list actor.

Record sstate := mkS { s_rt : vrt; s_writes : list (list field * nat); s_reqs : list inflight }.

Definition read_step (c : callback) (r : vrt) : obs :=
  map (fun f => (c, f, get f r)) (fields_of c).

Fixpoint step_req (i : nat) (r : vrt) (qs : list inflight) {struct qs} : list inflight :=
  match qs with
  | [] => []
  | (rem, o) :: tl =>
    match i with
    | O => match rem with
           | [] => (rem, o) :: tl
           | c :: rem' => (rem', o ++ read_step c r) :: tl
           end
    | S i' => (rem, o) :: step_req i' r tl
    end
  end.

(** One scheduling decision: the reload performs its next critical section, or request [i]
    performs its next locked read.  A token for an actor that has finished is a no-op, so every
    list of tokens is a schedule. *)
Definition sstep (s : sstate) (a : actor) : sstate :=
  match a with
  | AReload => match s_writes s with
               | [] => s
               | (fs, v) :: tl => mkS (set_fields fs v (s_rt s)) tl (s_reqs s)
               end
  | AReq i => mkS (s_rt s) (s_writes s) (step_req i (s_rt s) (s_reqs s))
  end.

Definition sinit (shape : reload_shape) (n : nat) (reqs : list request) : sstate :=
  mkS (uniform 0) (writes_of shape n) (map (fun r => (r, [])) reqs).

Definition run_schedule (shape : reload_shape) (n : nat) (reqs : list request) (sched : schedule) : sstate :=
  fold_left sstep sched (sinit shape n reqs).

(** What each request read, in request order. *)
Definition observations (shape : reload_shape) (n : nat) (reqs : list request) (sched : schedule) : list obs :=
  map snd (s_reqs (run_schedule shape n reqs sched)).

(** The property predicate: a request is served under ONE version. *)
Definition one_version (o : obs) : bool :=
  match o with
  | [] => true
  | (_, _, v) :: tl => forallb (fun x => Nat.eqb (snd x) v) tl
  end.

Definition P_no_mixture (os : list obs) : bool := forallb one_version os.

(** "every request of [reqs] reads one version, whatever the interleaving with [n] reloads". *)
Definition no_mixture (shape : reload_shape) (reqs : list request) : Prop :=
  forall n sched, P_no_mixture (observations shape n reqs sched) = true.

(** Projection used by the correspondence: versions per callback, per request. *)
Definition versions_seen (o : obs) : list nat := map snd o.
