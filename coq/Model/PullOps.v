(** Executable model of the pull layer on top of the queue store:
    internal/pullapi/ops.go (Dequeue clamps, AckSingle / NackSingle / Extend / AckBatch / NackBatch,
    OpError status codes), internal/pullapi/http.go (recentLeaseOps cache, normalizeLeaseIDs, status
    mapping of the handlers) and the status mapping of the gRPC twin internal/workerapi/server.go.

    A pull server is a state machine over (queue store state, recent-ops cache, store availability).
    Every store call is the corresponding function of Model/Queue.v ([step_lease], [step_lease_batch],
    [step_dequeue], [step]); the flavour (memory / SQLite) is a parameter.

    Conventions: lease ids are N (the harness numbers the trimmed lease strings: ids issued by the store
    in order of issue, foreign strings from a separate range); a raw id as it arrives in a request is
    [praw] (blank / whitespace only, or an id that may carry surrounding white space).  Two clocks: [now] is
    the store's clock (queue.WithNowFunc), [cnow] the pull server's own clock (Server.now), read by the
    recent-ops cache only.  The server clock is read once per call in the model (the harness injects a
    clock that stands still during a call). *)
From Coq Require Import List ZArith NArith Bool.
From HK Require Import Gen.Consts Model.Queue Model.QueueHash.
Import ListNotations.
Open Scope Z_scope.

(** ** the recent-ops cache (http.go: recentLeaseOps map + recentLeaseOrder list) *)

(** recentLeaseOpAck / recentLeaseOpNack: the [op] half of recentLeaseOpKey *)
Inductive opk := OpAck | OpNack.

Definition opk_eqb (a b : opk) : bool :=
  match a, b with OpAck, OpAck | OpNack, OpNack => true | _, _ => false end.

(** recentLeaseOpEntry: key = (leaseID, op), expiresAt *)
Record centry := mkCE { ce_lease : N; ce_op : opk; ce_exp : Z }.

(** the list is recentLeaseOrder front first; the map holds exactly the keys of the list *)
Definition cache := list centry.

Record pcfg := mkPcfg {
  p_target : option N;        (* Server.Target ("" = any) *)
  p_default_ttl : Z;          (* DefaultLeaseTTL *)
  p_max_batch : Z;            (* MaxBatch *)
  p_max_lease_batch : Z;      (* MaxLeaseBatch *)
  p_max_ttl : Z;              (* MaxLeaseTTL *)
  p_default_wait : Z;         (* DefaultMaxWait *)
  p_max_wait : Z;             (* MaxWait *)
  p_recent_ttl : Z;           (* RecentLeaseOpTTL *)
  p_recent_cap : Z            (* RecentLeaseOpCap *) }.

Definition key_eqb (l : N) (k : opk) (e : centry) : bool := N.eqb (ce_lease e) l && opk_eqb (ce_op e) k.

(** pruneRecentLeaseOpsLocked: pop from the front while the front entry has expired
    ([now.Before(expiresAt)] stops the loop) *)
Fixpoint cache_prune (cnow : Z) (ch : cache) : cache :=
  match ch with
  | [] => []
  | e :: tl => if cnow <? ce_exp e then ch else cache_prune cnow tl
  end.

(** removeRecentLeaseOpLocked of the element with this key *)
Definition cache_remove (l : N) (k : opk) (ch : cache) : cache := filter (fun e => negb (key_eqb l k e)) ch.

Definition cache_find (l : N) (k : opk) (ch : cache) : option centry := find (key_eqb l k) ch.

Definition cache_off (pc : pcfg) : bool := (p_recent_ttl pc <=? 0) || (p_recent_cap pc <=? 0).

(** isRecentlyCompletedLease (the id is trimmed and not blank at every call site) *)
Definition cache_lookup (pc : pcfg) (cnow : Z) (l : N) (k : opk) (ch : cache) : cache * bool :=
  if cache_off pc then (ch, false)
  else
    let ch1 := cache_prune cnow ch in
    match cache_find l k ch1 with
    | None => (ch1, false)
    | Some e => if cnow <? ce_exp e then (ch1, true) else (cache_remove l k ch1, false)
    end.

(** the capacity loop of rememberCompletedLease: drop from the front while more than [cap] entries *)
Definition cache_trim (cap : Z) (ch : cache) : cache := skipn (length ch - Z.to_nat cap) ch.

(** rememberCompletedLease *)
Definition cache_remember (pc : pcfg) (cnow : Z) (l : N) (k : opk) (ch : cache) : cache :=
  if cache_off pc then ch
  else
    let ch1 := cache_prune cnow ch in
    let e := mkCE l k (cnow + p_recent_ttl pc) in
    match cache_find l k ch1 with
    | Some _ => cache_remove l k ch1 ++ [e]        (* refresh expiresAt, MoveToBack, return *)
    | None => cache_trim (p_recent_cap pc) (ch1 ++ [e])
    end.

Definition remember_all (pc : pcfg) (cnow : Z) (st : list (N * opk)) (ch : cache) : cache :=
  fold_left (fun acc p => cache_remember pc cnow (fst p) (snd p) acc) st ch.

(** partitionRecentlyCompletedLeases: one isRecentlyCompletedLease per id, in order *)
Fixpoint partition_recent (pc : pcfg) (cnow : Z) (k : opk) (ls : list N) (ch : cache)
  : cache * list N * list N :=      (* cache, pending, completed *)
  match ls with
  | [] => (ch, [], [])
  | l :: tl =>
      let '(ch1, hit) := cache_lookup pc cnow l k ch in
      let '(ch2, pend, comp) := partition_recent pc cnow k tl ch1 in
      if hit then (ch2, pend, l :: comp) else (ch2, l :: pend, comp)
  end.

(** ** requests and responses *)
Inductive praw := PBlank | PId (l : N) (padded : bool).

(** normalizeLeaseIDs (http.go and workerapi/server.go carry the same function): TrimSpace, drop blank
    entries, drop later duplicates *)
Fixpoint norm_lease_ids (ids : list praw) (seen : list N) : list N :=
  match ids with
  | [] => []
  | PBlank :: tl => norm_lease_ids tl seen
  | PId l _ :: tl => if memN l seen then norm_lease_ids tl seen else l :: norm_lease_ids tl (l :: seen)
  end.

Inductive normres := NErr | NSingle (l : N) | NBatch (ls : list N).

Definition normalize (single : praw) (ids : list praw) (maxb : Z) : normres :=
  match single with
  | PId l _ => match ids with [] => NSingle l | _ :: _ => NErr end     (* "use either lease_id or lease_ids" *)
  | PBlank =>
      match ids with
      | [] => NErr                                                     (* "lease_id or lease_ids is required" *)
      | _ :: _ =>
          match norm_lease_ids ids [] with
          | [] => NErr                                                 (* only blank entries *)
          | out => if (0 <? maxb) && (maxb <? Z.of_nat (length out)) then NErr else NBatch out
          end
      end
  end.

(** pullErr* codes of the JSON error body *)
Inductive ecode := CInvalidBody | CLeaseConflict | CStoreUnavailable | CInternal | CRouteNotFound | COpNotFound | CMethod.

Inductive body :=
| BNone                                                   (* 204: no body *)
| BErr (c : ecode)                                        (* writeError *)
| BItems (req : Z * Z * Z) (l : list (N * N * Z * Z))    (* dequeue: (batch, max_wait, lease_ttl) handed to the store; items *)
| BBatch (n : Z) (cs : list (N * bool))                   (* acked / succeeded, conflicts (lease id, expired) *)
| BStore (r : res).                                       (* result of a store call made by another party *)

Record resp := mkResp { r_status : Z; r_body : body }.

(** requests that never reach an operation (ServeHTTP / decodeJSONBodyStrict / parseDuration) *)
Inductive rawkind := RkBadMethod | RkUnknownEndpoint | RkUnknownOp | RkBadJSON | RkBadDuration.

Definition raw_resp (k : rawkind) : resp :=
  match k with
  | RkBadMethod => mkResp 405 (BErr CMethod)
  | RkUnknownEndpoint => mkResp 404 (BErr CRouteNotFound)
  | RkUnknownOp => mkResp 404 (BErr COpNotFound)
  | RkBadJSON | RkBadDuration => mkResp 400 (BErr CInvalidBody)
  end.

Inductive pcall :=
| PDequeue (route : N) (batch : Z) (ttl wait : option Z)       (* None = field absent (HasLeaseTTL / HasMaxWait false) *)
| PAck (single : praw) (ids : list praw)                         (* lease_id, lease_ids *)
| PNack (single : praw) (ids : list praw) (dead : bool) (reason : N) (delay : Z)
| PExtend (l : praw) (by_ : option Z)                            (* None = extend_by absent *)
| PRaw (k : rawkind)
| PStore (x : op)               (* a store call by another party: ingress enqueue, admin cancel / requeue, another consumer *)
| PDown (b : bool).             (* the store starts / stops failing with an unclassified error *)

Record pop := mkPop { po_cnow : Z; po_now : Z; po_call : pcall; po_orc : oracle }.

Record pstate := mkP { p_q : state; p_cache : cache; p_down : bool }.

Definition pinit : pstate := mkP init [] false.

(** what a step did with the cache, for stating the properties (not observable):
    [g_stored]: (lease id, op) pairs the store accepted in this call = the arguments of rememberCompletedLease;
    [g_cached]: (lease id, op) pairs answered from the cache without a store call *)
Record ghost := mkG { g_stored : list (N * opk); g_cached : list (N * opk) }.
Definition g0 : ghost := mkG [] [].

(** ** Dequeue (ops.go) *)
Definition pull_batch (pc : pcfg) (b : Z) : Z :=
  let b1 := if b <=? 0 then 1 else b in
  if (0 <? p_max_batch pc) && (p_max_batch pc <? b1) then p_max_batch pc else b1.

Definition pull_wait (pc : pcfg) (w : option Z) : Z :=
  let w1 := match w with
            | Some x => x
            | None => if 0 <? p_default_wait pc then p_default_wait pc else 0
            end in
  if (0 <? p_max_wait pc) && (p_max_wait pc <? w1) then p_max_wait pc else w1.

Definition pull_ttl (pc : pcfg) (t : option Z) : Z :=
  let t1 := match t with Some x => x | None => p_default_ttl pc end in
  if (0 <? p_max_ttl pc) && (p_max_ttl pc <? t1) then p_max_ttl pc else t1.

Definition pull_dequeue (fl : flavour) (c : cfg) (pc : pcfg) (now : Z) (route : N) (batch : Z) (ttl wait : option Z)
           (o : oracle) (ps : pstate) : pstate * resp * ghost :=
  if p_down ps then (ps, mkResp 503 (BErr CStoreUnavailable), g0)
  else
    let b := pull_batch pc batch in
    let t := pull_ttl pc ttl in
    let w := pull_wait pc wait in
    let '(q', r) := step_dequeue fl c now (Some route) (p_target pc) b t o (p_q ps) in
    (mkP q' (p_cache ps) false,
     match r with RItems items => mkResp 200 (BItems (b, w, t) items) | _ => mkResp 0 (BStore r) end, g0).

(** ** AckSingle / NackSingle / Extend (ops.go): the id is trimmed and not blank here *)
Definition kind_opk (k : lease_kind) : option opk :=
  match k with KAck => Some OpAck | KNack _ | KDead _ => Some OpNack | KExtend _ => None end.

Definition pull_single (fl : flavour) (c : cfg) (pc : pcfg) (cnow now : Z) (k : lease_kind) (l : N) (ps : pstate)
  : pstate * resp * ghost :=
  let '(ch1, hit) := match kind_opk k with
                     | Some o => cache_lookup pc cnow l o (p_cache ps)     (* Extend never looks *)
                     | None => (p_cache ps, false)
                     end in
  let keys := match kind_opk k with Some o => [(l, o)] | None => [] end in
  if hit then (mkP (p_q ps) ch1 (p_down ps), mkResp 204 BNone, mkG [] keys)
  else if p_down ps then (mkP (p_q ps) ch1 true, mkResp 500 (BErr CInternal), g0)
  else
    let '(q', r) := step_lease fl c now k (LKnown l false) (p_q ps) in
    match r with
    | RUnit => (mkP q' (remember_all pc cnow keys ch1) false, mkResp 204 BNone, mkG keys [])
    | RErr ENotFound | RErr EExpired => (mkP q' ch1 false, mkResp 409 (BErr CLeaseConflict), g0)
    | _ => (mkP q' ch1 false, mkResp 500 (BErr CInternal), g0)
    end.

(** ** AckBatch / NackBatch (ops.go, LeaseBatchStore path): ids normalised by the handler *)
Definition conflict_ids (cs : list (cref * bool)) : list N :=
  flat_map (fun p => match fst p with CKnown x => [x] | _ => [] end) cs.

Definition conflict_pairs (cs : list (cref * bool)) : list (N * bool) :=
  flat_map (fun p => match fst p with CKnown x => [(x, snd p)] | _ => [] end) cs.

Definition pull_batch_call (fl : flavour) (c : cfg) (pc : pcfg) (cnow now : Z) (k : lease_kind) (o : opk) (ls : list N)
           (ps : pstate) : pstate * resp * ghost :=
  let '(ch1, pending, completed) := partition_recent pc cnow o ls (p_cache ps) in
  let ncomp := Z.of_nat (length completed) in
  let cached := map (fun l => (l, o)) completed in
  match pending with
  | [] => (mkP (p_q ps) ch1 (p_down ps), mkResp 200 (BBatch ncomp []), mkG [] cached)
  | _ :: _ =>
      if p_down ps then (mkP (p_q ps) ch1 true, mkResp 500 (BErr CInternal), mkG [] cached)
      else
        let '(q', r) := step_lease_batch c now k (map (fun l => LKnown l false) pending) (p_q ps) in
        match r with
        | RBatch n cs =>
            let ok := filter (fun l => negb (memN l (conflict_ids cs))) pending in     (* successfulLeaseIDs *)
            let st := map (fun l => (l, o)) ok in
            (mkP q' (remember_all pc cnow st ch1) false,
             mkResp (match cs with [] => 200 | _ :: _ => 409 end) (BBatch (ncomp + n) (conflict_pairs cs)),
             mkG st cached)
        | _ => (mkP q' ch1 false, mkResp 500 (BErr CInternal), mkG [] cached)
        end
  end.

(** handleAck / handleNack: normalise, then single or batch *)
Definition pull_lease_req (fl : flavour) (c : cfg) (pc : pcfg) (cnow now : Z) (k : lease_kind) (o : opk)
           (single : praw) (ids : list praw) (ps : pstate) : pstate * resp * ghost :=
  match normalize single ids (p_max_lease_batch pc) with
  | NErr => (ps, mkResp 400 (BErr CInvalidBody), g0)
  | NSingle l => pull_single fl c pc cnow now k l ps
  | NBatch ls => pull_batch_call fl c pc cnow now k o ls ps
  end.

Definition nack_kind (dead : bool) (reason : N) (delay : Z) : lease_kind :=
  if dead then KDead reason else KNack delay.

(** handleExtend + Extend *)
Definition pull_extend_req (fl : flavour) (c : cfg) (pc : pcfg) (cnow now : Z) (l : praw) (by_ : option Z) (ps : pstate)
  : pstate * resp * ghost :=
  match l, by_ with
  | PId x _, Some b => pull_single fl c pc cnow now (KExtend b) x ps
  | _, _ => (ps, mkResp 400 (BErr CInvalidBody), g0)
  end.

(** ** one call *)
Definition pstep (fl : flavour) (c : cfg) (pc : pcfg) (ps : pstate) (x : pop) : pstate * resp * ghost :=
  let cnow := po_cnow x in
  let now := po_now x in
  match po_call x with
  | PDequeue route batch ttl wait => pull_dequeue fl c pc now route batch ttl wait (po_orc x) ps
  | PAck single ids => pull_lease_req fl c pc cnow now KAck OpAck single ids ps
  | PNack single ids dead reason delay => pull_lease_req fl c pc cnow now (nack_kind dead reason delay) OpNack single ids ps
  | PExtend l by_ => pull_extend_req fl c pc cnow now l by_ ps
  | PRaw k => (ps, raw_resp k, g0)
  | PStore sx => let '(q', r) := step fl c (p_q ps) sx (po_orc x) in
                 (mkP q' (p_cache ps) (p_down ps), mkResp 0 (BStore r), g0)
  | PDown b => (mkP (p_q ps) (p_cache ps) b, mkResp 0 BNone, g0)
  end.

(** ** histories *)
Record pevent := mkPev { pe_op : pop; pe_resp : resp; pe_ghost : ghost; pe_before : pstate; pe_after : pstate }.

Fixpoint prun (fl : flavour) (c : cfg) (pc : pcfg) (ps : pstate) (xs : list pop) : list pevent * pstate :=
  match xs with
  | [] => ([], ps)
  | x :: tl =>
      let '(ps', r, g) := pstep fl c pc ps x in
      let '(evs, pf) := prun fl c pc ps' tl in
      (mkPev x r g ps ps' :: evs, pf)
  end.

Definition pull_trace (fl : flavour) (c : cfg) (pc : pcfg) (xs : list pop) : list pevent :=
  fst (prun fl c pc pinit xs).

(** the single lease operation a call amounts to, if it is one *)
Definition call_single (pc : pcfg) (x : pcall) : option (lease_kind * N) :=
  match x with
  | PAck single ids =>
      match normalize single ids (p_max_lease_batch pc) with NSingle l => Some (KAck, l) | _ => None end
  | PNack single ids dead reason delay =>
      match normalize single ids (p_max_lease_batch pc) with NSingle l => Some (nack_kind dead reason delay, l) | _ => None end
  | PExtend (PId l _) (Some b) => Some (KExtend b, l)
  | _ => None
  end.

(** the batch a call amounts to: kind, cache key, normalised ids *)
Definition call_batch (pc : pcfg) (x : pcall) : option (lease_kind * opk * list N) :=
  match x with
  | PAck single ids =>
      match normalize single ids (p_max_lease_batch pc) with NBatch ls => Some (KAck, OpAck, ls) | _ => None end
  | PNack single ids dead reason delay =>
      match normalize single ids (p_max_lease_batch pc) with
      | NBatch ls => Some (nack_kind dead reason delay, OpNack, ls) | _ => None end
  | _ => None
  end.

(** ** the gRPC twin (workerapi/server.go): same operations, other status alphabet *)
Inductive gcode := GOk | GInvalidArgument | GUnauthenticated | GNotFound | GFailedPrecondition | GUnavailable | GInternal.

(** mapOpError *)
Definition map_op_error (status : Z) : gcode :=
  if status =? 400 then GInvalidArgument
  else if status =? 401 then GUnauthenticated
  else if status =? 404 then GNotFound
  else if status =? 409 then GFailedPrecondition
  else if status =? 503 then GUnavailable
  else GInternal.

(** an OpError is mapped; a batch outcome is always an OK response carrying its conflicts *)
Definition grpc_code (r : resp) : gcode :=
  match r_body r with
  | BErr _ => map_op_error (r_status r)
  | _ => GOk
  end.

(** leaseBatchLimit: the gRPC server falls back to 100 when neither limit is set *)
Definition grpc_pcfg (pc : pcfg) : pcfg :=
  mkPcfg (p_target pc) (p_default_ttl pc) (p_max_batch pc)
         (if 0 <? p_max_lease_batch pc then p_max_lease_batch pc else 100)
         (p_max_ttl pc) (p_default_wait pc) (p_max_wait pc) (p_recent_ttl pc) (p_recent_cap pc).

(** ** checksums for the correspondence (not part of any theorem) *)

Definition opk_code (k : opk) : Z := match k with OpAck => 1 | OpNack => 2 end.

Definition hash_cache (ch : cache) : Z :=
  fold_left (fun h e => mixl h [Z.of_N (ce_lease e); opk_code (ce_op e); ce_exp e]) ch 301.

Definition ecode_code (e : ecode) : Z :=
  match e with CInvalidBody => 1 | CLeaseConflict => 2 | CStoreUnavailable => 3 | CInternal => 4
             | CRouteNotFound => 5 | COpNotFound => 6 | CMethod => 7 end.

Definition gcode_code (g : gcode) : Z :=
  match g with GOk => 0 | GInvalidArgument => 3 | GUnauthenticated => 16 | GNotFound => 5 | GFailedPrecondition => 9
             | GUnavailable => 14 | GInternal => 13 end.

Definition hash_body (b : body) : Z :=
  match b with
  | BNone => 201
  | BErr e => mix 202 (ecode_code e)
  | BItems (bb, w, t) l =>
      fold_left (fun h it => let '(i, lid, att, un) := it in mixl h [Z.of_N i; Z.of_N lid; att; un]) l (mixl 203 [bb; w; t])
  | BBatch n cs => fold_left (fun h (p : N * bool) => (h + mixl 5 [Z.of_N (fst p); b2z (snd p)]) mod HM) cs (mix 204 n)
  | BStore r => mix 205 (hash_res r)
  end.

(** per call: status, gRPC code, body checksum, stored messages checksum, cache checksum, cache length *)
Definition pull_check (fl : flavour) (c : cfg) (pc : pcfg) (xs : list pop) : list (list Z) :=
  map (fun e => [r_status (pe_resp e); gcode_code (grpc_code (pe_resp e)); hash_body (r_body (pe_resp e));
                 hash_snap (msgs (p_q (pe_after e))); hash_cache (p_cache (pe_after e));
                 Z.of_nat (length (p_cache (pe_after e)));
                 b2z (match r_body (pe_resp e) with BStore RBadOracle => true | _ => false end)])
      (pull_trace fl c pc xs).
