(** Bearer-token authorization of the Pull (HTTP), Worker (gRPC) and Admin APIs.
    internal/pullapi/auth.go BearerTokenAuthorizer, internal/admin/http.go
    BearerTokenAuthorizer (identical), internal/workerapi/auth.go
    BearerTokenAuthorizer + parseBearerToken, internal/app/run.go authorizePull,
    authorizeWorker, authorizeAdmin, pullEndpointFromRequest, mountPrefix,
    hasPathPrefix, loadAuth (which authorizers exist), and the handler skeletons
    pullapi.Server.ServeHTTP, workerapi.Server.resolveAndAuthorize and
    admin.Server.ServeHTTP ("authorize first, then resolve, then the store call"). *)
From Coq Require Import List NArith Bool.
From Coq Require Strings.String.
Import Coq.Strings.String.StringSyntax.
Delimit Scope string_scope with string.
From HK Require Import Model.RBytes Model.PathClean.
Import ListNotations.
Open Scope N_scope.

Definition bearer_sp : bytes := s2b "Bearer "%string.
Definition bearer_sp_lower : bytes := s2b "bearer "%string.

(** BearerTokenAuthorizer keeps only the non-empty tokens. *)
Definition allow_norm (tokens : list bytes) : list bytes :=
  filter (fun t => negb (is_empty t)) tokens.

(** ---- HTTP: r.Header.Get("Authorization") = first value ("" when absent) *)
Definition header_get (values : list bytes) : bytes :=
  match values with v :: _ => v | [] => [] end.

(** the token an Authorization header presents: exact prefix "Bearer ",
    TrimSpace of the rest, non-empty *)
Definition http_presented (values : list bytes) : option bytes :=
  let h := header_get values in
  if is_empty h then None
  else if negb (prefixb bearer_sp h) then None
  else let got := trim (trim_prefix bearer_sp h) in
       if is_empty got then None else Some got.

(** pullapi/admin BearerTokenAuthorizer(tokens)(r) *)
Definition http_bearer_ok (tokens : list bytes) (auth_values : list bytes) : bool :=
  match allow_norm tokens with
  | [] => true                                             (* empty allowlist: open *)
  | allowed => match http_presented auth_values with
               | Some t => mem t allowed                   (* subtle.ConstantTimeCompare == byte equality *)
               | None => false
               end
  end.

(** ---- gRPC: workerapi parseBearerToken *)
Definition grpc_parse (raw : bytes) : option bytes :=
  let h := trim raw in
  if Nat.ltb (List.length h) 7 then None
  else if negb (beq (lower (firstn 7 h)) bearer_sp_lower) then None     (* strings.EqualFold(h[:7], "Bearer ") *)
  else let tok := trim (skipn 7 h) in
       if is_empty tok then None else Some tok.

Fixpoint grpc_tokens (values : list bytes) : list bytes :=
  match values with
  | [] => []
  | v :: t => match grpc_parse v with Some x => x :: grpc_tokens t | None => grpc_tokens t end
  end.

(** workerapi BearerTokenAuthorizer(tokens)(ctx, _): [md] = None when the context
    carries no incoming metadata, else the values of "authorization". *)
Definition grpc_bearer_ok (tokens : list bytes) (md : option (list bytes)) : bool :=
  match allow_norm tokens with
  | [] => true
  | allowed => match md with
               | None => false
               | Some values => existsb (fun t => mem t allowed) (grpc_tokens values)
               end
  end.

(** ---- configuration as loadAuth sees it (token VALUES, after secrets.LoadRef) *)
Record pull_route := {
  pr_route : bytes;            (* route path *)
  pr_endpoint : bytes;         (* pull.path, key of PathToRoute *)
  pr_tokens : list bytes       (* the route's own pull tokens *)
}.
Record auth_cfg := {
  a_global : list bytes;       (* pull_api auth tokens *)
  a_admin : list bytes;        (* admin_api auth tokens *)
  a_routes : list pull_route
}.

(** PathToRoute[endpoint] *)
Fixpoint lookup_endpoint (ep : bytes) (rs : list pull_route) : option pull_route :=
  match rs with
  | [] => None
  | r :: t => if beq ep (pr_endpoint r) then Some r else lookup_endpoint ep t
  end.

(** authorizePull / authorizeWorker: the route's own authorizer when the endpoint
    maps to a route that declares tokens, else the global one. *)
Definition effective (c : auth_cfg) (ep : bytes) : list bytes :=
  match lookup_endpoint ep (a_routes c) with
  | Some r => match pr_tokens r with [] => a_global c | ts => ts end
  | None => a_global c
  end.

(** pullEndpointFromRequest / the same lines of pullapi ServeHTTP *)
Definition pull_op (url_path : bytes) : bytes := base (clean url_path).
Definition pull_endpoint (url_path : bytes) : bytes :=
  let c := clean url_path in
  let e := trim_suffix (slash :: base c) c in
  if is_empty e then [slash] else e.

Definition authorize_pull (c : auth_cfg) (url_path : bytes) (auth_values : list bytes) : bool :=
  http_bearer_ok (effective c (pull_endpoint url_path)) auth_values.

Definition authorize_worker (c : auth_cfg) (endpoint : bytes) (md : option (list bytes)) : bool :=
  grpc_bearer_ok (effective c (trim endpoint)) md.

Definition authorize_admin (c : auth_cfg) (auth_values : list bytes) : bool :=
  http_bearer_ok (a_admin c) auth_values.

(** ---- mountPrefix / hasPathPrefix *)
Definition has_path_prefix (p prefix : bytes) : bool :=
  is_empty prefix || beq p prefix || prefixb (prefix ++ [slash]) p.

(** [None]: 404 from the mount wrapper; [Some p']: path handed to the API handler *)
Definition mount_prefix (prefix p : bytes) : option bytes :=
  if is_empty prefix then Some p
  else if negb (has_path_prefix p prefix) then None
  else let p2 := trim_prefix prefix p in
       let p2 := if is_empty p2 then [slash] else p2 in
       Some (if prefixb [slash] p2 then p2 else slash :: p2).

(** ---- handler skeletons *)
Inductive pull_opk := OpDequeue | OpAck | OpNack | OpExtend.

Definition op_of (name : bytes) : option pull_opk :=
  if beq name (s2b "dequeue"%string) then Some OpDequeue
  else if beq name (s2b "ack"%string) then Some OpAck
  else if beq name (s2b "nack"%string) then Some OpNack
  else if beq name (s2b "extend"%string) then Some OpExtend
  else None.

Section Handlers.
Variable store : Type.
(** the store call of an operation on a route, with its HTTP status *)
Variable run_op : pull_opk -> bytes -> store -> N * store.

Record outcome := { o_status : N; o_store : store; o_calls : list (pull_opk * bytes) }.

(** pullapi.Server.ServeHTTP behind mountPrefix *)
Definition pull_serve (c : auth_cfg) (method url_path : bytes) (auth_values : list bytes) (st : store) : outcome :=
  if negb (beq method (s2b "POST"%string)) then {| o_status := 405; o_store := st; o_calls := [] |}
  else if negb (authorize_pull c url_path auth_values) then {| o_status := 401; o_store := st; o_calls := [] |}
  else match lookup_endpoint (pull_endpoint url_path) (a_routes c) with
       | None => {| o_status := 404; o_store := st; o_calls := [] |}
       | Some r =>
           match op_of (pull_op url_path) with
           | None => {| o_status := 404; o_store := st; o_calls := [] |}
           | Some op => let '(code, st') := run_op op (pr_route r) st in
                        {| o_status := code; o_store := st'; o_calls := [(op, pr_route r)] |}
           end
       end.

(** gRPC codes used here *)
Definition g_ok : N := 0.
Definition g_invalid_argument : N := 3.
Definition g_not_found : N := 5.
Definition g_unauthenticated : N := 16.

(** workerapi.Server.{Dequeue,Ack,Nack,Extend}: argument validation that happens
    before resolveAndAuthorize is the boolean [pre_ok] (it touches no store). *)
Definition worker_call (c : auth_cfg) (op : pull_opk) (endpoint : bytes) (pre_ok : bool)
           (md : option (list bytes)) (st : store) : outcome :=
  let ep := trim endpoint in
  if is_empty ep || negb pre_ok then {| o_status := g_invalid_argument; o_store := st; o_calls := [] |}
  else if negb (authorize_worker c ep md) then {| o_status := g_unauthenticated; o_store := st; o_calls := [] |}
  else match lookup_endpoint ep (a_routes c) with
       | None => {| o_status := g_not_found; o_store := st; o_calls := [] |}
       | Some r => let '(code, st') := run_op op (pr_route r) st in
                   {| o_status := code; o_store := st'; o_calls := [(op, pr_route r)] |}
       end.

(** admin.Server.ServeHTTP: Authorize, then the router (any path, any method) *)
Variable admin_router : bytes -> bytes -> store -> N * store * bool.   (* status, store, touched the store *)

Record admin_outcome := { ad_status : N; ad_store : store; ad_routed : bool }.

Definition admin_serve (c : auth_cfg) (method url_path : bytes) (auth_values : list bytes) (st : store) : admin_outcome :=
  if negb (authorize_admin c auth_values) then {| ad_status := 401; ad_store := st; ad_routed := false |}
  else let '(code, st', _) := admin_router method (clean url_path) st in
       {| ad_status := code; ad_store := st'; ad_routed := true |}.

End Handlers.
