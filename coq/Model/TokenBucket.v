(** Exact-rational model of the ingress token bucket
    (internal/app/ratelimit.go: newTokenBucketLimiter, AllowAt;
     internal/app/run.go: allowIngress, configureIngressRateLimits).
    Time is seconds as an exact rational (the harness passes ns # 10^9); tokens, rate and
    burst are rationals.  The binary64 twin used for the bit-exact correspondence is
    [Model/TokenBucketFloat.v]. *)
From Coq Require Import ZArith QArith Qminmax List Bool.
From HK Require Import Model.Retry.
Import ListNotations.
Open Scope Q_scope.

Record bucket := { tb_rate : Q; tb_burst : Q; tb_tokens : Q; tb_last : Q }.

(** newTokenBucketLimiter: rps <= 0 -> 1, burst <= 0 -> 1, the bucket starts full *)
Definition new_bucket (rps : Q) (burst : Z) (now : Q) : bucket :=
  let r := if Qle_bool rps 0 then 1 else rps in
  let b := if (burst <=? 0)%Z then 1 else inject_Z burst in
  {| tb_rate := r; tb_burst := b; tb_tokens := b; tb_last := now |}.

(** time.Time.Sub saturates at +-MaxInt64 ns; Duration.Seconds() *)
Definition max_dur_s : Q := 9223372036854775807 # 1000000000.
Definition sub_sat (t last : Q) : Q := Qmax (- max_dur_s) (Qmin (t - last) max_dur_s).

(** AllowAt:
      if dt := t.Sub(l.last).Seconds(); dt > 0 {
          l.tokens += dt * l.rate; if l.tokens > l.burst { l.tokens = l.burst }; l.last = t }
      if l.tokens < 1 { return false }
      l.tokens -= 1; return true *)
Definition refill (b : bucket) (t : Q) : bucket :=
  let dt := sub_sat t (tb_last b) in
  if Qltb 0 dt then
    let tk := tb_tokens b + dt * tb_rate b in
    let tk' := if Qltb (tb_burst b) tk then tb_burst b else tk in
    {| tb_rate := tb_rate b; tb_burst := tb_burst b; tb_tokens := tk'; tb_last := t |}
  else b.

Definition allow_at (b : bucket) (t : Q) : bucket * bool :=
  let b1 := refill b t in
  if Qltb (tb_tokens b1) 1 then (b1, false)
  else ({| tb_rate := tb_rate b1; tb_burst := tb_burst b1; tb_tokens := tb_tokens b1 - 1; tb_last := tb_last b1 |}, true).

(** a call sequence: decisions in call order, and the final state *)
Fixpoint run (b : bucket) (ts : list Q) : bucket * list bool :=
  match ts with
  | [] => (b, [])
  | t :: rest =>
      let '(b1, d) := allow_at b t in
      let '(b2, ds) := run b1 rest in
      (b2, d :: ds)
  end.

Definition in_window (a c t : Q) : bool := Qle_bool a t && Qle_bool t c.

(** number of admitted calls whose time lies in the closed window [a, c] *)
Fixpoint admitted_in (a c : Q) (b : bucket) (ts : list Q) : Z :=
  match ts with
  | [] => 0%Z
  | t :: rest =>
      let '(b1, d) := allow_at b t in
      ((if d && in_window a c t then 1 else 0) + admitted_in a c b1 rest)%Z
  end.

(** number of admitted calls of a whole sequence *)
Fixpoint admitted (b : bucket) (ts : list Q) : Z :=
  match ts with
  | [] => 0%Z
  | t :: rest => let '(b1, d) := allow_at b t in ((if d then 1 else 0) + admitted b1 rest)%Z
  end.

(** the latest time among [m] and the calls *)
Fixpoint max_time (m : Q) (ts : list Q) : Q :=
  match ts with [] => m | t :: rest => max_time (Qmax m t) rest end.

(** number of admitted calls in the window, read off a decision list (what the harness records) *)
Fixpoint count_window (a c : Q) (ts : list Q) (ds : list bool) : Z :=
  match ts, ds with
  | t :: ts', d :: ds' => ((if d && in_window a c t then 1 else 0) + count_window a c ts' ds')%Z
  | _, _ => 0%Z
  end.

(** * Limiter choice (run.go allowIngress): the route's own limiter if it declares one,
    else the global one, else admit.  Routes are numbers here. *)
Record limiters := { l_routes : list (Z * bucket); l_global : option bucket }.

Fixpoint find_route (r : Z) (l : list (Z * bucket)) : option bucket :=
  match l with
  | [] => None
  | (k, b) :: tl => if (k =? r)%Z then Some b else find_route r tl
  end.

Fixpoint set_route (r : Z) (nb : bucket) (l : list (Z * bucket)) : list (Z * bucket) :=
  match l with
  | [] => []
  | (k, b) :: tl => if (k =? r)%Z then (k, nb) :: tl else (k, b) :: set_route r nb tl
  end.

Inductive chosen := UseRoute | UseGlobal | UseNone.

Definition choose (ls : limiters) (route : Z) : chosen :=
  match find_route route (l_routes ls) with
  | Some _ => UseRoute
  | None => match l_global ls with Some _ => UseGlobal | None => UseNone end
  end.

Definition allow_ingress (ls : limiters) (route : Z) (t : Q) : limiters * bool :=
  match find_route route (l_routes ls) with
  | Some b => let '(b', d) := allow_at b t in
              ({| l_routes := set_route route b' (l_routes ls); l_global := l_global ls |}, d)
  | None =>
      match l_global ls with
      | Some g => let '(g', d) := allow_at g t in ({| l_routes := l_routes ls; l_global := Some g' |}, d)
      | None => (ls, true)
      end
  end.

(** a request sequence through allowIngress: (route, time) pairs; decisions in order *)
Fixpoint run_ingress (ls : limiters) (reqs : list (Z * Q)) : limiters * list bool :=
  match reqs with
  | [] => (ls, [])
  | (r, t) :: rest =>
      let '(ls1, d) := allow_ingress ls r t in
      let '(ls2, ds) := run_ingress ls1 rest in
      (ls2, d :: ds)
  end.

(** * Validated-oracle check used by the correspondence: replay the implementation's own
    decisions on the exact model and count the steps at which a decision is not
    justified by the exact token count within [slack] (binary64 rounding). *)
Fixpoint replay_bad (b : bucket) (calls : list (Q * bool)) (slack : Q) : Z :=
  match calls with
  | [] => 0%Z
  | (t, d) :: rest =>
      let b1 := refill b t in
      let ok := if d then Qle_bool (1 - slack) (tb_tokens b1) else Qltb (tb_tokens b1) (1 + slack) in
      let tk := if d then tb_tokens b1 - 1 else tb_tokens b1 in
      let b2 := {| tb_rate := tb_rate b1; tb_burst := tb_burst b1; tb_tokens := Qred tk; tb_last := tb_last b1 |} in
      ((if ok then 0 else 1) + replay_bad b2 rest slack)%Z
  end.
