(** Checksums of results and snapshots: the correspondence check compares these with
    the same checksums computed (by /verif/lib/queuecheck.py) over what the Go stores
    returned and stored.  Not part of any theorem. *)
From Coq Require Import List ZArith NArith Bool.
From HK Require Import Model.Queue.
Import ListNotations.
Open Scope Z_scope.

Definition HM : Z := 2305843009213693951.
Definition HP : Z := 1000003.
Definition mix (h x : Z) : Z := (h * HP + x + 1) mod HM.
Definition mixl (h : Z) (l : list Z) : Z := fold_left mix l h.

Definition st_code (s : st) : Z :=
  match s with Queued => 1 | Leased => 2 | Delivered => 3 | Dead => 4 | Canceled => 5 end.

Definition hash_msg (m : msg) : Z :=
  mixl 7 [Z.of_N (m_id m); Z.of_N (m_route m); Z.of_N (m_target m); st_code (m_st m); m_recv m;
          m_attempt m; m_next m; Z.of_N (m_body m); Z.of_N (m_hdr m); Z.of_N (m_trace m);
          Z.of_N (m_reason m);
          match m_lease m with Some l => Z.of_N l + 1 | None => 0 end; m_until m].

Definition hash_snap (l : list msg) : Z :=
  fold_left (fun acc m => (acc + hash_msg m) mod HM) l 11.

Definition err_code (e : err) : Z :=
  match e with ENotFound => 1 | EExpired => 2 | EFull => 3 | EPressure => 4 | EExists => 5 | EInvalid => 6 end.

Definition cref_code (c : cref) : Z :=
  match c with CKnown l => Z.of_N l + 10 | CBlank => 1 | CUnknown => 2 end.

Definition b2z (b : bool) : Z := if b then 1 else 0.

Definition hash_res (r : res) : Z :=
  match r with
  | RUnit => 101
  | RErr e => mix 102 (err_code e)
  | RCount a b p => mixl 103 [a; b; b2z p]
  | RItems l => fold_left (fun h it => let '(i, lid, att, un) := it in mixl h [Z.of_N i; Z.of_N lid; att; un]) l 104
  | RBatch n cs => (* conflicts compared as a multiset: the backends report blank ids in different positions *)
      fold_left (fun h (c : cref * bool) => (h + mixl 5 [cref_code (fst c); b2z (snd c)]) mod HM) cs (mix 105 n)
  | RList ids => fold_left (fun h i => mix h (Z.of_N i)) ids 106
  | RLookup l => fold_left (fun h it => let '(i, r, s) := it in mixl h [Z.of_N i; Z.of_N r; st_code s]) l 107
  | RStats t q l dl dd c => mixl 108 [t; q; l; dl; dd; c]
  | RBadOracle => 109
  end.

Definition hash_event (e : event) : Z := mix (hash_res (ev_res e)) (hash_snap (ev_after e)).

(** result-only / snapshot-only views for histories that snapshot sparsely *)
Definition hash_trace (snap_mask : list bool) (evs : list event) : list Z :=
  map (fun p : event * bool =>
         if snd p then hash_event (fst p) else mix (hash_res (ev_res (fst p))) 0)
      (combine evs snap_mask).
