(** Model of the push dispatcher's settlement logic
    (internal/dispatcher/push.go: isSuccess, shouldRetry, classifyDelivery, recordAttempt,
     routeLeaseTTL, routeDequeueBatch, routeMutationBatch, Start's defaults).
    Status codes, attempt numbers and retry.max are unbounded [Z]; durations are ns.
    The delivery target is an oracle: a stream of results, never predicted. *)
From Coq Require Import ZArith QArith List Bool.
From HK Require Import Model.Retry.
Import ListNotations.
Open Scope Z_scope.

(** dispatcher.Result as classifyDelivery sees it.  A Result whose Err is non-nil is an
    [RErr] whatever its StatusCode (isSuccess/shouldRetry look at Err first). *)
Inductive err_kind :=
| Net                  (* connection refused / reset / DNS ... *)
| Timeout              (* context deadline exceeded: the target hung *)
| PolicyDenied         (* ErrPolicyDenied itself *)
| PolicyDeniedWrapped  (* fmt.Errorf("...: %w", ErrPolicyDenied) - errors.Is sees through *)
| Other.               (* any other error value *)

Inductive result := RErr (k : err_kind) | RStatus (code : Z).

Inductive reason := NoRetry | PolicyDeniedR | MaxRetries.
Inductive action := AAck | ANack | ADead (r : reason).

(** errors.Is(res.Err, ErrPolicyDenied) *)
Definition is_policy_denied (r : result) : bool :=
  match r with
  | RErr PolicyDenied | RErr PolicyDeniedWrapped => true
  | _ => false
  end.

(** isSuccess *)
Definition is_success (r : result) : bool :=
  match r with
  | RErr _ => false
  | RStatus c => (200 <=? c) && (c <? 300)
  end.

(** shouldRetry *)
Definition should_retry (r : result) : bool :=
  match r with
  | RErr _ => negb (is_policy_denied r)
  | RStatus c => (c =? 408) || (c =? 429) || (500 <=? c)
  end.

(** classifyDelivery: the lease action chosen for [r] on attempt number [attempt]
    (env.Attempt, 1 for the first delivery) under retry.max = [retry_max]. *)
Definition classify (r : result) (attempt retry_max : Z) : action :=
  if is_success r then AAck
  else if should_retry r && (attempt <=? retry_max) then ANack
  else ADead (if is_policy_denied r then PolicyDeniedR
              else if should_retry r then MaxRetries else NoRetry).

(** * Attempt records (queue.DeliveryAttempt as classifyDelivery fills it) *)
Inductive outcome := OAcked | ORetry | ODead.

Record attempt_rec := {
  ar_attempt : Z;                 (* env.Attempt *)
  ar_result : result;             (* StatusCode / Error *)
  ar_outcome : outcome;
  ar_reason : option reason;      (* DeadReason, only with ODead *)
  ar_delay : option Q             (* the nack delay (real-valued, ns) scheduled with ORetry *)
}.

Record retry_cfg := { rc_max : Z; rc_base : Z; rc_cap : Z; rc_jitter : Q }.

Definition outcome_of (a : action) : outcome :=
  match a with AAck => OAcked | ANack => ORetry | ADead _ => ODead end.
Definition reason_of (a : action) : option reason :=
  match a with ADead r => Some r | _ => None end.

(** what classifyDelivery passes to recordAttempt - exactly one record on every path *)
Definition attempt_records (rc : retry_cfg) (attempt : Z) (r : result) (u : Q) : list attempt_rec :=
  let a := classify r attempt (rc_max rc) in
  [ {| ar_attempt := attempt; ar_result := r; ar_outcome := outcome_of a; ar_reason := reason_of a;
       ar_delay := match a with
                   | ANack => Some (delayQ (rc_base rc) (rc_cap rc) attempt u (rc_jitter rc))
                   | _ => None
                   end |} ].

(** * One enqueue/requeue cycle of one message
    Every dequeue increments the attempt by one (memory.go / sqlite.go Dequeue); the lease
    mutation chosen by classify succeeds (the property's stated assumption), so an ack ends the
    cycle as delivered, a mark-dead ends it in the DLQ, a nack re-queues the message for the next
    dequeue.  [beh k] is what the target does on the k-th send of the cycle and [draw k] the
    jitter draw of that round - both arbitrary.  [a0] is the attempt number of the first send
    (1 after a fresh enqueue; requeue-from-DLQ keeps the old counter, so any value >= 1). *)
Inductive terminal := TDelivered | TDead (r : reason).

Fixpoint cycle (fuel : nat) (rc : retry_cfg) (attempt : Z) (beh : nat -> result) (draw : nat -> Q) (k : nat)
  : list attempt_rec * option terminal :=
  match fuel with
  | O => ([], None)
  | S f =>
      let r := beh k in
      let recs := attempt_records rc attempt r (draw k) in
      match classify r attempt (rc_max rc) with
      | AAck => (recs, Some TDelivered)
      | ADead why => (recs, Some (TDead why))
      | ANack =>
          let '(l, t) := cycle f rc (attempt + 1) beh draw (S k) in
          (recs ++ l, t)
      end
  end.

(** number of sends (= Deliver calls = attempt records) of a cycle trace *)
Definition sends (tr : list attempt_rec * option terminal) : Z := Z.of_nat (length (fst tr)).

(** enough fuel for any cycle that starts at attempt [a0] *)
Definition cycle_fuel (rc : retry_cfg) (a0 : Z) : nat := S (Z.to_nat (rc_max rc + 1 - a0)).

Definition dispatch_cycle (rc : retry_cfg) (a0 : Z) (beh : nat -> result) (draw : nat -> Q) :=
  cycle (cycle_fuel rc a0) rc a0 beh draw 0.

(** * Lease TTL / micro-batch arithmetic *)
Definition sec : Z := 1000000000.

(** Start: concurrency <= 0 -> 1, leaseSlack <= 0 -> 30 s *)
Definition eff_concurrency (c : Z) : Z := if c <=? 0 then 1 else c.
Definition eff_slack (s : Z) : Z := if s <=? 0 then 30 * sec else s.

(** per target: timeout <= 0 -> 10 s (also in classifyDelivery) *)
Definition eff_timeout (t : Z) : Z := if t <=? 0 then 10 * sec else t.

Definition timeout_step (m t : Z) : Z := let t' := eff_timeout t in if m <? t' then t' else m.
Definition max_timeout (timeouts : list Z) : Z := fold_left timeout_step timeouts 0.

(** routeLeaseTTL *)
Definition route_lease_ttl (timeouts : list Z) (slack batch : Z) : Z :=
  let b := if batch <=? 0 then 1 else batch in
  let ttl := max_timeout timeouts * b + slack in
  if ttl <? 30 * sec then 30 * sec else ttl.

(** routeDequeueBatch *)
Definition route_dequeue_batch (concurrency targets : Z) : Z :=
  if concurrency <=? 1 then 1
  else if 1 <? targets then (if 2 <=? concurrency then 2 else 1)
  else if 4 <=? concurrency then 4 else concurrency.

(** routeMutationBatch *)
Definition route_mutation_batch (dequeue_batch : Z) : Z :=
  if dequeue_batch <=? 1 then 1 else if 4 <? dequeue_batch then 4 else dequeue_batch.

(** * Encodings for the correspondence (numbers only) *)
Definition kind_of_code (n : Z) : err_kind :=
  if n =? 1 then Net else if n =? 2 then Timeout else if n =? 3 then PolicyDenied
  else if n =? 4 then PolicyDeniedWrapped else Other.

(** 0 ack, 1 nack, 2 dead no_retry, 3 dead policy_denied, 4 dead max_retries *)
Definition enc_action (a : action) : Z :=
  match a with
  | AAck => 0 | ANack => 1
  | ADead NoRetry => 2 | ADead PolicyDeniedR => 3 | ADead MaxRetries => 4
  end.

(** a case is (error kind or 0, status code, attempt, retry.max) *)
Definition classify_case (c : Z * Z * Z * Z) : Z :=
  let '(k, code, attempt, mx) := c in
  enc_action (classify (if k =? 0 then RStatus code else RErr (kind_of_code k)) attempt mx).
