(** Model of the ingress size limits (internal/ingress/http.go ServeHTTP, copyHeadersWithExtra,
    headerKVSize; internal/app/run.go limitsFor).  Sizes are byte counts.  The order of the
    checks is the order of the code: rate limit (429) first, then the body (MaxBytesReader,
    413), then the stored headers (413); only then is anything enqueued. *)
From Coq Require Import ZArith List Bool.
Import ListNotations.
Open Scope Z_scope.

(** limitsFor + the override rule in ServeHTTP: a per-route value > 0 replaces the server default *)
Definition eff_limit (server_default route_value : Z) : Z :=
  if 0 <? route_value then route_value else server_default.

(** headerKVSize over the copied headers: sum of len(canonical name) + len(joined values);
    [hs] are those (name length, joined value length) pairs after the three credential
    headers (Authorization, Proxy-Authorization, Cookie) were dropped. *)
Definition header_kv_size (hs : list (Z * Z)) : Z :=
  fold_right (fun kv acc => fst kv + snd kv + acc) 0 hs.

(** copyHeadersWithExtra's verdict *)
Definition headers_fit (hs : list (Z * Z)) (max_headers : Z) : bool :=
  if max_headers <=? 0 then match hs with [] => true | _ => false end
  else negb (max_headers <? header_kv_size hs).

(** http.MaxBytesReader(w, body, n) + io.ReadAll: error iff more than n bytes arrive *)
Definition body_fits (body_len max_body : Z) : bool := body_len <=? max_body.

Inductive verdict := V429 | V413 | VAdmit.

(** the part of ServeHTTP between route resolution and Enqueue, for a route without auth *)
Definition size_verdict (rate_ok : bool) (body_len max_body : Z) (hs : list (Z * Z)) (max_headers : Z) : verdict :=
  if negb rate_ok then V429
  else if negb (body_fits body_len max_body) then V413
  else if negb (headers_fit hs max_headers) then V413
  else VAdmit.

(** number of Store.Enqueue calls the request causes: one per target when admitted, else none *)
Definition enqueues (v : verdict) (targets : Z) : Z :=
  match v with VAdmit => targets | _ => 0 end.
