(** internal/httpheader/validate.go: ValidateMap, validHeaderFieldName, isTokenByte,
    validHeaderFieldValue (C15).  The verdict only is modelled (the Go function returns
    an error text that the Admin API passes on as [detail]). *)
From Coq Require Import List NArith Bool.
From HK Require Import Model.Headers.
Import ListNotations.
Open Scope N_scope.

(** isTokenByte spells the same set as textproto's validHeaderFieldByte *)
Definition is_token_byte (b : N) : bool := is_token b.

Definition valid_field_name (name : bytes) : bool :=
  negb (is_nil name) && forallb is_token_byte name.

Definition valid_value_byte (b : N) : bool :=
  negb ((b =? 13) || (b =? 10) || (b =? 127)) && negb ((b <? 32) && negb (b =? 9)).

Definition valid_field_value (v : bytes) : bool := forallb valid_value_byte v.

(** one map entry, in the order of the checks in ValidateMap *)
Definition validate_entry (e : bytes * bytes) : bool :=
  let raw := fst e in
  let name := trim_space raw in
  if is_nil name then false
  else if negb (beq raw name) then false
  else if negb (valid_field_name name) then false
  else valid_field_value (snd e).

(** the map is accepted iff every entry is (the iteration order does not matter) *)
Definition validate_map (m : smap) : bool := forallb validate_entry m.

(** what the verdict amounts to *)
Definition entry_ok (e : bytes * bytes) : bool :=
  valid_field_name (fst e) && valid_field_value (snd e).
