(** The documented MCP authorization table (internal/mcp/spec.md "Authorization role",
    DESIGN.md MCP section), written by hand and independent of the Go switch
    statements:  read = inspect-only tools; operate = read + queue mutations and the
    runtime inspect tools; admin = config-lifecycle mutations and process control.
    Row = (tool, (required role, needs --enable-mutations, needs --enable-runtime-control, mutating)). *)
From Coq Require Import String List Bool.
From HK Require Import Gen.McpTables.
Import ListNotations.
Open Scope string_scope.

Definition spec_table : list (string * (role * bool * bool * bool)) := [
  ("config_parse",               (RRead,    false, false, false));
  ("config_validate",            (RRead,    false, false, false));
  ("config_compile",             (RRead,    false, false, false));
  ("config_fmt_preview",         (RRead,    false, false, false));
  ("config_diff",                (RRead,    false, false, false));
  ("admin_health",               (RRead,    false, false, false));
  ("management_model",           (RRead,    false, false, false));
  ("backlog_top_queued",         (RRead,    false, false, false));
  ("backlog_oldest_queued",      (RRead,    false, false, false));
  ("backlog_aging_summary",      (RRead,    false, false, false));
  ("backlog_trends",             (RRead,    false, false, false));
  ("messages_list",              (RRead,    false, false, false));
  ("attempts_list",              (RRead,    false, false, false));
  ("dlq_list",                   (RRead,    false, false, false));
  ("dlq_requeue",                (ROperate, true,  false, true));
  ("dlq_delete",                 (ROperate, true,  false, true));
  ("messages_cancel",            (ROperate, true,  false, true));
  ("messages_requeue",           (ROperate, true,  false, true));
  ("messages_resume",            (ROperate, true,  false, true));
  ("messages_publish",           (ROperate, true,  false, true));
  ("messages_cancel_by_filter",  (ROperate, true,  false, true));
  ("messages_requeue_by_filter", (ROperate, true,  false, true));
  ("messages_resume_by_filter",  (ROperate, true,  false, true));
  ("instance_status",            (ROperate, false, true,  false));
  ("instance_logs_tail",         (ROperate, false, true,  false));
  ("config_apply",               (RAdmin,   true,  false, true));
  ("management_endpoint_upsert", (RAdmin,   true,  false, true));
  ("management_endpoint_delete", (RAdmin,   true,  false, true));
  ("instance_start",             (RAdmin,   false, true,  true));
  ("instance_stop",              (RAdmin,   false, true,  true));
  ("instance_reload",            (RAdmin,   false, true,  true))
].

Fixpoint spec_lookup (t : string) (tbl : list (string * (role * bool * bool * bool)))
  : option (role * bool * bool * bool) :=
  match tbl with
  | [] => None
  | (k, v) :: tl => if String.eqb t k then Some v else spec_lookup t tl
  end.

Definition spec_of (t : string) := spec_lookup t spec_table.

Definition role_eqb (a b : role) : bool :=
  match a, b with RRead, RRead | ROperate, ROperate | RAdmin, RAdmin => true | _, _ => false end.

(** The property evaluated directly against the documented table (independent of the
    generated tables): [Some b] = the documented verdict, [None] = tool not documented
    (a tool the code knows but spec.md does not list: no constraint from this table). *)
From HK Require Import Model.McpGate.

Definition spec_access (s : srv) (t : string) : option bool :=
  match spec_of t with
  | Some (r, m, rt, mu) =>
      Some (Nat.leb (rank r) (rank (s_role s))
            && (negb m || s_mut s) && (negb rt || s_rt s)
            && (negb mu || negb (String.eqb (s_principal s) "")))
  | None => if known t then None else Some false
  end.

Definition spec_mutating (t : string) : option bool :=
  match spec_of t with
  | Some (_, _, _, mu) => Some mu
  | None => if known t then None else Some false
  end.

(** Row encoding for the correspondence check (bits, least significant first):
    model allowed, model listed, model mutating, model dispatched,
    spec verdict known, spec allowed, spec mutating known, spec mutating. *)
From Coq Require Import NArith.
Definition b2n (b : bool) : N := if b then 1%N else 0%N.
Definition enc_row (s : srv) (t : string) : N :=
  let sa := spec_access s t in
  let sm := spec_mutating t in
  (b2n (allowedb s t)
   + 2 * b2n (mem_str t (list_tools s))
   + 4 * b2n (mutating t)
   + 8 * b2n (match call s t with ODispatched => true | _ => false end)
   + 16 * b2n (match sa with Some _ => true | None => false end)
   + 32 * b2n (match sa with Some b => b | None => false end)
   + 64 * b2n (match sm with Some _ => true | None => false end)
   + 128 * b2n (match sm with Some b => b | None => false end))%N.
