(** Executable model of the queue store (internal/queue/memory.go, sqlite.go), one
    function per Store method, for both backends ([flavour]).  Every state change is
    a per-message map/filter ([apply_pm]) plus an append, so that what happens to one
    message can be read off the per-message function.

    Conventions: time = Z nanoseconds; ids/routes/targets/lease ids/content handles = N
    (the harness maps strings to numbers); nondeterministic choices of the
    implementation (which ready messages a dequeue picks, generated ids, tie-breaks)
    arrive as [oracle] inputs and are validated, never predicted. *)
From Coq Require Import List ZArith NArith Bool Lia.
From HK Require Import Gen.Consts.
Import ListNotations.
Open Scope Z_scope.

Inductive flavour := Mem | Sql.
Inductive st := Queued | Leased | Delivered | Dead | Canceled.

Definition st_eqb (a b : st) : bool :=
  match a, b with
  | Queued, Queued | Leased, Leased | Delivered, Delivered | Dead, Dead | Canceled, Canceled => true
  | _, _ => false
  end.

Record msg := mkMsg {
  m_id : N; m_route : N; m_target : N; m_st : st; m_recv : Z; m_attempt : Z; m_next : Z;
  m_body : N; m_hdr : N; m_trace : N; m_reason : N;
  m_lease : option N; m_until : Z }.

Record cfg := mkCfg {
  c_max_depth : Z; c_drop_oldest : bool;
  c_ret_age : Z; c_prune_iv : Z; c_deliv_age : Z; c_dlq_age : Z; c_dlq_depth : Z;
  c_press_items : Z  (* explicit memory-pressure item limit, 0 = not set (memory backend) *) }.

Record state := mkState {
  msgs : list msg;            (* insertion order of the live incarnations; ids unique *)
  order : list N;             (* memory backend: the append-only id log (may hold stale ids) *)
  last_prune : option Z;
  last_sweep : Z;             (* SQLite: lastLeaseSweepNanos *)
  issued : list N             (* ghost: every lease id ever handed out *) }.

Definition init : state := mkState [] [] None 0 [].

(** ** setters *)
Definition set_msgs (s : state) (l : list msg) : state :=
  mkState l (order s) (last_prune s) (last_sweep s) (issued s).

Definition upd (m : msg) (s : st) (next : Z) (reason : N) (lease : option N) (until : Z) (attempt : Z) : msg :=
  mkMsg (m_id m) (m_route m) (m_target m) s (m_recv m) attempt next
        (m_body m) (m_hdr m) (m_trace m) reason lease until.

(** what requeueLocked / requeueLease / requeueExpiredLeases do to one message *)
Definition release (now : Z) (m : msg) : msg := upd m Queued now 0%N None 0 (m_attempt m).

Definition is_leased (m : msg) : bool := st_eqb (m_st m) Leased.
Definition expired (now : Z) (m : msg) : bool := is_leased m && (m_until m <=? now).

(** ** the one state-changing primitive *)
Fixpoint apply_pm (pm : msg -> option msg) (l : list msg) : list msg :=
  match l with
  | [] => []
  | m :: tl => match pm m with
               | Some m' => m' :: apply_pm pm tl
               | None => apply_pm pm tl
               end
  end.

Fixpoint find_id (i : N) (l : list msg) : option msg :=
  match l with
  | [] => None
  | m :: tl => if N.eqb (m_id m) i then Some m else find_id i tl
  end.

Definition memN (x : N) (l : list N) : bool := existsb (N.eqb x) l.
Definition has_id (i : N) (l : list msg) : bool := match find_id i l with Some _ => true | None => false end.

Fixpoint find_lease (l : N) (ms : list msg) : option msg :=
  match ms with
  | [] => None
  | m :: tl => match m_lease m with
               | Some l' => if N.eqb l l' then Some m else find_lease l tl
               | None => find_lease l tl
               end
  end.

Definition count_st (p : st -> bool) (l : list msg) : Z :=
  Z.of_nat (length (filter (fun m => p (m_st m)) l)).

Definition is_active (s : st) : bool := match s with Queued | Leased => true | _ => false end.
Definition is_active_deliv (s : st) : bool := match s with Queued | Leased | Delivered => true | _ => false end.
Definition is_retained (s : st) : bool := match s with Delivered | Dead | Canceled => true | _ => false end.
Definition active (l : list msg) : Z := count_st is_active l.
Definition active_deliv (l : list msg) : Z := count_st is_active_deliv l.

(** ** expired-lease sweep *)
Definition pm_sweep (now : Z) (m : msg) : option msg :=
  if expired now m then Some (release now m) else Some m.
Definition sweep (now : Z) (l : list msg) : list msg := apply_pm (pm_sweep now) l.

(** ** retention pruning (maybePrune / maybePruneLocked) *)
Definition prune_enabled (c : cfg) : bool :=
  (0 <? c_prune_iv c) &&
  ((0 <? c_ret_age c) || (0 <? c_deliv_age c) || (0 <? c_dlq_age c) || (0 <? c_dlq_depth c)).

Definition prune_due (c : cfg) (now : Z) (lp : option Z) : bool :=
  prune_enabled c &&
  match lp with None => true | Some t => negb (now - t <? c_prune_iv c) end.

(** age rules: is this message past its cut-off? *)
Definition prune_age_eligible (c : cfg) (now : Z) (m : msg) : bool :=
  match m_st m with
  | Queued => (0 <? c_ret_age c) && (m_recv m <=? now - c_ret_age c)
  | Dead => (0 <? c_dlq_age c) && (m_recv m <=? now - c_dlq_age c)
  | Delivered => (0 <? c_deliv_age c) && (m_next m <=? now - c_deliv_age c)
  | _ => false
  end.

Definition pm_prune_age (c : cfg) (now : Z) (m : msg) : option msg :=
  if prune_age_eligible c now m then None else Some m.

(** insertion sort of messages by a Z key then id (stable enough: keys+ids are unique) *)
Definition lt_key (ka : Z) (ia : N) (kb : Z) (ib : N) : bool :=
  (ka <? kb) || ((ka =? kb) && (N.ltb ia ib)).

Fixpoint insert_by (key : msg -> Z) (asc : bool) (m : msg) (l : list msg) : list msg :=
  match l with
  | [] => [m]
  | x :: tl =>
      let before := if asc then lt_key (key m) (m_id m) (key x) (m_id x)
                    else lt_key (key x) (m_id x) (key m) (m_id m) in
      if before then m :: l else x :: insert_by key asc m tl
  end.

Definition sort_by (key : msg -> Z) (asc : bool) (l : list msg) : list msg :=
  fold_right (insert_by key asc) [] l.

(** choose [n] elements of [cands] (a list of ids, already in preference order),
    preferring those named by the [hint] (ids the implementation was seen to remove). *)
Definition prefer (hint cands : list N) : list N :=
  filter (fun i => memN i hint) cands ++ filter (fun i => negb (memN i hint)) cands.

(** DLQ depth: the ids removed when more than [depth] dead messages exist: the
    [excess] oldest by received_at; among equal received_at at the cut the hint decides. *)
Definition dlq_depth_victims (depth : Z) (hint : list N) (l : list msg) : list N :=
  let deads := filter (fun m => st_eqb (m_st m) Dead) l in
  let n := Z.of_nat (length deads) in
  if (0 <? depth) && (depth <? n) then
    let excess := Z.to_nat (n - depth) in
    let sorted := sort_by m_recv true deads in
    match nth_error sorted (excess - 1) with
    | None => []
    | Some cutm =>
        let cut := m_recv cutm in
        let sure := map m_id (filter (fun m => m_recv m <? cut) sorted) in
        let ties := map m_id (filter (fun m => m_recv m =? cut) sorted) in
        sure ++ firstn (excess - length sure) (prefer hint ties)
    end
  else [].

Definition pm_remove_ids (ids : list N) (m : msg) : option msg :=
  if memN (m_id m) ids then None else Some m.

Definition prune_msgs (c : cfg) (now : Z) (hint : list N) (l : list msg) : list msg :=
  let l1 := apply_pm (pm_prune_age c now) l in
  apply_pm (pm_remove_ids (dlq_depth_victims (c_dlq_depth c) hint l1)) l1.

Definition prune (c : cfg) (now : Z) (hint : list N) (s : state) : state :=
  if prune_due c now (last_prune s) then
    mkState (prune_msgs c now hint (msgs s)) (order s) (Some now) (last_sweep s) (issued s)
  else s.

(** ** drop_oldest victim *)
Definition queuedb (m : msg) : bool := st_eqb (m_st m) Queued.

(** SQLite: DELETE ... WHERE id = (SELECT id WHERE state='queued' ORDER BY received_at ASC LIMIT 1) *)
Definition sql_victim (hint : list N) (l : list msg) : option N :=
  let qs := filter queuedb l in
  match sort_by m_recv true qs with
  | [] => None
  | first :: _ =>
      let ties := map m_id (filter (fun m => m_recv m =? m_recv first) qs) in
      hd_error (prefer hint ties)
  end.

(** memory: first id of the append-only log whose live message is queued *)
Fixpoint mem_victim (ord : list N) (l : list msg) : option N :=
  match ord with
  | [] => None
  | i :: tl => match find_id i l with
               | Some m => if queuedb m then Some i else mem_victim tl l
               | None => mem_victim tl l
               end
  end.

Definition victim (fl : flavour) (hint : list N) (s : state) (l : list msg) : option N :=
  match fl with Mem => mem_victim (order s) l | Sql => sql_victim hint l end.

(** ** memory pressure (memory backend) *)
Definition press_item_limit (c : cfg) : Z :=
  if 0 <? c_press_items c then c_press_items c
  else if c_max_depth c <=? 0 then 0
  else Z.max mem_pressure_item_floor (c_max_depth c).

Definition pressure (c : cfg) (l : list msg) : bool :=
  let lim := press_item_limit c in
  (0 <? lim) && (lim <=? count_st is_retained l).

(** ** requests *)
Record enq := mkEnq {
  e_id : option N;            (* None: blank id, the store generates one (oracle) *)
  e_route : N; e_target : N;
  e_recv : option Z; e_next : option Z;
  e_body : N; e_hdr : N; e_trace : N }.

Inductive lref := LKnown (l : N) (padded : bool) | LBlank | LUnknown.
Inductive rid := RPlain (i : N) | RPadded (i : N) | RBlank.

Record filt := mkFilt {
  f_route : option N; f_target : option N; f_state : option st;
  f_limit : Z; f_before : option Z; f_preview : bool }.

Inductive lorder := OAsc | ODesc | OInvalid.

Inductive lease_kind := KAck | KNack (delay : Z) | KExtend (by_ : Z) | KDead (reason : N).
Inductive manage_kind := MCancel | MRequeue | MResume | MRequeueDead | MDeleteDead.

Inductive op :=
| Enqueue (now : Z) (e : enq)
| EnqueueBatch (now : Z) (es : list enq)
| Dequeue (now : Z) (route target : option N) (batch : Z) (ttl : Z)
| LeaseOp (now : Z) (k : lease_kind) (l : lref)
| LeaseBatch (now : Z) (k : lease_kind) (ls : list lref)
| Manage (now : Z) (k : manage_kind) (ids : list rid)
| ManageF (now : Z) (k : manage_kind) (f : filt)
| ListMessages (now : Z) (f : filt) (ord : lorder)
| ListDead (now : Z) (route : option N) (limit : Z) (before : option Z)
| Lookup (now : Z) (ids : list rid)
| Stats (now : Z)
| Reopen (now : Z).   (* SQLite: close and reopen the store on the same file (process restart) *)

Record oracle := mkOracle {
  o_picked : list (N * N);    (* dequeue: (message id, lease id) in the order returned *)
  o_gone : list N;            (* ids seen to disappear in this step (tie-break hint only) *)
  o_genids : list N;          (* ids generated for blank-id enqueues, in order *)
  o_listed : list N           (* SQLite ListDead: the ids returned (validated, order among ties free) *) }.

Inductive err := ENotFound | EExpired | EFull | EPressure | EExists | EInvalid.
Inductive cref := CKnown (l : N) | CBlank | CUnknown.

Inductive res :=
| RUnit
| RErr (e : err)
| RCount (changed matched : Z) (preview : bool)
| RItems (l : list (N * N * Z * Z))       (* id, lease id, attempt, lease_until *)
| RBatch (succeeded : Z) (conflicts : list (cref * bool))
| RList (ids : list N)
| RLookup (l : list (N * N * st))
| RStats (total q l dl dd c : Z)
| RBadOracle.                             (* the observed choice is not one the model allows *)

(** ** enqueue *)
Definition mk_msg (now : Z) (i : N) (e : enq) : msg :=
  let recv := match e_recv e with Some t => t | None => now end in
  let next := match e_next e with Some t => t | None => recv end in
  mkMsg i (e_route e) (e_target e) Queued recv 0 next (e_body e) (e_hdr e) (e_trace e) 0%N None 0.

Definition remove_id (i : N) (l : list msg) : list msg := apply_pm (pm_remove_ids [i]) l.

(** assign ids: explicit ones stay, blank ones take the next oracle id *)
Fixpoint assign_ids (es : list enq) (gen : list N) : option (list (N * enq)) :=
  match es with
  | [] => Some []
  | e :: tl =>
      match e_id e with
      | Some i => option_map (cons (i, e)) (assign_ids tl gen)
      | None => match gen with
                | [] => None
                | g :: gtl => option_map (cons (g, e)) (assign_ids tl gtl)
                end
      end
  end.

(** memory planDropOldestLocked: the queued ids (in log order, each once) that must go so
    that [extra] new messages fit; [None] = ErrQueueFull.  Nothing is evicted here. *)
Definition mem_full (c : cfg) (extra a ad : Z) : bool :=
  (c_max_depth c <? a + extra) || ((0 <? c_deliv_age c) && (c_max_depth c <? ad + extra)).

(** the queued message with the smallest received_at that is not yet planned; ties go to
    the first position in the order log *)
Fixpoint mem_oldest (ord : list N) (l : list msg) (victims : list N) (best : option msg) : option msg :=
  match ord with
  | [] => best
  | i :: tl =>
      match find_id i l with
      | Some m =>
          if queuedb m && negb (memN i victims) then
            match best with
            | None => mem_oldest tl l victims (Some m)
            | Some b => if m_recv m <? m_recv b then mem_oldest tl l victims (Some m)
                        else mem_oldest tl l victims best
            end
          else mem_oldest tl l victims best
      | None => mem_oldest tl l victims best
      end
  end.

Fixpoint mem_plan_loop (c : cfg) (fuel : nat) (extra : Z) (ord : list N) (l : list msg) (a ad : Z) (victims : list N)
  : option (list N) :=
  if negb (mem_full c extra a ad) then Some victims
  else match fuel with
       | O => None
       | S f => match mem_oldest ord l victims None with
                | None => None
                | Some m => mem_plan_loop c f extra ord l (a - 1) (ad - 1) (victims ++ [m_id m])
                end
       end.

Definition mem_plan (c : cfg) (extra : Z) (s : state) (l : list msg) : option (list N) :=
  if c_max_depth c <=? 0 then Some []
  else if negb (mem_full c extra (active l) (active_deliv l)) then Some []
  else if negb (c_drop_oldest c) then None
  else mem_plan_loop c (S (length l)) extra (order s) l (active l) (active_deliv l) [].

Fixpoint sql_make_room (c : cfg) (fuel : nat) (need : Z) (hint : list N) (l : list msg) : option (list msg) :=
  if need <=? c_max_depth c then Some l
  else match fuel with
       | O => None
       | S f => match sql_victim hint l with
                | None => None
                | Some v => sql_make_room c f (need - 1) hint (remove_id v l)
                end
       end.

Fixpoint nodupN (l : list N) : bool :=
  match l with [] => true | x :: tl => negb (memN x tl) && nodupN tl end.

Definition step_enqueue (fl : flavour) (c : cfg) (now : Z) (single : bool) (es : list enq) (o : oracle) (s : state)
  : state * res :=
  match es with
  | [] => (s, RCount 0 0 false)
  | _ =>
  let s1 := prune c now (o_gone o) s in
  match assign_ids es (o_genids o) with
  | None => (s, RBadOracle)
  | Some ies =>
    let ids := map fst ies in
    let k := Z.of_nat (length ies) in
    let news := map (fun p => mk_msg now (fst p) (snd p)) ies in
    let ok_res := if single then RUnit else RCount k 0 false in
    match fl with
    | Sql =>
        let l1 := msgs s1 in
        let room :=
          if 0 <? c_max_depth c then
            (* enqueueWithLimit (k = 1, since fix 1370a7d) and EnqueueBatch: evict until the new items fit *)
            if c_drop_oldest c then sql_make_room c (S (length l1)) (active l1 + k) (o_gone o) l1
            else if c_max_depth c <? active l1 + k then None else Some l1
          else Some l1 in
        match room with
        | None => (s1, RErr EFull)
        | Some l2 =>
            if nodupN ids && forallb (fun i => negb (has_id i l2)) ids
            then (mkState (l2 ++ news) (order s1) (last_prune s1) (last_sweep s1) (issued s1), ok_res)
            else (s1, RErr EExists)       (* rollback: evictions undone *)
        end
    | Mem =>
        let l1 := msgs s1 in
        match mem_plan c k s1 l1 with
        | None => (s1, RErr EFull)
        | Some victims =>
            let fresh := forallb (fun i => negb (has_id i l1) || memN i victims) ids in
            let l2 := apply_pm (pm_remove_ids victims) l1 in
            let done := (mkState (l2 ++ news) (order s1 ++ ids) (last_prune s1) (last_sweep s1) (issued s1), ok_res) in
            if single then
              if pressure c l1 then (s1, RErr EPressure)
              else if negb fresh then (s1, RErr EExists)
              else done
            else
              if negb (nodupN ids && fresh) then (s1, RErr EExists)
              else if pressure c l1 then (s1, RErr EPressure)
              else done
        end
    end
  end
  end.

(** ** dequeue *)
Definition clamp_batch (b : Z) : Z :=
  let b1 := if b <=? 0 then mem_dequeue_batch_default else b in
  if mem_dequeue_batch_cap <? b1 then mem_dequeue_batch_cap else b1.

Definition eff_ttl (ttl : Z) : Z := if ttl <=? 0 then mem_dequeue_leasettl_default else ttl.

Definition opt_match (x : option N) (v : N) : bool :=
  match x with None => true | Some a => N.eqb a v end.

Definition ready (now : Z) (route target : option N) (m : msg) : bool :=
  queuedb m && opt_match route (m_route m) && opt_match target (m_target m) && (m_next m <=? now).

Definition valid_pick (now : Z) (route target : option N) (batch : Z) (l : list msg) (iss : list N)
           (picked : list (N * N)) : bool :=
  let ids := map fst picked in
  let lids := map snd picked in
  let nready := Z.of_nat (length (filter (ready now route target) l)) in
  nodupN ids && nodupN lids
  && forallb (fun i => match find_id i l with Some m => ready now route target m | None => false end) ids
  && forallb (fun x => negb (memN x iss)) lids
  && (Z.of_nat (length picked) =? Z.min batch nready).

Definition lease_of (picked : list (N * N)) (i : N) : option N :=
  match find (fun p => N.eqb (fst p) i) picked with Some p => Some (snd p) | None => None end.

Definition pm_lease (now ttl : Z) (picked : list (N * N)) (m : msg) : option msg :=
  match lease_of picked (m_id m) with
  | Some lid => Some (upd m Leased (now + ttl) (m_reason m) (Some lid) (now + ttl) (m_attempt m + 1))
  | None => Some m
  end.

Definition sql_sweep_due (now last : Z) : bool := negb (now - last <? sql_sweep_interval_ns).

Definition step_dequeue (fl : flavour) (c : cfg) (now : Z) (route target : option N) (batch ttl : Z)
           (o : oracle) (s : state) : state * res :=
  let b := clamp_batch batch in
  let t := eff_ttl ttl in
  let s2 :=
    match fl with
    | Mem => let s1 := prune c now (o_gone o) s in set_msgs s1 (sweep now (msgs s1))   (* prune, then sweep (since fix 30c02e7) *)
    | Sql =>
        let s1 := prune c now (o_gone o) s in
        if sql_sweep_due now (last_sweep s1)
        then mkState (sweep now (msgs s1)) (order s1) (last_prune s1) now (issued s1)
        else s1
    end in
  if valid_pick now route target b (msgs s2) (issued s2) (o_picked o) then
    let l3 := apply_pm (pm_lease now t (o_picked o)) (msgs s2) in
    let items := map (fun p => match find_id (fst p) l3 with
                               | Some m => (fst p, snd p, m_attempt m, m_until m)
                               | None => (fst p, snd p, 0, 0) end) (o_picked o) in
    (mkState l3 (order s2) (last_prune s2) (last_sweep s2) (issued s2 ++ map snd (o_picked o)), RItems items)
  else (s2, RBadOracle).

(** ** lease operations *)
Definition lease_effect (c : cfg) (now : Z) (k : lease_kind) (m : msg) : option msg :=
  match k with
  | KAck => if 0 <? c_deliv_age c then Some (upd m Delivered now 0%N None 0 (m_attempt m)) else None
  | KNack d => Some (upd m Queued (now + Z.max d 0) 0%N None 0 (m_attempt m))
  | KExtend by_ => Some (upd m Leased (m_until m + by_) (m_reason m) (m_lease m) (m_until m + by_) (m_attempt m))
  | KDead r => Some (upd m Dead now r None 0 (m_attempt m))
  end.

Definition pm_on_id (i : N) (f : msg -> option msg) (m : msg) : option msg :=
  if N.eqb (m_id m) i then f m else Some m.

Inductive lease_outcome := LOk | LConflict (expired : bool).

(** the rule for one (trimmed, non-blank) lease id *)
Definition lease_one (c : cfg) (now : Z) (k : lease_kind) (l : N) (ms : list msg) : list msg * lease_outcome :=
  match find_lease l ms with
  | None => (ms, LConflict false)
  | Some m =>
      if negb (is_leased m) then (ms, LConflict false)
      else if m_until m <=? now
      then (apply_pm (pm_on_id (m_id m) (fun x => Some (release now x))) ms, LConflict true)
      else (apply_pm (pm_on_id (m_id m) (lease_effect c now k)) ms, LOk)
  end.

Definition is_noop_extend (k : lease_kind) : bool :=
  match k with KExtend by_ => by_ <=? 0 | _ => false end.

Definition step_lease (fl : flavour) (c : cfg) (now : Z) (k : lease_kind) (l : lref) (s : state) : state * res :=
  if is_noop_extend k then (s, RUnit)
  else
    let resolved :=
      match l with
      | LKnown x _ => Some x        (* both backends trim the id (memory since fix 7f7b120) *)
      | LBlank | LUnknown => None
      end in
    match resolved with
    | None => (s, RErr ENotFound)
    | Some x =>
        match lease_one c now k x (msgs s) with
        | (l', LOk) => (set_msgs s l', RUnit)
        | (l', LConflict true) => (set_msgs s l', RErr EExpired)
        | (l', LConflict false) => (set_msgs s l', RErr ENotFound)
        end
    end.

Fixpoint lease_batch (c : cfg) (now : Z) (k : lease_kind) (ls : list lref) (ms : list msg)
  : list msg * Z * list (cref * bool) :=
  match ls with
  | [] => (ms, 0, [])
  | l :: tl =>
      match l with
      | LBlank => let '(ms', n, cs) := lease_batch c now k tl ms in (ms', n, (CBlank, false) :: cs)
      | LUnknown => let '(ms', n, cs) := lease_batch c now k tl ms in (ms', n, (CUnknown, false) :: cs)
      | LKnown x _ =>
          match lease_one c now k x ms with
          | (ms1, LOk) => let '(ms', n, cs) := lease_batch c now k tl ms1 in (ms', n + 1, cs)
          | (ms1, LConflict e) => let '(ms', n, cs) := lease_batch c now k tl ms1 in (ms', n, (CKnown x, e) :: cs)
          end
      end
  end.

Definition batch_kind_ok (k : lease_kind) : bool := match k with KExtend _ => false | _ => true end.

Definition step_lease_batch (c : cfg) (now : Z) (k : lease_kind) (ls : list lref) (s : state) : state * res :=
  let k' := match k with KNack d => KNack (Z.max d 0) | _ => k end in
  let '(ms', n, cs) := lease_batch c now k' ls (msgs s) in
  (set_msgs s ms', RBatch n cs).

(** ** operator mutations *)
Definition allowed_from (k : manage_kind) (s : st) : bool :=
  match k, s with
  | MCancel, (Queued | Leased | Dead) => true
  | MRequeue, (Dead | Canceled) => true
  | MResume, Canceled => true
  | MRequeueDead, Dead => true
  | MDeleteDead, Dead => true
  | _, _ => false
  end.

Definition manage_effect (now : Z) (k : manage_kind) (m : msg) : option msg :=
  match k with
  | MCancel => Some (upd m Canceled now 0%N None 0 (m_attempt m))
  | MRequeue | MResume | MRequeueDead => Some (upd m Queued now 0%N None 0 (m_attempt m))
  | MDeleteDead => None
  end.

Fixpoint norm_ids (ids : list rid) (seen : list N) : list N :=
  match ids with
  | [] => []
  | r :: tl =>
      match r with
      | RBlank => norm_ids tl seen
      | RPlain i | RPadded i => if memN i seen then norm_ids tl seen else i :: norm_ids tl (i :: seen)
      end
  end.

Definition pm_manage (now : Z) (k : manage_kind) (ids : list N) (m : msg) : option msg :=
  if memN (m_id m) ids && allowed_from k (m_st m) then manage_effect now k m else Some m.

Definition selected (k : manage_kind) (ids : list N) (l : list msg) : list msg :=
  filter (fun m => memN (m_id m) ids && allowed_from k (m_st m)) l.

Definition step_manage (now : Z) (k : manage_kind) (ids : list rid) (s : state) : state * res :=
  let nids := norm_ids ids [] in
  let n := Z.of_nat (length (selected k nids (msgs s))) in
  (set_msgs s (apply_pm (pm_manage now k nids) (msgs s)),
   RCount n (match k with MRequeueDead | MDeleteDead => 0 | _ => n end) false).

Definition eff_limit (lim : Z) : Z :=
  let l1 := if lim <=? 0 then mem_list_limit_default else lim in
  if mem_list_limit_cap <? l1 then mem_list_limit_cap else l1.

Definition opt_before (b : option Z) (m : msg) : bool :=
  match b with None => true | Some t => m_recv m <? t end.

Definition opt_state (x : option st) (s : st) : bool :=
  match x with None => true | Some a => st_eqb a s end.

Definition filt_match (f : filt) (m : msg) : bool :=
  opt_match (f_route f) (m_route m) && opt_match (f_target f) (m_target m)
  && opt_state (f_state f) (m_st m) && opt_before (f_before f) m.

Definition filter_select (k : manage_kind) (f : filt) (l : list msg) : list N :=
  match f_state f with
  | Some x => if allowed_from k x then
                map m_id (firstn (Z.to_nat (eff_limit (f_limit f)))
                                 (sort_by m_recv false (filter (fun m => filt_match f m && allowed_from k (m_st m)) l)))
              else []
  | None => map m_id (firstn (Z.to_nat (eff_limit (f_limit f)))
                             (sort_by m_recv false (filter (fun m => filt_match f m && allowed_from k (m_st m)) l)))
  end.

Definition step_manage_f (now : Z) (k : manage_kind) (f : filt) (s : state) : state * res :=
  let ids := filter_select k f (msgs s) in
  let matched := Z.of_nat (length ids) in
  if f_preview f then (s, RCount 0 matched true)
  else
    let n := Z.of_nat (length (selected k ids (msgs s))) in
    (set_msgs s (apply_pm (pm_manage now k ids) (msgs s)), RCount n matched false).

(** ** reads (ListMessages / ListDead / Stats prune first) *)
Definition step_list (c : cfg) (now : Z) (f : filt) (ord : lorder) (o : oracle) (s : state) : state * res :=
  let s1 := prune c now (o_gone o) s in
  match ord with
  | OInvalid => (s1, RErr EInvalid)
  | _ =>
      let asc := match ord with OAsc => true | _ => false end in
      (s1, RList (map m_id (firstn (Z.to_nat (eff_limit (f_limit f)))
                                   (sort_by m_recv asc (filter (filt_match f) (msgs s1))))))
  end.

Definition dead_match (route : option N) (before : option Z) (m : msg) : bool :=
  st_eqb (m_st m) Dead && opt_match route (m_route m) && opt_before before m.

(** SQLite's ListDead orders by received_at only: any result that is a correct
    "newest [limit]" selection is accepted (validated), order inside a tie is free. *)
Fixpoint sorted_desc_recv (l : list msg) : bool :=
  match l with
  | a :: ((b :: _) as tl) => (m_recv b <=? m_recv a) && sorted_desc_recv tl
  | _ => true
  end.

Definition valid_dead_listing (route : option N) (limit : Z) (before : option Z) (l : list msg) (ids : list N) : bool :=
  let cands := filter (dead_match route before) l in
  let lim := eff_limit limit in
  let rows := flat_map (fun i => match find_id i cands with Some m => [m] | None => [] end) ids in
  nodupN ids
  && (Nat.eqb (length rows) (length ids))
  && (Z.of_nat (length ids) =? Z.min lim (Z.of_nat (length cands)))
  && sorted_desc_recv rows
  && forallb (fun m => memN (m_id m) ids ||
                       forallb (fun r => m_recv m <=? m_recv r) rows) cands.

Definition step_list_dead (fl : flavour) (c : cfg) (now : Z) (route : option N) (limit : Z) (before : option Z)
           (o : oracle) (s : state) : state * res :=
  let s1 := prune c now (o_gone o) s in
  (* both backends: received_at DESC, id DESC (SQLite since fix 7f7b120) *)
  (s1, RList (map m_id (firstn (Z.to_nat (eff_limit limit))
                               (sort_by m_recv false (filter (dead_match route before) (msgs s1)))))).

Definition step_lookup (ids : list rid) (s : state) : state * res :=
  (s, RLookup (flat_map (fun i => match find_id i (msgs s) with
                                  | Some m => [(m_id m, m_route m, m_st m)]
                                  | None => [] end) (norm_ids ids []))).

Definition step_stats (c : cfg) (now : Z) (o : oracle) (s : state) : state * res :=
  let s1 := prune c now (o_gone o) s in
  let l := msgs s1 in
  (s1, RStats (Z.of_nat (length l))
              (count_st (st_eqb Queued) l) (count_st (st_eqb Leased) l)
              (count_st (st_eqb Delivered) l) (count_st (st_eqb Dead) l) (count_st (st_eqb Canceled) l)).

(** ** the step function *)
Definition step (fl : flavour) (c : cfg) (s : state) (x : op) (o : oracle) : state * res :=
  match x with
  | Enqueue now e => step_enqueue fl c now true [e] o s
  | EnqueueBatch now es => step_enqueue fl c now false es o s
  | Dequeue now r t b ttl => step_dequeue fl c now r t b ttl o s
  | LeaseOp now k l => step_lease fl c now k l s
  | LeaseBatch now k ls => if batch_kind_ok k then step_lease_batch c now k ls s else (s, RErr EInvalid)
  | Manage now k ids => step_manage now k ids s
  | ManageF now k f => match k with
                       | MCancel | MRequeue | MResume => step_manage_f now k f s
                       | _ => (s, RErr EInvalid)
                       end
  | ListMessages now f ord => step_list c now f ord o s
  | ListDead now r lim b => step_list_dead fl c now r lim b o s
  | Lookup _ ids => step_lookup ids s
  | Stats now => step_stats c now o s
  | Reopen _ => match fl with
                | Sql => (mkState (msgs s) (order s) None 0 (issued s), RUnit)
                | Mem => (s, RUnit)
                end
  end.

Definition op_now (x : op) : Z :=
  match x with
  | Enqueue n _ | EnqueueBatch n _ | Dequeue n _ _ _ _ | LeaseOp n _ _ | LeaseBatch n _ _
  | Manage n _ _ | ManageF n _ _ | ListMessages n _ _ | ListDead n _ _ _ | Lookup n _ | Stats n | Reopen n => n
  end.

(** ** traces *)
Record event := mkEvent { ev_op : op; ev_orc : oracle; ev_res : res; ev_before : list msg; ev_after : list msg }.

Fixpoint run (fl : flavour) (c : cfg) (s : state) (xs : list (op * oracle)) : list event * state :=
  match xs with
  | [] => ([], s)
  | (x, o) :: tl =>
      let '(s', r) := step fl c s x o in
      let '(evs, sf) := run fl c s' tl in
      (mkEvent x o r (msgs s) (msgs s') :: evs, sf)
  end.

Definition model_trace (fl : flavour) (c : cfg) (xs : list (op * oracle)) : list event :=
  fst (run fl c init xs).
