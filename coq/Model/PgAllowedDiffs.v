(** The reviewed table of the tie between internal/queue/sqlite.go and postgres.go:
    which function of one file answers which function of the other, which helper calls are
    the same thing under two names, which SQLite helpers are read in place (inlined), and
    - the short list - every place where the two skeletons are allowed to differ after
    normalisation (Model/SqlNorm.v).  Everything not listed here must match token for token. *)
From Coq Require Import String List Bool.
From HK Require Import Model.SqlNorm.
Import ListNotations.
Local Open Scope string_scope.

(* ------------------------------------------------------------------------- *)
(** helper calls *)

(** SQLite opens / ends its transactions through three helpers (their bodies are pinned by
    [sqlite_tx_helpers_pinned] in Proofs/PgTieProofs.v); Postgres uses database/sql directly. *)
Definition sqlite_calls : callmap :=
  [("beginImmediateWithRetry", TBegin); ("commitTx", TCommit); ("rollbackTx", TRollback)].

(** same helper, other name *)
Definition pg_calls : callmap :=
  [("requeueExpiredLeasesTx", TDo "requeueExpiredLeases");
   ("requeueLeaseTx", TDo "requeueLease");
   ("withLease", TDo "withLeaseMutation");
   ("activeCount", TDo "activeDepthCountTx");
   ("mapPostgresInsertError", TDo "mapQueueInsertError")].

Definition norm_sqlite := norm sqlite_calls Sqlite.
Definition norm_pg := norm pg_calls Pg.

(** SQLite helpers without a Postgres counterpart: read in place where they are called *)
Definition sqlite_inlined : list string :=
  ["enqueueWithLimit"; "dequeueCandidateSingleTx"; "dequeueCandidateIDsTx"; "dequeueLeaseSingleTx";
   "dequeueLeaseByIDsTx"; "resolveLeaseMutationConflictTx"; "resolveSingleLeaseConflictTx"].

(* ------------------------------------------------------------------------- *)
(** which function answers which: (name of the tie, SQLite function, Postgres function) *)

Definition tied : list (string * string * string) :=
  [ (* queue.Store *)
    ("Enqueue", "Enqueue", "Enqueue"); ("Dequeue", "Dequeue", "Dequeue"); ("Ack", "Ack", "Ack");
    ("Nack", "Nack", "Nack"); ("Extend", "Extend", "Extend"); ("MarkDead", "MarkDead", "MarkDead");
    ("ListDead", "ListDead", "ListDead"); ("RequeueDead", "RequeueDead", "RequeueDead");
    ("DeleteDead", "DeleteDead", "DeleteDead"); ("ListMessages", "ListMessages", "ListMessages");
    ("LookupMessages", "LookupMessages", "LookupMessages");
    ("CancelMessages", "CancelMessages", "CancelMessages");
    ("RequeueMessages", "RequeueMessages", "RequeueMessages");
    ("ResumeMessages", "ResumeMessages", "ResumeMessages");
    ("CancelMessagesByFilter", "CancelMessagesByFilter", "CancelMessagesByFilter");
    ("RequeueMessagesByFilter", "RequeueMessagesByFilter", "RequeueMessagesByFilter");
    ("ResumeMessagesByFilter", "ResumeMessagesByFilter", "ResumeMessagesByFilter");
    ("Stats", "Stats", "Stats"); ("RecordAttempt", "RecordAttempt", "RecordAttempt");
    ("ListAttempts", "ListAttempts", "ListAttempts");
    (* queue.LeaseBatchStore, queue.BacklogTrendStore *)
    ("AckBatch", "AckBatch", "AckBatch"); ("NackBatch", "NackBatch", "NackBatch");
    ("MarkDeadBatch", "MarkDeadBatch", "MarkDeadBatch");
    ("CaptureBacklogTrendSample", "CaptureBacklogTrendSample", "CaptureBacklogTrendSample");
    ("ListBacklogTrend", "ListBacklogTrend", "ListBacklogTrend");
    (* helpers *)
    ("dequeueOnce", "dequeueOnce", "dequeueOnce");
    ("withLease", "withLeaseMutation", "withLease");
    ("requeueExpiredLeases", "requeueExpiredLeases", "requeueExpiredLeasesTx");
    ("requeueLease", "requeueLease", "requeueLeaseTx");
    ("maybePrune", "maybePrune", "maybePrune");
    ("selectMessageIDsByFilter", "selectMessageIDsByFilter", "selectMessageIDsByFilter");
    ("dropOldestQueued", "dropOldestQueued", "dropOldestQueued");
    ("activeCount", "activeDepthCountTx", "activeCount");
    ("mapInsertError", "mapQueueInsertError", "mapPostgresInsertError");
    (* construction and options *)
    ("NewStore", "NewSQLiteStore", "NewPostgresStore");
    ("WithNowFunc", "WithSQLiteNowFunc", "WithPostgresNowFunc");
    ("WithPollInterval", "WithSQLitePollInterval", "WithPostgresPollInterval");
    ("WithQueueLimits", "WithSQLiteQueueLimits", "WithPostgresQueueLimits");
    ("WithRetention", "WithSQLiteRetention", "WithPostgresRetention");
    ("WithDeliveredRetention", "WithSQLiteDeliveredRetention", "WithPostgresDeliveredRetention");
    ("WithDLQRetention", "WithSQLiteDLQRetention", "WithPostgresDLQRetention") ].

(** functions with database statements or sentinel errors that are deliberately outside the tie *)
Definition sqlite_only : list (string * string) :=
  [("EnqueueBatch", "queue.BatchEnqueuer is implemented by the memory and SQLite stores only (known finding C15 publish-nonbatch-store-partial)");
   ("WithSQLiteCheckpointInterval", "WAL checkpointing is an engine matter");
   ("init", "PRAGMAs and migrations: engine set-up, not a Store operation");
   ("migrate", "engine set-up"); ("readSchemaVersion", "engine set-up"); ("writeSchemaVersion", "engine set-up");
   ("checkpointPassive", "WAL checkpoint"); ("startCheckpointLoop", "WAL checkpoint");
   ("beginImmediateWithRetry", "transaction helper, pinned by sqlite_tx_helpers_pinned");
   ("commitTx", "transaction helper, pinned by sqlite_tx_helpers_pinned");
   ("rollbackTx", "transaction helper, pinned by sqlite_tx_helpers_pinned");
   ("withLease", "dead code in sqlite.go (no caller)");
   ("withLeaseBatch", "single-transaction batch machinery; Postgres loops over the single operations (see AckBatch)");
   ("lookupLeasesTx", "part of withLeaseBatch"); ("requeueLeaseIDsTx", "part of withLeaseBatch");
   ("activeDepthCount", "the unlocked fast path of enqueueWithLimit (read in place in Enqueue)");
   ("enqueueWithLimit", "read in place in Enqueue"); ("dequeueCandidateSingleTx", "read in place in dequeueOnce");
   ("dequeueCandidateIDsTx", "read in place in dequeueOnce"); ("dequeueLeaseSingleTx", "read in place in dequeueOnce");
   ("dequeueLeaseByIDsTx", "read in place in dequeueOnce");
   ("resolveLeaseMutationConflictTx", "read in place in withLeaseMutation");
   ("resolveSingleLeaseConflictTx", "read in place in withLeaseMutation")].

Definition pg_only : list (string * string) :=
  [("init", "schema creation: engine set-up (column sets are compared by C13pg_schema_columns)");
   ("runStoreOperation", "metrics wrapper: calls its closure and nothing else (pinned by pg_wrappers_pinned); read through at the call sites");
   ("runPostgresStoreOperationResult", "metrics wrapper: calls its closure and nothing else (pinned by pg_wrappers_pinned)")].

(* ------------------------------------------------------------------------- *)
(** the listed differences *)

Inductive diff_kind :=
| Structural   (* same contract, different means (locking, statement shape, helper structure) *)
| Divergent.   (* an observable difference between the two stores: reported, pinned until resolved *)

Record diff := mkDiff {
  d_id : string;
  d_in : list string;           (* names of the ties it applies to (each at least once) *)
  d_sqlite : list string;       (* normalised SQLite fragment ... *)
  d_pg : list string;           (* ... is replaced by this normalised Postgres fragment *)
  d_kind : diff_kind;
  d_why : string }.

Definition allowed_diffs : list diff := Eval vm_compute in [
  mkDiff "closed-store-guard" ["Enqueue"; "Dequeue"; "ListMessages"; "CaptureBacklogTrendSample"; "ListBacklogTrend"]
    (words "#start")
    (words "#start #if go{s == nil || s.db == nil} #ret:new{postgres store is closed} #end")
    Structural
    (("only the Postgres store guards some entry points against a nil / closed store; a closed store is outside "
           ++ "the Store contract"));
  mkDiff "enqueue-normalisation" ["Enqueue"]
    (words ("#if go{env.State == """"} #assign go{env.State = StateQueued} #end #if go{env.State != StateDead} #assign "
           ++ "go{env.DeadReason = """"} #end #if go{env.ReceivedAt.IsZero()} #assign go{env.ReceivedAt = now} #end #if "
           ++ "go{env.NextRunAt.IsZero()} #assign go{env.NextRunAt = env.ReceivedAt} #end #if go{env.SchemaVersion == 0} "
           ++ "#assign go{env.SchemaVersion = 1} #end #if go{env.Payload == nil} #assign go{env.Payload = []byte{}} #end "
           ++ "#if go{strings.TrimSpace(env.DeadReason) != """"} #assign go{deadReason = env.DeadReason} #end"))
    (words ("#if go{env.Route == """"} #ret:new{route is required} #end #if go{env.Target == """"} #ret:new{target is "
           ++ "required} #end #if go{env.ReceivedAt.IsZero()} #assign go{env.ReceivedAt = now} #end #if "
           ++ "go{env.NextRunAt.IsZero()} #assign go{env.NextRunAt = now} #end #if go{env.State == """"} #assign "
           ++ "go{env.State = StateQueued} #end #if go{env.Attempt < 0} #assign go{env.Attempt = 0} #end #if "
           ++ "go{env.SchemaVersion == 0} #assign go{env.SchemaVersion = 1} #end"))
    Divergent
    (("OBSERVABLE: (1) Postgres refuses an envelope with empty Route or Target, SQLite and memory store it; (2) "
           ++ "an envelope with ReceivedAt set and NextRunAt zero becomes due at ReceivedAt in SQLite/memory but at "
           ++ "`now` in Postgres; (3) SQLite/memory clear DeadReason of a non-dead envelope, Postgres keeps the trimmed "
           ++ "text until the first dequeue; (4) Postgres clamps a negative Attempt to 0; (5) only SQLite turns a nil "
           ++ "payload into an empty one (payload is NOT NULL in both schemas)"));
  mkDiff "enqueue-depth-limit" ["Enqueue"]
    (words ("#if go{s.maxDepth > 0} #if go{s.dropPolicy != ""drop_oldest"" && s.queueLikelyFull.Load()} "
           ++ "#do:activeDepthCount #if go{err == nil && count >= s.maxDepth} #ret:ErrQueueFull #end #end #begin "
           ++ "#defer-rollback #do:activeDepthCountTx #for go{count >= s.maxDepth} #if go{s.dropPolicy != ""drop_oldest""} "
           ++ "#ret:ErrQueueFull #end #do:dropOldestQueued #if go{!dropped} #ret:ErrQueueFull #end #end #if "
           ++ "go{strings.TrimSpace(env.DeadReason) != """"} #assign go{deadReason = env.DeadReason} #end #stmt:exec "
           ++ "INSERT INTO queue_items ( id , route , target , state , received_at , attempt , next_run_at , payload , "
           ++ "headers_json , trace_json , schema_version , dead_reason , lease_id , lease_until ) VALUES ( @{env.ID} , "
           ++ "@{env.Route} , @{env.Target} , @{string(env.State)} , @{env.ReceivedAt} , @{env.Attempt} , "
           ++ "@{env.NextRunAt} , @{env.Payload} , @{headersJSON} , @{traceJSON} , @{env.SchemaVersion} , @{deadReason} "
           ++ ", NULL , NULL ) #endstmt #if go{err != nil} #do:mapQueueInsertError #end #commit #end"))
    (words ("#if go{s.maxDepth > 0} #do:activeDepthCountTx #if go{active >= s.maxDepth} #switch go{s.dropPolicy} #case "
           ++ "go{""drop_oldest""} #do:dropOldestQueued #if go{!dropped} #ret:ErrQueueFull #end #case go{default} "
           ++ "#ret:ErrQueueFull #end #end #end"))
    Divergent
    (("OBSERVABLE: SQLite counts, evicts and inserts inside one BEGIN IMMEDIATE transaction and evicts until the "
           ++ "new item fits (fix 1370a7d); Postgres counts, evicts at most ONE oldest queued item and inserts as three "
           ++ "separate autocommit statements: with the active count above max_depth (after an operator requeue) "
           ++ "drop_oldest leaves the queue above the limit, and two concurrent enqueues can both pass the count"));
  mkDiff "enqueue-insert-shape" ["Enqueue"]
    (words ("#stmt:exec INSERT INTO queue_items ( id , route , target , state , received_at , attempt , next_run_at , "
           ++ "payload , headers_json , trace_json , schema_version , dead_reason , lease_id , lease_until ) VALUES ( "
           ++ "@{env.ID} , @{env.Route} , @{env.Target} , @{string(env.State)} , @{env.ReceivedAt} , @{env.Attempt} , "
           ++ "@{env.NextRunAt} , @{env.Payload} , @{headersJSON} , @{traceJSON} , @{env.SchemaVersion} , @{deadReason} "
           ++ ", NULL , NULL ) #endstmt"))
    (words ("#stmt:exec INSERT INTO queue_items ( id , route , target , state , received_at , attempt , next_run_at , "
           ++ "payload , headers_json , trace_json , dead_reason , schema_version , lease_id , lease_until ) VALUES ( "
           ++ "@{env.ID} , @{env.Route} , @{env.Target} , @{string(env.State)} , @{env.ReceivedAt} , @{env.Attempt} , "
           ++ "@{env.NextRunAt} , @{env.Payload} , @{headersJSON} , @{traceJSON} , @{strings.TrimSpace(env.DeadReason)} "
           ++ ", @{env.SchemaVersion} , @{nullIfEmpty(strings.TrimSpace(env.LeaseID))} , @{nullTime(env.LeaseUntil)} ) "
           ++ "#endstmt"))
    Divergent
    (("column order differs (harmless); OBSERVABLE: Postgres stores the LeaseID / LeaseUntil an envelope arrives "
           ++ "with, SQLite always stores NULL; Postgres stores the trimmed dead reason (empty string, not NULL)"));
  mkDiff "lease-row-locator" ["Ack"; "Nack"; "MarkDead"]
    (words "WHERE lease_id = @{leaseID} AND state = 'leased' AND ( lease_until IS NULL OR lease_until > @{now} ) #endstmt")
    (words "WHERE id = @{itemID} AND state = 'leased' #endstmt")
    Structural
    (("SQLite tests lease id, state and expiry in the guard of the mutating statement and classifies a miss "
           ++ "afterwards; Postgres has already locked the row by lease id (FOR UPDATE) and tested state and expiry in "
           ++ "withLease, and mutates by primary key (see with-lease)"));
  mkDiff "extend-statement" ["Extend"]
    (words ("SET lease_until = lease_until + @{extendNanos} , next_run_at = lease_until + @{extendNanos} WHERE "
           ++ "lease_id = @{leaseID} AND state = 'leased' AND lease_until IS NOT NULL AND lease_until > @{now} #endstmt"))
    (words "SET lease_until = @{updated} , next_run_at = @{updated} WHERE id = @{itemID} AND state = 'leased' #endstmt")
    Structural
    ("same as lease-row-locator; Postgres adds extendBy in Go to the lease_until it read under the row lock");
  mkDiff "nack-schedule" ["Nack"]
    (words "next_run_at = @{saturatingUnixNanoAfter(now, delay)}")
    (words "next_run_at = @{now.Add(delay)}")
    Structural
    ("int64 nanoseconds need the saturating add (fix 7eb7ae8); time.Time.Add does not wrap for any time.Duration");
  mkDiff "mark-dead-reason-1" ["MarkDead"]
    (words "#start #if go{strings.TrimSpace(reason) != """"} #assign go{deadReason = reason} #end")
    (words "#start")
    Divergent
    ("see mark-dead-reason-2");
  mkDiff "mark-dead-reason-2" ["MarkDead"]
    (words "dead_reason = @{deadReason}")
    (words "dead_reason = @{strings.TrimSpace(reason)}")
    Divergent
    (("OBSERVABLE: SQLite (and memory) store the dead reason as given (NULL when blank), Postgres stores it "
           ++ "trimmed: MarkDead(l, "" x "") lists as "" x "" from SQLite and as ""x"" from Postgres"));
  mkDiff "list-without-prune" ["ListDead"; "Stats"]
    (words "#start #do:maybePrune")
    (words "#start")
    Divergent
    (("OBSERVABLE (timing only): ListDead and Stats run the retention prune first in SQLite; the Postgres "
           ++ "versions never prune"));
  mkDiff "list-include-1" ["ListDead"; "ListMessages"]
    (words ("#if go{req.IncludePayload} #assign go{includePayload = 1} #end #if go{req.IncludeHeaders} #assign "
           ++ "go{includeHeaders = 1} #end #if go{req.IncludeTrace} #assign go{includeTrace = 1} #end"))
    (words "")
    Structural
    (("payload / headers / trace are left out by the statement in SQLite (CASE WHEN ? ..) and in Go after the "
           ++ "scan in Postgres (list-include-3)"));
  mkDiff "list-include-2" ["ListDead"; "ListMessages"]
    (words ("SELECT id , route , target , state , received_at , attempt , next_run_at , CASE WHEN @{includePayload} "
           ++ "THEN payload ELSE NULL END , CASE WHEN @{includeHeaders} THEN headers_json ELSE NULL END , CASE WHEN "
           ++ "@{includeTrace} THEN trace_json ELSE NULL END , schema_version , dead_reason"))
    (words ("SELECT id , route , target , state , received_at , attempt , next_run_at , payload , headers_json , "
           ++ "trace_json , dead_reason , schema_version , lease_id , lease_until"))
    Divergent
    (("OBSERVABLE: the Postgres listing also reads lease_id and lease_until, so ListMessages of a leased message "
           ++ "carries LeaseID / LeaseUntil from Postgres and not from SQLite or memory"));
  mkDiff "list-include-3" ["ListDead"; "ListMessages"]
    (words "LIMIT @{limit} #endstmt")
    (words ("LIMIT @{limit} #endstmt #for go{rows.Next()} #if go{!req.IncludePayload} #assign go{item.Payload = nil} "
           ++ "#end #if go{!req.IncludeHeaders} #assign go{item.Headers = nil} #end #if go{!req.IncludeTrace} #assign "
           ++ "go{item.Trace = nil} #end #end"))
    Structural
    ("see list-include-1");
  mkDiff "requeue-dead-by-id" ["RequeueDead"]
    (words ("#stmt:exec UPDATE queue_items SET state = 'queued' , lease_id = NULL , lease_until = NULL , next_run_at = "
           ++ "@{now} , dead_reason = NULL WHERE state = 'dead' AND id IN ( @{ids} ) #endstmt"))
    (words ("#begin #defer-rollback #for go{range ids} #stmt:exec UPDATE queue_items SET state = 'queued' , lease_id = "
           ++ "NULL , lease_until = NULL , next_run_at = @{now} , dead_reason = NULL WHERE id = @{id} AND state = 'dead' "
           ++ "#endstmt #end #commit"))
    Structural
    (("one statement over the id list (SQLite) = one transaction with one statement per id (Postgres); same "
           ++ "guard on state"));
  mkDiff "delete-dead-by-id" ["DeleteDead"]
    (words "#stmt:exec DELETE FROM queue_items WHERE state = 'dead' AND id IN ( @{ids} ) #endstmt")
    (words ("#begin #defer-rollback #for go{range ids} #stmt:exec DELETE FROM queue_items WHERE id = @{id} AND state = "
           ++ "'dead' #endstmt #end #commit"))
    Structural
    ("as requeue-dead-by-id");
  mkDiff "stats-oldest-and-lag" ["Stats"]
    (words ("#stmt:row SELECT MIN ( received_at ) , MIN ( next_run_at ) FROM queue_items WHERE state = 'queued' "
           ++ "#endstmt #if go{!oldestQueuedReceivedAt.IsZero() && !pruneNow.Before(oldestQueuedReceivedAt)} #assign "
           ++ "go{oldestQueuedAge = pruneNow.Sub(oldestQueuedReceivedAt)} #end #if go{!earliestQueuedNextRun.IsZero() && "
           ++ "pruneNow.After(earliestQueuedNextRun)} #assign go{readyLag = pruneNow.Sub(earliestQueuedNextRun)} #end"))
    (words ("#stmt:row SELECT MIN ( received_at ) FROM queue_items WHERE state = 'queued' #endstmt #if "
           ++ "go{oldestQueued.Valid} #if go{stats.OldestQueuedAge < 0} #assign go{stats.OldestQueuedAge = 0} #end #end "
           ++ "#stmt:row SELECT MIN ( next_run_at ) FROM queue_items WHERE state = 'queued' #endstmt #if "
           ++ "go{earliestReady.Valid} #if go{stats.ReadyLag < 0} #assign go{stats.ReadyLag = 0} #end #end"))
    Structural
    ("two aggregates in one statement vs one statement each; both clamp a negative age / lag to zero");
  mkDiff "stats-bucket-ages-1" ["Stats"]
    (words "SELECT route , target , COUNT ( * ) , MIN ( received_at ) , MIN ( next_run_at )")
    (words "SELECT route , target , COUNT ( * )")
    Divergent
    ("see stats-bucket-ages-2");
  mkDiff "stats-bucket-ages-2" ["Stats"]
    (words ("LIMIT @{statsTopBacklogLimit} #endstmt #for go{backlogRows.Next()} #if "
           ++ "go{!b.OldestQueuedReceivedAt.IsZero() && !pruneNow.Before(b.OldestQueuedReceivedAt)} #assign "
           ++ "go{b.OldestQueuedAge = pruneNow.Sub(b.OldestQueuedReceivedAt)} #end #if "
           ++ "go{!b.EarliestQueuedNextRun.IsZero() && pruneNow.After(b.EarliestQueuedNextRun)} #assign go{b.ReadyLag = "
           ++ "pruneNow.Sub(b.EarliestQueuedNextRun)} #end #end"))
    (words "LIMIT @{statsTopBacklogLimit} #endstmt")
    Divergent
    (("OBSERVABLE: Stats().TopQueued[i] has OldestQueuedReceivedAt / EarliestQueuedNextRun / OldestQueuedAge / "
           ++ "ReadyLag filled by SQLite and memory and left zero by Postgres"));
  mkDiff "attempt-null-encoding-1" ["RecordAttempt"]
    (words ("#if go{attempt.StatusCode != 0} #assign go{statusCode = attempt.StatusCode} #end #if go{attempt.Error != "
           ++ """""} #assign go{errVal = attempt.Error} #end #if go{attempt.DeadReason != """"} #assign go{deadReason = "
           ++ "attempt.DeadReason} #end"))
    (words "")
    Structural
    ("see attempt-null-encoding-2");
  mkDiff "attempt-null-encoding-2" ["RecordAttempt"]
    (words "@{statusCode} , @{errVal} , @{string(attempt.Outcome)} , @{deadReason} , @{attempt.CreatedAt} ) #endstmt")
    (words ("@{nullInt(attempt.StatusCode)} , @{nullIfEmpty(attempt.Error)} , @{string(attempt.Outcome)} , "
           ++ "@{nullIfEmpty(attempt.DeadReason)} , @{attempt.CreatedAt} ) #endstmt"))
    Structural
    (("a zero status code / empty error / empty dead reason become NULL: SQLite by local variables left nil, Postgres "
           ++ "by nullInt (== 0) and nullIfEmpty; a duplicate attempt id is mapped to ErrEnvelopeExists by both "
           ++ "(fixes 3c4902c, 42c7a85; before them SQLite dropped negative status codes and returned the raw "
           ++ "constraint error)"));
  mkDiff "attempts-where-clause" ["ListAttempts"]
    (words ("WHERE 1 = 1 #opt go{req.Route != """"} AND route = @{req.Route} #endopt #opt go{req.Target != """"} AND "
           ++ "target = @{req.Target} #endopt #opt go{req.EventID != """"} AND event_id = @{req.EventID} #endopt #opt "
           ++ "go{req.Outcome != """"} AND outcome = @{string(req.Outcome)} #endopt #opt go{!req.Before.IsZero()} AND "
           ++ "created_at < @{req.Before} #endopt"))
    (words ("#opt go{len(where) > 0} WHERE #opt go{req.Route != """"} #sep{AND} route = @{req.Route} #endopt #opt "
           ++ "go{req.Target != """"} #sep{AND} target = @{req.Target} #endopt #opt go{req.EventID != """"} #sep{AND} "
           ++ "event_id = @{req.EventID} #endopt #opt go{req.Outcome != """"} #sep{AND} outcome = @{string(req.Outcome)} "
           ++ "#endopt #opt go{!req.Before.IsZero()} #sep{AND} created_at < @{req.Before} #endopt #endopt"))
    Structural
    (("`WHERE 1 = 1 AND c1 AND c2` against `WHERE c1 AND c2` assembled with strings.Join: the same conjunction "
           ++ "of the same optional conditions"));
  mkDiff "ack-batch" ["AckBatch"]
    (words ("#start #do:withLeaseBatch #closure #if go{s.deliveredRetentionMaxAge > 0} #stmt:exec UPDATE queue_items "
           ++ "SET state = 'delivered' , lease_id = NULL , lease_until = NULL , next_run_at = @{now} , dead_reason = "
           ++ "NULL WHERE id IN ( @{itemIDs} ) #endstmt #end #stmt:exec DELETE FROM queue_items WHERE id IN ( @{itemIDs} "
           ++ ") #endstmt #end"))
    (words ("#start #for go{range leaseIDs} #do:Ack #switch go{} #case go{errors.Is(err, ErrLeaseExpired)} #assign "
           ++ "go{res.Conflicts = append(res.Conflicts, LeaseBatchConflict{ LeaseID: leaseID, Expired: true, })} #case "
           ++ "go{errors.Is(err, ErrLeaseNotFound)} #assign go{res.Conflicts = append(res.Conflicts, "
           ++ "LeaseBatchConflict{LeaseID: leaseID})} #case go{default} #end #end"))
    Structural
    (("queue.LeaseBatchStore asks for one transaction `where possible`: SQLite resolves all leases and mutates "
           ++ "in one transaction (withLeaseBatch), Postgres calls the single operation per lease id and collects the "
           ++ "same conflict records (not-found / expired); a batch is therefore not atomic in Postgres"));
  mkDiff "nack-batch" ["NackBatch"]
    (words ("#start #if go{delay < 0} #assign go{delay = 0} #end #do:withLeaseBatch #closure #stmt:exec UPDATE "
           ++ "queue_items SET state = 'queued' , lease_id = NULL , lease_until = NULL , next_run_at = "
           ++ "@{saturatingUnixNanoAfter(now, delay)} , dead_reason = NULL WHERE id IN ( @{itemIDs} ) #endstmt #end"))
    (words ("#start #for go{range leaseIDs} #do:Nack #switch go{} #case go{errors.Is(err, ErrLeaseExpired)} #assign "
           ++ "go{res.Conflicts = append(res.Conflicts, LeaseBatchConflict{ LeaseID: leaseID, Expired: true, })} #case "
           ++ "go{errors.Is(err, ErrLeaseNotFound)} #assign go{res.Conflicts = append(res.Conflicts, "
           ++ "LeaseBatchConflict{LeaseID: leaseID})} #case go{default} #end #end"))
    Structural
    ("as ack-batch");
  mkDiff "mark-dead-batch" ["MarkDeadBatch"]
    (words ("#start #if go{strings.TrimSpace(reason) != """"} #assign go{deadReason = reason} #end #do:withLeaseBatch "
           ++ "#closure #stmt:exec UPDATE queue_items SET state = 'dead' , lease_id = NULL , lease_until = NULL , "
           ++ "next_run_at = @{now} , dead_reason = @{deadReason} WHERE id IN ( @{itemIDs} ) #endstmt #end"))
    (words ("#start #for go{range leaseIDs} #do:MarkDead #switch go{} #case go{errors.Is(err, ErrLeaseExpired)} "
           ++ "#assign go{res.Conflicts = append(res.Conflicts, LeaseBatchConflict{ LeaseID: leaseID, Expired: true, })} "
           ++ "#case go{errors.Is(err, ErrLeaseNotFound)} #assign go{res.Conflicts = append(res.Conflicts, "
           ++ "LeaseBatchConflict{LeaseID: leaseID})} #case go{default} #end #end"))
    Structural
    ("as ack-batch");
  mkDiff "capture-aggregation-1" ["CaptureBacklogTrendSample"]
    (words ("#do:maybePrune #stmt:query SELECT route , target , state , COUNT ( * ) FROM queue_items WHERE state IN ( "
           ++ "'queued' , 'leased' , 'dead' ) GROUP BY route , target , state #endstmt"))
    (words "#do:maybePrune")
    Structural
    (("SQLite counts per (route, target, state) with one query and sums in Go; Postgres aggregates inside the "
           ++ "INSERT .. SELECT statements (capture-aggregation-3)"));
  mkDiff "capture-aggregation-2" ["CaptureBacklogTrendSample"]
    (words "WHERE captured_at < @{capturedAt.Add(-backlogTrendRetention)}")
    (words "WHERE captured_at < @{retentionCutoff}")
    Structural
    ("the same value through a local variable (retentionCutoff := capturedAt.Add(-backlogTrendRetention).UnixNano())");
  mkDiff "capture-aggregation-3" ["CaptureBacklogTrendSample"]
    (words ("VALUES ( @{capturedNanos} , '' , '' , @{global.queued} , @{global.leased} , @{global.dead} ) #endstmt "
           ++ "#for go{range keys} #if go{len(parts) > 1} #assign go{target = parts[1]} #end #stmt:exec INSERT INTO "
           ++ "backlog_trend_samples ( captured_at , route , target , queued , leased , dead ) VALUES ( @{capturedNanos} "
           ++ ", @{route} , @{target} , @{c.queued} , @{c.leased} , @{c.dead} ) #endstmt #end"))
    (words ("SELECT @{capturedNanos} , '' , '' , COALESCE ( SUM ( CASE WHEN state = 'queued' THEN 1 ELSE 0 END ) , 0 ) "
           ++ ", COALESCE ( SUM ( CASE WHEN state = 'leased' THEN 1 ELSE 0 END ) , 0 ) , COALESCE ( SUM ( CASE WHEN "
           ++ "state = 'dead' THEN 1 ELSE 0 END ) , 0 ) FROM queue_items WHERE state IN ( 'queued' , 'leased' , 'dead' ) "
           ++ "#endstmt #stmt:exec INSERT INTO backlog_trend_samples ( captured_at , route , target , queued , leased , "
           ++ "dead ) SELECT @{capturedNanos} , route , target , SUM ( CASE WHEN state = 'queued' THEN 1 ELSE 0 END ) AS "
           ++ "queued , SUM ( CASE WHEN state = 'leased' THEN 1 ELSE 0 END ) AS leased , SUM ( CASE WHEN state = 'dead' "
           ++ "THEN 1 ELSE 0 END ) AS dead FROM queue_items WHERE state IN ( 'queued' , 'leased' , 'dead' ) GROUP BY "
           ++ "route , target #endstmt"))
    Structural
    (("see capture-aggregation-1; same three states, same global row (route = target = '') and one row per "
           ++ "(route, target)"));
  mkDiff "dequeue-batch-reclamp" ["dequeueOnce"]
    (words "#start")
    (words "#start #if go{batch == 0} #assign go{batch = 1} #end")
    Structural
    (("Postgres re-clamps the batch it was handed (clampSliceCap), SQLite re-clamps in dequeueCandidateIDsTx "
           ++ "(inside dequeue-select-and-lease)"));
  mkDiff "dequeue-lease-until-saturation" ["dequeueOnce"]
    (words ("#if go{now.IsZero()} #assign go{now = s.now()} #end #if go{leaseTTL > 0 && int64(leaseTTL) > math.MaxInt64-now.UnixNano()} "
           ++ "#assign go{leaseUntil = time.Unix(0, math.MaxInt64).In(now.Location())} #end"))
    (words "#if go{now.IsZero()} #assign go{now = s.now()} #end")
    Structural
    (("SQLite stores lease_until as int64 nanoseconds and saturates now+lease_ttl at the largest representable instant "
           ++ "(fix ea2d48a: it used to wrap to an already expired lease); Postgres stores a timestamptz, whose range "
           ++ "(year 294276) covers every time.Time the Go side can produce from now+ttl"));
  mkDiff "dequeue-sweep-throttle" ["dequeueOnce"]
    (words "#if go{s.shouldSweepExpiredLeases(now)} #do:requeueExpiredLeases #end")
    (words "#do:requeueExpiredLeases")
    Structural
    (("SQLite requeues expired leases at most once per sweep interval (10 ms), Postgres on every dequeue; the "
           ++ "model of the SQLite flavour has the throttle (Model/Queue.v), the memory store sweeps on every dequeue "
           ++ "like Postgres"));
  mkDiff "dequeue-select-and-lease" ["dequeueOnce"]
    (words ("#if go{batch == 1} #stmt:row WITH candidate AS ( SELECT id FROM queue_items WHERE state = 'queued' AND "
           ++ "next_run_at <= @{now} #opt go{req.Route != """"} AND route = @{req.Route} #endopt #opt go{req.Target != """"} "
           ++ "AND target = @{req.Target} #endopt ORDER BY next_run_at ASC , received_at ASC LIMIT 1 ) UPDATE "
           ++ "queue_items SET state = 'leased' , attempt = attempt + 1 , lease_id = @{leaseID} , lease_until = "
           ++ "@{leaseUntil} , next_run_at = @{leaseUntil} WHERE id = ( SELECT id FROM candidate ) RETURNING id , route "
           ++ ", target , received_at , attempt , payload , headers_json , trace_json , schema_version #endstmt #if "
           ++ "go{err != nil} #if go{errors.Is(err, sql.ErrNoRows)} #ret:ok #end #end #if go{ok} #commit #ret:ok #end "
           ++ "#commit #ret:ok #end #if go{batch <= 0} #assign go{batch = 1} #end #if go{batch > 100} #assign go{batch = "
           ++ "100} #end #stmt:query SELECT id FROM queue_items WHERE state = 'queued' AND next_run_at <= @{now} #opt "
           ++ "go{req.Route != """"} AND route = @{req.Route} #endopt #opt go{req.Target != """"} AND target = @{req.Target} "
           ++ "#endopt ORDER BY next_run_at ASC , received_at ASC LIMIT @{batch} #endstmt #if go{len(ids) == 0} #commit "
           ++ "#ret:ok #end #if go{len(ids) == 1} #stmt:row UPDATE queue_items SET state = 'leased' , attempt = attempt "
           ++ "+ 1 , lease_id = @{leaseID} , lease_until = @{leaseUntil} , next_run_at = @{leaseUntil} WHERE state = "
           ++ "'queued' AND id = @{id} RETURNING id , route , target , received_at , attempt , payload , headers_json , "
           ++ "trace_json , schema_version #endstmt #if go{err != nil} #if go{errors.Is(err, sql.ErrNoRows)} #ret:ok "
           ++ "#end #end #if go{ok} #commit #ret:ok #end #end #if go{len(ids) == 0} #ret:ok #end #stmt:query UPDATE "
           ++ "queue_items SET state = 'leased' , attempt = attempt + 1 , lease_id = 'lease_' || lower ( hex ( "
           ++ "randomblob ( 8 ) ) ) , lease_until = @{leaseUntil} , next_run_at = @{leaseUntil} WHERE state = 'queued' "
           ++ "AND id IN ( @{ids} ) RETURNING id , route , target , received_at , attempt , payload , headers_json , "
           ++ "trace_json , schema_version , lease_id #endstmt #if go{filledCount == len(out)} #ret:ok #end #commit"))
    (words ("#stmt:query SELECT id , route , target , state , received_at , attempt , next_run_at , payload , "
           ++ "headers_json , trace_json , dead_reason , schema_version FROM queue_items WHERE route = @{req.Route} AND "
           ++ "target = @{req.Target} AND state = 'queued' AND next_run_at <= @{now} ORDER BY next_run_at ASC , "
           ++ "received_at ASC , id ASC LIMIT @{batch} FOR UPDATE SKIP LOCKED #endstmt #if go{len(items) == 0} #commit "
           ++ "#ret:ok #end #for go{range items} #stmt:exec UPDATE queue_items SET state = 'leased' , attempt = attempt "
           ++ "+ 1 , lease_id = @{leaseID} , lease_until = @{leaseUntil} , next_run_at = @{leaseUntil} , dead_reason = "
           ++ "NULL WHERE id = @{items[i].ID} AND state = 'queued' #endstmt #end #commit"))
    Divergent
    (("structure: SQLite selects candidates and leases them with UPDATE .. RETURNING (three shapes by batch "
           ++ "size) under BEGIN IMMEDIATE; Postgres locks the candidates with SELECT .. FOR UPDATE SKIP LOCKED and "
           ++ "leases them one by one in the same transaction. Same eligibility guard (state = 'queued' AND next_run_at "
           ++ "<= now), same SET list (Postgres also clears dead_reason), same order (next_run_at, received_at; Postgres "
           ++ "adds id as tie-break: a sanctioned choice among ties). OBSERVABLE: an empty Route or Target in the "
           ++ "request means `any` for SQLite and memory (the filter is optional) but `equal to the empty string` for "
           ++ "Postgres (route = $1 AND target = $2 are unconditional)"));
  mkDiff "with-lease" ["withLease"]
    (words ("#callparam:mutate #if go{affected > 0} #ret:ok #end #begin #defer-rollback #stmt:row SELECT id , state , "
           ++ "lease_until FROM queue_items WHERE lease_id = @{leaseID} LIMIT 1 #endstmt #if go{err != nil} #if "
           ++ "go{errors.Is(err, sql.ErrNoRows)} #ret:ok #end #end #if go{state != string(StateLeased)} #ret:ok #end #if "
           ++ "go{!leaseUntilNanos.Valid} #ret:ok #end #if go{now.Before(leaseUntil)} #ret:ok #end #do:requeueLease #if "
           ++ "go{!expired} #ret:ErrLeaseNotFound #end #commit #ret:ErrLeaseExpired"))
    (words ("#begin #defer-rollback #stmt:row SELECT id , state , lease_until FROM queue_items WHERE lease_id = "
           ++ "@{leaseID} LIMIT 1 FOR UPDATE #endstmt #if go{err != nil} #if go{errors.Is(err, sql.ErrNoRows)} "
           ++ "#ret:ErrLeaseNotFound #end #end #if go{state != string(StateLeased)} #ret:ErrLeaseNotFound #end #if "
           ++ "go{leaseUntil.Valid} #if go{!now.Before(until)} #do:requeueLease #commit #ret:ErrLeaseExpired #end "
           ++ "#callparam:fn #else #callparam:fn #end #commit"))
    Structural
    (("SQLite: guarded mutation first (autocommit), and only when it touched no row a transaction that looks the "
           ++ "lease up and answers ErrLeaseNotFound (no row, not leased, not yet expired) or requeues the message and "
           ++ "answers ErrLeaseExpired (now >= lease_until). Postgres: transaction, row lock, the same classification "
           ++ "(ErrLeaseNotFound: no row / not leased; now >= lease_until: requeue, commit, ErrLeaseExpired), then the "
           ++ "mutation. Same errors for the same rows; the inlined SQLite helpers return (false, nil) where the listing "
           ++ "shows #ret:ok, which resolveLeaseMutationConflictTx turns into ErrLeaseNotFound"));
  mkDiff "requeue-lease-argument" ["requeueLease"]
    (words "WHERE id = @{id}")
    (words "WHERE id = @{itemID}")
    Structural
    ("parameter name");
  mkDiff "prune-preconditions" ["maybePrune"]
    (words ("#start #if go{s.pruneInterval <= 0} #ret:ok #end #if go{s.retentionMaxAge <= 0 && "
           ++ "s.deliveredRetentionMaxAge <= 0 && s.dlqRetentionMaxAge <= 0 && s.dlqMaxDepth <= 0} #ret:ok #end #if "
           ++ "go{!s.lastPrune.IsZero() && now.Sub(s.lastPrune) < s.pruneInterval} #ret:ok #end"))
    (words ("#start #if go{s.retentionMaxAge <= 0 && s.deliveredRetentionMaxAge <= 0 && s.dlqRetentionMaxAge <= 0 && "
           ++ "s.dlqMaxDepth <= 0} #ret:ok #end #if go{s.pruneInterval <= 0} #ret:ok #end #if go{!s.lastPrune.IsZero() "
           ++ "&& now.Before(s.lastPrune.Add(s.pruneInterval))} #ret:ok #end"))
    Structural
    ("the same three early returns in another order; now - last < interval is now < last + interval");
  mkDiff "prune-queued-boundary" ["maybePrune"]
    (words "WHERE state = 'queued' AND received_at <= @{cutoff}")
    (words "WHERE state = 'queued' AND received_at < @{cutoff}")
    Divergent
    (("OBSERVABLE: a queued message received exactly max_age before the prune is deleted by SQLite (and memory) "
           ++ "and kept by Postgres"));
  mkDiff "prune-delivered-column" ["maybePrune"]
    (words "WHERE state = 'delivered' AND next_run_at <= @{cutoff}")
    (words "WHERE state = 'delivered' AND received_at < @{cutoff}")
    Divergent
    (("OBSERVABLE: delivered retention counts from the delivery instant (next_run_at, set by Ack) in SQLite and "
           ++ "memory, from received_at in Postgres: a message delivered late is kept for delivered_retention after "
           ++ "delivery by SQLite but may vanish at the first prune in Postgres; boundary <= vs <"));
  mkDiff "prune-dead-boundary" ["maybePrune"]
    (words "WHERE state = 'dead' AND received_at <= @{cutoff}")
    (words "WHERE state = 'dead' AND received_at < @{cutoff}")
    Divergent
    ("OBSERVABLE: as prune-queued-boundary, for dead letters");
  mkDiff "prune-dlq-depth" ["maybePrune"]
    (words "ORDER BY received_at DESC LIMIT -1 OFFSET")
    (words "ORDER BY received_at DESC , id DESC OFFSET")
    Structural
    (("SQLite needs LIMIT -1 before OFFSET; Postgres breaks received_at ties by id (which dead letters of one "
           ++ "instant survive is a sanctioned choice)"));
  mkDiff "filter-state-list" ["selectMessageIDsByFilter"]
    (words ("#opt go{len(states) == 1} AND state = @{string(states[0])} #optelse AND state IN ( @{states:string(st)} ) "
           ++ "#endopt"))
    (words "AND state IN ( @{stateStrings} )")
    Structural
    (("one state: `state = ?`, several: `state IN (?,..)` (SQLite); always `state = ANY($n)` over the same list "
           ++ "(Postgres)"));
  mkDiff "drop-oldest-tiebreak" ["dropOldestQueued"]
    (words "ORDER BY received_at ASC LIMIT 1")
    (words "ORDER BY received_at ASC , id ASC LIMIT 1")
    Structural
    (("the victim among equally old queued messages is a sanctioned choice (props/c13.py treats it so for memory "
           ++ "vs SQLite)"));
  mkDiff "active-count" ["activeCount"]
    (words ("#start #stmt:row SELECT queued , leased FROM queue_counters WHERE id = 1 #endstmt #if go{err == nil} "
           ++ "#ret:ok #end #stmt:row SELECT COUNT ( * ) FROM queue_items WHERE state IN ( 'queued' , 'leased' ) "
           ++ "#endstmt"))
    (words "#start #stmt:row SELECT COUNT ( * ) FROM queue_items WHERE state = 'queued' OR state = 'leased' #endstmt")
    Structural
    (("SQLite keeps trigger-maintained counters (queue_counters) with the COUNT(*) as fall-back; Postgres "
           ++ "counts; both count queued + leased"));
  mkDiff "insert-error-test" ["mapInsertError"]
    (words "#if go{isSQLiteConstraintError(err)}")
    (words "#if go{errors.As(err, &pgErr) && pgErr.Code == ""23505""}")
    Structural
    ("how each driver reports a primary-key violation; both map it to ErrEnvelopeExists");
  mkDiff "constructor" ["NewStore"]
    (words ("#field go{notify: make(chan struct{})} #field go{pollInterval: 25 * time.Millisecond} #field "
           ++ "go{dropPolicy: ""reject""} #field go{metrics: newSQLiteRuntimeMetrics()} #field go{checkpointInterval: "
           ++ "defaultSQLiteCheckpointInterval} #if go{dbPath == """"} #ret:new{empty db path} #end #do:init "
           ++ "#do:startCheckpointLoop"))
    (words ("#field go{pollInterval: 25 * time.Millisecond} #field go{dropPolicy: ""reject""} #field go{metrics: "
           ++ "newPostgresRuntimeMetrics()} #if go{dsn == """"} #ret:new{empty postgres dsn} #end #do:init"))
    Structural
    (("same defaults (poll interval 25 ms, drop policy reject, clock time.Now); wake-up channel, WAL checkpoint "
           ++ "loop and metrics type are engine matters"))
].

(* ------------------------------------------------------------------------- *)
(** applying the table *)

Fixpoint apply_diffs (ds : list diff) (name : string) (l : list string) : list string * list string :=
  (* result, ids of listed differences that did not occur *)
  match ds with
  | [] => (l, [])
  | d :: r =>
    if mem name (d_in d) then
      let (l', n) := replace_all (S (length l)) (d_sqlite d) (d_pg d) l in
      let (out, missing) := apply_diffs r name l' in
      (out, if Nat.eqb n 0 then d_id d :: missing else missing)
    else apply_diffs r name l
  end.

(** the normalised skeletons of the helpers that are read in place *)
Definition sk_table (cm : callmap) (d : dialect) (names : list string) (tbl : list (string * list string)) : list (string * list string) :=
  map (fun p => (fst p, norm cm d (snd p))) (filter (fun p => mem (fst p) names) tbl).

(** the normalised SQLite side of a tie: helpers read in place, then the listed differences *)
(** both sides start with the marker [#start], so that a listed difference can be anchored at the beginning *)
Definition sqlite_side (tbl : list (string * list string)) (name : string) (sk : list string) : list string * list string :=
  apply_diffs allowed_diffs name
    ("#start" :: inline 3 sqlite_inlined (sk_table sqlite_calls Sqlite sqlite_inlined tbl) (norm_sqlite sk)).

Definition pg_side (sk : list string) : list string := "#start" :: norm_pg sk.

Definition tie_holds (tbl : list (string * list string)) (name : string) (sq pg : list string) : bool :=
  let (l, missing) := sqlite_side tbl name sq in
  list_eqb l (pg_side pg) && match missing with [] => true | _ => false end.
