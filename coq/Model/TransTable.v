(** Vocabulary of the state-machine tables that /verif/translate (transitions.go) extracts from
    internal/queue/{memory,sqlite,postgres}.go into Gen/Transitions.v, and the meaning of a row
    on a message of Model/Queue.v.

    A row says: operation [t_op], under configuration condition [t_cond], accepts a message
    whose state is in [t_from] (the Go state checks / the SQL [WHERE state ...] guard, intersected
    with the guard under which the ids it names were selected), moves it to [t_to] (or deletes
    it) and writes the lifecycle columns listed in [t_writes].  Any write to another column of a
    stored message makes the translator fail, so the tables are total descriptions of what the
    stores do to a stored message. *)
From Coq Require Import List ZArith NArith Bool.
From HK Require Import Model.Queue.
Import ListNotations.
Open Scope Z_scope.

Inductive field := FAttempt | FNext | FLeaseId | FLeaseUntil | FReason.

(** abstract value written into a column *)
Inductive wval :=
| VClear            (* "" / NULL / zero time *)
| VNow              (* the operation's clock reading *)
| VNowPlusDelay     (* now + max(delay, 0)   (nack) *)
| VNewUntil         (* now + lease TTL       (dequeue) *)
| VOldUntilPlusBy   (* previous lease_until + extend_by *)
| VNowPlusBy        (* now + extend_by  (Postgres extend on a leased row whose lease_until is NULL) *)
| VNewLease         (* a freshly generated lease id *)
| VReasonArg        (* the dead-letter reason argument *)
| VIncr.            (* previous value + 1 *)

Inductive target := TSt (s : st) | TKeep | TDeleted.
Inductive ltag := LAck | LNack | LExtend | LDead.
Inductive knob := KRetAge | KDelivAge | KDlqAge | KDlqDepth.
Inductive agecol := ColRecv | ColNext.

(** configuration condition under which the row's statement is the one executed *)
Inductive tcond := CAlways | CRetention (on : bool) | CUntilNull.

Inductive top :=
| TDequeue                                   (* hand a ready message to a consumer *)
| TSweep                                     (* expired leases released before a dequeue selects *)
| TLease (k : ltag) (batch : bool)           (* settle through the current lease *)
| TLeaseExpired (k : ltag) (batch : bool)    (* the presented lease has expired: release *)
| TManage (k : manage_kind) (by_filter : bool)
| TPruneAge (k : knob) (col : agecol) (strict : bool)   (* delete when col <= (strict: <) now - knob *)
| TPruneDepth                                (* DLQ depth limit *)
| TEvict (batch : bool).                     (* drop_oldest in favour of an enqueue *)

Record trans := mkTrans {
  t_op : top; t_cond : tcond; t_from : list st; t_to : target; t_writes : list (field * wval) }.

(** ** decidable comparisons (everything is finite) *)
Definition st_all : list st := [Queued; Leased; Delivered; Dead; Canceled].
Definition st_mem (s : st) (l : list st) : bool := existsb (st_eqb s) l.
Definition st_set_eqb (a b : list st) : bool := forallb (fun s => Bool.eqb (st_mem s a) (st_mem s b)) st_all.

Definition field_eqb (a b : field) : bool :=
  match a, b with
  | FAttempt, FAttempt | FNext, FNext | FLeaseId, FLeaseId | FLeaseUntil, FLeaseUntil | FReason, FReason => true
  | _, _ => false
  end.

Definition wval_eqb (a b : wval) : bool :=
  match a, b with
  | VClear, VClear | VNow, VNow | VNowPlusDelay, VNowPlusDelay | VNewUntil, VNewUntil
  | VOldUntilPlusBy, VOldUntilPlusBy | VNowPlusBy, VNowPlusBy | VNewLease, VNewLease
  | VReasonArg, VReasonArg | VIncr, VIncr => true
  | _, _ => false
  end.

Definition target_eqb (a b : target) : bool :=
  match a, b with
  | TSt x, TSt y => st_eqb x y
  | TKeep, TKeep | TDeleted, TDeleted => true
  | _, _ => false
  end.

Definition ltag_eqb (a b : ltag) : bool :=
  match a, b with LAck, LAck | LNack, LNack | LExtend, LExtend | LDead, LDead => true | _, _ => false end.

Definition knob_eqb (a b : knob) : bool :=
  match a, b with
  | KRetAge, KRetAge | KDelivAge, KDelivAge | KDlqAge, KDlqAge | KDlqDepth, KDlqDepth => true
  | _, _ => false
  end.

Definition agecol_eqb (a b : agecol) : bool :=
  match a, b with ColRecv, ColRecv | ColNext, ColNext => true | _, _ => false end.

Definition manage_kind_eqb (a b : manage_kind) : bool :=
  match a, b with
  | MCancel, MCancel | MRequeue, MRequeue | MResume, MResume | MRequeueDead, MRequeueDead
  | MDeleteDead, MDeleteDead => true
  | _, _ => false
  end.

Definition tcond_eqb (a b : tcond) : bool :=
  match a, b with
  | CAlways, CAlways | CUntilNull, CUntilNull => true
  | CRetention x, CRetention y => Bool.eqb x y
  | _, _ => false
  end.

Definition top_eqb (a b : top) : bool :=
  match a, b with
  | TDequeue, TDequeue | TSweep, TSweep | TPruneDepth, TPruneDepth => true
  | TLease k b, TLease k' b' | TLeaseExpired k b, TLeaseExpired k' b' => ltag_eqb k k' && Bool.eqb b b'
  | TManage k b, TManage k' b' => manage_kind_eqb k k' && Bool.eqb b b'
  | TPruneAge k c s, TPruneAge k' c' s' => knob_eqb k k' && agecol_eqb c c' && Bool.eqb s s'
  | TEvict b, TEvict b' => Bool.eqb b b'
  | _, _ => false
  end.

Definition write_eqb (a b : field * wval) : bool := field_eqb (fst a) (fst b) && wval_eqb (snd a) (snd b).
Definition writes_eqb (a b : list (field * wval)) : bool :=
  forallb (fun w => existsb (write_eqb w) b) a && forallb (fun w => existsb (write_eqb w) a) b.

Definition trans_eqb (r1 r2 : trans) : bool :=
  top_eqb (t_op r1) (t_op r2) && tcond_eqb (t_cond r1) (t_cond r2) && st_set_eqb (t_from r1) (t_from r2)
  && target_eqb (t_to r1) (t_to r2) && writes_eqb (t_writes r1) (t_writes r2).

Definition has_row (r : trans) (tbl : list trans) : bool := existsb (trans_eqb r) tbl.
(** the rows of [a] that [b] does not have *)
Definition only_in (a b : list trans) : list trans := filter (fun r => negb (has_row r b)) a.
Definition same_table (a b : list trans) : bool :=
  forallb (fun r => has_row r b) a && forallb (fun r => has_row r a) b.

(** rows that can execute on a store whose leased rows always carry a lease_until *)
Definition live (tbl : list trans) : list trans :=
  filter (fun r => negb (tcond_eqb (t_cond r) CUntilNull)) tbl.

(** the machine alone: operation class (prune detail and batch/filter form forgotten), source
    state, target *)
Inductive opclass := OcDequeue | OcRelease | OcAck | OcNack | OcExtend | OcDead
                   | OcManage (k : manage_kind) | OcPrune | OcEvict.

Definition opclass_of (o : top) : opclass :=
  match o with
  | TDequeue => OcDequeue
  | TSweep | TLeaseExpired _ _ => OcRelease
  | TLease LAck _ => OcAck | TLease LNack _ => OcNack | TLease LExtend _ => OcExtend | TLease LDead _ => OcDead
  | TManage k _ => OcManage k
  | TPruneAge _ _ _ | TPruneDepth => OcPrune
  | TEvict _ => OcEvict
  end.

Definition opclass_eqb (a b : opclass) : bool :=
  match a, b with
  | OcDequeue, OcDequeue | OcRelease, OcRelease | OcAck, OcAck | OcNack, OcNack | OcExtend, OcExtend
  | OcDead, OcDead | OcPrune, OcPrune | OcEvict, OcEvict => true
  | OcManage k, OcManage k' => manage_kind_eqb k k'
  | _, _ => false
  end.

Definition edge := (opclass * st * target)%type.
Definition edge_eqb (a b : edge) : bool :=
  opclass_eqb (fst (fst a)) (fst (fst b)) && st_eqb (snd (fst a)) (snd (fst b)) && target_eqb (snd a) (snd b).
Definition edges_of (tbl : list trans) : list edge :=
  flat_map (fun r => map (fun s => (opclass_of (t_op r), s, t_to r)) (filter (fun s => st_mem s (t_from r)) st_all)) tbl.
Definition same_edges (a b : list trans) : bool :=
  forallb (fun e => existsb (edge_eqb e) (edges_of b)) (edges_of a)
  && forallb (fun e => existsb (edge_eqb e) (edges_of a)) (edges_of b).

(** the documented machine (property C02 / C14 text):
    queued -> leased (dequeue); leased -> queued (nack, lease expiry); leased -> delivered | removed
    (ack); leased -> dead (dead-letter); extend keeps leased; queued|leased|dead -> canceled (cancel);
    dead|canceled -> queued (requeue); canceled -> queued (resume); dead -> queued (DLQ requeue);
    dead -> removed (DLQ delete); retention prune removes queued, delivered or dead - never leased,
    never canceled; drop_oldest removes queued. *)
Definition documented (o : opclass) (s : st) (t : target) : bool :=
  match o, s, t with
  | OcDequeue, Queued, TSt Leased => true
  | OcRelease, Leased, TSt Queued => true
  | OcAck, Leased, TSt Delivered => true
  | OcAck, Leased, TDeleted => true
  | OcNack, Leased, TSt Queued => true
  | OcExtend, Leased, TKeep => true
  | OcDead, Leased, TSt Dead => true
  | OcManage MCancel, (Queued | Leased | Dead), TSt Canceled => true
  | OcManage MRequeue, (Dead | Canceled), TSt Queued => true
  | OcManage MResume, Canceled, TSt Queued => true
  | OcManage MRequeueDead, Dead, TSt Queued => true
  | OcManage MDeleteDead, Dead, TDeleted => true
  | OcPrune, (Queued | Delivered | Dead), TDeleted => true
  | OcEvict, Queued, TDeleted => true
  | _, _, _ => false
  end.

Definition row_documented (r : trans) : bool :=
  forallb (fun s => negb (st_mem s (t_from r)) || documented (opclass_of (t_op r)) s (t_to r)) st_all.

(** ** what a row does to a message of the model *)
Record wenv := mkWenv { w_now : Z; w_delay : Z; w_ttl : Z; w_by : Z; w_lease : N; w_reason : N }.

(** a time value; [m0] is the message before the statement (SQL right-hand sides read old values) *)
Definition wv_time (e : wenv) (m0 : msg) (v : wval) : option Z :=
  match v with
  | VClear => Some 0
  | VNow => Some (w_now e)
  | VNowPlusDelay => Some (w_now e + Z.max (w_delay e) 0)
  | VNewUntil => Some (w_now e + w_ttl e)
  | VOldUntilPlusBy => Some (m_until m0 + w_by e)
  | VNowPlusBy => Some (w_now e + w_by e)
  | _ => None
  end.

(** one column write; [None] = the pair (column, value) makes no sense *)
Definition set_field (e : wenv) (m0 m : msg) (w : field * wval) : option msg :=
  match w with
  | (FAttempt, VIncr) => Some (upd m (m_st m) (m_next m) (m_reason m) (m_lease m) (m_until m) (m_attempt m0 + 1))
  | (FAttempt, _) => None
  | (FNext, v) => option_map (fun t => upd m (m_st m) t (m_reason m) (m_lease m) (m_until m) (m_attempt m)) (wv_time e m0 v)
  | (FLeaseUntil, v) => option_map (fun t => upd m (m_st m) (m_next m) (m_reason m) (m_lease m) t (m_attempt m)) (wv_time e m0 v)
  | (FLeaseId, VClear) => Some (upd m (m_st m) (m_next m) (m_reason m) None (m_until m) (m_attempt m))
  | (FLeaseId, VNewLease) => Some (upd m (m_st m) (m_next m) (m_reason m) (Some (w_lease e)) (m_until m) (m_attempt m))
  | (FLeaseId, _) => None
  | (FReason, VClear) => Some (upd m (m_st m) (m_next m) 0%N (m_lease m) (m_until m) (m_attempt m))
  | (FReason, VReasonArg) => Some (upd m (m_st m) (m_next m) (w_reason e) (m_lease m) (m_until m) (m_attempt m))
  | (FReason, _) => None
  end.

Fixpoint apply_writes (e : wenv) (m0 : msg) (ws : list (field * wval)) (m : msg) : option msg :=
  match ws with
  | [] => Some m
  | w :: tl => match set_field e m0 m w with
               | Some m' => apply_writes e m0 tl m'
               | None => None
               end
  end.

Definition set_state (t : target) (m : msg) : option msg :=
  match t with
  | TSt s => Some (upd m s (m_next m) (m_reason m) (m_lease m) (m_until m) (m_attempt m))
  | TKeep => Some m
  | TDeleted => None
  end.

(** effect of a row on a message it accepts: [None] = ill-formed row, [Some None] = message
    removed, [Some (Some m')] = message rewritten *)
Definition row_effect (e : wenv) (r : trans) (m : msg) : option (option msg) :=
  match t_to r with
  | TDeleted => Some None
  | t => match apply_writes e m (t_writes r) m with
         | Some m' => Some (set_state t m')
         | None => None
         end
  end.

Definition accepts (r : trans) (m : msg) : bool := st_mem (m_st m) (t_from r).

Definition lease_kind_of (k : ltag) (e : wenv) : lease_kind :=
  match k with
  | LAck => KAck
  | LNack => KNack (w_delay e)
  | LExtend => KExtend (w_by e)
  | LDead => KDead (w_reason e)
  end.

Definition cond_holds (c : cfg) (tc : tcond) : bool :=
  match tc with
  | CAlways => true
  | CRetention b => Bool.eqb (0 <? c_deliv_age c) b
  | CUntilNull => false
  end.

Definition knob_val (c : cfg) (k : knob) : Z :=
  match k with
  | KRetAge => c_ret_age c | KDelivAge => c_deliv_age c | KDlqAge => c_dlq_age c | KDlqDepth => c_dlq_depth c
  end.

Definition col_val (m : msg) (col : agecol) : Z := match col with ColRecv => m_recv m | ColNext => m_next m end.

(** does an age-prune row delete message [m] at time [now] under configuration [c]? *)
Definition prune_row_hits (c : cfg) (now : Z) (r : trans) (m : msg) : bool :=
  match t_op r with
  | TPruneAge k col strict =>
      accepts r m && (0 <? knob_val c k)
      && (if strict then col_val m col <? now - knob_val c k else col_val m col <=? now - knob_val c k)
  | _ => false
  end.

Definition is_prune_age (r : trans) : bool := match t_op r with TPruneAge _ _ _ => true | _ => false end.

(** ** correspondence of one row with Model/Queue.v *)
Definition row_sound (r : trans) : Prop :=
  match t_op r with
  | TDequeue =>
      t_cond r = CAlways /\ (forall m, accepts r m = queuedb m) /\
      forall now ttl picked lid m, accepts r m = true -> lease_of picked (m_id m) = Some lid ->
        row_effect (mkWenv now 0 ttl 0 lid 0%N) r m = Some (pm_lease now ttl picked m)
  | TSweep | TLeaseExpired _ _ =>
      t_cond r = CAlways /\ (forall m, accepts r m = is_leased m) /\
      forall e m, accepts r m = true -> row_effect e r m = Some (Some (release (w_now e) m))
  | TLease k _ =>
      (forall m, accepts r m = is_leased m) /\
      forall c e m, cond_holds c (t_cond r) = true -> accepts r m = true ->
        row_effect e r m = Some (lease_effect c (w_now e) (lease_kind_of k e) m)
  | TManage k _ =>
      t_cond r = CAlways /\ (forall s, st_mem s (t_from r) = allowed_from k s) /\
      forall e m, accepts r m = true -> row_effect e r m = Some (manage_effect (w_now e) k m)
  | TPruneAge k col strict =>
      t_cond r = CAlways /\ t_to r = TDeleted /\ strict = false /\
      forall c now m, prune_row_hits c now r m = true -> prune_age_eligible c now m = true
  | TPruneDepth =>
      t_cond r = CAlways /\ t_to r = TDeleted /\ forall m, accepts r m = st_eqb (m_st m) Dead
  | TEvict _ =>
      t_cond r = CAlways /\ t_to r = TDeleted /\ forall m, accepts r m = queuedb m
  end.

(** the age rules of a table, taken together, are exactly the model's eligibility predicate *)
Definition prune_rules_exact (tbl : list trans) : Prop :=
  forall c now m, prune_age_eligible c now m = existsb (fun r => prune_row_hits c now r m) (filter is_prune_age tbl).

(** every operation of the model has a row *)
Definition required_ops (with_batch_enqueue : bool) : list top :=
  [TDequeue; TSweep;
   TLease LAck false; TLease LAck true; TLease LNack false; TLease LNack true; TLease LExtend false;
   TLease LDead false; TLease LDead true;
   TLeaseExpired LAck false; TLeaseExpired LAck true; TLeaseExpired LNack false; TLeaseExpired LNack true;
   TLeaseExpired LExtend false; TLeaseExpired LDead false; TLeaseExpired LDead true;
   TManage MCancel false; TManage MCancel true; TManage MRequeue false; TManage MRequeue true;
   TManage MResume false; TManage MResume true; TManage MRequeueDead false; TManage MDeleteDead false;
   TPruneDepth; TEvict false]
  ++ (if with_batch_enqueue then [TEvict true] else []).

Definition covers (with_batch_enqueue : bool) (tbl : list trans) : bool :=
  forallb (fun o => existsb (fun r => top_eqb (t_op r) o) tbl) (required_ops with_batch_enqueue)
  && forallb (fun k => existsb (fun r => match t_op r with TPruneAge k' _ _ => knob_eqb k k' | _ => false end) tbl)
             [KRetAge; KDelivAge; KDlqAge]
  (* ack has its two forms *)
  && forallb (fun b => existsb (fun r => top_eqb (t_op r) (TLease LAck b) && tcond_eqb (t_cond r) (CRetention true)) tbl
                       && existsb (fun r => top_eqb (t_op r) (TLease LAck b) && tcond_eqb (t_cond r) (CRetention false)) tbl)
             [false; true].

(** "carries a lease iff leased": a row that produces a leased message sets a fresh lease id and a
    deadline; a row that leaves the leased state (to another state) clears both *)
Definition has_write (f : field) (v : wval) (r : trans) : bool := existsb (write_eqb (f, v)) (t_writes r).
Definition writes_field (f : field) (r : trans) : bool := existsb (fun w => field_eqb f (fst w)) (t_writes r).

Definition lease_discipline (r : trans) : bool :=
  match t_to r with
  | TSt Leased => has_write FLeaseId VNewLease r && has_write FLeaseUntil VNewUntil r && has_write FAttempt VIncr r
  | TSt _ => has_write FLeaseId VClear r && has_write FLeaseUntil VClear r && negb (writes_field FAttempt r)
  | TKeep => negb (writes_field FLeaseId r) && negb (writes_field FAttempt r) && negb (writes_field FReason r)
  | TDeleted => true
  end.
