(** Model of HMACAuth.Verify (internal/ingress/hmac.go), of the secret selection closure built by
    runtimeState.loadAuth (internal/app/run.go: SelectSecrets) and of secrets.Version.IsValidAt /
    Set.ValidAt (internal/secrets/secrets.go).

    Bytes are [list N] (each element < 256).  Library functions Verify merely calls are modelled
    executable-ly and compared with Go in the correspondence: strings.TrimSpace, strconv.ParseInt
    (base 10, 64 bit), encoding/hex (EncodeToString / DecodeString), subtle.ConstantTimeCompare
    (= equality).  [sha256] and [hmac] are Section variables: every theorem holds for all of them. *)
From Coq Require Import ZArith List Bool NArith Lia.
From HK Require Import Model.NonceCache.
Import ListNotations.
Open Scope Z_scope.

(** ** strings.TrimSpace: leading and trailing Unicode white space (unicode.IsSpace) is removed;
    bytes are decoded as UTF-8 the way Go does (an invalid sequence is U+FFFD, not a space). *)
Definition ascii_space (b : N) : bool :=
  (N.eqb b 9 || N.eqb b 10 || N.eqb b 11 || N.eqb b 12 || N.eqb b 13 || N.eqb b 32)%bool.

(** number of bytes of the white-space rune at the head of [s], 0 if none *)
Definition space_prefix (s : bytes) : nat :=
  match s with
  | b :: tl =>
      if ascii_space b then 1%nat else
      match b, tl with
      | 194%N, c :: _ => if (N.eqb c 133 || N.eqb c 160)%bool then 2%nat else 0%nat          (* U+0085 U+00A0 *)
      | 225%N, 154%N :: 128%N :: _ => 3%nat                                                    (* U+1680 *)
      | 226%N, 128%N :: c :: _ =>
          if ((N.leb 128 c && N.leb c 138) || N.eqb c 168 || N.eqb c 169 || N.eqb c 175)%bool  (* U+2000-200A 2028 2029 202F *)
          then 3%nat else 0%nat
      | 226%N, 129%N :: 159%N :: _ => 3%nat                                                    (* U+205F *)
      | 227%N, 128%N :: 128%N :: _ => 3%nat                                                    (* U+3000 *)
      | _, _ => 0%nat
      end
  | [] => 0%nat
  end.

(** the same, looking at the end of the string: [r] is the string reversed *)
Definition space_suffix_rev (r : bytes) : nat :=
  match r with
  | b :: tl =>
      if ascii_space b then 1%nat else
      match b, tl with
      | 133%N, 194%N :: _ => 2%nat
      | 160%N, 194%N :: _ => 2%nat
      | 128%N, 154%N :: 225%N :: _ => 3%nat
      | 159%N, 129%N :: 226%N :: _ => 3%nat
      | 128%N, 128%N :: 227%N :: _ => 3%nat
      | c, 128%N :: 226%N :: _ =>
          if ((N.leb 128 c && N.leb c 138) || N.eqb c 168 || N.eqb c 169 || N.eqb c 175)%bool then 3%nat else 0%nat
      | _, _ => 0%nat
      end
  | [] => 0%nat
  end.

Fixpoint trim_with (f : bytes -> nat) (fuel : nat) (s : bytes) : bytes :=
  match fuel with
  | O => s
  | S fu => match f s with
            | O => s
            | n => trim_with f fu (skipn n s)
            end
  end.

Definition trim_left (s : bytes) : bytes := trim_with space_prefix (length s) s.
Definition trim_right (s : bytes) : bytes := rev (trim_with space_suffix_rev (length s) (rev s)).
Definition trim_space (s : bytes) : bytes := trim_right (trim_left s).

(** ** strconv.ParseInt(s, 10, 64) *)
Definition max_int64 : Z := 9223372036854775807.
Definition min_int64 : Z := -9223372036854775808.

Definition digit_val (b : N) : option Z :=
  if (N.leb 48 b && N.leb b 57)%bool then Some (Z.of_N b - 48) else None.

Fixpoint digits_acc (acc : Z) (s : bytes) : option Z :=
  match s with
  | [] => Some acc
  | b :: tl => match digit_val b with
               | Some d => digits_acc (acc * 10 + d) tl
               | None => None
               end
  end.

Definition parse_int (s : bytes) : option Z :=
  match s with
  | [] => None
  | c :: tl =>
      let neg := N.eqb c 45 in
      let ds := if (N.eqb c 43 || N.eqb c 45)%bool then tl else s in
      match ds with
      | [] => None
      | _ => match digits_acc 0 ds with
             | None => None
             | Some n => let v := if neg then - n else n in
                         if (min_int64 <=? v) && (v <=? max_int64) then Some v else None
             end
      end
  end.

(** ** encoding/hex *)
Definition hex_digit (n : N) : N := if N.ltb n 10 then (48 + n)%N else (87 + n)%N.   (* lower case *)
Definition hex_encode (l : bytes) : bytes :=
  flat_map (fun b => [hex_digit (N.div b 16 mod 16); hex_digit (b mod 16)]) l.

Definition unhex_digit (c : N) : option N :=
  if (N.leb 48 c && N.leb c 57)%bool then Some (c - 48)%N
  else if (N.leb 97 c && N.leb c 102)%bool then Some (c - 87)%N
  else if (N.leb 65 c && N.leb c 70)%bool then Some (c - 55)%N
  else None.

(** hex.DecodeString: error on odd length or on any non-hex character *)
Fixpoint hex_decode (s : bytes) : option bytes :=
  match s with
  | [] => Some []
  | a :: b :: tl =>
      match unhex_digit a, unhex_digit b, hex_decode tl with
      | Some x, Some y, Some r => Some ((16 * x + y)%N :: r)
      | _, _, _ => None
      end
  | _ => None
  end.

(** ** the request as Verify sees it *)
Definition headers := list (bytes * list bytes).   (* canonical key -> values, as net/http's Header map *)

Fixpoint header_values (name : bytes) (h : headers) : list bytes :=
  match h with
  | [] => []
  | (k, vs) :: tl => if beqb name k then vs else header_values name tl
  end.

(** Header.Get: the first value, "" when absent *)
Definition header_get (name : bytes) (h : headers) : bytes :=
  match header_values name h with
  | v :: _ => v
  | [] => []
  end.

Record hreq := { q_method : bytes; q_path : bytes (* the cleaned request path *); q_headers : headers; q_body : bytes }.

(** ** secrets with validity windows (secrets.Version; times in ns) *)
Record version := { v_value : bytes; v_from : Z; v_until : option Z }.

(** Version.IsValidAt: valid_from inclusive, valid_until exclusive, no valid_until = no end *)
Definition is_valid_at (t : Z) (v : version) : bool :=
  (v_from v <=? t) && match v_until v with None => true | Some u => t <? u end.

Record hmac_cfg := {
  h_sig : bytes; h_ts : bytes; h_nonce : bytes;    (* header names (canonical form) *)
  h_tol : Z;                                        (* Tolerance, ns *)
  h_static : list bytes;                            (* HMACAuth.Secrets: inline secrets *)
  h_versions : list version                         (* secret_ref versions; SelectSecrets is set iff non-empty *)
}.

(** the closure loadAuth installs: set.ValidAt(at) values, then the inline secrets
    (ValidAt also sorts; Verify tries every element, so the order is not observable) *)
Definition select_secrets (cfg : hmac_cfg) (t : Z) : list bytes :=
  map v_value (filter (is_valid_at t) (h_versions cfg)) ++ h_static cfg.

Definition secrets_at (cfg : hmac_cfg) (t : Z) : list bytes :=
  match h_versions cfg with
  | [] => h_static cfg                               (* SelectSecrets == nil *)
  | _ => select_secrets cfg t
  end.

Definition no_secrets_configured (cfg : hmac_cfg) : bool :=
  match h_static cfg, h_versions cfg with [], [] => true | _, _ => false end.

Section Crypto.
Variable sha256 : bytes -> bytes.
Variable hmac : bytes -> bytes -> bytes.       (* hmac key message *)

(** fmt.Sprintf("%s\n%s\n%s\n%s", tsStr, r.Method, requestPath, hex(sha256(body))) *)
Definition string_to_sign (ts_text method path body : bytes) : bytes :=
  ts_text ++ [10%N] ++ method ++ [10%N] ++ path ++ [10%N] ++ hex_encode (sha256 body).

(** the loop over the secrets: empty secrets are skipped, constant-time compare = equality *)
Definition sig_matches (secrets : list bytes) (msg got : bytes) : bool :=
  existsb (fun k => match k with [] => false | _ => beqb got (hmac k msg) end) secrets.

Definition sec : Z := 1000000000.

(** HMACAuth.Verify.  [now] is the single clock reading, taken by nonceCache.cache_admit under the
    cache mutex; returns (accepted, cache'). *)
Definition verify (cfg : hmac_cfg) (c : cache) (now : Z) (r : hreq) : bool * cache :=
  if no_secrets_configured cfg then (true, c) else
  let sig_hex := trim_space (header_get (h_sig cfg) (q_headers r)) in
  let ts_text := trim_space (header_get (h_ts cfg) (q_headers r)) in
  let nonce := trim_space (header_get (h_nonce cfg) (q_headers r)) in
  match sig_hex, ts_text, nonce with
  | [], _, _ | _, [], _ | _, _, [] => (false, c)
  | _, _, _ =>
    match parse_int ts_text with
    | None => (false, c)
    | Some ts =>
      let t := ts * sec in                           (* time.Unix(ts, 0) *)
      let '(fresh, c1) := cache_admit nonce t (h_tol cfg) now c in
      if negb fresh then (false, c1) else
      match hex_decode sig_hex with
      | None | Some [] => (false, c1)
      | Some got =>
          let msg := string_to_sign ts_text (q_method r) (q_path r) (q_body r) in
          (sig_matches (secrets_at cfg t) msg got, c1)
      end
    end
  end.

End Crypto.
