(** Two calls on one queue, in either order: the outcomes a pair of concurrent calls may have when the store executes each call
    atomically (one write transaction per call).  Used for the two-store-objects-on-one-file checks (lib/twostores.py): the gateway's
    lease operation against an operator's cancel, and a by-filter operator mutation against a competing state change.
    Everything is [Model/Queue.step]; this file only fixes the concrete situation the harness sets up and the observable summary. *)
From Coq Require Import ZArith List Bool NArith.
From HK Require Import Model.Queue.
Import ListNotations.
Open Scope Z_scope.

Definition o0 : oracle := mkOracle [] [] [] [].
Definition cfg_of (deliv : bool) : cfg := mkCfg 0 false 0 0 (if deliv then 86400000000000 else 0) 0 0 0.
Definition sec : Z := 1000000000.

(** message 1 enqueued at 0 and leased (lease 9, ttl 10 s) at 1 ms; message 2 a bystander on another route *)
Definition e (i r : N) : enq := mkEnq (Some i) r 1 None None 0 0 0.
Definition leased_state (deliv : bool) : state :=
  snd (run Sql (cfg_of deliv) init
         [(Enqueue 0 (e 1 1), o0); (Dequeue 1000000 (Some 1%N) (Some 1%N) 1 (10 * sec), mkOracle [(1%N, 9%N)] [] [] []);
          (Enqueue 1000000 (e 2 2), o0)]).

Inductive a_op := AAckOp | ANackOp | AExtendOp | ADeadOp.
Definition a_kind (a : a_op) : lease_kind :=
  match a with AAckOp => KAck | ANackOp => KNack (30 * sec) | AExtendOp => KExtend (5 * sec) | ADeadOp => KDead 7 end.

(** answer classes: 0 ok, 1 lease expired, 2 lease not found, 9 other *)
Definition err_class (r : res) : Z :=
  match r with RUnit => 0 | RErr EExpired => 1 | RErr ENotFound => 2 | _ => 9 end.
Definition count_of (r : res) : Z := match r with RCount c _ _ => c | _ => -1 end.
(** final state of message 1: 0 gone, 1 queued, 2 leased, 3 delivered, 4 dead, 5 canceled *)
Definition st_code (s : state) (i : N) : Z :=
  match find_id i (msgs s) with
  | None => 0
  | Some m => match m_st m with Queued => 1 | Leased => 2 | Delivered => 3 | Dead => 4 | Canceled => 5 end
  end.

(** gateway: one lease operation at [now]; operator: cancel of message 1 (by id) *)
Definition lease_vs_cancel (a : a_op) (stale deliv a_first : bool) : list Z :=
  let c := cfg_of deliv in
  let now := if stale then 11 * sec + 1000000 else sec + 1000000 in
  let opA := LeaseOp now (a_kind a) (LKnown 9%N false) in
  let opB := Manage now MCancel [RPlain 1%N] in
  let s0 := leased_state deliv in
  if a_first then
    let '(s1, ra) := step Sql c s0 opA o0 in
    let '(s2, rb) := step Sql c s1 opB o0 in
    [err_class ra; count_of rb; st_code s2 1; st_code s2 2]
  else
    let '(s1, rb) := step Sql c s0 opB o0 in
    let '(s2, ra) := step Sql c s1 opA o0 in
    [err_class ra; count_of rb; st_code s2 1; st_code s2 2].

(** the table: for every lease operation, live / expired lease, delivered retention on / off: both serial orders *)
Definition lease_vs_cancel_table : list (list Z) :=
  flat_map (fun a => flat_map (fun stale => flat_map (fun deliv =>
    [lease_vs_cancel a stale deliv true; lease_vs_cancel a stale deliv false]) [true; false]) [true; false])
    [AAckOp; ANackOp; AExtendOp; ADeadOp].

(** ** a by-filter mutation against a competing change (message 1 canceled, or queued) *)
Definition canceled_state : state :=
  snd (run Sql (cfg_of true) init [(Enqueue 0 (e 1 1), o0); (Manage 0 MCancel [RPlain 1%N], o0)]).
Definition queued_state : state := snd (run Sql (cfg_of true) init [(Enqueue 0 (e 1 1), o0)]).
Definition filt1 : filt := mkFilt (Some 1%N) None None 10 None false.

Inductive scen := RequeueVsResumeLease | ResumeVsRequeueLease | CancelVsAck.

(** B's part: its own mutation, then a dequeue (and for CancelVsAck the ack of what it got);
    returns the state, B's own count and how many messages it leased *)
Definition run_b (sc : scen) (s : state) : state * Z * Z :=
  let c := cfg_of true in
  match sc with
  | RequeueVsResumeLease | ResumeVsRequeueLease =>
      let k := match sc with RequeueVsResumeLease => MResume | _ => MRequeue end in
      let '(s1, r) := step Sql c s (Manage sec k [RPlain 1%N]) o0 in
      let ready_now := match find_id 1 (msgs s1) with Some m => ready sec (Some 1%N) (Some 1%N) m | None => false end in
      let '(s2, rd) := step Sql c s1 (Dequeue sec (Some 1%N) (Some 1%N) 1 (3600 * sec))
                            (mkOracle (if ready_now then [(1%N, 20%N)] else []) [] [] []) in
      (s2, count_of r, match rd with RItems l => Z.of_nat (length l) | _ => -1 end)
  | CancelVsAck =>
      let ready_now := match find_id 1 (msgs s) with Some m => ready sec (Some 1%N) (Some 1%N) m | None => false end in
      let '(s1, rd) := step Sql c s (Dequeue sec (Some 1%N) (Some 1%N) 1 (3600 * sec))
                            (mkOracle (if ready_now then [(1%N, 20%N)] else []) [] [] []) in
      match rd with
      | RItems (_ :: _) => let '(s2, ra) := step Sql c s1 (LeaseOp sec KAck (LKnown 20%N false)) o0 in
                           (s2, match ra with RUnit => 1 | _ => 0 end, 1)
      | _ => (s1, 0, 0)
      end
  end.

Definition run_a (sc : scen) (s : state) : state * Z :=
  let c := cfg_of true in
  let k := match sc with RequeueVsResumeLease => MRequeue | ResumeVsRequeueLease => MResume | CancelVsAck => MCancel end in
  let '(s1, r) := step Sql c s (ManageF sec k filt1) o0 in (s1, count_of r).

(** [a count; b count; b leased; final state of message 1] *)
Definition filter_vs_change (sc : scen) (a_first : bool) : list Z :=
  let s0 := match sc with CancelVsAck => queued_state | _ => canceled_state end in
  if a_first then
    let '(s1, ca) := run_a sc s0 in let '(s2, cb, lb) := run_b sc s1 in [ca; cb; lb; st_code s2 1]
  else
    let '(s1, cb, lb) := run_b sc s0 in let '(s2, ca) := run_a sc s1 in [ca; cb; lb; st_code s2 1].

Definition filter_vs_change_table : list (list Z) :=
  flat_map (fun sc => [filter_vs_change sc true; filter_vs_change sc false]) [RequeueVsResumeLease; ResumeVsRequeueLease; CancelVsAck].
