(** Admin publish (C15): internal/admin/http.go handleMessagesPublish,
    handleApplicationEndpointPublish, parsePublishItemsWithSelectorRequirement,
    firstManagedPublishItemIndex, publishRoutePolicyError, resolvePublishTarget,
    publishEnvelopeFromItem, firstExistingMessageIDIndex, parseManagementAudit,
    mutationAuditPolicyError - for a server wired the way internal/app/run.go startServers
    wires it (every resolver callback set and derived from the one compiled route table, so
    the "resolver missing" / "ownership sources out of sync" branches cannot be taken).

    The handler is a sequence of passes, each a left-to-right scan that stops at the first
    offending item:
      request level  (policy switches, audit headers, scope resolution; no item index)
      pass 1  parse   parsePublishItems...: id present, selector shape, labels, in-batch duplicate ids
      pass 2  (global path only) firstManagedPublishItemIndex
      pass 3  semantic per-item loop: managed/unmanaged rule, route, route policy, target,
              timestamps, payload (base64, decoded size), header validity, header size
      pass 4  LookupMessages: smallest index whose id is already stored
      pass 5  EnqueueBatch (Model/Queue.v step_enqueue, single = false) - or, for a store
              without BatchEnqueuer, Enqueue item by item.

    Ids / routes / targets / labels are numbers (the harness maps strings); what the code
    decides on bytes itself (payload_b64, header names and values, audit headers) is bytes.
    Library verdicts (JSON body decodes, RFC3339 parses, label pattern) are inputs. *)
From Coq Require Import List ZArith NArith Bool.
From HK Require Import Model.Queue Model.Headers Model.Base64 Model.HeaderValidate.
Import ListNotations.
Open Scope Z_scope.

(** ** request *)
Inductive rsel := RSBlank | RSNoSlash | RSPath (r : N).          (* item.route after TrimSpace *)
Inductive lsel := LBlank | LInvalid | LValid (n : N).            (* application / endpoint_name after TrimSpace *)
Inductive tsel := TAbsent | TBad | TOk (t : Z).                  (* received_at / next_run_at: parseTimeParam *)

Record item := mkItem {
  i_id : rid;                 (* RBlank | RPadded n | RPlain n, as in the queue model *)
  i_route : rsel;
  i_target : option N;        (* TrimSpace(item.target); None = blank *)
  i_app : lsel; i_ep : lsel;
  i_recv : tsel; i_next : tsel;
  i_payload : bytes;          (* payload_b64 as sent *)
  i_headers : smap;
  i_trace : N }.

Record audit := mkAudit { a_reason : bytes; a_actor : bytes; a_reqid : bytes }.   (* header values *)

(** ** configuration as compiled and wired *)
Record route := mkRoute {
  r_path : N; r_targets : list N; r_pull : bool;
  r_publish : bool; r_direct : bool; r_managed : bool;
  r_max_body : Z; r_max_headers : Z;
  r_owner : option (N * N) }.          (* application, endpoint_name *)

Record ctx := mkCtx {
  x_direct : bool; x_managed : bool; x_allow_pull : bool; x_allow_deliver : bool;
  x_req_reason : bool; x_req_actor : bool; x_req_reqid : bool;
  x_actor_allow : list bytes; x_actor_prefix : list bytes;
  x_max_body : Z; x_max_headers : Z;
  x_routes : list route }.

Definition default_max_body : Z := 2097152.
Definition default_max_headers : Z := 65536.
Definition max_items : Z := 1000.
Definition max_reason_len : Z := 512.
Definition max_actor_len : Z := 256.
Definition max_reqid_len : Z := 256.

(** ** responses *)
Inductive code :=
| CGlobalDisabled | CScopedDisabled | CAuditReason | CAuditActor | CAuditActorNotAllowed | CAuditReqId
| CInvalidBody | CScopedRequired | CManagedSelectorRequired | CRouteNotFound | CRoutePublishDisabled
| CPullDisabled | CDeliverDisabled | CTargetUnresolvable | CInvalidRecv | CInvalidNext | CInvalidPayload
| CPayloadTooLarge | CInvalidHeader | CHeadersTooLarge | CDuplicateId | CQueueFull | CStoreUnavailable
| CEndpointNotFound | CEndpointNoTargets | CSelectorForbidden.

Record penv := mkPenv {
  pe_id : N; pe_route : N; pe_target : N; pe_recv : option Z; pe_next : option Z;
  pe_payload : bytes; pe_headers : smap; pe_trace : N }.

Inductive pre := Accept (es : list penv) | Reject (status : Z) (c : code) (idx : Z).   (* idx = -1: no item_index *)
Inductive resp := ROk (published : Z) | RFail (status : Z) (c : code) (idx : Z).

(** ** small helpers *)
Definition trimmed_id (r : rid) : option N :=
  match r with RBlank => None | RPadded i | RPlain i => Some i end.

Definition blank_l (l : lsel) : bool := match l with LBlank => true | _ => false end.
Definition blank_r (r : rsel) : bool := match r with RSBlank => true | _ => false end.
Definition blank_o (t : option N) : bool := match t with None => true | Some _ => false end.

Fixpoint norm_targets_aux (ts seen : list N) : list N :=
  match ts with
  | [] => []
  | t :: tl => if memN t seen then norm_targets_aux tl seen else t :: norm_targets_aux tl (t :: seen)
  end.
(** normalizePublishTargets (blank targets never come out of Compile) *)
Definition norm_targets (ts : list N) : list N := norm_targets_aux ts [].

Definition find_route (x : ctx) (r : N) : option route :=
  find (fun rt => N.eqb (r_path rt) r) (x_routes x).

Definition has_owner (rt : route) : bool := match r_owner rt with Some _ => true | None => false end.

(** managedRouteSet / lookupManagementEndpointByRouteOwnershipStatus *)
Definition route_is_managed (x : ctx) (r : N) : bool :=
  existsb (fun rt => N.eqb (r_path rt) r && has_owner rt) (x_routes x).

(** TargetsForRoute *)
Definition targets_for (x : ctx) (r : N) : list N :=
  match find_route x r with Some rt => norm_targets (r_targets rt) | None => [] end.

(** resolveManagedEndpointPublishScope on the wired server *)
Definition find_endpoint (x : ctx) (app ep : N) : option route :=
  find (fun rt => match r_owner rt with
                  | Some (a, e) => N.eqb a app && N.eqb e ep
                  | None => false end) (x_routes x).

(** publishMaxBodyBytes / publishMaxHeaderBytes followed by the defaulting in publishEnvelopeFromItem *)
Definition eff_max_body (x : ctx) (r : N) : Z :=
  let base := if x_max_body x <=? 0 then default_max_body else x_max_body x in
  match find_route x r with
  | Some rt => if 0 <? r_max_body rt then r_max_body rt else base
  | None => base
  end.

Definition eff_max_headers (x : ctx) (r : N) : Z :=
  let base := if x_max_headers x <=? 0 then default_max_headers else x_max_headers x in
  match find_route x r with
  | Some rt => if 0 <? r_max_headers rt then r_max_headers rt else base
  | None => base
  end.

(** publishRoutePolicyError *)
Definition route_policy_error (x : ctx) (r : N) (targets : list N) (scoped : bool) : option code :=
  let rt := find_route x r in
  let enabled := match rt with Some t => r_publish t | None => true end in
  let direct := match rt with Some t => r_direct t | None => true end in
  let managed := match rt with Some t => r_managed t | None => true end in
  if negb enabled then Some CRoutePublishDisabled
  else if (if scoped then negb managed else negb direct) then Some CRoutePublishDisabled
  else
    let pull := match rt with Some t => r_pull t | None => false end in
    if pull then (if x_allow_pull x then None else Some CPullDisabled)
    else match targets with
         | [] => None
         | _ => if x_allow_deliver x then None else Some CDeliverDisabled
         end.

(** resolvePublishTarget *)
Definition resolve_target (t : option N) (allowed : list N) : option N :=
  match allowed with
  | [] => None
  | _ =>
      match t with
      | None => match allowed with [a] => Some a | _ => None end
      | Some v => if memN v allowed then Some v else None
      end
  end.

(** ** audit headers *)
Definition blen (b : bytes) : Z := Z.of_nat (length b).

(** parseManagementAudit: the three trimmed values, or None (-> audit_reason_required) *)
Definition parse_audit (x : ctx) (a : audit) : option (bytes * bytes * bytes) :=
  let reason := trim_space (a_reason a) in
  let actor := trim_space (a_actor a) in
  let reqid := trim_space (a_reqid a) in
  if x_req_reason x && is_nil reason then None
  else if (max_reason_len <? blen reason) || (max_actor_len <? blen actor) || (max_reqid_len <? blen reqid) then None
  else Some (reason, actor, reqid).

Fixpoint is_prefix (p s : bytes) : bool :=
  match p with
  | [] => true
  | a :: p' => match s with b :: s' => N.eqb a b && is_prefix p' s' | [] => false end
  end.

Definition actor_policy_on (x : ctx) : bool :=
  negb (match x_actor_allow x with [] => true | _ => false end)
  || negb (match x_actor_prefix x with [] => true | _ => false end).

Definition actor_allowed (x : ctx) (actor : bytes) : bool :=
  existsb (fun a => beq actor (trim_space a)) (x_actor_allow x)
  || existsb (fun p => is_prefix (trim_space p) actor) (x_actor_prefix x).

(** mutationAuditPolicyError *)
Definition audit_policy_error (x : ctx) (actor reqid : bytes) (scoped : bool) : option code :=
  if x_req_actor x && is_nil actor then Some CAuditActor
  else if x_req_reqid x && is_nil reqid then Some CAuditReqId
  else if scoped && actor_policy_on x then
    if is_nil actor then Some CAuditActor
    else if negb (actor_allowed x actor) then Some CAuditActorNotAllowed
    else None
  else None.

(** ** pass 1: parsePublishItemsWithSelectorRequirement *)
Definition parse_item_bad (require_selector : bool) (seen : list N) (it : item) : bool :=
  match trimmed_id (i_id it) with
  | None => true
  | Some id =>
      (require_selector && blank_r (i_route it) && blank_l (i_app it) && blank_l (i_ep it))
      || (match i_route it with RSNoSlash => true | _ => false end)
      || (require_selector && blank_r (i_route it) && blank_l (i_app it) && negb (blank_o (i_target it)))
      || negb (Bool.eqb (blank_l (i_app it)) (blank_l (i_ep it)))
      || (match i_app it with LInvalid => true | _ => false end)
      || (match i_ep it with LInvalid => true | _ => false end)
      || memN id seen
  end.

Fixpoint parse_scan (require_selector : bool) (seen : list N) (items : list item) (i : nat) : option nat :=
  match items with
  | [] => None
  | it :: tl =>
      if parse_item_bad require_selector seen it then Some i
      else match trimmed_id (i_id it) with
           | Some id => parse_scan require_selector (id :: seen) tl (S i)
           | None => Some i
           end
  end.

(** ** pass 2: firstManagedPublishItemIndex *)
Definition has_managed_selector (it : item) : bool := negb (blank_l (i_app it)) || negb (blank_l (i_ep it)).

Fixpoint find_index {A} (p : A -> bool) (l : list A) (i : nat) : option nat :=
  match l with
  | [] => None
  | a :: tl => if p a then Some i else find_index p tl (S i)
  end.

(** ** publishEnvelopeFromItem *)
Definition time_of (t : tsel) : option (option Z) :=
  match t with TAbsent => Some None | TOk v => Some (Some v) | TBad => None end.

Definition payload_of (raw : bytes) : option bytes :=
  if is_nil (trim_space raw) then Some [] else decode raw.

Definition envelope (it : item) (id route target : N) (maxb maxh : Z) : penv + (Z * code) :=
  match time_of (i_recv it) with
  | None => inr (400, CInvalidRecv)
  | Some recv =>
      match time_of (i_next it) with
      | None => inr (400, CInvalidNext)
      | Some next =>
          match payload_of (i_payload it) with
          | None => inr (400, CInvalidPayload)
          | Some p =>
              if maxb <? blen p then inr (413, CPayloadTooLarge)
              else if negb (validate_map (i_headers it)) then inr (400, CInvalidHeader)
              else if maxh <? kv_size (i_headers it) then inr (413, CHeadersTooLarge)
              else inl (mkPenv id route target recv next p (i_headers it) (i_trace it))
          end
      end
  end.

(** ** pass 3, global path: the per-item loop of handleMessagesPublish *)
Definition sem_global (x : ctx) (it : item) : penv + (Z * code) :=
  match trimmed_id (i_id it) with
  | None => inr (400, CInvalidBody)                    (* excluded by pass 1 *)
  | Some id =>
      if negb (Bool.eqb (blank_l (i_app it)) (blank_l (i_ep it))) then inr (400, CInvalidBody)
      else if negb (blank_l (i_app it)) then inr (400, CScopedRequired)
      else match i_route it with
           | RSBlank => inr (400, CInvalidBody)
           | RSNoSlash => inr (400, CInvalidBody)
           | RSPath r =>
               if route_is_managed x r then inr (400, CManagedSelectorRequired)
               else
                 let targets := targets_for x r in
                 match targets with
                 | [] => inr (400, CRouteNotFound)
                 | _ =>
                     match route_policy_error x r targets false with
                     | Some c => inr (403, c)
                     | None =>
                         match resolve_target (i_target it) targets with
                         | None => inr (400, CTargetUnresolvable)
                         | Some t => envelope it id r t (eff_max_body x r) (eff_max_headers x r)
                         end
                     end
                 end
           end
  end.

(** pass 3, scoped path: the per-item loop of handleApplicationEndpointPublish *)
Definition has_hints (it : item) : bool :=
  negb (blank_r (i_route it)) || negb (blank_l (i_app it)) || negb (blank_l (i_ep it)).

Definition sem_scoped (x : ctx) (r : N) (targets : list N) (it : item) : penv + (Z * code) :=
  match trimmed_id (i_id it) with
  | None => inr (400, CInvalidBody)
  | Some id =>
      if has_hints it then inr (400, CSelectorForbidden)
      else match resolve_target (i_target it) targets with
           | None => inr (400, CTargetUnresolvable)
           | Some t => envelope it id r t (eff_max_body x r) (eff_max_headers x r)
           end
  end.

Fixpoint sem_scan (f : item -> penv + (Z * code)) (items : list item) (i : nat)
  : list penv + (nat * Z * code) :=
  match items with
  | [] => inl []
  | it :: tl =>
      match f it with
      | inr (st, c) => inr (i, st, c)
      | inl e => match sem_scan f tl (S i) with
                 | inl es => inl (e :: es)
                 | inr bad => inr bad
                 end
      end
  end.

Definition zidx (i : nat) : Z := Z.of_nat i.

(** passes 1-3 over the items of a body that decoded ([body_ok]) *)
Definition items_global (x : ctx) (body_ok : bool) (items : list item) : pre :=
  if negb body_ok then Reject 400 CInvalidBody (-1)
  else if (Z.of_nat (length items) =? 0) || (max_items <? Z.of_nat (length items)) then Reject 400 CInvalidBody (-1)
  else match parse_scan true [] items 0 with
       | Some i => Reject 400 CInvalidBody (zidx i)
       | None =>
           match find_index has_managed_selector items 0 with
           | Some i => Reject 400 CScopedRequired (zidx i)
           | None =>
               match sem_scan (sem_global x) items 0 with
               | inr (i, st, c) => Reject st c (zidx i)
               | inl es => Accept es
               end
           end
       end.

Definition items_scoped (x : ctx) (r : N) (targets : list N) (body_ok : bool) (items : list item) : pre :=
  if negb body_ok then Reject 400 CInvalidBody (-1)
  else if (Z.of_nat (length items) =? 0) || (max_items <? Z.of_nat (length items)) then Reject 400 CInvalidBody (-1)
  else match parse_scan false [] items 0 with
       | Some i => Reject 400 CInvalidBody (zidx i)
       | None =>
           match sem_scan (sem_scoped x r targets) items 0 with
           | inr (i, st, c) => Reject st c (zidx i)
           | inl es => Accept es
           end
       end.

(** ** request level + passes 1-3 *)
Definition preflight_global (x : ctx) (a : audit) (body_ok : bool) (items : list item) : pre :=
  if negb (x_direct x) then Reject 403 CGlobalDisabled (-1)
  else match parse_audit x a with
       | None => Reject 400 CAuditReason (-1)
       | Some (_, actor, reqid) =>
           match audit_policy_error x actor reqid false with
           | Some c => Reject 400 c (-1)
           | None => items_global x body_ok items
           end
       end.

(** [app], [ep]: the two path segments (valid labels; handleApplicationResource answers
    400 invalid_body for anything else before the handler is entered) *)
Definition preflight_scoped (x : ctx) (app ep : lsel) (a : audit) (body_ok : bool) (items : list item) : pre :=
  match app, ep with
  | LValid ap, LValid en =>
      if negb (x_managed x) then Reject 403 CScopedDisabled (-1)
      else match find_endpoint x ap en with
           | None => Reject 404 CEndpointNotFound (-1)
           | Some rt =>
               let r := r_path rt in
               let targets := targets_for x r in
               match targets with
               | [] => Reject 400 CEndpointNoTargets (-1)
               | _ =>
                   match parse_audit x a with
                   | None => Reject 400 CAuditReason (-1)
                   | Some (_, actor, reqid) =>
                       match audit_policy_error x actor reqid true with
                       | Some c => Reject 400 c (-1)
                       | None =>
                           match route_policy_error x r targets true with
                           | Some c => Reject 403 c (-1)
                           | None => items_scoped x r targets body_ok items
                           end
                       end
                   end
               end
           end
  | _, _ => Reject 400 CInvalidBody (-1)
  end.

(** ** pass 4: firstExistingMessageIDIndex over LookupMessages *)
Fixpoint last_index_of (i : N) (ids : list N) (k : nat) (best : option nat) : option nat :=
  match ids with
  | [] => best
  | j :: tl => last_index_of i tl (S k) (if N.eqb i j then Some k else best)
  end.

Definition lookup_ids (ids : list N) (s : state) : list N :=
  match snd (step_lookup (map RPlain ids) s) with
  | RLookup l => map (fun t => fst (fst t)) l
  | _ => []
  end.

Definition first_existing (ids : list N) (s : state) : option nat :=
  fold_left (fun best i =>
               match last_index_of i ids 0 None with
               | Some k => match best with
                           | Some b => if Nat.ltb k b then Some k else best
                           | None => Some k
                           end
               | None => best
               end) (lookup_ids ids s) None.

(** ** pass 5 *)
Section Store.
Variable hb : bytes -> N.      (* content handle of a payload (the queue model is opaque in it) *)
Variable hh : smap -> N.       (* content handle of a header map *)

Definition to_enq (e : penv) : enq :=
  mkEnq (Some (pe_id e)) (pe_route e) (pe_target e) (pe_recv e) (pe_next e)
        (hb (pe_payload e)) (hh (pe_headers e)) (pe_trace e).

Definition enqueue_error (e : err) : resp :=
  match e with
  | EExists => RFail 409 CDuplicateId (-1)
  | EFull => RFail 503 CQueueFull (-1)
  | _ => RFail 503 CStoreUnavailable (-1)
  end.

(** a store with BatchEnqueuer (MemoryStore, SQLiteStore) *)
Definition commit_batch (fl : flavour) (c : cfg) (now : Z) (o : oracle) (es : list penv) (s : state) : state * resp :=
  match first_existing (map pe_id es) s with
  | Some k => (s, RFail 409 CDuplicateId (zidx k))
  | None =>
      match step_enqueue fl c now false (map to_enq es) o s with
      | (s', RCount n _ _) => (s', ROk n)
      | (s', RErr e) => (s', enqueue_error e)
      | (s', _) => (s', RFail 503 CStoreUnavailable (-1))
      end
  end.

(** a store without BatchEnqueuer (PostgresStore): the handler's per-item loop *)
Fixpoint enqueue_each (fl : flavour) (c : cfg) (now : Z) (o : oracle) (es : list penv) (s : state) (k : nat)
  : state * resp :=
  match es with
  | [] => (s, ROk (zidx k))
  | e :: tl =>
      match step_enqueue fl c now true [to_enq e] o s with
      | (s', RUnit) => enqueue_each fl c now o tl s' (S k)
      | (s', RErr EExists) => (s', RFail 409 CDuplicateId (zidx k))
      | (s', RErr EFull) => (s', RFail 503 CQueueFull (zidx k))
      | (s', _) => (s', RFail 503 CStoreUnavailable (zidx k))
      end
  end.

Definition commit_each (fl : flavour) (c : cfg) (now : Z) (o : oracle) (es : list penv) (s : state) : state * resp :=
  match first_existing (map pe_id es) s with
  | Some k => (s, RFail 409 CDuplicateId (zidx k))
  | None => enqueue_each fl c now o es s 0
  end.

Definition finish (batching : bool) (fl : flavour) (c : cfg) (now : Z) (o : oracle) (p : pre) (s : state)
  : state * resp :=
  match p with
  | Reject st cd i => (s, RFail st cd i)
  | Accept es => if batching then commit_batch fl c now o es s else commit_each fl c now o es s
  end.

(** POST /messages/publish *)
Definition publish_global (batching : bool) (fl : flavour) (c : cfg) (now : Z) (o : oracle)
           (x : ctx) (a : audit) (body_ok : bool) (items : list item) (s : state) : state * resp :=
  finish batching fl c now o (preflight_global x a body_ok items) s.

(** POST /applications/{app}/endpoints/{ep}/messages/publish *)
Definition publish_scoped (batching : bool) (fl : flavour) (c : cfg) (now : Z) (o : oracle)
           (x : ctx) (app ep : lsel) (a : audit) (body_ok : bool) (items : list item) (s : state) : state * resp :=
  finish batching fl c now o (preflight_scoped x app ep a body_ok items) s.

End Store.

(** ** validity predicates used to state the property (what "acceptable" means, item by item) *)
Definition item_ok_global (x : ctx) (it : item) : bool :=
  match sem_global x it with inl _ => true | inr _ => false end.
Definition item_ok_scoped (x : ctx) (r : N) (targets : list N) (it : item) : bool :=
  match sem_scoped x r targets it with inl _ => true | inr _ => false end.

(** ** encodings for the correspondence check (numbers that coqc prints) *)
Definition code_num (c : code) : Z :=
  match c with
  | CGlobalDisabled => 1 | CScopedDisabled => 2 | CAuditReason => 3 | CAuditActor => 4
  | CAuditActorNotAllowed => 5 | CAuditReqId => 6 | CInvalidBody => 7 | CScopedRequired => 8
  | CManagedSelectorRequired => 9 | CRouteNotFound => 10 | CRoutePublishDisabled => 11
  | CPullDisabled => 12 | CDeliverDisabled => 13 | CTargetUnresolvable => 14 | CInvalidRecv => 15
  | CInvalidNext => 16 | CInvalidPayload => 17 | CPayloadTooLarge => 18 | CInvalidHeader => 19
  | CHeadersTooLarge => 20 | CDuplicateId => 21 | CQueueFull => 22 | CStoreUnavailable => 23
  | CEndpointNotFound => 24 | CEndpointNoTargets => 25 | CSelectorForbidden => 26
  end.

Definition st_num (s : st) : Z :=
  match s with Queued => 1 | Leased => 2 | Delivered => 3 | Dead => 4 | Canceled => 5 end.

(** one stored message as the check compares it *)
Definition msg_row (m : msg) : list Z :=
  [Z.of_N (m_id m); Z.of_N (m_route m); Z.of_N (m_target m); st_num (m_st m); m_recv m; m_next m;
   Z.of_N (m_body m); Z.of_N (m_hdr m); Z.of_N (m_trace m)].

Definition resp_row (r : resp) : list Z :=
  match r with
  | ROk n => [200; 0; -1; n]
  | RFail st c i => [st; code_num c; i; 0]
  end.

Inductive request :=
| ReqGlobal (now : Z) (o : oracle) (a : audit) (body_ok : bool) (items : list item)
| ReqScoped (now : Z) (o : oracle) (app ep : lsel) (a : audit) (body_ok : bool) (items : list item).

Definition run_request (batching : bool) (fl : flavour) (c : cfg) (x : ctx) (rq : request) (s : state) : state * resp :=
  match rq with
  | ReqGlobal now o a ok items => publish_global hash_bytes hash_smap batching fl c now o x a ok items s
  | ReqScoped now o app ep a ok items => publish_scoped hash_bytes hash_smap batching fl c now o x app ep a ok items s
  end.

Fixpoint run_requests (batching : bool) (fl : flavour) (c : cfg) (x : ctx) (rqs : list request) (s : state)
  : list (list Z * list (list Z)) :=
  match rqs with
  | [] => []
  | rq :: tl =>
      let '(s', r) := run_request batching fl c x rq s in
      (resp_row r, map msg_row (msgs s')) :: run_requests batching fl c x tl s'
  end.

(** checksummed variant (the check prints this; the full rows only to explain a mismatch) *)
Definition row_hash (r : list Z) : Z :=
  fold_left (fun h x => (h * 1000003 + x + 1) mod 2305843009213693951) r 7.
Definition rows_hash (rows : list (list Z)) : Z :=
  fold_left (fun acc r => (acc + row_hash r) mod 2305843009213693951) rows 11.

Fixpoint run_requests_h (batching : bool) (fl : flavour) (c : cfg) (x : ctx) (rqs : list request) (s : state)
  : list (list Z * Z) :=
  match rqs with
  | [] => []
  | rq :: tl =>
      let '(s', r) := run_request batching fl c x rq s in
      (resp_row r, rows_hash (map msg_row (msgs s'))) :: run_requests_h batching fl c x tl s'
  end.

(** replace items of a base batch (the check writes long batches as a base plus replacements) *)
Fixpoint set_nth (n : nat) (x : item) (l : list item) : list item :=
  match l, n with
  | [], _ => []
  | _ :: tl, O => x :: tl
  | a :: tl, S k => a :: set_nth k x tl
  end.
Definition repl (changes : list (nat * item)) (base : list item) : list item :=
  fold_left (fun b p => set_nth (fst p) (snd p) b) changes base.
