(** Glue for the C19 correspondence: string literals -> rune lists, and checksums of what
    the model computes, compared by /verif/props/c19.py with the same checksums computed
    over what the Go lexer / formatter helpers returned.  Not part of any theorem. *)
From Coq Require Import List NArith ZArith Bool String Ascii Uint63.
From HK Require Import Model.Lexer Model.FormatValue.
Import ListNotations.
Open Scope N_scope.

(** ASCII-only texts are shipped as Coq string literals (one byte = one rune) *)
Definition runes_of_string (s : string) : list N := map N_of_ascii (list_ascii_of_string s).

(** Cheap transport of big inputs.  Elaborating a Coq string literal (or a list of N numerals) costs
    ~80 microseconds per character, which dominated the check; a list of primitive 63-bit integers
    each carrying up to 7 bytes is ~20x cheaper.  Encoding (done by props/c19.py):
      rune r < 248          -> the byte r
      any other rune r      -> the byte 248 followed by the three bytes of r, big-endian (r < 2^24)
    and the byte string is cut into groups of k <= 7 bytes, one int each: k at bits 56.., byte j at
    bits 8j...  Primitive integers are used here ONLY, to ship test inputs; no theorem depends on
    this file. *)
Definition n_of_int (i : int) : N := Z.to_N (Uint63.to_Z i).

Definition bytes_of_int (i : int) : list N :=
  let b (j : int) := n_of_int (Uint63.land (Uint63.lsr i j) 255%uint63) in
  firstn (N.to_nat (n_of_int (Uint63.lsr i 56%uint63)))
         [b 0%uint63; b 8%uint63; b 16%uint63; b 24%uint63; b 32%uint63; b 40%uint63; b 48%uint63].

Fixpoint runes_of_bytes (l : list N) : list N :=
  match l with
  | [] => []
  | b :: tl =>
      if b <? 248 then b :: runes_of_bytes tl
      else match tl with
           | b1 :: b2 :: b3 :: tl' => (b1 * 65536 + b2 * 256 + b3) :: runes_of_bytes tl'
           | _ => []
           end
  end.

Definition runes_of_ints (l : list int) : list N := runes_of_bytes (flat_map bytes_of_int l).

Definition HM : N := 2305843009213693951.
Definition HP : N := 1000003.
(* truncation to 61 bits, not a modulus: N.modulo is far too slow under vm_compute for millions of runes *)
Definition mix (h x : N) : N := N.land (h * HP + x + 1) HM.
Definition mixl (h : N) (l : list N) : N := fold_left mix l h.

Definition hash_runes (s : list N) : N := mixl (mix 23 (N.of_nat (List.length s))) s.

Definition hash_tok (h : N) (t : token) : N :=
  match t with
  | TEOF => mix h 0
  | TIdent s => mix (mix h 1) (hash_runes s)
  | TString s => mix (mix h 2) (hash_runes s)
  | TLBrace => mix h 3
  | TRBrace => mix h 4
  | TComment s => mix (mix h 5) (hash_runes s)
  end.

Definition end_code (e : lex_end) : N :=
  match e with
  | EndEOF => 0
  | EndErr EInvalidUtf8 => 1
  | EndErr EUnterminatedString => 2
  | EndErr EUnterminatedEscape => 3
  | EndFuel => 9
  end.

(** checksum of the whole token stream of a text (kinds, texts, how it ended) *)
Definition hash_lex (s : list N) : N :=
  let (ts, e) := tokenize s in mix (fold_left hash_tok ts 17) (end_code e).

Definition b2n (b : bool) : N := if b then 1 else 0.

(** checksum of everything the formatter helpers say about one string *)
Definition hash_fmt (s : list N) : N :=
  mixl 29 [hash_runes (quote_string s);
           b2n (is_unquoted_value_safe s); b2n (is_unquoted_path_safe s);
           hash_runes (format_value s false); hash_runes (format_value s true);
           hash_runes (format_route_path s false); hash_runes (format_route_path s true)].

(** full dump of a token stream, used only to print a diagnosis after a checksum mismatch *)
Definition tok_dump (t : token) : N * list N :=
  match t with
  | TEOF => (0, [])
  | TIdent s => (1, s)
  | TString s => (2, s)
  | TLBrace => (3, [])
  | TRBrace => (4, [])
  | TComment s => (5, s)
  end.

Definition dump_lex (s : list N) : list (N * list N) * N :=
  let (ts, e) := tokenize s in (map tok_dump ts, end_code e).
