(** Model of the spelling helpers of the formatter (internal/config/format.go):
    quoteString, isUnquotedValueSafe, isUnquotedPathSafe, formatValue, formatRoutePath.

    Same representation as Model/Lexer.v: a Go string is the sequence of
    [utf8.DecodeRuneInString] steps, an undecodable byte b being the item 0x110000 + b.
    The Go functions iterate with [for _, r := range s], which yields utf8.RuneError
    (U+FFFD) for an undecodable byte; [norm_rune] is that mapping.

    Only executable definitions; lemmas are in Proofs/LexerProofs.v. *)
From Coq Require Import List NArith Bool.
From HK Require Import Model.Lexer.
Import ListNotations.
Open Scope N_scope.

(** what [range] hands to the loop body: U+FFFD for an undecodable byte *)
Definition norm_rune (r : rune) : rune := if invalid r then 0xFFFD else r.

(** format.go quoteString: the escape of one rune; [out.WriteRune(r)] in the default case *)
Definition quote_rune (r : rune) : list rune :=
  if r =? 92 then [92; 92]            (* \\ *)
  else if r =? 34 then [92; 34]       (* \DQUOTE *)
  else if r =? 10 then [92; 110]      (* \n *)
  else if r =? 9 then [92; 116]       (* \t *)
  else if r =? 13 then [92; 114]      (* \r *)
  else [norm_rune r].

Definition quote_body (s : list rune) : list rune := flat_map quote_rune s.

(** format.go quoteString *)
Definition quote_string (s : list rune) : list rune := 34 :: quote_body s ++ [34].

(** the character set both isUnquoted*Safe switch on: ' ', '\t', '\n', '\r', '{', '}', 'DQUOTE', '#' *)
Definition unsafe_rune (r : rune) : bool :=
  (r =? 32) || (r =? 9) || (r =? 10) || (r =? 13) || (r =? 123) || (r =? 125) || (r =? 34) || (r =? 35).

(** strings.ContainsAny(val, SPACE TAB CR LF) *)
Definition ws_rune (r : rune) : bool := (r =? 32) || (r =? 9) || (r =? 13) || (r =? 10).

Definition starts_with (c : rune) (s : list rune) : bool :=
  match s with r :: _ => r =? c | [] => false end.

Fixpoint ends_with (c : rune) (s : list rune) : bool :=
  match s with
  | [] => false
  | [r] => r =? c
  | _ :: tl => ends_with c tl
  end.

(** format.go isUnquotedPathSafe *)
Definition is_unquoted_path_safe (s : list rune) : bool :=
  match s with
  | [] => false
  | _ => if negb (starts_with 47 s) then false
         else forallb (fun r => negb (unsafe_rune r)) s
  end.

(** format.go isUnquotedValueSafe *)
Definition is_unquoted_value_safe (s : list rune) : bool :=
  match s with
  | [] => false
  | _ =>
      if starts_with 123 s && ends_with 125 s && negb (existsb ws_rune s) then true
      else forallb (fun r => negb (unsafe_rune r)) s
  end.

(** format.go formatValue *)
Definition format_value (s : list rune) (quoted : bool) : list rune :=
  if quoted then quote_string s
  else if is_unquoted_value_safe s then s
  else quote_string s.

(** format.go formatRoutePath *)
Definition format_route_path (s : list rune) (quoted : bool) : list rune :=
  if quoted then quote_string s
  else if is_unquoted_path_safe s then s
  else quote_string s.
