(** Executable glue for evaluating generated C16 cases on the egress model (no part of any
    theorem): builds hops from what the Go harness reports, attaches the scripted resolver
    answers in the order the model asks for them, and encodes results as numbers. *)
From Coq Require Import String Ascii List Bool NArith.
From HK Require Import Model.StrUtil Model.IpClass Model.Egress.
Import ListNotations.
Local Open Scope string_scope.

Fixpoint sb (l : list N) : string :=
  match l with [] => EmptyString | b :: t => String (ascii_of_N b) (sb t) end.

Definition str_bytes (s : string) : list N := map N_of_ascii (list_ascii_of_string s).

Definition mkip (f : fam) (v : N) : ip := {| ip_fam := f; ip_val := v |}.
Definition hr (host : list N) (sub : bool) : rule :=
  {| r_is_cidr := false; r_host := sb host; r_sub := sub; r_px := {| px_fam := FBad; px_addr := 0; px_bits := 0 |} |}.
Definition cr (f : fam) (a bits : N) : rule :=
  {| r_is_cidr := true; r_host := ""; r_sub := false; r_px := {| px_fam := f; px_addr := a; px_bits := bits |} |}.
(** an IP/CIDR rule as netip parses the configured text; parseEgressRule's unmapping is the model's *)
Definition crr (f : fam) (a bits : N) : rule :=
  {| r_is_cidr := true; r_host := ""; r_sub := false;
     r_px := compile_prefix {| px_fam := f; px_addr := a; px_bits := bits |} |}.
Definition mkpol (ho rd rb : bool) (al dn : list rule) : policy :=
  {| p_https_only := ho; p_redirects := rd; p_rebind := rb; p_allow := al; p_deny := dn |}.

(** what Go reports for one URL: scheme, Hostname(), ParseAddr of the normalised host *)
Record raw_hop := { rh_scheme : list N; rh_hostname : list N; rh_lit : option ip }.
Definition rh a b c := {| rh_scheme := a; rh_hostname := b; rh_lit := c |}.

(** scripted resolver: host -> answers for successive lookups (last repeats); unknown host = error *)
Definition dns_table := list (list N * list dns).

Fixpoint lookup_tbl (q : string) (tbl : dns_table) : option (list dns) :=
  match tbl with
  | [] => None
  | (k, v) :: t => if (sb k =? q) then Some v else lookup_tbl q t
  end.

Fixpoint count_of (q : string) (cs : list (string * nat)) : nat :=
  match cs with [] => 0 | (k, n) :: t => if (k =? q) then n else count_of q t end.

Fixpoint bump (q : string) (cs : list (string * nat)) : list (string * nat) :=
  match cs with
  | [] => [(q, 1)]
  | (k, n) :: t => if (k =? q) then (k, S n) :: t else (k, n) :: bump q t
  end.

Definition answer_of (tbl : dns_table) (q : string) (k : nat) : dns :=
  match lookup_tbl q tbl with
  | None => DnsErr
  | Some [] => DnsErr
  | Some l => nth (Nat.min k (length l - 1)) l DnsErr
  end.

Definition hop_of (r : raw_hop) (d : dns) : hop :=
  {| h_scheme := sb (rh_scheme r); h_hostname := sb (rh_hostname r); h_literal := rh_lit r; h_dns := d |}.

Fixpoint attach (p : policy) (tbl : dns_table) (cs : list (string * nat)) (hs : list raw_hop) : list hop :=
  match hs with
  | [] => []
  | r :: tl =>
      match dns_query p (hop_of r DnsErr) with
      | None => hop_of r DnsErr :: attach p tbl cs tl
      | Some q => hop_of r (answer_of tbl q (count_of q cs)) :: attach p tbl (bump q cs) tl
      end
  end.

Definition verdict_code (v : verdict) : N :=
  match v with
  | Allow => 0
  | Deny RScheme => 1 | Deny RHttpsOnly => 2 | Deny REmptyHost => 3
  | Deny RDisallowedIP => 4 | Deny RDenied => 5 | Deny RNotAllowlisted => 6
  | LookupFailed => 7
  end.

Definition outcome_code (o : outcome) : N :=
  match o with OResponse => 0 | OStopped v => verdict_code v | ONoTarget => 8 end.

Fixpoint enc_queries (p : policy) (hs : list hop) : list N :=
  match hs with
  | [] => []
  | h :: t => match dns_query p h with
              | None => enc_queries p t
              | Some q => (N.of_nat (String.length q) :: str_bytes q) ++ enc_queries p t
              end
  end.

(** [n_sent; outcome; per-hop-checked query strings (length-prefixed)] *)
Definition run_case (p : policy) (tbl : dns_table) (hs : list raw_hop) : list N :=
  let chain := attach p tbl [] hs in
  let (sent, o) := deliver p chain in
  let n := length sent in
  let checked := firstn (n + match o with OStopped _ => 1 | _ => 0 end) chain in
  N.of_nat n :: outcome_code o :: enc_queries p checked.

(** address-class bits of one address as the model sees it *)
Definition b2n (b : bool) (k : N) : N := if b then k else 0.
Definition ip_flags (i : ip) : N :=
  (b2n (is_allowed_ip i) 1 + b2n (is_loopback i) 2 + b2n (is_private i) 4 + b2n (is_ll_unicast i) 8
   + b2n (is_ll_multicast i) 16 + b2n (is_multicast i) 32 + b2n (is_unspecified i) 64
   + b2n (is_global_unicast i) 128 + b2n (match to4 i with Some _ => true | None => false end) 256)%N.
