(** A small file-system semantics with volatile and durable state, and a checker for
    "this syscall trace is a correct atomic replacement of file P by content NEW"
    (internal/app/run.go writeFileAtomic, internal/mcp/server.go writeFileAtomic; the
    traces come from strace on the real functions).

    Durability model (what survives a crash):
    - name space: operations (link of a created file, rename, unlink) are journalled in
      order; a crash keeps the durable name space plus ANY PREFIX of the pending operations
      ([rename] is one operation: atomic).  [fsync] of a directory descriptor commits the journal.
    - file data: per inode, the operations since its last [fsync] (truncate, append) are pending;
      a crash keeps any prefix of them and possibly a torn (partial) last append,
      independently for every inode and independently of the name space.  [fsync] of a file
      descriptor makes the inode's data durable (and nothing else).
    So the name of a file may become durable before its data - the classic "rename without
    fsync" loss is expressible (see the examples in Proofs/FsAtomicProofs.v). *)
From Coq Require Import List Bool Arith NArith.
Import ListNotations.

Definition bytes := list N.

Record path := mkPath { p_dir : N; p_name : N }.

Definition path_eqb (a b : path) : bool :=
  N.eqb (p_dir a) (p_dir b) && N.eqb (p_name a) (p_name b).

Fixpoint bytes_eqb (a b : bytes) : bool :=
  match a, b with
  | [], [] => true
  | x :: a', y :: b' => N.eqb x y && bytes_eqb a' b'
  | _, _ => false
  end.

Definition inode := nat.

(** The alphabet of (successful) syscalls.  Descriptors are the numbers strace shows. *)
Inductive fsop :=
| Create (f : N) (p : path)      (* openat(O_CREAT|O_EXCL|O_RDWR): new empty file linked at p *)
| OpenTrunc (f : N) (p : path)   (* open of an existing file for writing with O_TRUNC *)
| OpenDir (f : N) (d : N)        (* open(dir, O_RDONLY) *)
| Write (f : N) (b : bytes)      (* write(f, ...) = |b|: the bytes actually written (a short write shows up as a shorter b) *)
| Fsync (f : N)
| Close (f : N)
| Chmod (f : N)                  (* fchmod: no effect on content *)
| Rename (p q : path)            (* rename/renameat: atomic *)
| Remove (p : path)              (* unlink *)
| Other.                         (* any other mutating syscall: never accepted by the checker *)

Inductive nsop := NLink (p : path) (i : inode) | NUnlink (p : path) | NRename (p q : path).
Inductive dop := DTrunc | DAppend (b : bytes).

Record ist := mkIst { i_dur : bytes; i_pend : list dop }.
Inductive target := TFile (i : inode) | TDir (d : N).

Record fs := mkFs {
  ns_dur : list (path * inode);     (* durable name space, first binding wins *)
  ns_pend : list nsop;              (* journal, oldest first *)
  inodes : inode -> ist;
  fdt : N -> option target;
  fresh : inode }.

Fixpoint lookup (p : path) (ns : list (path * inode)) : option inode :=
  match ns with
  | [] => None
  | (q, i) :: tl => if path_eqb p q then Some i else lookup p tl
  end.

Fixpoint remove (p : path) (ns : list (path * inode)) : list (path * inode) :=
  match ns with
  | [] => []
  | (q, i) :: tl => if path_eqb p q then remove p tl else (q, i) :: remove p tl
  end.

Definition apply_ns (ns : list (path * inode)) (op : nsop) : list (path * inode) :=
  match op with
  | NLink p i => (p, i) :: remove p ns
  | NUnlink p => remove p ns
  | NRename p q => match lookup p ns with
                   | Some i => (q, i) :: remove q (remove p ns)
                   | None => ns
                   end
  end.

Definition apply_dop (b : bytes) (op : dop) : bytes :=
  match op with DTrunc => [] | DAppend x => b ++ x end.

(** What a running process sees. *)
Definition ns_vol (s : fs) : list (path * inode) := fold_left apply_ns (ns_pend s) (ns_dur s).
Definition vol_data (st : ist) : bytes := fold_left apply_dop (i_pend st) (i_dur st).
Definition read_vol (s : fs) (p : path) : option bytes :=
  match lookup p (ns_vol s) with None => None | Some i => Some (vol_data (inodes s i)) end.

Definition upd_inode (m : inode -> ist) (i : inode) (v : ist) : inode -> ist :=
  fun j => if Nat.eqb j i then v else m j.
Definition upd_fd (m : N -> option target) (f : N) (v : option target) : N -> option target :=
  fun g => if N.eqb g f then v else m g.

Definition step (s : fs) (op : fsop) : fs :=
  match op with
  | Create f p =>
      let i := fresh s in
      mkFs (ns_dur s) (ns_pend s ++ [NLink p i]) (upd_inode (inodes s) i (mkIst [] []))
           (upd_fd (fdt s) f (Some (TFile i))) (S i)
  | OpenTrunc f p =>
      match lookup p (ns_vol s) with
      | Some i => mkFs (ns_dur s) (ns_pend s)
                       (upd_inode (inodes s) i (mkIst (i_dur (inodes s i)) (i_pend (inodes s i) ++ [DTrunc])))
                       (upd_fd (fdt s) f (Some (TFile i))) (fresh s)
      | None => s
      end
  | OpenDir f d => mkFs (ns_dur s) (ns_pend s) (inodes s) (upd_fd (fdt s) f (Some (TDir d))) (fresh s)
  | Write f b =>
      match fdt s f with
      | Some (TFile i) => mkFs (ns_dur s) (ns_pend s)
                               (upd_inode (inodes s) i (mkIst (i_dur (inodes s i)) (i_pend (inodes s i) ++ [DAppend b])))
                               (fdt s) (fresh s)
      | _ => s
      end
  | Fsync f =>
      match fdt s f with
      | Some (TFile i) => mkFs (ns_dur s) (ns_pend s)
                               (upd_inode (inodes s) i (mkIst (vol_data (inodes s i)) []))
                               (fdt s) (fresh s)
      | Some (TDir _) => mkFs (ns_vol s) [] (inodes s) (fdt s) (fresh s)
      | None => s
      end
  | Close f => mkFs (ns_dur s) (ns_pend s) (inodes s) (upd_fd (fdt s) f None) (fresh s)
  | Chmod _ => s
  | Rename p q => mkFs (ns_dur s) (ns_pend s ++ [NRename p q]) (inodes s) (fdt s) (fresh s)
  | Remove p => mkFs (ns_dur s) (ns_pend s ++ [NUnlink p]) (inodes s) (fdt s) (fresh s)
  | Other => s
  end.

Definition run (s : fs) (tr : list fsop) : fs := fold_left step tr s.

(** ** Crash: durable state + a prefix of the journal + per inode a prefix of its pending data
    operations with a possibly torn last append.  [k] and [ch] are the adversary's choices. *)
Definition crash_ns (s : fs) (k : nat) : list (path * inode) :=
  fold_left apply_ns (firstn k (ns_pend s)) (ns_dur s).

Definition crash_data (st : ist) (n m : nat) : bytes :=
  let base := fold_left apply_dop (firstn n (i_pend st)) (i_dur st) in
  match nth_error (i_pend st) n with
  | Some (DAppend b) => base ++ firstn m b
  | _ => base
  end.

(** Content of [p] after a crash and reboot. *)
Definition crash_read (s : fs) (k : nat) (ch : inode -> nat * nat) (p : path) : option bytes :=
  match lookup p (crash_ns s k) with
  | None => None
  | Some i => Some (crash_data (inodes s i) (fst (ch i)) (snd (ch i)))
  end.

(** ** The checker.  State of the scan: *)
Inductive ck :=
| KStart
| KTmp (f : N) (t : path) (acc : bytes) (synced closed : bool)   (* temp file created; bytes written so far;
                                                                   all of them fsynced?; descriptor closed? *)
| KRenamed (f : N) (closed : bool)                               (* renamed onto P *)
| KDirOpen (g : N)
| KDirSynced (g : N)
| KDone.

Definition check_step (P : path) (NEW : bytes) (c : ck) (op : fsop) : option ck :=
  match c, op with
  | KStart, Create f t =>
      if N.eqb (p_dir t) (p_dir P) && negb (path_eqb t P) then Some (KTmp f t [] false false) else None
  | KTmp f t acc synced false, Write g b => if N.eqb g f then Some (KTmp f t (acc ++ b) false false) else None
  | KTmp f t acc synced false, Chmod g => if N.eqb g f then Some c else None
  | KTmp f t acc synced false, Fsync g => if N.eqb g f then Some (KTmp f t acc true false) else None
  | KTmp f t acc synced false, Close g => if N.eqb g f then Some (KTmp f t acc synced true) else None
  | KTmp f t acc synced closed, Rename a b =>
      if path_eqb a t && path_eqb b P && synced && bytes_eqb acc NEW then Some (KRenamed f closed) else None
  | KRenamed f false, Close g => if N.eqb g f then Some (KRenamed f true) else None
  | KRenamed f true, OpenDir g d => if N.eqb d (p_dir P) then Some (KDirOpen g) else None
  | KDirOpen g, Fsync h => if N.eqb h g then Some (KDirSynced g) else None
  | KDirSynced g, Close h => if N.eqb h g then Some KDone else None
  | _, _ => None
  end.

Fixpoint check_run (P : path) (NEW : bytes) (c : ck) (tr : list fsop) : option ck :=
  match tr with
  | [] => Some c
  | op :: tl => match check_step P NEW c op with
                | Some c' => check_run P NEW c' tl
                | None => None
                end
  end.

(** [replace_ok P NEW tr]: temp file created in P's directory under another name; exactly NEW written
    to it (in any number of writes); fsynced after the last write and before the rename; descriptor
    closed; renamed onto P; P's directory opened, fsynced, closed; nothing else. *)
Definition replace_ok (P : path) (NEW : bytes) (tr : list fsop) : bool :=
  match check_run P NEW KStart tr with
  | Some KDone => true
  | _ => false
  end.

(** Starting states: P durably holds [old] (or does not exist), nothing pending in the journal. *)
Definition init_ok (s : fs) (P : path) (old : option bytes) : Prop :=
  ns_pend s = [] /\
  (forall p i, lookup p (ns_dur s) = Some i -> i < fresh s) /\
  match old with
  | Some b => exists i, lookup P (ns_dur s) = Some i /\ inodes s i = mkIst b []
  | None => lookup P (ns_dur s) = None
  end.
