(** The overlap monitor (C03, concurrent histories).

    A *history* is the list of completed calls that the concurrent stress
    (harness/cmd/verifharness/conc.go) recorded against ONE store: every call carries the stamp
    taken from one atomic counter just before it was issued and the stamp taken just after it
    returned, the phase time (the injected store clock, which moves only between phases while no
    call is in flight), its kind, its arguments and what it returned.  Nothing here refers to the
    queue model: the monitor is a plain function of the recorded history.  Its soundness with
    respect to Model/Queue.v (it never fires on a linearizable history) is
    Proofs/OverlapProofs.v, [overlap_monitor_no_false_alarm].

    Executable Gallina only. *)
From Coq Require Import List ZArith NArith Bool.
Import ListNotations.
Open Scope Z_scope.

Inductive hkind :=
| HDeq        (* Store.Dequeue / POST {endpoint}/dequeue / WorkerService.Dequeue / the dispatcher's dequeue *)
| HAck        (* Ack(lease) *)
| HNack       (* Nack(lease, delay) *)
| HDead       (* MarkDead(lease, reason) *)
| HExtend     (* Extend(lease, by) *)
| HBatch      (* AckBatch / NackBatch / MarkDeadBatch(leases) *)
| HCancel     (* CancelMessages(ids) *)
| HCancelF    (* CancelMessagesByFilter *)
| HRequeue    (* RequeueMessages / ResumeMessages / RequeueDead / DeleteDead (ids): never ends a lease *)
| HEnqueue    (* Enqueue / EnqueueBatch: [h_ids] = the ids that may have been inserted *)
| HOther.     (* reads, RecordAttempt, ... *)

Definition hkind_eqb (a b : hkind) : bool :=
  match a, b with
  | HDeq, HDeq | HAck, HAck | HNack, HNack | HDead, HDead | HExtend, HExtend | HBatch, HBatch
  | HCancel, HCancel | HCancelF, HCancelF | HRequeue, HRequeue | HEnqueue, HEnqueue | HOther, HOther => true
  | _, _ => false
  end.

Record call := mkCall {
  h_call : Z;                       (* stamp before the call was issued *)
  h_ret : Z;                        (* stamp after it returned *)
  h_now : Z;                        (* phase time (ns) *)
  h_kind : hkind;
  h_leases : list N;                (* lease ids presented (single lease operations: one) *)
  h_by : Z;                         (* extend: the amount (ns) *)
  h_ids : list N;                   (* cancel / requeue / enqueue: message ids named *)
  h_ok : bool;                      (* single lease operation: success; cancel: at least one message canceled *)
  h_items : list (N * N * Z * Z)    (* dequeue: (message id, lease id, attempt, lease_until) in the order returned *) }.

Definition history := list call.

Definition inN (x : N) (l : list N) : bool := existsb (N.eqb x) l.

Fixpoint distinctN (l : list N) : bool :=
  match l with [] => true | x :: tl => if inN x tl then false else distinctN tl end.

Definition it_id (it : N * N * Z * Z) : N := fst (fst (fst it)).
Definition it_lease (it : N * N * Z * Z) : N := snd (fst (fst it)).
Definition it_attempt (it : N * N * Z * Z) : Z := snd (fst it).
Definition it_until (it : N * N * Z * Z) : Z := snd it.

Definition returns (m : N) (k : call) : bool :=
  if hkind_eqb (h_kind k) HDeq then inN m (map it_id (h_items k)) else false.

(** [a] happened before [b] in real time: it had returned before [b] was issued *)
Definition hb (a b : call) : bool := h_ret a <? h_call b.

(** a linearization may place [r] between [a] and [b] *)
Definition may_be_between (a b r : call) : bool :=
  if hb r a then false else negb (hb b r).

(** ** the end of the lease [l] handed out by dequeue [a], as far as call [x] must respect it:
    the lease_until that [a] returned plus every successful positive extend of [l] that was
    issued after [a] returned and had returned before [x] was issued *)
Definition is_good_extend (l : N) (e : call) : bool :=
  if hkind_eqb (h_kind e) HExtend then
    if h_ok e then if 0 <? h_by e then inN l (h_leases e) else false else false
  else false.

Definition ext_counts (l : N) (a x e : call) : bool :=
  if is_good_extend l e then if hb a e then hb e x else false else false.

Definition zsum (f : call -> Z) (h : history) : Z := fold_right (fun e acc => f e + acc) 0 h.

Definition ext_total (exts : history) (l : N) (a x : call) : Z :=
  zsum (fun e => if ext_counts l a x e then h_by e else 0) exts.

Definition lease_end (exts : history) (l : N) (until : Z) (a x : call) : Z := until + ext_total exts l a x.

(** ** calls that can end the lease [l] of message [m] *)
Definition notices_expiry (k : hkind) : bool :=
  match k with HDeq | HAck | HNack | HDead | HExtend | HBatch => true | _ => false end.

Definition settles_one (k : hkind) : bool :=
  match k with HAck | HNack | HDead => true | _ => false end.

Definition release_capable (exts : history) (m l : N) (until : Z) (a r : call) : bool :=
  match h_kind r with
  | HCancelF => true
  | HCancel => if h_ok r then inN m (h_ids r) else false
  | HBatch => if inN l (h_leases r) then true else lease_end exts l until a r <=? h_now r
  | HAck | HNack | HDead =>
      if (if h_ok r then inN l (h_leases r) else false) then true else lease_end exts l until a r <=? h_now r
  | HDeq | HExtend => lease_end exts l until a r <=? h_now r
  | _ => false
  end.

Definition excused (h exts : history) (m l : N) (until : Z) (a b : call) : bool :=
  existsb (fun r => if may_be_between a b r then release_capable exts m l until a r else false) h.

(** ** what the monitor reports *)
Inductive witness :=
| WDouble (a_call b_call : Z) (m l : N)        (* dequeue b got m while the lease l that dequeue a gave out was live and nothing could have ended it *)
| WDupLease (l : N)                            (* one lease id returned twice *)
| WDupMsg (a_call : Z)                         (* one dequeue returned a message twice *)
| WUntil (a_call : Z) (m : N)                  (* lease_until not after the phase time of the dequeue *)
| WAttempt (a_call b_call : Z) (m : N) (att_a att_b : Z).   (* consecutive dequeues of m: attempt not +1 *)

Fixpoint first_some {A B : Type} (f : A -> option B) (l : list A) : option B :=
  match l with
  | [] => None
  | x :: tl => match f x with Some w => Some w | None => first_some f tl end
  end.

(** *** 1. double lease *)
Definition double_item (h : history) (a : call) (it : N * N * Z * Z) : option witness :=
  let m := it_id it in
  let l := it_lease it in
  let exts := filter (is_good_extend l) h in
  first_some (fun b =>
    if returns m b then
      if hb a b then
        if h_now b <? lease_end exts l (it_until it) a b then
          if excused h exts m l (it_until it) a b then None
          else Some (WDouble (h_call a) (h_call b) m l)
        else None
      else None
    else None) h.

Definition double_from (h : history) (a : call) : option witness :=
  if hkind_eqb (h_kind a) HDeq then first_some (double_item h a) (h_items a) else None.

(** *** 2. lease ids, message ids inside one answer, lease_until *)
Definition deq_items_of (k : call) : list (N * N * Z * Z) :=
  if hkind_eqb (h_kind k) HDeq then h_items k else [].

Definition all_leases (h : history) : list N := flat_map (fun k => map it_lease (deq_items_of k)) h.

Fixpoint first_dup (l : list N) : option N :=
  match l with
  | [] => None
  | x :: tl => if inN x tl then Some x else first_dup tl
  end.

Definition dup_lease (h : history) : option witness :=
  match first_dup (all_leases h) with Some l => Some (WDupLease l) | None => None end.

Definition shape_from (a : call) : option witness :=
  if hkind_eqb (h_kind a) HDeq then
    if distinctN (map it_id (h_items a)) then
      first_some (fun it => if h_now a <? it_until it then None else Some (WUntil (h_call a) (it_id it))) (h_items a)
    else Some (WDupMsg (h_call a))
  else None.

(** *** 3. attempt counter: [a] happened before [b], both returned [m], no other dequeue that
    returned [m] and no enqueue naming [m] can lie between them: attempt(b) = attempt(a) + 1 *)
Definition same_call (a b : call) : bool := h_call a =? h_call b.    (* call stamps are unique in a history *)

Definition disturbs (m : N) (a b c : call) : bool :=
  if same_call a c then false
  else if same_call b c then false
  else if may_be_between a b c then
    match h_kind c with
    | HDeq => inN m (map it_id (h_items c))
    | HEnqueue => inN m (h_ids c)
    | _ => false
    end
  else false.

Definition attempt_of (m : N) (k : call) : option Z :=
  match find (fun it => N.eqb (it_id it) m) (h_items k) with Some it => Some (it_attempt it) | None => None end.

Definition attempt_item (h : history) (a : call) (it : N * N * Z * Z) : option witness :=
  let m := it_id it in
  first_some (fun b =>
    if returns m b then
      if hb a b then
        match attempt_of m b with
        | Some att_b =>
            if att_b =? it_attempt it + 1 then None
            else if existsb (disturbs m a b) h then None
            else Some (WAttempt (h_call a) (h_call b) m (it_attempt it) att_b)
        | None => None
        end
      else None
    else None) h.

Definition attempt_from (h : history) (a : call) : option witness :=
  if hkind_eqb (h_kind a) HDeq then first_some (attempt_item h a) (h_items a) else None.

(** ** the monitor.  [overlap_check h cands] examines the dequeues in [cands] (a sub-list of [h],
    used to shard a long history) against the whole history [h]. *)
Definition per_call (h : history) (a : call) : option witness :=
  match shape_from a with
  | Some w => Some w
  | None => match double_from h a with
            | Some w => Some w
            | None => attempt_from h a
            end
  end.

Definition overlap_check (h cands : history) : option witness :=
  match dup_lease h with
  | Some w => Some w
  | None => first_some (per_call h) cands
  end.

Definition overlap_violation (h : history) : option witness := overlap_check h h.

(** numeric rendering for the driver: [] = no violation, else [tag; ...] *)
Definition witness_code (w : option witness) : list Z :=
  match w with
  | None => []
  | Some (WDouble a b m l) => [1; a; b; Z.of_N m; Z.of_N l]
  | Some (WDupLease l) => [2; Z.of_N l]
  | Some (WDupMsg a) => [3; a]
  | Some (WUntil a m) => [4; a; Z.of_N m]
  | Some (WAttempt a b m x y) => [5; a; b; Z.of_N m; x; y]
  end.

(** counters for the evidence *)
Definition count_kind (k : hkind) (h : history) : Z := Z.of_nat (length (filter (fun c => hkind_eqb (h_kind c) k) h)).

(** (number of triples a, b, m with a returned before b was issued and both returned m;
     number of those in which a's lease - extends included - was still unexpired at b's phase time,
     i.e. the cases in which the monitor had to find a call able to end the lease) *)
Definition pair_stats (h : history) : Z * Z :=
  fold_right (fun a acc =>
    if hkind_eqb (h_kind a) HDeq then
      fold_right (fun it acc1 =>
        let exts := filter (is_good_extend (it_lease it)) h in
        fold_right (fun b acc2 =>
          if returns (it_id it) b then
            if hb a b then
              (fst acc2 + 1,
               if h_now b <? lease_end exts (it_lease it) (it_until it) a b then snd acc2 + 1 else snd acc2)
            else acc2
          else acc2) acc1 h) acc (h_items a)
    else acc) (0, 0) h.
