(** Model of a waiting dequeue (DequeueRequest.MaxWait > 0; memory.go / sqlite.go Dequeue): the call is a
    sequence of ordinary dequeue attempts - one on entry, then one per poll tick (25 ms in both
    stores since fix c305c38) or notification, the last one at the deadline - and returns the first
    non-empty answer, or the empty answer of the last attempt.  Between two attempts the rest of the
    system runs: other clients' operations are an arbitrary list of queue operations.

    An attempt is exactly [Dequeue now route target batch ttl] of Model/Queue.v at the store's clock
    reading of that attempt; the clock readings and what the other clients do in between are inputs. *)
From Coq Require Import ZArith List Bool NArith.
From HK Require Import Model.Queue.
Import ListNotations.
Open Scope Z_scope.

(** one attempt: what the other clients did since the previous attempt, then the clock reading and
    the oracle of this attempt *)
Record attempt := mkAttempt {
  at_env : list (op * oracle);
  at_now : Z;
  at_orc : oracle
}.

Definition empty_items (r : res) : bool :=
  match r with RItems [] => true | _ => false end.

(** the environment's operations, folded over the state (their results are not this call's business) *)
Definition run_env (fl : flavour) (c : cfg) (s : state) (xs : list (op * oracle)) : state :=
  snd (run fl c s xs).

(** the waiting call: [None] when there was no attempt at all (never happens: the first attempt is
    made on entry) *)
Fixpoint long_poll (fl : flavour) (c : cfg) (route target : option N) (batch ttl : Z)
                   (s : state) (ats : list attempt) : state * option res :=
  match ats with
  | [] => (s, None)
  | a :: tl =>
      let s0 := run_env fl c s (at_env a) in
      let '(s1, r) := step fl c s0 (Dequeue (at_now a) route target batch ttl) (at_orc a) in
      if empty_items r then
        match tl with
        | [] => (s1, Some r)                 (* the deadline attempt: the empty answer is returned *)
        | _ => long_poll fl c route target batch ttl s1 tl
        end
      else (s1, Some r)
  end.

(** the number of attempts the call made *)
Fixpoint attempts_made (fl : flavour) (c : cfg) (route target : option N) (batch ttl : Z)
                       (s : state) (ats : list attempt) : nat :=
  match ats with
  | [] => O
  | a :: tl =>
      let s0 := run_env fl c s (at_env a) in
      let '(s1, r) := step fl c s0 (Dequeue (at_now a) route target batch ttl) (at_orc a) in
      if empty_items r then S (attempts_made fl c route target batch ttl s1 tl) else 1%nat
  end.

(** the state an attempt selects from: after the environment's operations since the previous one *)
Fixpoint state_before (fl : flavour) (c : cfg) (route target : option N) (batch ttl : Z)
                      (s : state) (ats : list attempt) (k : nat) : option state :=
  match ats, k with
  | [], _ => None
  | a :: _, O => Some (run_env fl c s (at_env a))
  | a :: tl, S k' =>
      let s0 := run_env fl c s (at_env a) in
      let '(s1, r) := step fl c s0 (Dequeue (at_now a) route target batch ttl) (at_orc a) in
      if empty_items r then state_before fl c route target batch ttl s1 tl k' else None
  end.
