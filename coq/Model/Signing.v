(** Model of outbound HMAC signing and of the secret rotation windows:
    internal/dispatcher/http_deliverer.go (isSigningSecretVersionValidAt, selectSigningSecretRef,
    applyDeliverySigning, the order of steps in Deliver), internal/secrets/secrets.go
    (Version.IsValidAt, Set.ValidAt), internal/app/run.go loadAuth (the SelectSecrets closure)
    and the secret loop at the end of internal/ingress/hmac.go HMACAuth.Verify.

    Times are [Z] nanoseconds since the Unix epoch; Go's zero [time.Time] (IsZero) is the
    instant [go_zero].  Byte strings are Coq [string]s.  SHA-256, HMAC-SHA256 and the secret
    store are Section variables: the property is *stated* in terms of them.  Executable only. *)
From Coq Require Import String Ascii List Bool ZArith.
From HK Require Import Model.StrUtil.
Import ListNotations.
Local Open Scope string_scope.
Local Open Scope Z_scope.

(** time.Time{}: January 1, year 1, 00:00:00 UTC *)
Definition go_zero : Z := -62135596800 * 1000000000.
Definition ns_per_s : Z := 1000000000.

(** * Outbound: dispatcher.HMACSigningSecretVersion *)
Record version := {
  v_id : string; v_ref : string;
  v_from : Z; v_has_until : bool; v_until : Z }.

(** isSigningSecretVersionValidAt: valid_from inclusive, valid_until exclusive *)
Definition valid_at (v : version) (t : Z) : bool :=
  if (v_from v =? go_zero) || (t <? v_from v) then false
  else if negb (v_has_until v) then true
  else t <? v_until v.

Inductive mode := Newest | Oldest.

(** the [replace] decision inside the scan of selectSigningSecretRef *)
Definition replaces (m : mode) (v sel : version) : bool :=
  (match m with
   | Newest => v_from sel <? v_from v        (* v.ValidFrom.After(selected.ValidFrom) *)
   | Oldest => v_from v <? v_from sel        (* v.ValidFrom.Before(selected.ValidFrom) *)
   end)
  || ((v_from v =? v_from sel) && String.ltb (v_id v) (v_id sel)).

(** the left-to-right scan with [selectedIdx] *)
Fixpoint scan (m : mode) (t : Z) (vs : list version) (sel : option version) : option version :=
  match vs with
  | [] => sel
  | v :: tl =>
      if negb (valid_at v t) then scan m t tl sel
      else match sel with
           | None => scan m t tl (Some v)
           | Some s => scan m t tl (Some (if replaces m v s then v else s))
           end
  end.

Definition select (m : mode) (vs : list version) (t : Z) : option version := scan m t vs None.

(** dispatcher.HMACSigningConfig.  [c_mode = None]: a secret_selection string that is neither
    newest_valid, oldest_valid nor empty (after trim/lower) - Compile never produces it. *)
Record sign_cfg := {
  c_secret_ref : string; c_versions : list version; c_mode : option mode;
  c_sig_header : string; c_ts_header : string }.

(** selectSigningSecretRef: [None] = an error is returned *)
Definition select_ref (c : sign_cfg) (t : Z) : option string :=
  match c_versions c with
  | [] => let r := trim_space (c_secret_ref c) in if (r =? "")%string then None else Some r
  | vs =>
      match c_mode c with
      | None => None
      | Some m =>
          match select m vs t with
          | None => None
          | Some v => let r := trim_space (v_ref v) in if (r =? "")%string then None else Some r
          end
      end
  end.

Section Crypto.
  Variable sha256 : string -> string.
  Variable hmac : string -> string -> string.          (* key, message *)
  Variable load : string -> option string.             (* secrets.LoadRef; None = error *)

  (** signedAt.Unix(): whole seconds, rounded towards minus infinity *)
  Definition unix_seconds (now : Z) : Z := now / ns_per_s.

  (** METHOD \n escaped-path \n unix-seconds \n hex(sha256(body)) *)
  Definition canonical (meth path : string) (unix : Z) (body : string) : string :=
    (to_upper meth ++ nl ++ (if (path =? "")%string then "/" else path) ++ nl ++ dec unix ++ nl ++ hex (sha256 body))%string.

  (** applyDeliverySigning: [Some (timestamp value, signature value)] or an error *)
  Definition sign (c : sign_cfg) (now : Z) (meth path body : string) : option (string * string) :=
    if ((trim_space (c_sig_header c) =? "") || (trim_space (c_ts_header c) =? ""))%string then None
    else match select_ref c now with
         | None => None
         | Some ref =>
             match load ref with
             | None => None
             | Some secret =>
                 if (secret =? "")%string then None
                 else Some (dec (unix_seconds now),
                            hex (hmac secret (canonical meth path (unix_seconds now) body)))
             end
         end.

  (** Deliver after the egress check: the request that goes to Client.Do, or nothing.
      [extra] = the two headers set by signing (name, value). *)
  Record request := { q_method : string; q_path : string; q_body : string; q_signed : list (string * string) }.

  Definition deliver_signed (c : option sign_cfg) (now : Z) (meth path body : string) : option request :=
    match c with
    | None => Some {| q_method := meth; q_path := path; q_body := body; q_signed := [] |}
    | Some c =>
        match sign c now meth path body with
        | None => None
        | Some (ts, sg) =>
            Some {| q_method := meth; q_path := path; q_body := body;
                    q_signed := [(trim_space (c_ts_header c), ts); (trim_space (c_sig_header c), sg)] |}
        end
    end.

  (** * Inbound: secrets.Version / secrets.Set, loadAuth's SelectSecrets, Verify's secret loop *)
  Record in_version := { iv_id : string; iv_value : string; iv_from : Z; iv_until : Z (* go_zero = no end *) }.

  (** Version.IsValidAt *)
  Definition iv_valid_at (v : in_version) (t : Z) : bool :=
    if iv_from v =? go_zero then false
    else if t <? iv_from v then false
    else if iv_until v =? go_zero then true
    else t <? iv_until v.

  (** the less function of Set.ValidAt: ValidFrom descending, then ID ascending *)
  Definition iv_less (a b : in_version) : bool :=
    if iv_from a =? iv_from b then String.ltb (iv_id a) (iv_id b) else iv_from b <? iv_from a.

  Fixpoint insert_sorted (x : in_version) (l : list in_version) : list in_version :=
    match l with
    | [] => [x]
    | y :: t => if iv_less y x then y :: insert_sorted x t else x :: l
    end.
  Fixpoint sort_versions (l : list in_version) : list in_version :=
    match l with [] => [] | x :: t => insert_sorted x (sort_versions t) end.

  (** Set.ValidAt *)
  Definition set_valid_at (vs : list in_version) (t : Z) : list in_version :=
    sort_versions (filter (fun v => iv_valid_at v t) vs).

  (** the SelectSecrets closure of loadAuth: valid versions' values, then the inline secrets *)
  Definition select_secrets (vs : list in_version) (inline : list string) (t : Z) : list string :=
    (map iv_value (set_valid_at vs t) ++ inline)%list.

  (** HMACAuth.Verify from "secrets := a.Secrets" on: [ts] = the signed timestamp (seconds),
      [msg] = the string to sign, [sg] = the decoded signature. *)
  Definition secrets_for (vs : list in_version) (inline : list string) (ts : Z) : list string :=
    match vs with
    | [] => inline                                     (* SelectSecrets == nil *)
    | _ => select_secrets vs inline (ts * ns_per_s)    (* t := time.Unix(ts, 0) *)
    end.

  Definition accepts (secrets : list string) (msg sg : string) : bool :=
    existsb (fun k => negb (k =? "")%string && (hmac k msg =? sg)%string) secrets.
End Crypto.
