(** C06 (continued) - the push dispatcher's micro-batch over the queue: every leased message is settled
    exactly once, as its answer prescribes.  Only theorem statements, each closed by [exact] of a lemma
    from Proofs/PushLoopProofs.v. *)
From Coq Require Import ZArith QArith Qround List Bool NArith Permutation.
From HK Require Import Model.Queue Model.QueueMon Model.Retry Model.Dispatcher Model.PushLoop
  Proofs.QueueBase Proofs.QueueInv Proofs.PushLoopProofs Proofs.PushCycleProofs Proofs.PushRecordsProofs Gen.PushShape
  Proofs.PushShapeProofs Model.Attempts Proofs.AttemptsProofs Proofs.PushAttemptLogProofs.
Import ListNotations.
Open Scope Z_scope.

(** * One micro-batch of runRoute (Model/PushLoop.v) - every leased message is settled, once, as prescribed

    Whatever the route's batching (single / batched lease mutations, the store offering batch
    operations or not, any mutation batch size), whichever targets are configured, and wherever in
    the batch the stop channel is seen closed: the store calls the dispatcher issues carry, for
    every message it leased, exactly one settlement - the one its answer and attempt number
    prescribe when it was sent, a retry in a second when the route does not configure its target, a
    hand-back at once when it was not reached before the stop.  (The pinned tree dropped the pending
    settlements of a batch on stop: fix b30c35c.) *)
Theorem C06_micro_batch_settles_every_leased_message_once : forall ub bs mb stop its,
  Permutation (calls_acts (run_items ub bs mb stop its [])) (expected stop its).
Proof. exact (fun ub bs mb stop its => run_items_settles_each_once ub bs mb stop its []). Qed.

Theorem C06_micro_batch_never_extends : forall ub bs mb stop its x,
  In x (run_items ub bs mb stop its []) -> kclass (call_kind x) <> 3%nat.
Proof.
  exact (fun ub bs mb stop its x =>
           run_items_kinds ub bs mb its stop [] x (fun k l (H : In (k, l) []) => match H with end)).
Qed.

(** ... and on the queue (either store flavour, any state satisfying the queue invariant): when the
    calls reach the store while the leases are live, none is refused, every message named by the
    batch ends as [lease_effect] of ITS settlement makes it - delivered / removed after a 2xx, queued
    again from call time + its own back-off, dead with its reason - and every other message is left
    exactly as it was. *)
Theorem C06_micro_batch_on_the_queue : forall fl c s ub bs mb stop its cs,
  Inv s -> map snd cs = run_items ub bs mb stop its [] ->
  NoDup (map it_lease its) ->
  (forall it, In it its -> exists m, In m (msgs s) /\ m_lease m = Some (it_lease it) /\ is_leased m = true
                                     /\ forall t x, In (t, x) cs -> t < m_until m) ->
  let s' := fst (run_calls fl c s cs) in
  forallb settled_ok (snd (run_calls fl c s cs)) = true /\ Inv s'
  /\ (forall m, In m (msgs s) -> (forall it, In it its -> m_lease m <> Some (it_lease it)) ->
                find_id (m_id m) (msgs s') = Some m)
  /\ (forall m k l, In m (msgs s) -> In (k, l) (expected stop its) -> m_lease m = Some l ->
                    exists t, In t (map fst cs) /\ find_id (m_id m) (msgs s') = lease_effect c t k m).
Proof. exact micro_batch_on_queue. Qed.

(** the settlement of a sent message is the classification of its answer (ties the loop to the table above) *)
Theorem C06_settlement_is_the_classification : forall rc it,
  settle_kind rc it =
  match classify (it_result it) (it_attempt it) (rc_max rc) with
  | AAck => KAck
  | ANack => KNack (delay_ns (rc_base rc) (rc_cap rc) (it_attempt it) (it_draw it) (rc_jitter rc))
  | ADead why => KDead (reason_code why)
  end.
Proof. reflexivity. Qed.

(** non-vacuity: a batch of four on a single-target route whose store batches lease mutations, stopped
    after the second delivery: one AckBatch + one NackBatch (flushed on stop) and two hand-backs; run on
    a queue holding the four leased messages and a bystander *)
Definition ex_rc : retry_cfg := {| rc_max := 2; rc_base := 1000000000; rc_cap := 8000000000; rc_jitter := 0 |}.
Definition ex_items : list item :=
  [ mkItem 11 1 (Some ex_rc) (RStatus 200) 0; mkItem 12 2 (Some ex_rc) (RStatus 503) 0;
    mkItem 13 1 (Some ex_rc) (RStatus 404) 0; mkItem 14 1 None (RStatus 200) 0 ].
Definition ex_msg (i : N) (st : Queue.st) (lease : option N) : msg :=
  mkMsg i 1 1 st 0 1 0 0 0 0 0 lease (match lease with Some _ => 1000 | None => 0 end).
Definition ex_state : state :=
  mkState [ex_msg 1 Leased (Some 11%N); ex_msg 2 Leased (Some 12%N); ex_msg 3 Leased (Some 13%N); ex_msg 4 Leased (Some 14%N); ex_msg 5 Queued None]
          [] None 0 [11; 12; 13; 14]%N.
Example C06_micro_batch_example :
  run_items true true 4 2 ex_items [] =
    [SBatch KAck [11%N]; SBatch (KNack 2000000000) [12%N]; SOne (KNack 0) 13%N; SOne (KNack 0) 14%N]
  /\ map (fun m => (m_id m, m_st m, m_next m)) (msgs (fst (run_calls Sql (mkCfg 0 false 0 0 0 0 0 0) ex_state
        (combine [5; 6; 7; 8] (run_items true true 4 2 ex_items [])))))
     = [(2%N, Queued, 2000000006); (3%N, Queued, 7); (4%N, Queued, 8); (5%N, Queued, 0)].
Proof. vm_compute. split; reflexivity. Qed.

(** * Every attempt is recorded with its outcome - at the level of the micro-batch
    The attempt records of a micro-batch are those of the items that were sent (reached before the stop, target configured), one
    each and in order; a record carries its item's attempt number and answer, and its outcome (and dead reason) is the outcome of
    the very settlement [expected] prescribes for that lease - so with the theorems above: what is recorded is what is done to the
    message.  An item that is not sent (unknown target, not reached) leaves no record; with the distinct leases of one Dequeue no
    lease has two. *)
Theorem C06_micro_batch_records_one_attempt_per_sent_message : forall its stop,
  map fst (run_records stop its) = map it_lease (sent_items stop its).
Proof. exact run_records_one_per_sent_item. Qed.

Theorem C06_micro_batch_record_is_the_settlement : forall its stop l r,
  In (l, r) (run_records stop its) ->
  exists it rc, In it its /\ it_lease it = l /\ it_target it = Some rc
    /\ ar_attempt r = it_attempt it /\ ar_result r = it_result it
    /\ In (settle_kind rc it, l) (expected stop its)
    /\ kind_outcome (settle_kind rc it) = Some (ar_outcome r)
    /\ match ar_reason r with
       | Some why => settle_kind rc it = KDead (reason_code why)
       | None => forall x, settle_kind rc it <> KDead x
       end.
Proof. exact run_records_match_the_settlement. Qed.

Theorem C06_micro_batch_unsent_message_has_no_record : forall its stop l,
  ~ In l (map it_lease (sent_items stop its)) -> forall r, ~ In (l, r) (run_records stop its).
Proof. exact unsent_items_have_no_record. Qed.

Theorem C06_micro_batch_no_lease_recorded_twice : forall its stop,
  NoDup (map it_lease its) -> NoDup (map fst (run_records stop its)).
Proof. exact run_records_at_most_one_per_lease. Qed.

(** non-vacuity: of the four items of the example (stop after two) the first two are sent and recorded - acked / retry -,
    the third is not reached and the fourth has no configured target: no record *)
Example C06_micro_batch_records_example :
  map enc_record (run_records 2 ex_items) = [[11; 1; 2; 0; 200]; [12; 2; 1; 0; 503]]
  /\ map enc_record (run_records 4 ex_items) = [[11; 1; 2; 0; 200]; [12; 2; 1; 0; 503]; [13; 1; 3; 1; 404]].
Proof. vm_compute. split; reflexivity. Qed.

(** ... and the records reach the store's attempt log (Model/Attempts.v, the log C13att is about): the dispatcher hands them to
    RecordAttempt with a blank id, so each is appended, in order; a message that was sent has its attempt in the log under its event id
    and attempt number, whatever is recorded afterwards. *)
Theorem C06_micro_batch_attempts_reach_the_attempt_log : forall event_of route target created stop its log,
  fold_left rec1 (map (att_of_record event_of route target created) (run_records stop its)) log
  = log ++ map (att_of_record event_of route target created) (run_records stop its).
Proof. exact micro_batch_attempts_reach_the_log. Qed.

Theorem C06_sent_message_attempt_stays_in_the_log : forall event_of route target created stop its log it later,
  NoDup (map it_lease its) ->
  In it (sent_items stop its) ->
  exists a, In a (log_after (fold_left rec1 (map (att_of_record event_of route target created) (run_records stop its)) log) later)
    /\ a_event a = event_of (it_lease it) /\ a_attempt a = it_attempt it.
Proof. exact sent_message_attempt_is_in_the_log. Qed.

(** * A whole enqueue/requeue cycle on the queue
    Model/Dispatcher.v's [cycle] assumes that every dequeue increments the attempt by one and that a nack re-queues the
    message while ack / mark-dead end the cycle.  On the queue model this is a theorem: a chain of rounds on message i - a
    Dequeue that hands i out (with whatever else), then the settlement the dispatcher chooses for the answer, applied
    inside the lease, nothing else in between - sees the attempt numbers a+1, a+2, ..., ends exactly where [cycle] says
    with exactly as many sends, and leaves the message delivered (removed when delivered messages are not retained) or
    dead with the reason, its attempt counter at a + sends. *)
Theorem C06_cycle_on_the_queue_is_the_cycle : forall fl c rc i s answers atts s' t,
  cycle_on_queue fl c rc i s answers atts s' t -> forall m,
  Inv s -> state_of i s = Some m ->
  let n := length answers in
  let tr := cycle n rc (m_attempt m + 1) (beh_of answers) (draw_of answers) 0 in
  Inv s'
  /\ atts = map (fun k => m_attempt m + 1 + Z.of_nat k) (seq 0 n)
  /\ snd tr = Some t /\ sends tr = Z.of_nat n
  /\ final_ok c i s' t (m_attempt m + Z.of_nat n).
Proof. exact cycle_on_queue_is_cycle. Qed.

Theorem C06_cycle_on_the_queue_sends_bounded : forall fl c rc i s answers atts s' t m,
  cycle_on_queue fl c rc i s answers atts s' t -> Inv s -> state_of i s = Some m ->
  Z.of_nat (length answers) <= Z.max 1 (rc_max rc + 1 - m_attempt m).
Proof. exact cycle_on_queue_sends_bounded. Qed.

Definition ex_rc2 : retry_cfg := {| rc_max := 2; rc_base := 1000000000; rc_cap := 8000000000; rc_jitter := 0 |}.
Definition ex_s0 : state :=
  mkState [mkMsg 7 1 1 Queued 0 0 0 0 0 0 0 None 0; mkMsg 8 1 1 Queued 0 0 0 0 0 0 0 None 0] [7; 8]%N None 0 [].
Definition ex_cfg : cfg := mkCfg 0 false 0 0 0 0 0 0.
(** non-vacuity: 503 then 200 on a memory queue holding a second ready message; the bystander stays queued *)
Example C06_cycle_on_the_queue_example : exists s', cycle_on_queue Mem ex_cfg ex_rc2 7 ex_s0
    [mkAnswer (RStatus 503) 0; mkAnswer (RStatus 200) 0] [1; 2] s' TDelivered /\ state_of 7 s' = None /\ (exists m8, state_of 8 s' = Some m8 /\ m_st m8 = Queued).
Proof.
  eexists. split.
  - eapply cq_retry.
    + change ANack with (classify (an_result (mkAnswer (RStatus 503) 0)) 1 (rc_max ex_rc2)).
      eapply (round_intro Mem ex_cfg ex_rc2 7 (mkAnswer (RStatus 503) 0) ex_s0 10 None None 1 0 (mkOracle [(7, 100)]%N [] [] []) _ _ 100%N 1 _ 11 (mkOracle [] [] [] [])).
      * vm_compute. reflexivity.
      * left. reflexivity.
      * vm_compute. reflexivity.
      * vm_compute. reflexivity.
    + change TDelivered with TDelivered.
      eapply cq_ack.
      change AAck with (classify (an_result (mkAnswer (RStatus 200) 0)) 2 (rc_max ex_rc2)).
      eapply (round_intro Mem ex_cfg ex_rc2 7 (mkAnswer (RStatus 200) 0) _ 2000000000 None None 1 0 (mkOracle [(7, 101)]%N [] [] []) _ _ 101%N 2 _ 2000000001 (mkOracle [] [] [] [])).
      * vm_compute. reflexivity.
      * left. reflexivity.
      * vm_compute. reflexivity.
      * vm_compute. reflexivity.
  - vm_compute. split; [reflexivity|]. eexists. split; reflexivity.
Qed.

(** * The tie of the loop model to the source: regenerated from internal/dispatcher/push.go on every run *)
Theorem C06_run_route_source_shape : ps_shape_ok = true
  /\ ps_missing_target_backoff_ns = missing_target_backoff
  /\ ps_batch_iff_single_target = true /\ ps_flush_when_ge_mutation_batch = true /\ ps_final_flush = true
  /\ ps_stop_branch_calls = expected_stop_branch_calls.
Proof. exact (conj push_shape_understood push_shape_is_the_models). Qed.

Print Assumptions C06_micro_batch_settles_every_leased_message_once.
Print Assumptions C06_micro_batch_never_extends.
Print Assumptions C06_micro_batch_on_the_queue.
Print Assumptions C06_settlement_is_the_classification.
Print Assumptions C06_micro_batch_records_one_attempt_per_sent_message.
Print Assumptions C06_micro_batch_record_is_the_settlement.
Print Assumptions C06_micro_batch_unsent_message_has_no_record.
Print Assumptions C06_micro_batch_no_lease_recorded_twice.
Print Assumptions C06_micro_batch_attempts_reach_the_attempt_log.
Print Assumptions C06_sent_message_attempt_stays_in_the_log.
Print Assumptions C06_cycle_on_the_queue_is_the_cycle.
Print Assumptions C06_cycle_on_the_queue_sends_bounded.
Print Assumptions C06_run_route_source_shape.
