(** C14 - operator mutations touch exactly what they name: the MCP queue tools in Admin-proxy mode (queue backend
    memory / postgres: the tool validates its arguments, sends ONE Admin API request and hands the answer back;
    Model/ManageProxy.v), composed with the request layer of Properties/C14admin.v.  Only statements; proofs are
    [exact] of lemmas from Proofs/ManageProxyProofs.v. *)
From Coq Require Import String.
From Coq Require Import List ZArith NArith Bool.
From HK Require Import Model.Queue Model.QueueMon Model.Headers Model.Publish Model.ManageGlue Model.ManageProxy
  Gen.AdminProxy Proofs.QueueBase Proofs.QueueInv Proofs.ManageGlueProofs Proofs.ManageProxyProofs Proofs.AdminProxyShape.
Import ListNotations.
Open Scope Z_scope.

(** (a) the Admin request built from accepted tool arguments carries exactly the selection the tool was given:
    POST with the configured bearer token; reason / request id as given, actor = the MCP principal; id tools: the
    endpoint of the tool's operation and the trimmed, de-duplicated id list - which the Admin server's own parser reads
    back unchanged; by-filter tools: limit (1..1000, default 100 made explicit), preview flag, state, target, cursor and
    route exactly as parsed - on the global endpoint, or on the endpoint-scoped path of the selector (which pins the
    route itself) *)
Theorem C14proxy_request_faithful : forall e t q,
  proxy_decide e t = PSend q ->
  xe_gate e = true /\ xe_allowed e = true
  /\ match t with
     | PtIds k a =>
         audit_carried e (xi_audit a) (sn_req q)
         /\ exists raw idl, xi_ids a = IBIds raw /\ mcp_parse_ids raw = Some idl
              /\ sn_ep q = EpIds k /\ sn_body q = BIds (IBIds (store_ids idl))
              /\ parse_manage_ids (store_ids idl) = Some idl
              /\ (forall i, In i idl <-> exists r, In r raw /\ trimmed_id r = Some i)
     | PtFilter k a =>
         audit_carried e (xf_audit a) (sn_req q)
         /\ exists p b, mcp_parse_filter (mcp_filter_tool_states k) (mf_of (xe_principal e) a) = Some p
              /\ sn_body q = BFilter (FBOk b)
              /\ fb_limit b = pf_limit p /\ 1 <= fb_limit b <= 1000 /\ fb_preview b = pf_preview p /\ pf_preview p = xf_preview a
              /\ mcp_limit (xf_limit a) = Some (fb_limit b)
              /\ ((sn_ep q = EpFilter k
                   /\ parse_filter (filter_endpoint_states k) b
                      = Some (mkPF (pf_route p) (pf_target p) (pf_state p) (pf_limit p) (pf_before p) (pf_preview p) LBlank LBlank))
                  \/ (exists ap ep rt, pf_app p = LValid ap /\ pf_ep p = LValid ep /\ find_endpoint (xe_cfg e) ap ep = Some rt
                        /\ sn_ep q = EpScopedFilter k (LValid ap) (LValid ep)
                        /\ parse_filter (filter_endpoint_states k) b
                           = Some (mkPF RSBlank (pf_target p) (pf_state p) (pf_limit p) (pf_before p) (pf_preview p) LBlank LBlank)))
     end.
Proof. exact request_faithful. Qed.

(** [audit_carried] spelled out *)
Theorem C14proxy_audit_carried_spec : forall e a q,
  audit_carried e a q <->
  (h_post q = true /\ h_auth q = xe_auth e
   /\ a_reason (h_audit q) = pa_reason a /\ pa_reason a <> []
   /\ a_reqid (h_audit q) = pa_reqid a
   /\ a_actor (h_audit q) = (if is_nil (pa_actor a) then xe_principal e else pa_actor a)
   /\ (xe_principal e <> [] -> a_actor (h_audit q) = xe_principal e)).
Proof. exact audit_carried_spec. Qed.

(** (b) a success result of the tool IS the Admin API's answer to that one request (sent once, served once), the store
    afterwards is the store after that request, and - by the theorems of C14admin - its numbers count the rows changed:
    ids: count = rows changed; by-filter: matched = |selection| (at most limit), preview changes nothing and reports 0,
    a real run reports changed = matched = rows changed *)
Theorem C14proxy_counts_faithful : forall e now t fs s s' r sent seen,
  Inv s -> proxy_request e now t fs s = (s', r, (sent, seen)) -> status_of r = 200 ->
  exists q, proxy_decide e t = PSend q
    /\ sent_handler (xe_cfg e) now q s = (s', r)
    /\ sent = 1%nat /\ seen = 1%nat
    /\ match r with
       | HIdsOk n => n = changed_count (msgs s) (msgs s')
       | HFilterOk m n p =>
           exists k f, decide (xe_cfg e) (sn_ep q) (sn_req q) (sn_body q) (msgs s) = DCall (SCFilter k f)
             /\ p = f_preview f /\ m = Z.of_nat (length (filter_select (fk_kind k) f (msgs s)))
             /\ (if p then s' = s /\ n = 0 else n = m /\ n = changed_count (msgs s) (msgs s'))
       | HErr _ _ => False
       end.
Proof. exact counts_faithful. Qed.

(** (c) refusals: a call the tool refuses sends nothing and changes nothing; a request the Admin API refuses changes
    nothing whatever else the transport does; and every outcome that is not a success is the tool's error result
    (isError) - a failure is never reported as a success *)
Theorem C14proxy_refusals : forall e now t fs s,
  (proxy_decide e t = PReject -> proxy_request e now t fs s = (s, HErr 0 GToolError, (O, O)))
  /\ (forall q st c, proxy_decide e t = PSend q -> snd (sent_handler (xe_cfg e) now q s) = HErr st c ->
        exists n, proxy_request e now t fs s = (s, HErr 0 GToolError, n))
  /\ (forall s' r n, proxy_request e now t fs s = (s', r, n) -> status_of r <> 200 -> r = HErr 0 GToolError).
Proof. exact refusals. Qed.

(** the by-filter tools refuse in proxy mode exactly what they refuse in direct (SQLite) mode, plus what the endpoint
    allowlist stops *)
Theorem C14proxy_filter_refusal_as_direct : forall e k a,
  proxy_decide_filter e k a = PReject <->
  (xe_allowed e = false \/ exists st c, mcp_decide_filter (direct_env e) k (mf_of (xe_principal e) a) = DReject st c).
Proof. exact filter_refusal_as_direct. Qed.

(** (d) the retry policy as the code has it: one attempt for every method but GET, three for GET; never after the last
    attempt; otherwise after a transport error and after 408 / 429 / 500 / 502 / 503 / 504 *)
Theorem C14proxy_retry_policy :
  max_attempts MPost = 1%nat /\ max_attempts MGet = 3%nat
  /\ (forall st, should_retry true st = false)
  /\ should_retry false None = true
  /\ (forall st, should_retry false (Some st) = true
                 <-> st = 408 \/ st = 429 \/ st = 500 \/ st = 502 \/ st = 503 \/ st = 504).
Proof. exact retry_policy_spec. Qed.

(** (d) the consequence: for EVERY fault script a tool call sends at most one request, the Admin handler serves at most
    one, and the store afterwards is the store before (nothing served) or the store after that one request *)
Theorem C14proxy_at_most_once : forall e now t fs s s' r sent seen,
  proxy_request e now t fs s = (s', r, (sent, seen)) ->
  (sent <= 1)%nat /\ (seen <= sent)%nat
  /\ (seen = 0%nat -> s' = s)
  /\ (seen = 1%nat -> exists q, proxy_decide e t = PSend q /\ s' = fst (sent_handler (xe_cfg e) now q s)).
Proof. exact at_most_once. Qed.

Theorem C14proxy_at_most_once_state : forall e now t fs s s' r n,
  proxy_request e now t fs s = (s', r, n) ->
  s' = s \/ exists q, proxy_decide e t = PSend q /\ s' = fst (sent_handler (xe_cfg e) now q s).
Proof. exact at_most_once_state. Qed.

(** the attempt loop in general: never more requests than attempts, never more served than sent; a handler that only
    reads leaves the store alone however often it is retried (the listing tools: up to three GETs, no effect) *)
Theorem C14proxy_attempt_bounds : forall left fs h s s' c sent seen,
  call_admin left fs h s = (s', c, (sent, seen)) -> (sent <= left)%nat /\ (seen <= sent)%nat.
Proof. exact call_admin_bounds. Qed.

Theorem C14proxy_reads_do_not_write : forall e fs s s' r sent seen,
  proxy_read e fs s = (s', r, (sent, seen)) -> s' = s /\ (sent <= 3)%nat /\ (seen <= sent)%nat.
Proof. exact reads_retry_but_do_not_write. Qed.

(** the source read on this run has the shape the model of callAdminJSON assumes: one client.Do, inside
    [for attempt := 1; attempt <= maxAttempts; attempt++]; [maxAttempts := 1], raised (to adminProxyRetryMaxGET = 3) only under
    the GET test; every [continue] directly under shouldRetryAdminProxyCall(attempt, maxAttempts, ..), whose first statement
    is [if attempt >= maxAttempts { return false }]; retry statuses 408 429 500 502 503 504 *)
Theorem C14proxy_source_shape :
  ap_shape_ok = true /\ ap_only_get_raises = true /\ ap_retries_guarded = true /\ ap_last_attempt_final = true
  /\ ap_attempts_default = 1 /\ ap_attempts_get = ap_retry_max_get /\ ap_retry_max_get = 3
  /\ ap_retry_statuses = [408; 429; 500; 502; 503; 504].
Proof. exact source_shape. Qed.

(** every queue-mutation tool function sends exactly one kind of request through callAdminJSON: POST - the method that gets
    one attempt - to the endpoint of its own operation (by-filter: the global path or the endpoint-scoped path of the same
    verb); and no tool function proxies anything but GET and POST *)
Theorem C14proxy_mutation_tools_post_once :
  mutation_tool_calls =
  [("toolMessagesCancel", [("POST", "/messages/cancel")]);
   ("toolMessagesRequeue", [("POST", "/messages/requeue")]);
   ("toolMessagesResume", [("POST", "/messages/resume")]);
   ("toolDLQRequeue", [("POST", "/dlq/requeue")]);
   ("toolDLQDelete", [("POST", "/dlq/delete")]);
   ("toolMessagesCancelByFilter", [("POST", "/messages/cancel_by_filter|managedEndpointMessageActionPath(cancel_by_filter)")]);
   ("toolMessagesRequeueByFilter", [("POST", "/messages/requeue_by_filter|managedEndpointMessageActionPath(requeue_by_filter)")]);
   ("toolMessagesResumeByFilter", [("POST", "/messages/resume_by_filter|managedEndpointMessageActionPath(resume_by_filter)")])]%string.
Proof. exact mutation_tools_post_once. Qed.

Theorem C14proxy_proxied_methods :
  forallb (fun e => forallb (fun c => (String.eqb (fst c) "GET" || String.eqb (fst c) "POST")%string) (snd e)) ap_tool_calls = true.
Proof. exact proxied_methods. Qed.

(** proxy mode and direct mode agree: with the transport intact, a token the Admin server accepts and the endpoint allowed,
    a tool call in Admin-proxy mode leaves the store and answers exactly as the same call in direct (SQLite) mode does - so
    every theorem of Properties/C14admin.v about the MCP tools (selection exact, limit, counts, preview) holds for the proxied
    tools as well.  ([audit_normal]: reason / request id / principal as parseString returns them - trimmed - and within the
    length caps validateMutationAuditFields enforces.) *)
Theorem C14proxy_agrees_with_direct : forall e now t s,
  xe_auth e = true -> xe_allowed e = true -> xe_principal e <> [] -> audit_normal (xe_principal e) (tool_audit t) ->
  fst (proxy_request e now t [] s) = mcp_request (direct_env e) now (direct_tool e t) s.
Proof. exact proxy_agrees_with_direct. Qed.

(** non-vacuity: the lost answer (applied once, reported as an error, the second scripted attempt never happens), and
    what a second attempt for writes would do (two messages canceled for limit 1, one reported) *)
Example C14proxy_ex_lost_answer :
  let '(s', r, n) := proxy_request px_env 100 (px_filter 1) [FtLost; FtPass] (state_of ex_pop) in
  (px_states s', r, n)
  = ([(1%N, Queued); (2%N, Dead); (3%N, Canceled); (4%N, Delivered); (5%N, Canceled)], HErr 0 GToolError, (1%nat, 1%nat)).
Proof. exact ex_lost_answer_applied_once. Qed.

Example C14proxy_ex_second_attempt_would_double :
  match proxy_decide px_env (px_filter 1) with
  | PSend q =>
      let '(s', c, n) := call_admin 2 [FtLost; FtPass] (sent_handler px_ctx 100 q) (state_of ex_pop) in
      (px_states s', tool_result c, n)
      = ([(1%N, Canceled); (2%N, Dead); (3%N, Canceled); (4%N, Delivered); (5%N, Canceled)], HFilterOk 1 1 false, (2%nat, 2%nat))
  | PReject => False
  end.
Proof. exact ex_second_attempt_would_double. Qed.

Print Assumptions C14proxy_request_faithful.
Print Assumptions C14proxy_audit_carried_spec.
Print Assumptions C14proxy_counts_faithful.
Print Assumptions C14proxy_refusals.
Print Assumptions C14proxy_filter_refusal_as_direct.
Print Assumptions C14proxy_retry_policy.
Print Assumptions C14proxy_at_most_once.
Print Assumptions C14proxy_at_most_once_state.
Print Assumptions C14proxy_attempt_bounds.
Print Assumptions C14proxy_reads_do_not_write.
Print Assumptions C14proxy_source_shape.
Print Assumptions C14proxy_mutation_tools_post_once.
Print Assumptions C14proxy_proxied_methods.
Print Assumptions C14proxy_agrees_with_direct.
