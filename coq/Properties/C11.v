(** C11 - Pull, Worker and Admin APIs act only for authorized callers.
    Only theorem statements, each closed by [exact] of a lemma from Proofs/.
    Models: Model/Bearer.v (HTTP and gRPC bearer rules, effective allowlist, handler
    skeletons), Model/PullAuthCompile.v (the compile rule).  Non-vacuity: Proofs/C11Examples.v. *)
From Coq Require Import List NArith Bool.
From Coq Require Strings.String.
Import Coq.Strings.String.StringSyntax.
Delimit Scope string_scope with string.
From HK Require Import Model.RBytes Model.PathClean Model.Bearer Model.PullAuthCompile
     Proofs.BearerProofs Proofs.BearerSessionProofs Proofs.C11Examples.
Import ListNotations.
Open Scope N_scope.

(** What an HTTP request presents: first Authorization value = "Bearer " ++ rest exactly,
    token = TrimSpace(rest), non-empty. *)
Theorem C11_http_presented_shape : forall vals t,
  http_presented vals = Some t <->
  exists rest, header_get vals = bearer_sp ++ rest /\ t = trim rest /\ t <> [].
Proof. exact http_presented_shape. Qed.

(** Pull (HTTP): an authorized request against a non-empty effective allowlist presents a
    token that is a byte-equal member of that allowlist. *)
Theorem C11_authorized_has_token : forall c url_path vals,
  authorize_pull c url_path vals = true ->
  allow_norm (effective c (pull_endpoint url_path)) <> [] ->
  exists t, http_presented vals = Some t /\ In t (effective c (pull_endpoint url_path)).
Proof. exact authorized_has_token. Qed.

(** Worker (gRPC): the same, over the metadata values. *)
Theorem C11_authorized_has_token_worker : forall c ep md,
  authorize_worker c ep md = true ->
  allow_norm (effective c (trim ep)) <> [] ->
  exists vals v t, md = Some vals /\ In v vals /\ grpc_parse v = Some t /\ In t (effective c (trim ep)).
Proof. exact authorized_has_token_worker. Qed.

Theorem C11_grpc_parse_shape : forall v t,
  grpc_parse v = Some t <->
  (7 <= List.length (trim v))%nat /\ lower (firstn 7 (trim v)) = bearer_sp_lower /\
  t = trim (skipn 7 (trim v)) /\ t <> [].
Proof. exact grpc_parse_shape. Qed.

(** Near misses: a presented token that is not itself in the list - prefix, suffix, case
    variant, another route's token - is refused; so is a request presenting nothing. *)
Theorem C11_near_miss_rejected : forall tokens vals t',
  allow_norm tokens <> [] -> http_presented vals = Some t' -> ~ In t' tokens ->
  http_bearer_ok tokens vals = false.
Proof. exact near_miss_rejected. Qed.

Theorem C11_no_token_rejected : forall tokens vals,
  allow_norm tokens <> [] -> http_presented vals = None -> http_bearer_ok tokens vals = false.
Proof. exact no_token_rejected. Qed.

Theorem C11_malformed_present_nothing : forall x v rest,
  http_presented [] = None /\
  http_presented ((bearer_sp_lower ++ x) :: rest) = None /\
  http_presented (bearer_sp :: rest) = None /\
  (prefixb bearer_sp v = false -> http_presented (v :: rest) = None).
Proof.
  exact (fun x v rest => conj presented_absent (conj (presented_lowercase_scheme x rest)
          (conj (presented_empty_token rest) (presented_needs_prefix v rest)))).
Qed.

Theorem C11_valid_token_accepted : forall tokens vals t,
  http_presented vals = Some t -> In t tokens -> http_bearer_ok tokens vals = true.
Proof. exact http_bearer_complete. Qed.

(** The route's own tokens replace the global ones. *)
Theorem C11_effective_override : forall c ep r,
  lookup_endpoint ep (a_routes c) = Some r -> pr_tokens r <> [] -> effective c ep = pr_tokens r.
Proof. exact effective_override. Qed.

Theorem C11_override_replaces_global : forall c url_path vals r g,
  lookup_endpoint (pull_endpoint url_path) (a_routes c) = Some r ->
  allow_norm (pr_tokens r) <> [] -> ~ In g (pr_tokens r) ->
  http_presented vals = Some g ->
  authorize_pull c url_path vals = false.
Proof. exact override_replaces_global. Qed.

Theorem C11_override_replaces_global_worker : forall c ep vals r,
  lookup_endpoint (trim ep) (a_routes c) = Some r ->
  allow_norm (pr_tokens r) <> [] ->
  (forall t, In t (grpc_tokens vals) -> ~ In t (pr_tokens r)) ->
  authorize_worker c ep (Some vals) = false.
Proof. exact override_replaces_global_worker. Qed.

(** Unauthorized: 401 / Unauthenticated (405 / InvalidArgument when refused even earlier),
    the store is untouched and no store call is issued. *)
Theorem C11_pull_unauthorized_no_effect : forall (store : Type) run_op c method url_path vals (st : store),
  authorize_pull c url_path vals = false ->
  let o := pull_serve store run_op c method url_path vals st in
  o_store _ o = st /\ o_calls _ o = [] /\
  (o_status _ o = 401 \/ (o_status _ o = 405 /\ method <> s2b "POST"%string)).
Proof. exact pull_unauthorized_no_effect. Qed.

Theorem C11_pull_effect_needs_auth : forall (store : Type) run_op c method url_path vals (st : store),
  let o := pull_serve store run_op c method url_path vals st in
  (o_calls _ o <> [] \/ o_store _ o <> st) -> authorize_pull c url_path vals = true.
Proof. exact pull_effect_needs_auth. Qed.

Theorem C11_pull_call_route : forall (store : Type) run_op c method url_path vals (st : store) op route,
  In (op, route) (o_calls _ (pull_serve store run_op c method url_path vals st)) ->
  exists r, lookup_endpoint (pull_endpoint url_path) (a_routes c) = Some r /\ pr_route r = route
            /\ op_of (pull_op url_path) = Some op.
Proof. exact pull_call_route. Qed.

Theorem C11_worker_unauthorized_no_effect : forall (store : Type) run_op c op ep pre md (st : store),
  authorize_worker c (trim ep) md = false ->
  let o := worker_call store run_op c op ep pre md st in
  o_store _ o = st /\ o_calls _ o = [] /\
  (o_status _ o = g_unauthenticated \/ o_status _ o = g_invalid_argument).
Proof. exact worker_unauthorized_no_effect. Qed.

Theorem C11_worker_effect_needs_auth : forall (store : Type) run_op c op ep pre md (st : store),
  let o := worker_call store run_op c op ep pre md st in
  (o_calls _ o <> [] \/ o_store _ o <> st) -> authorize_worker c (trim ep) md = true.
Proof. exact worker_effect_needs_auth. Qed.

(** Admin: with tokens configured every path and method goes through the check first. *)
Theorem C11_admin_unauthorized_no_effect : forall (store : Type) admin_router c method url_path vals (st : store),
  authorize_admin c vals = false ->
  let o := admin_serve store admin_router c method url_path vals st in
  ad_status _ o = 401 /\ ad_store _ o = st /\ ad_routed _ o = false.
Proof. exact admin_unauthorized_no_effect. Qed.

Theorem C11_admin_routed_has_token : forall (store : Type) admin_router c method url_path vals (st : store),
  allow_norm (a_admin c) <> [] ->
  ad_routed _ (admin_serve store admin_router c method url_path vals st) = true ->
  exists t, http_presented vals = Some t /\ In t (a_admin c).
Proof. exact admin_routed_has_token. Qed.

(** A configuration that compiles leaves every pull endpoint with a non-empty allowlist
    (loader fact: secrets.LoadRef never yields an empty value - checked by the harness). *)
Theorem C11_compiled_never_open : forall (load : bytes -> bytes) admin c,
  compile_ok c = true -> (forall ref, load ref <> []) ->
  forall r, In r (c_pull_routes c) ->
  allow_norm (effective (loaded load admin c) (pr_endpoint r)) <> [].
Proof. exact compiled_never_open. Qed.

(** Why the rule is needed: an empty effective allowlist is open. *)
Theorem C11_open_without_rule : forall c ep r,
  lookup_endpoint ep (a_routes c) = Some r -> pr_tokens r = [] -> a_global c = [] ->
  forall vals, http_bearer_ok (effective c ep) vals = true.
Proof. exact open_without_rule. Qed.

(** Non-vacuity (Proofs/C11Examples.v). *)
Theorem C11_example_override :
  st_of (pull "/pull/r1/dequeue" "Bearer r1-tok") = (200, 11, 1%nat) /\
  st_of (pull "/pull/r1/dequeue" "Bearer global-tok") = (401, 10, 0%nat) /\
  st_of (pull "/pull/r1/dequeue" "Bearer r1-to") = (401, 10, 0%nat).
Proof. exact (conj ex_route_token_ok (conj ex_global_on_override_route ex_prefix)). Qed.

(** Whole sessions.  For every sequence of Pull, Worker and Admin requests over one store - authorized
    and not, in any order - the final store, the sequence of store calls and the requests that reached
    the Admin router are exactly those of the authorized requests alone: unauthorized traffic is
    invisible to the queue wherever it is interleaved, and a session without an authorized request
    leaves everything as it was. *)
Theorem C11_session_ignores_unauthorized : forall (store : Type) run_op admin_router c reqs t,
  session store run_op admin_router c reqs t =
  session store run_op admin_router c (filter (authorized c) reqs) t.
Proof. exact session_ignores_unauthorized. Qed.

Theorem C11_session_all_unauthorized : forall (store : Type) run_op admin_router c reqs t,
  Forall (fun r => authorized c r = false) reqs -> session store run_op admin_router c reqs t = t.
Proof. exact session_all_unauthorized. Qed.

Theorem C11_session_insert_unauthorized : forall (store : Type) run_op admin_router c pre r post t,
  authorized c r = false ->
  session store run_op admin_router c (pre ++ r :: post) t = session store run_op admin_router c (pre ++ post) t.
Proof. exact session_insert_unauthorized. Qed.

Print Assumptions C11_http_presented_shape.
Print Assumptions C11_authorized_has_token.
Print Assumptions C11_authorized_has_token_worker.
Print Assumptions C11_grpc_parse_shape.
Print Assumptions C11_near_miss_rejected.
Print Assumptions C11_no_token_rejected.
Print Assumptions C11_malformed_present_nothing.
Print Assumptions C11_valid_token_accepted.
Print Assumptions C11_effective_override.
Print Assumptions C11_override_replaces_global.
Print Assumptions C11_override_replaces_global_worker.
Print Assumptions C11_pull_unauthorized_no_effect.
Print Assumptions C11_pull_effect_needs_auth.
Print Assumptions C11_pull_call_route.
Print Assumptions C11_worker_unauthorized_no_effect.
Print Assumptions C11_worker_effect_needs_auth.
Print Assumptions C11_admin_unauthorized_no_effect.
Print Assumptions C11_admin_routed_has_token.
Print Assumptions C11_compiled_never_open.
Print Assumptions C11_open_without_rule.
Print Assumptions C11_example_override.
Print Assumptions C11_session_ignores_unauthorized.
Print Assumptions C11_session_all_unauthorized.
Print Assumptions C11_session_insert_unauthorized.
