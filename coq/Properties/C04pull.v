(** C04 at the pull layer - the idempotent duplicate answer (recentLeaseOps) and the HTTP / gRPC status mapping
    (internal/pullapi/ops.go, http.go, internal/workerapi/server.go; model: Model/PullOps.v).
    Only theorem statements; proofs are [exact] of lemmas from Proofs/PullOpsProofs.v.

    Reading guide.  [pull_trace fl c pc xs] is the list of events of the history [xs] of calls (pull calls
    interleaved with store calls of other parties and clock steps) from the empty server; an event carries the
    call, the response, the states before and after, and two ghost lists: [g_stored] = the (lease id, op) pairs the
    store accepted in this call (exactly the arguments of rememberCompletedLease), [g_cached] = the pairs answered
    from the recent-ops cache without a store call.  [current now l ms] is the message whose current, unexpired
    lease is [l].  [po_now] is the store clock, [po_cnow] the pull server's clock. *)
From Coq Require Import List ZArith NArith Bool.
From HK Require Import Gen.Consts Model.Queue Model.QueueMon Model.PullOps
  Proofs.QueueBase Proofs.QueueInv Proofs.QueueInvStep Proofs.QueueStep Proofs.QueueLease Proofs.QueueFence Proofs.PullOpsProofs.
Import ListNotations.
Open Scope Z_scope.

(** (a) If a single ack / nack (incl. dead-letter) is answered 204 although the presented lease is not the current
    unexpired lease of any message at that moment, then the call left the queue state exactly as it was (it made no
    store call at all: not even an expired lease is released), it was answered from the cache, and an EARLIER call of
    the history with the same (lease id, op) was accepted by the store - on the lease that was current then - less
    than RecentLeaseOpTTL before on the server clock. *)
Theorem C04pull_idempotent_answer_sound : forall fl c pc xs pre e post k l o,
  pull_trace fl c pc xs = pre ++ e :: post ->
  call_single pc (po_call (pe_op e)) = Some (k, l) -> kind_opk k = Some o ->
  r_status (pe_resp e) = 204 ->
  current (po_now (pe_op e)) l (msgs (p_q (pe_before e))) = None ->
  p_q (pe_after e) = p_q (pe_before e)
  /\ g_cached (pe_ghost e) = [(l, o)] /\ g_stored (pe_ghost e) = []
  /\ exists e0, In e0 pre /\ In (l, o) (g_stored (pe_ghost e0))
                /\ po_cnow (pe_op e) < po_cnow (pe_op e0) + p_recent_ttl pc
                /\ current (po_now (pe_op e0)) l (msgs (p_q (pe_before e0))) <> None.
Proof. exact idempotent_answer_sound. Qed.

(** the same for every id a call (single or batch) answers from the cache *)
Theorem C04pull_cached_answer_has_twin : forall fl c pc xs pre e post p,
  pull_trace fl c pc xs = pre ++ e :: post -> In p (g_cached (pe_ghost e)) ->
  0 < p_recent_ttl pc /\ 0 < p_recent_cap pc
  /\ exists e0, In e0 pre /\ In p (g_stored (pe_ghost e0))
                /\ po_cnow (pe_op e) < po_cnow (pe_op e0) + p_recent_ttl pc
                /\ current (po_now (pe_op e0)) (fst p) (msgs (p_q (pe_before e0))) <> None.
Proof. exact cached_answer_has_twin. Qed.

(** what is remembered was a real success: the store accepted the operation on the then current, unexpired lease *)
Theorem C04pull_stored_was_current : forall fl c pc xs e p,
  In e (pull_trace fl c pc xs) -> In p (g_stored (pe_ghost e)) ->
  current (po_now (pe_op e)) (fst p) (msgs (p_q (pe_before e))) <> None.
Proof. exact stored_was_current. Qed.

(** (b) status mapping of a single ack / nack / dead-letter / positive extend while the store works:
    success (204 / OK) iff the cache holds an unexpired entry for this (lease id, op) or the lease is current;
    conflict (409 / FailedPrecondition) iff neither; nothing else is answered. *)
Theorem C04pull_status_mapping : forall fl c pc ps x k l ps' r g,
  Inv (p_q ps) -> call_single pc (po_call x) = Some (k, l) -> is_noop_extend k = false -> p_down ps = false ->
  pstep fl c pc ps x = (ps', r, g) ->
  let hit := single_hit pc (po_cnow x) k l (p_cache ps) in
  let cur := current (po_now x) l (msgs (p_q ps)) in
  (r_status r = 204 \/ r_status r = 409)
  /\ (r_status r = 204 <-> hit = true \/ cur <> None)
  /\ (r_status r = 409 <-> hit = false /\ cur = None)
  /\ (r_status r = 204 <-> grpc_code r = GOk)
  /\ (r_status r = 409 <-> grpc_code r = GFailedPrecondition)
  /\ (hit = true -> g_cached g = single_keys k l /\ g_stored g = [] /\ p_q ps' = p_q ps)
  /\ (hit = false -> g_cached g = [] /\ (g_stored g = single_keys k l <-> cur <> None \/ single_keys k l = [])).
Proof. exact status_mapping. Qed.

(** a hit is exactly: cache switched on and an unexpired entry for this very (lease id, op) *)
Theorem C04pull_hit_iff_entry : forall pc cnow l k ch,
  NoDup (ckeys ch) ->
  (snd (cache_lookup pc cnow l k ch) = true <->
   cache_off pc = false /\ exists e, In e ch /\ ckey e = (l, k) /\ cnow < ce_exp e).
Proof.
  intros pc cnow l k ch ND. split.
  - exact (cache_lookup_hit pc cnow l k ch).
  - intros [Off [e [A [B D]]]]. exact (cache_lookup_finds pc cnow l k ch e Off ND A B D).
Qed.

(** a positive extend is never answered idempotently: it neither reads nor writes the cache *)
Theorem C04pull_positive_extend_never_idempotent : forall fl c pc ps x l b ps' r g,
  Inv (p_q ps) -> call_single pc (po_call x) = Some (KExtend b, l) -> 0 < b -> p_down ps = false ->
  pstep fl c pc ps x = (ps', r, g) ->
  (r_status r = 204 <-> current (po_now x) l (msgs (p_q ps)) <> None)
  /\ (r_status r = 409 <-> current (po_now x) l (msgs (p_q ps)) = None)
  /\ g = g0 /\ p_cache ps' = p_cache ps.
Proof. exact positive_extend_never_idempotent. Qed.

(** the documented no-op (extend by a non-positive duration): success without touching anything *)
Theorem C04pull_nonpositive_extend_noop : forall fl c pc cnow now by_ l ps,
  by_ <= 0 ->
  pull_single fl c pc cnow now (KExtend by_) l ps =
  if p_down ps then (ps, mkResp 500 (BErr CInternal), g0) else (ps, mkResp 204 BNone, g0).
Proof. exact pull_single_noop_extend. Qed.

(** (c) C04_single_op_fenced lifted to the pull layer: a single call whose lease is not current changes no message,
    except that a message still leased under that id whose lease has expired goes back to the queue (and then the
    answer is 409); nothing is remembered; 204 is possible only as the cached answer, which changes nothing. *)
Theorem C04pull_stale_call_no_effect : forall fl c pc ps x k l ps' r g,
  Inv (p_q ps) -> call_single pc (po_call x) = Some (k, l) -> is_noop_extend k = false ->
  pstep fl c pc ps x = (ps', r, g) ->
  current (po_now x) l (msgs (p_q ps)) = None ->
  g_stored g = []
  /\ (exists pm, p_q ps' = set_msgs (p_q ps) (apply_pm pm (msgs (p_q ps)))
        /\ forall y, In y (msgs (p_q ps)) ->
             pm y = Some y
             \/ (m_lease y = Some l /\ expired (po_now x) y = true /\ pm y = Some (release (po_now x) y) /\ r_status r = 409))
  /\ (r_status r = 204 -> p_q ps' = p_q ps /\ single_hit pc (po_cnow x) k l (p_cache ps) = true /\ g_cached g = single_keys k l)
  /\ (r_status r = 204 \/ r_status r = 409 \/ (r_status r = 500 /\ p_down ps = true /\ p_q ps' = p_q ps)).
Proof. exact stale_call_no_effect. Qed.

(** batch calls: the ids split into those answered from the cache (no effect) and those handed to the store; every
    message is unchanged, or released because its expired lease was handed to the store, or settled because its
    current lease was; a current lease handed to the store always takes effect and is remembered; what is
    remembered was current. *)
Theorem C04pull_batch_call_fenced : forall fl c pc ps x k o ls ps' r g,
  Inv (p_q ps) -> call_batch pc (po_call x) = Some (k, o, ls) -> pstep fl c pc ps x = (ps', r, g) ->
  exists pending completed,
    g_cached g = map (fun l => (l, o)) completed
    /\ incl pending ls /\ (forall l, In l ls -> In l pending \/ In l completed) /\ (forall l, In l pending -> ~ In l completed)
    /\ (forall p, In p (g_stored g) -> snd p = o /\ In (fst p) pending /\ current (po_now x) (fst p) (msgs (p_q ps)) <> None)
    /\ exists pm, p_q ps' = set_msgs (p_q ps) (apply_pm pm (msgs (p_q ps)))
         /\ (forall m, In m (msgs (p_q ps)) -> lchange c (po_now x) (batch_eff_kind k) pending m (pm m))
         /\ (p_down ps = false ->
             forall m y, In m (msgs (p_q ps)) -> m_lease m = Some y -> In y pending -> is_leased m = true -> po_now x < m_until m ->
                         pm m = lease_effect c (po_now x) (batch_eff_kind k) m /\ In (y, o) (g_stored g)).
Proof. exact batch_call_fenced. Qed.

(** batch answer: 200 without conflicts, 409 with conflicts; the gRPC twin always answers OK and carries the conflicts *)
Theorem C04pull_batch_status : forall fl c pc cnow now k o ls ps,
  p_down ps = false ->
  let r := snd (fst (pull_batch_call fl c pc cnow now k o ls ps)) in
  (exists n cs, r_body r = BBatch n (conflict_pairs cs) /\ (r_status r = 200 <-> cs = []) /\ (r_status r = 409 <-> cs <> []))
  /\ grpc_code r = GOk.
Proof. exact pull_batch_status. Qed.

(** normalizeLeaseIDs: a batch never carries a duplicate, is not empty and respects MaxLeaseBatch *)
Theorem C04pull_batch_normalised : forall fl c pc ps x k o ls,
  call_batch pc (po_call x) = Some (k, o, ls) ->
  pstep fl c pc ps x = pull_batch_call fl c pc (po_cnow x) (po_now x) k o ls ps
  /\ batch_kind_ok k = true /\ kind_opk k = Some o /\ NoDup ls /\ ls <> []
  /\ (0 < p_max_lease_batch pc -> Z.of_nat (length ls) <= p_max_lease_batch pc).
Proof. exact pstep_batch. Qed.

(** requests rejected before any operation change nothing and are answered 400 / 404 / 405 *)
Theorem C04pull_rejected_no_effect : forall fl c pc ps x,
  call_single pc (po_call x) = None -> call_batch pc (po_call x) = None ->
  match po_call x with PAck _ _ | PNack _ _ _ _ _ | PExtend _ _ | PRaw _ => True | _ => False end ->
  fst (fst (pstep fl c pc ps x)) = ps /\ snd (pstep fl c pc ps x) = g0
  /\ In (r_status (snd (fst (pstep fl c pc ps x)))) [400; 404; 405].
Proof. exact rejected_no_effect. Qed.

(** (d) Dequeue through the pull layer: the pull-level clamp (batch <= 0 -> 1, MaxBatch) composed with the store's
    (1 .. 100): exactly min(clamped batch, ready) items; every lease runs until now + t where t is the requested /
    default TTL capped by MaxLeaseTTL when that is positive, and the store default (30 s) when the value handed down
    is not positive; max_wait is capped by MaxWait. *)
Theorem C04pull_dequeue_clamp : forall fl c pc now route batch ttl wait o ps ps' st req items g,
  Inv (p_q ps) ->
  pull_dequeue fl c pc now route batch ttl wait o ps = (ps', mkResp st (BItems req items), g) ->
  let s2 := deq_pre fl c now o (p_q ps) in
  let b := clamp_batch (pull_batch pc batch) in
  let t := eff_ttl (pull_ttl pc ttl) in
  st = 200 /\ p_down ps = false /\ req = (pull_batch pc batch, pull_wait pc wait, pull_ttl pc ttl)
  /\ Z.of_nat (length items) = Z.min b (Z.of_nat (length (filter (ready now (Some route) (p_target pc)) (msgs s2))))
  /\ b = Z.min mem_dequeue_batch_cap (if 0 <? p_max_batch pc then Z.min (p_max_batch pc) (Z.max 1 batch) else Z.max 1 batch)
  /\ 1 <= b <= mem_dequeue_batch_cap
  /\ (forall i lid att un, In (i, lid, att, un) items ->
        un = now + t /\ now < un /\ ~ In lid (issued (p_q ps))
        /\ exists m0, find_id i (msgs s2) = Some m0 /\ ready now (Some route) (p_target pc) m0 = true /\ att = m_attempt m0 + 1)
  /\ 0 < t
  /\ (pull_ttl pc ttl <= 0 -> t = mem_dequeue_leasettl_default)
  /\ (0 < pull_ttl pc ttl -> t = pull_ttl pc ttl /\ (0 < p_max_ttl pc -> t <= p_max_ttl pc))
  /\ (0 < p_max_wait pc -> pull_wait pc wait <= p_max_wait pc)
  /\ p_cache ps' = p_cache ps /\ g = g0.
Proof. exact pull_dequeue_clamp. Qed.

(** (e) the cache along every history of calls: never more than RecentLeaseOpCap entries, one entry per
    (lease id, op), empty when TTL or capacity is not positive, and every entry stands for an operation the store
    accepted, expiring exactly RecentLeaseOpTTL after that call; the queue invariant holds too. *)
Theorem C04pull_cache_invariant : forall fl c pc xs,
  let ps := snd (prun fl c pc pinit xs) in
  (length (p_cache ps) <= Z.to_nat (p_recent_cap pc))%nat
  /\ NoDup (ckeys (p_cache ps))
  /\ (cache_off pc = true -> p_cache ps = [])
  /\ (forall e, In e (p_cache ps) ->
        exists e0, In e0 (pull_trace fl c pc xs) /\ In (ckey e) (g_stored (pe_ghost e0))
                   /\ ce_exp e = po_cnow (pe_op e0) + p_recent_ttl pc)
  /\ Inv (p_q ps).
Proof. exact cache_invariant. Qed.

(** ** non-vacuity: concrete histories (vm_compute) *)
Definition ex_cfg := mkCfg 0 false 0 0 1000000 0 0 0.
Definition ex_pc := mkPcfg (Some 1%N) 30000 100 100 0 0 0 (* TTL *) 1000 (* cap *) 2.
Definition o0 := mkOracle [] [] [] [].
Definition ex_enq (i : N) := PStore (Enqueue 100 (mkEnq (Some i) 1%N 1%N None None 5%N 0%N 0%N)).

(** ack, duplicate inside the window (999 < 1000: 204 from the cache), at the end of the window (1000: 409),
    a nack with the acked lease (other op: 409), extend (never cached: 409); status and gRPC code *)
Example C04pull_witness_window :
  map (fun e => (r_status (pe_resp e), grpc_code (pe_resp e), g_stored (pe_ghost e), g_cached (pe_ghost e)))
      (pull_trace Sql ex_cfg ex_pc
         [mkPop 0 100 (ex_enq 7%N) o0;
          mkPop 0 200 (PDequeue 1%N 0 None None) (mkOracle [(7%N, 1%N)] [] [] []);
          mkPop 5000 300 (PAck (PId 1%N false) []) o0;
          mkPop 5999 400 (PAck (PId 1%N true) []) o0;
          mkPop 5500 410 (PNack (PId 1%N false) [] false 0%N 50) o0;
          mkPop 5500 420 (PExtend (PId 1%N false) (Some 50)) o0;
          mkPop 6000 500 (PAck (PId 1%N false) []) o0])
  = [(0, GOk, [], []); (200, GOk, [], []); (204, GOk, [(1%N, OpAck)], []); (204, GOk, [], [(1%N, OpAck)]);
     (409, GFailedPrecondition, [], []); (409, GFailedPrecondition, [], []); (409, GFailedPrecondition, [], [])].
Proof. vm_compute. reflexivity. Qed.

(** the hypotheses of C04pull_idempotent_answer_sound are met by the fourth call of that history *)
Example C04pull_witness_hypotheses :
  let tr := pull_trace Sql ex_cfg ex_pc
         [mkPop 0 100 (ex_enq 7%N) o0;
          mkPop 0 200 (PDequeue 1%N 0 None None) (mkOracle [(7%N, 1%N)] [] [] []);
          mkPop 5000 300 (PAck (PId 1%N false) []) o0;
          mkPop 5999 400 (PAck (PId 1%N true) []) o0] in
  match nth_error tr 3 with
  | Some e => call_single ex_pc (po_call (pe_op e)) = Some (KAck, 1%N) /\ kind_opk KAck = Some OpAck
              /\ r_status (pe_resp e) = 204
              /\ current (po_now (pe_op e)) 1%N (msgs (p_q (pe_before e))) = None
              /\ p_q (pe_after e) = p_q (pe_before e)
  | None => False
  end.
Proof. vm_compute. repeat split; reflexivity. Qed.

(** lease expired and the message re-leased to another worker: the first worker's ack is a conflict and the message
    stays leased under the new id; a nack-then-duplicate-nack after the re-lease is answered 204 without touching it;
    capacity 2: the third success evicts the first entry *)
Definition ex_hist2 : list pop :=
  [mkPop 0 100 (ex_enq 7%N) o0; mkPop 0 100 (ex_enq 8%N) o0; mkPop 0 100 (ex_enq 9%N) o0;
   mkPop 0 200 (PDequeue 1%N 1 (Some 10) None) (mkOracle [(7%N, 1%N)] [] [] []);
   mkPop 0 210 (PDequeue 1%N 1 None None) (mkOracle [(8%N, 2%N)] [] [] []);       (* lease 1 expired at 210 *)
   mkPop 0 220 (PDequeue 1%N 5 None None) (mkOracle [(9%N, 3%N); (7%N, 4%N)] [] [] []);
   mkPop 0 230 (PAck (PId 1%N false) []) o0;                                       (* stale epoch *)
   mkPop 10 240 (PNack (PId 4%N false) [] false 0%N 1000) o0;
   mkPop 20 2000 (PDequeue 1%N 1 None None) (mkOracle [(7%N, 5%N)] [] [] []);
   mkPop 30 2010 (PNack (PId 4%N false) [] false 0%N 77) o0;                      (* duplicate, message re-leased *)
   mkPop 40 2020 (PAck PBlank [PId 2%N false; PId 3%N true; PBlank; PId 2%N false; PId 99%N false]) o0;
   mkPop 50 2030 (PNack (PId 4%N false) [] false 0%N 77) o0].                     (* evicted by the two acks *)

Definition ev0 : pevent := mkPev (mkPop 0 0 (PDown false) o0) (mkResp 0 BNone) g0 pinit pinit.

Example C04pull_witness_release_and_capacity :
  let tr := pull_trace Mem ex_cfg ex_pc ex_hist2 in
  (map (fun e => r_status (pe_resp e)) tr,
   map (fun e => r_body (pe_resp e)) (skipn 10 tr),
   (* message 7 after: the stale ack, the nack by its second worker, the re-lease, the duplicate nack, the end *)
   map (fun e => map (fun m => (m_st m, m_lease m, m_next m)) (filter (fun m => N.eqb (m_id m) 7) (msgs (p_q (pe_after e)))))
       [nth 6 tr ev0;
        nth 7 tr ev0;
        nth 8 tr ev0;
        nth 9 tr ev0;
        nth 11 tr ev0],
   map (fun e => map ckey (p_cache (pe_after e))) (skipn 9 tr))
  = ([0; 0; 0; 200; 200; 200; 409; 204; 200; 204; 409; 409],
     [BBatch 2 [(99%N, false)]; BErr CLeaseConflict],
     [[(Leased, Some 4%N, 30220)]; [(Queued, None, 1240)]; [(Leased, Some 5%N, 32000)]; [(Leased, Some 5%N, 32000)];
      [(Leased, Some 5%N, 32000)]],
     [[(4%N, OpNack)]; [(2%N, OpAck); (3%N, OpAck)]; [(2%N, OpAck); (3%N, OpAck)]]).
Proof. vm_compute. reflexivity. Qed.

(** dequeue clamps: batch 0 -> 1; MaxBatch 3 caps 50; lease ttl capped by MaxLeaseTTL 40; non-positive ttl -> store default *)
Example C04pull_witness_clamp :
  let pc := mkPcfg (Some 1%N) 30000 3 100 40 0 7 1000 2 in
  map (fun e => match r_body (pe_resp e) with BItems req items => (req, map (fun it => snd it) items) | _ => ((0, 0, 0), []) end)
      (skipn 4 (pull_trace Mem ex_cfg pc
         [mkPop 0 100 (ex_enq 1%N) o0; mkPop 0 100 (ex_enq 2%N) o0; mkPop 0 100 (ex_enq 3%N) o0; mkPop 0 100 (ex_enq 4%N) o0;
          mkPop 0 200 (PDequeue 1%N 0 (Some 90) (Some 9)) (mkOracle [(1%N, 1%N)] [] [] []);
          mkPop 0 200 (PDequeue 1%N 50 (Some (-5)) None) (mkOracle [(2%N, 2%N); (3%N, 3%N); (4%N, 4%N)] [] [] [])]))
  = [((1, 7, 40), [240]); ((3, 0, -5), [200 + mem_dequeue_leasettl_default; 200 + mem_dequeue_leasettl_default; 200 + mem_dequeue_leasettl_default])].
Proof. vm_compute. reflexivity. Qed.

Print Assumptions C04pull_idempotent_answer_sound.
Print Assumptions C04pull_cached_answer_has_twin.
Print Assumptions C04pull_stored_was_current.
Print Assumptions C04pull_status_mapping.
Print Assumptions C04pull_hit_iff_entry.
Print Assumptions C04pull_positive_extend_never_idempotent.
Print Assumptions C04pull_nonpositive_extend_noop.
Print Assumptions C04pull_stale_call_no_effect.
Print Assumptions C04pull_batch_call_fenced.
Print Assumptions C04pull_batch_status.
Print Assumptions C04pull_batch_normalised.
Print Assumptions C04pull_rejected_no_effect.
Print Assumptions C04pull_dequeue_clamp.
Print Assumptions C04pull_cache_invariant.
