(** C03 (concurrent part) - the overlap monitor that judges the recorded histories of the concurrent
    stress never fires on a history that is linearizable with respect to Model/Queue.v.
    Only theorem statements; proofs are [exact] of lemmas from Proofs/OverlapProofs.v. *)
From Coq Require Import List ZArith NArith Bool Permutation.
From HK Require Import Model.Queue Model.QueueMon Model.Overlap Proofs.QueueInv Proofs.QueueLease Proofs.OverlapProofs.
Import ListNotations.
Open Scope Z_scope.

(** Soundness, written out.  A history is linearizable when its call stamps are pairwise
    different and there are an earlier model history [pre] and an order [l] of the recorded calls,
    each paired with a model operation and an oracle (the dequeues' choices), such that [l] is a
    permutation of the history, nobody is placed after a call that was issued after he had returned
    ([rt_ok]), and running the operations in that order on [Model/Queue.step] from the state after
    [pre] answers every call with what was recorded for it ([lin_run] / [matches]: same kind, same
    phase time, same lease ids / message ids, same items - id, lease id, attempt, lease_until - for a
    dequeue, same success flag for a single lease operation or a cancel).  On every such history
    the monitor reports nothing: no double lease, no repeated lease id, no message twice in one
    answer, no lease_until in the past, no attempt step other than +1. *)
Theorem C03_overlap_monitor_no_false_alarm : forall (fl : flavour) (c : cfg) (h : history),
  (NoDup (map h_call h) /\
   exists (pre : list (op * oracle)) (l : list (call * (op * oracle))),
     Permutation h (map fst l)
     /\ ForallOrdPairs (fun x y => ~ (h_ret y < h_call x)) (map fst l)
     /\ lin_run fl c (snd (run fl c init pre)) l) ->
  overlap_violation h = None.
Proof. exact overlap_monitor_no_false_alarm. Qed.

(** The same for a shard: any sub-list of candidate dequeues examined against the whole history. *)
Theorem C03_overlap_check_no_false_alarm : forall (fl : flavour) (c : cfg) (h : history),
  linearizable fl c h -> forall cands : history, incl cands h -> overlap_check h cands = None.
Proof. exact overlap_check_no_false_alarm. Qed.

(** The heart of it, at Prop level: in a linearization, if dequeue [a] handed message [m] out under
    lease [L] until [un], dequeue [b] was issued after [a] had returned and also returned [m], and
    [L] (with the extends that had returned before [b] was issued) was still unexpired at [b]'s phase
    time, then some call that a linearization may place between them was able to end that lease:
    a successful ack/nack/mark-dead of [L], a batch settlement naming [L], a cancel that named [m]
    and canceled something, a cancel by filter, or a dequeue / lease operation whose phase time had
    reached the (extended) lease end. *)
Theorem C03_double_lease_needs_a_release : forall fl c (l : list (call * (op * oracle))) s0 a b m L att un,
  Inv s0 -> rt_ok (map fst l) -> lin_run fl c s0 l ->
  In a (map fst l) -> In b (map fst l) ->
  h_kind a = HDeq -> In (m, L, att, un) (h_items a) ->
  returns m b = true -> hb a b = true ->
  h_now b < lease_end (map fst l) L un a b ->
  exists r, In r (map fst l) /\ may_be_between a b r = true /\ release_capable (map fst l) m L un a r = true.
Proof. exact double_lease_impossible. Qed.

(** Non-vacuity, both ways: a concurrent history (a nack issued and returned while the second
    dequeue was in flight) is linearizable and passes; the histories in which the second dequeue
    returned before anything could end the first lease make the monitor fire, hence are not
    linearizable. *)
Theorem C03_overlap_hypothesis_satisfiable :
  linearizable Mem OverlapExamples.cfg0 OverlapExamples.h_conc
  /\ overlap_violation OverlapExamples.h_conc = None.
Proof. exact (conj OverlapExamples.h_conc_linearizable OverlapExamples.h_conc_passes). Qed.

Theorem C03_overlap_monitor_fires :
  overlap_violation OverlapExamples.h_bad = Some (WDouble 3 5 7%N 1%N)
  /\ overlap_violation OverlapExamples.h_bad_late_nack = Some (WDouble 3 5 7%N 1%N)
  /\ forall fl c, ~ linearizable fl c OverlapExamples.h_bad.
Proof.
  exact (conj OverlapExamples.monitor_fires (conj OverlapExamples.monitor_fires_late_nack OverlapExamples.h_bad_not_linearizable)).
Qed.

Print Assumptions C03_overlap_monitor_no_false_alarm.
Print Assumptions C03_overlap_check_no_false_alarm.
Print Assumptions C03_double_lease_needs_a_release.
Print Assumptions C03_overlap_hypothesis_satisfiable.
Print Assumptions C03_overlap_monitor_fires.
