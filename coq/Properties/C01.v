(** C01 - an acknowledged message is durable: no loss after 202/200 (SQLite flavour).
    A Store method = the retention-prune micro-step followed by the method's core micro-step, each a
    committed transaction and each a [step] of the queue model; a timeline is any interleaving of the
    micro-steps of concurrently served requests; a crash cuts the timeline (a transaction that had not
    committed is cut away); [recovered tl k] is the queue found after restarting on the same database.
    The handler answers only after the last micro-step of its program has committed, so an
    acknowledgement received by a client implies that those micro-steps lie before the cut.
    Only theorem statements; proofs are [exact] of lemmas from Proofs/QueueCrash.v. *)
From Coq Require Import List ZArith NArith Bool.
From HK Require Import Model.Queue Model.QueueMon Proofs.QueueBase Proofs.QueueInv Proofs.QueueInvStep
  Proofs.QueueStep Proofs.QueueTrace Proofs.QueueCrash.
Import ListNotations.
Open Scope Z_scope.

(** the decomposition of a method into committed micro-steps refines the method *)
Theorem C01_method_is_prune_then_core : forall c s x o,
  prunes x = true -> snd (step Sql c s x o) <> RBadOracle ->
  step Sql c s x o = step Sql (no_prune c) (prune c (op_now x) (o_gone o) s) x o.
Proof. exact method_is_prune_then_core. Qed.

(** whatever the timeline and wherever the crash: the recovered queue stores every id once, every
    message whole and in exactly one coherent state, and is an ordinary reachable state - it opens
    and every later operation keeps the invariant *)
Theorem C01_recovered_well_formed : forall tl k, Inv (recovered tl k) /\ state_ok (msgs (recovered tl k)).
Proof. exact recovered_well_formed. Qed.

Theorem C01_recovered_continues : forall tl k more, Inv (after Sql (recovered tl k) more).
Proof. exact recovered_continues. Qed.

(** a restart never yields a message nobody sent: every recovered message is, field for field in
    its immutable part, the message of a successful enqueue micro-step that lies before the cut *)
Theorem C01_nothing_unsent : forall tl k m,
  In m (msgs (recovered tl k)) ->
  exists pre c x o post q, firstn k tl = pre ++ (c, x, o) :: post
    /\ enqueued_by c x o (snd (step Sql c (after Sql init pre) x o)) q /\ same_imm q m.
Proof. exact recovered_nothing_unsent. Qed.

(** a successful enqueue micro-step stores its messages ... *)
Theorem C01_successful_enqueue_stores : forall fl c s x o s' r q,
  Inv s -> step fl c s x o = (s', r) -> enqueued_by c x o r q -> enq_list x <> [] -> In q (msgs s').
Proof. exact successful_enqueue_stores. Qed.

(** ... and once that micro-step is before the cut, the message is in the recovered queue - unless a
    later micro-step before the cut removed it for a documented reason (its ack, a DLQ delete, a
    retention prune it was eligible for, a drop_oldest eviction by a stored message) *)
Theorem C01_acked_enqueue_durable : forall pre c x o post q k,
  let tl := pre ++ (c, x, o) :: post in
  enqueued_by c x o (snd (step Sql c (after Sql init pre) x o)) q ->
  In q (msgs (fst (step Sql c (after Sql init pre) x o))) ->
  (length pre < k)%nat ->
  (exists m, In m (msgs (recovered tl k)) /\ same_imm q m)
  \/ exists pre2 c2 x2 o2 rest2 m, firstn (k - S (length pre)) post = pre2 ++ (c2, x2, o2) :: rest2
       /\ same_imm q m /\ removal c2 x2 (snd (step Sql c2 (after Sql (fst (step Sql c (after Sql init pre) x o)) pre2) x2 o2)) m.
Proof. exact acked_enqueue_durable. Qed.

(** a committed message stays until legally removed - in particular acks, nacks and dead-letters that
    committed are not undone (the message keeps the state they gave it until a later legal change) *)
Theorem C01_committed_message_stays : forall fl s post q,
  Inv s -> In q (msgs s) ->
  (exists m, In m (msgs (after fl s post)) /\ same_imm q m)
  \/ exists pre c x o rest m, post = pre ++ (c, x, o) :: rest /\ In m (msgs (after fl s pre)) /\ same_imm q m
       /\ removal c x (snd (step fl c (after fl s pre) x o)) m.
Proof. exact committed_message_stays. Qed.

(** fan-out: the handler answers 202 only when every per-target enqueue micro-step succeeded, and
    then all of them have been executed (committed) - a cut inside the program means no 202 *)
Theorem C01_fanout_202_all_committed : forall fl s prog,
  fst (fanout_status fl s prog) = 202 ->
  snd (fanout_status fl s prog) = length prog
  /\ forall pre c x o post, prog = pre ++ (c, x, o) :: post -> res_ok (snd (step fl c (after fl s pre) x o)) = true.
Proof. exact fanout_202_all_committed. Qed.

Example C01_witness :
  let c := mkCfg 0 false 0 0 0 0 0 0 in
  let e := mkEnq None 1%N 0%N None None 5%N 0%N 0%N in
  let prog := fanout c 100 e [1%N; 2%N; 3%N] [11%N; 12%N; 13%N] in
  fanout_status Sql init prog = (202, 3%nat)
  /\ map m_target (msgs (recovered prog 2)) = [1%N; 2%N]       (* cut inside the program: two copies, no 202 *)
  /\ map m_target (msgs (recovered prog 3)) = [1%N; 2%N; 3%N].
Proof. vm_compute. repeat split. Qed.

Print Assumptions C01_method_is_prune_then_core.
Print Assumptions C01_recovered_well_formed.
Print Assumptions C01_nothing_unsent.
Print Assumptions C01_successful_enqueue_stores.
Print Assumptions C01_acked_enqueue_durable.
Print Assumptions C01_committed_message_stays.
Print Assumptions C01_fanout_202_all_committed.
