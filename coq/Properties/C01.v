(** C01 - placeholder, replaced below in this session. *)
From HK Require Import Model.Queue.
Theorem C01_placeholder : True. Proof. exact I. Qed.
