(** C07 - end-to-end payload and header fidelity.
    Only theorem statements, each closed by [exact] of a lemma from Proofs/. *)
From Coq Require Import List NArith ZArith Bool.
From HK Require Import Model.Queue Model.Headers Model.Base64 Model.Publish.
From HK Require Import Proofs.HeadersProofs Proofs.Base64Proofs Proofs.FidelityProofs Proofs.PublishProofs.
Import ListNotations.
Open Scope N_scope.

(** Go's CanonicalMIMEHeaderKey is idempotent (a stored key read back and stored again does not move). *)
Theorem C07_canon_key_idempotent : forall s, canon_key (canon_key s) = canon_key s.
Proof. exact canon_key_idempotent. Qed.

(** Authorization / Proxy-Authorization / Cookie received at ingress are never persisted, for
    EVERY header map (any keys, canonical or not, any spelling of the three names), every
    limit and every forward-auth extras: a stored key whose lower-case form is one of the
    three can only be a configured forward-auth copy_headers extra, carrying the auth
    service's value. *)
Theorem C07_stripped_never_stored : forall h max extra out k v,
  copy_headers h max extra = CopyOk out ->
  mget k out = Some v -> stripped k = true ->
  exists e, In e extra /\ snd e = v /\ canon_key (trim_space (fst e)) = k.
Proof. exact stripped_never_stored. Qed.

Theorem C07_stripped_never_stored_keys : forall h max out k,
  copy_headers h max [] = CopyOk out -> In k (map fst out) -> stripped k = false.
Proof. exact stripped_never_stored_keys. Qed.

(** every upper/lower-case spelling of the three names is recognised *)
Theorem C07_stripped_case_variants : forall k name,
  In name stripped_names -> lower k = name -> stripped k = true.
Proof. exact stripped_case_variant. Qed.

(** The stored header map for the header lines net/http accepted ([w], wire order). *)
Theorem C07_copy_headers_spec : forall w max extra out,
  copy_headers (group w) max extra = CopyOk out ->
  (forall n, stripped n = false -> extra_lookup (canon_key n) extra = None ->
     mget (canon_key n) out =
     match wire_values n w with [] => None | vs => Some (join_comma vs) end)
  /\ (forall k v, extra_lookup k extra = Some v -> mget k out = Some v)
  /\ (forall k, In k (map fst out) <->
        (exists n, In n (map fst w) /\ stripped n = false /\ canon_key n = k)
        \/ (exists e, In e extra /\ canon_key (trim_space (fst e)) = k /\ k <> []))
  /\ ((0 < max)%Z -> (kv_size out <= max)%Z).
Proof. exact copy_headers_spec. Qed.

Theorem C07_copy_headers_reject : forall h max extra, (0 < max)%Z ->
  (copy_headers h max extra = CopyReject <-> (max < kv_size (append_extras (copy_base h) extra))%Z).
Proof. exact copy_headers_reject. Qed.

(** base64 StdEncoding: decode after encode is the identity on every byte string (every
    length, i.e. every padding case); the encoder's output alphabet and length. *)
Theorem C07_b64_roundtrip : forall bs, Forall (fun c => c < 256) bs -> decode (encode bs) = Some bs.
Proof. exact b64_roundtrip. Qed.

Theorem C07_b64_alphabet : forall bs, Forall (fun c => c < 256) bs ->
  Forall (fun c => is_b64 c = true \/ c = pad) (encode bs) /\
  length (encode bs) = (4 * ((length bs + 2) / 3))%nat.
Proof. exact b64_alphabet. Qed.

Theorem C07_b64_encode_injective : forall a b,
  Forall (fun c => c < 256) a -> Forall (fun c => c < 256) b -> encode a = encode b -> a = b.
Proof. exact b64_encode_injective. Qed.

(** The queue keeps content: one step of any operation (both backends, any oracle) leaves
    every stored message's id / route / target / received_at / payload / headers / trace as
    they were, or the message was created by this very enqueue. *)
Theorem C07_step_content : forall fl c s x o m',
  In m' (msgs (fst (step fl c s x o))) ->
  (exists m, In m (msgs s) /\ same_content m m') \/ created x o m'.
Proof. exact step_content. Qed.

(** ... hence after any history (dequeue, nack and redelivery, lease expiry, requeue,
    restart ...) whatever is stored - and therefore whatever a dequeue or a listing hands
    out - carries the payload/header/trace of the enqueue that created it. *)
Theorem C07_payload_preserved : forall fl c xs evs sf,
  run fl c init xs = (evs, sf) ->
  forall m, In m (msgs sf) ->
  exists x o now es ies i e,
    In (x, o) xs /\ (x = EnqueueBatch now es \/ (exists e1, es = [e1] /\ x = Enqueue now e1)) /\
    assign_ids es (o_genids o) = Some ies /\ In (i, e) ies /\
    m_id m = i /\ m_body m = e_body e /\ m_hdr m = e_hdr e /\ m_trace m = e_trace e /\
    m_route m = e_route e /\ m_target m = e_target e.
Proof. exact payload_preserved. Qed.

(** publish path: the payload that is stored is the decoded payload_b64 of the item, the
    headers are the item's headers. *)
Theorem C07_publish_payload : forall hb hh x items es now e,
  Forall2 (accepted_global x) items es -> In e es ->
  shape_ok hb hh x now e (stored hb hh now e) /\
  exists it, In it items /\ payload_of (i_payload it) = Some (pe_payload e) /\ pe_headers e = i_headers it.
Proof. exact published_shape_global. Qed.

Print Assumptions C07_canon_key_idempotent.
Print Assumptions C07_stripped_never_stored.
Print Assumptions C07_stripped_never_stored_keys.
Print Assumptions C07_stripped_case_variants.
Print Assumptions C07_copy_headers_spec.
Print Assumptions C07_copy_headers_reject.
Print Assumptions C07_b64_roundtrip.
Print Assumptions C07_b64_alphabet.
Print Assumptions C07_b64_encode_injective.
Print Assumptions C07_step_content.
Print Assumptions C07_payload_preserved.
Print Assumptions C07_publish_payload.
