(** C14 - operator queue mutations touch exactly what they name.
    Only theorem statements; proofs are [exact] of lemmas from Proofs/. *)
From Coq Require Import List ZArith NArith Bool Sorted Permutation.
From HK Require Import Model.Queue Model.QueueMon Proofs.QueueBase Proofs.QueueInv Proofs.QueueInvStep
  Proofs.QueueStep Proofs.QueueManage Proofs.QueueMonSound.
Import ListNotations.
Open Scope Z_scope.

(** by ids (cancel / requeue / resume / DLQ requeue / DLQ delete): exactly the named messages that are in
    a state the operation is defined for change, exactly as the operation defines (deleted for DLQ
    delete); every other message is identical afterwards; nothing appears; the count is the number selected *)
Theorem C14_by_ids_exact : forall now k idl s s' r,
  Inv s -> step_manage now k idl s = (s', r) ->
  let nids := norm_ids idl [] in
  let sel m := memN (m_id m) nids && allowed_from k (m_st m) in
  (forall m, In m (msgs s) -> find_id (m_id m) (msgs s') = if sel m then manage_effect now k m else Some m)
  /\ incl (ids (msgs s')) (ids (msgs s))
  /\ exists n matched, r = RCount n matched false /\ n = Z.of_nat (length (filter sel (msgs s))).
Proof. exact manage_by_ids_exact. Qed.

(** the allowed-state sets are the documented ones *)
Theorem C14_allowed_states : forall k st,
  allowed_from k st = true <->
  match k with
  | MCancel => st = Queued \/ st = Leased \/ st = Dead
  | MRequeue => st = Dead \/ st = Canceled
  | MResume => st = Canceled
  | MRequeueDead | MDeleteDead => st = Dead
  end.
Proof.
  intros k st. destruct k; destruct st; simpl; split; intros H; try reflexivity; try discriminate; auto;
    repeat (destruct H as [H | H]); try discriminate; try reflexivity; auto.
Qed.

(** reported counts equal the number of messages actually changed *)
Theorem C14_count_is_changed : forall now k idl s s' n matched,
  Inv s -> step_manage now k idl s = (s', RCount n matched false) ->
  n = Z.of_nat (length (filter (fun m => negb (opt_msg_eqb (find_id (m_id m) (msgs s')) (Some m))) (msgs s))).
Proof. exact manage_count_is_changed. Qed.

(** cancelling a leased message voids its lease *)
Theorem C14_cancel_voids_lease : forall now idl s s' r m l,
  Inv s -> step_manage now MCancel idl s = (s', r) -> In m (msgs s) -> m_lease m = Some l ->
  In (m_id m) (norm_ids idl []) -> current now l (msgs s') = None.
Proof. exact cancel_voids_lease. Qed.

(** by filter: the selection is a newest-first (received_at, then id, descending) prefix of at most
    limit (default 100, max 1000) of exactly the messages matching every given criterion from an
    allowed state; a state criterion outside the allowed set selects nothing *)
Theorem C14_filter_selection : forall k f l,
  let cand := filter (fun m => filt_match f m && allowed_from k (m_st m)) l in
  let sorted := sort_by m_recv false cand in
  (match f_state f with Some x => allowed_from k x | None => true end = true ->
     filter_select k f l = map m_id (firstn (Z.to_nat (eff_limit (f_limit f))) sorted))
  /\ (match f_state f with Some x => allowed_from k x | None => true end = false -> filter_select k f l = [])
  /\ Sorted desc_le sorted /\ Permutation cand sorted
  /\ (Z.of_nat (length (filter_select k f l)) <= eff_limit (f_limit f))
  /\ (forall i, In i (filter_select k f l) -> exists m, In m l /\ m_id m = i /\ filt_match f m = true /\ allowed_from k (m_st m) = true).
Proof. exact filter_select_spec. Qed.

Theorem C14_limit_normalisation : forall lim, 1 <= eff_limit lim <= 1000 /\ (lim <= 0 -> eff_limit lim = 100) /\ (1 <= lim <= 1000 -> eff_limit lim = lim).
Proof.
  intros lim. split; [exact (eff_limit_range lim)|]. unfold eff_limit, Gen.Consts.mem_list_limit_default, Gen.Consts.mem_list_limit_cap. split.
  - intros H. apply Z.leb_le in H. rewrite H. reflexivity.
  - intros [H1 H2]. assert (E1 : (lim <=? 0) = false) by (apply Z.leb_gt; Lia.lia). rewrite E1.
    assert (E2 : (1000 <? lim) = false) by (apply Z.ltb_ge; Lia.lia). rewrite E2. reflexivity.
Qed.

(** by filter: preview changes nothing and reports the count; a real run changes exactly the selection *)
Theorem C14_by_filter_exact : forall now k f s s' r,
  Inv s -> step_manage_f now k f s = (s', r) ->
  let idl := filter_select k f (msgs s) in
  let matched := Z.of_nat (length idl) in
  if f_preview f then s' = s /\ r = RCount 0 matched true
  else
    (forall m, In m (msgs s) ->
       find_id (m_id m) (msgs s') = if memN (m_id m) idl && allowed_from k (m_st m) then manage_effect now k m else Some m)
    /\ incl (ids (msgs s')) (ids (msgs s))
    /\ r = RCount (Z.of_nat (length (selected k idl (msgs s)))) matched false.
Proof. exact manage_by_filter_exact. Qed.

(** preview_only reports the count a real run on the same queue would match, and a real run changes
    exactly as many messages as it matched *)
Theorem C14_preview_equals_real : forall now k f s,
  let fp := mkFilt (f_route f) (f_target f) (f_state f) (f_limit f) (f_before f) true in
  let fr := mkFilt (f_route f) (f_target f) (f_state f) (f_limit f) (f_before f) false in
  exists a b n, snd (step_manage_f now k fp s) = RCount a n true /\ snd (step_manage_f now k fr s) = RCount b n false
                /\ fst (step_manage_f now k fp s) = s.
Proof. exact preview_equals_real. Qed.

Theorem C14_filter_changed_equals_matched : forall now k f s,
  Inv s -> f_preview f = false -> exists n, snd (step_manage_f now k f s) = RCount n n false.
Proof. exact filter_count_is_matched. Qed.

(** The executable monitor P_C14 that the check evaluates on implementation traces is implied by these
    theorems: it holds on every trace of the model (so it never raises an alarm where the property holds),
    over the operations the Store interface has (there is no by-filter DLQ operation). *)
Theorem C14_monitor_holds_on_model : forall fl c xs,
  Forall (fun xo : op * oracle => store_op (fst xo)) xs -> P_C14 fl c (model_trace fl c xs) = true.
Proof. exact P_C14_holds_on_model. Qed.

Example C14_witness :
  let e i t := mkEnq (Some i) 1%N 1%N (Some t) None 5%N 0%N 0%N in
  let o0 := mkOracle [] [] [] [] in
  map (fun ev => (ev_res ev, map (fun m => (m_id m, m_st m)) (ev_after ev)))
      (model_trace Mem (mkCfg 0 false 0 0 0 0 0 0)
         [(Enqueue 100 (e 1%N 50), o0); (Enqueue 100 (e 2%N 50), o0); (Enqueue 100 (e 3%N 60), o0);
          (ManageF 200 MCancel (mkFilt None None (Some Queued) 2 None false), o0)])
  = [(RUnit, [(1%N, Queued)]); (RUnit, [(1%N, Queued); (2%N, Queued)]); (RUnit, [(1%N, Queued); (2%N, Queued); (3%N, Queued)]);
     (RCount 2 2 false, [(1%N, Queued); (2%N, Canceled); (3%N, Canceled)])].   (* newest first: 3, then the tie 2 before 1 *)
Proof. vm_compute. reflexivity. Qed.

Print Assumptions C14_by_ids_exact.
Print Assumptions C14_count_is_changed.
Print Assumptions C14_cancel_voids_lease.
Print Assumptions C14_filter_selection.
Print Assumptions C14_by_filter_exact.
Print Assumptions C14_preview_equals_real.
Print Assumptions C14_filter_changed_equals_matched.
Print Assumptions C14_monitor_holds_on_model.
