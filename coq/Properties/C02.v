(** C02 - message conservation and legal state transitions.
    Only theorem statements; every proof is [exact] of a lemma from Proofs/.
    Vocabulary (Proofs/QueueStep.v): [change c x r m m'] is the documented state machine per
    operation (same / expired lease released / dequeued / settled by its current unexpired lease /
    operator mutation from an allowed state); [removal c x r m] the documented removals (ack
    without delivered-retention, DLQ delete of a dead message, retention prune of a message that is
    not leased, drop_oldest eviction of a queued message by a successful enqueue);
    [step_spec c x o r l l'] says l' is l with every message changed or removed that way, plus the
    messages of a successful enqueue. *)
From Coq Require Import List ZArith NArith Bool.
From HK Require Import Model.Queue Model.QueueMon Proofs.QueueBase Proofs.QueueInv Proofs.QueueInvStep
  Proofs.QueueStep Proofs.QueueTrace Proofs.QueueMonC02.
Import ListNotations.
Open Scope Z_scope.

(** Every state reachable by any history, on either backend flavour, under any configuration and
    any (validated) choices of the store: each id is stored exactly once, each message is in
    exactly one state and carries a lease iff that state is leased, no lease id is shared. *)
Theorem C02_exactly_once_one_state : forall fl c xs,
  let s := snd (run fl c init xs) in
  NoDup (ids (msgs s)) /\ (forall m, In m (msgs s) -> coherent m = true) /\ lease_inj (msgs s).
Proof. intros fl c xs. exact (inv_state_ok _ (reachable_inv fl c xs)). Qed.

(** Every event of every history obeys the step specification (and chains with the next one). *)
Theorem C02_every_step_legal : forall fl c xs, Forall (event_sound c) (model_trace fl c xs).
Proof. exact trace_sound. Qed.

Theorem C02_events_chained : forall fl c xs i e1 e2,
  nth_error (model_trace fl c xs) i = Some e1 -> nth_error (model_trace fl c xs) (S i) = Some e2 ->
  ev_after e1 = ev_before e2.
Proof. intros fl c xs. exact (proj2 (run_chained fl c init xs)). Qed.

(** What a legal change is: id, route, target, received_at, payload, headers, trace untouched, and
    the state moves along the documented machine for that kind of operation. *)
Theorem C02_change_keeps_identity_and_follows_machine : forall c x r m m',
  change c x r m m' -> same_imm m m' /\ edge_ok x (m_st m) (m_st m').
Proof. intros c x r m m' H. split; [exact (change_same_imm c x r m m' H) | exact (change_edge c x r m m' H)]. Qed.

(** Nothing is invented, duplicated or revived: a message stored after a step descends from a stored
    message with the same identity, or is one of the messages of a successful enqueue, verbatim. *)
Theorem C02_origin_of_every_message : forall fl c s x o s' r m',
  Inv s -> step fl c s x o = (s', r) -> In m' (msgs s') ->
  (exists m, In m (msgs s) /\ same_imm m m' /\ edge_ok x (m_st m) (m_st m'))
  \/ (res_ok r = true /\ exists ies p, assign_ids (enq_list x) (o_genids o) = Some ies /\ In p ies
                                       /\ m' = mk_msg (op_now x) (fst p) (snd p)).
Proof.
  intros fl c s x o s' r m' I H. exact (spec_origin c x o r (msgs s) (msgs s') m' (step_sound fl c s x o s' r I H)).
Qed.

(** Every stored message either survives (changed legally) or has a documented removal reason. *)
Theorem C02_fate_of_every_message : forall fl c s x o s' r m,
  Inv s -> step fl c s x o = (s', r) -> In m (msgs s) ->
  (exists m', In m' (msgs s') /\ change c x r m m') \/ removal c x r m.
Proof.
  intros fl c s x o s' r m I H. exact (spec_fate c x o r (msgs s) (msgs s') m (inv_nodup _ _ I) (step_sound fl c s x o s' r I H)).
Qed.

(** A message holding an unexpired-or-not lease is never pruned, evicted or deleted: a leased
    message disappears only through the ack of its own current, unexpired lease. *)
Theorem C02_leased_removed_only_by_its_ack : forall c x r m,
  removal c x r m -> is_leased m = true ->
  lease_op_kind x = Some KAck /\ exists lid, m_lease m = Some lid /\ In lid (presented x) /\ op_now x < m_until m.
Proof. exact removal_of_live_lease. Qed.

(** An operation that reports an error changes nothing beyond releasing leases that had already
    expired (and the interval-gated retention prune every store call may trigger). *)
Theorem C02_error_changes_nothing : forall fl c s x o s' e,
  Inv s -> step fl c s x o = (s', RErr e) ->
  exists pm, msgs s' = apply_pm pm (msgs s) /\
    forall m, In m (msgs s) ->
      pm m = Some m
      \/ (pm m = Some (release (op_now x) m) /\ expired (op_now x) m = true /\ releases x = true)
      \/ (pm m = None /\ prunes x = true /\ prune_reason c (op_now x) m).
Proof.
  intros fl c s x o s' e I H. exact (spec_error_frame c x o e (msgs s) (msgs s') (step_sound fl c s x o s' (RErr e) I H)).
Qed.

(** non-vacuity: a concrete history walks queued -> leased -> queued (nack) -> leased -> dead -> queued (requeue) *)
Example C02_witness :
  let e := mkEnq (Some 7%N) 1%N 1%N None None 5%N 0%N 0%N in
  let o0 := mkOracle [] [] [] [] in
  map (fun ev => map m_st (ev_after ev))
      (model_trace Sql (mkCfg 0 false 0 0 0 0 0 0)
         [(Enqueue 100 e, o0);
          (Dequeue 200 None None 1 1000, mkOracle [(7%N, 1%N)] [] [] []);
          (LeaseOp 300 (KNack 50) (LKnown 1%N false), o0);
          (Dequeue 400 None None 1 1000, mkOracle [(7%N, 2%N)] [] [] []);
          (LeaseOp 500 (KDead 1%N) (LKnown 2%N false), o0);
          (Manage 600 MRequeueDead [RPlain 7%N], o0)])
  = [[Queued]; [Leased]; [Queued]; [Leased]; [Dead]; [Queued]].
Proof. vm_compute. reflexivity. Qed.

(** The executable monitor [P_C02] - the predicate the correspondence check evaluates on every trace
    observed on the Go stores - holds on every trace of the model, for both flavours, every
    configuration, every operation list and every oracle, provided no successful enqueue re-uses the
    id of a message that was stored when it started ([fresh_enqueue]: ids + immutable fields are how
    the monitor recognises a message, so a replaced message would be judged as a changed one).
    So the monitor demands nothing the model does not deliver: it cannot raise an alarm on code whose
    behaviour the model reproduces. *)
Theorem C02_monitor_holds_on_every_model_trace : forall fl c xs,
  Forall fresh_enqueue (model_trace fl c xs) -> P_C02 fl c (model_trace fl c xs) = true.
Proof. exact P_C02_holds_on_model. Qed.

(** per event: conservation, coherence, legal change or documented removal of every stored message,
    every inserted message is one the operation enqueued, evictions only with a stored enqueue *)
Theorem C02_monitor_holds_on_every_step : forall fl c s x o s' r,
  Inv s -> step fl c s x o = (s', r) -> fresh_enqueue (mkEvent x o r (msgs s) (msgs s')) ->
  c02_event c (mkEvent x o r (msgs s) (msgs s')) = true.
Proof. exact c02_event_holds. Qed.

(** non-vacuity: a history with a drop_oldest eviction, a DLQ-depth prune, an ack removal and a
    DLQ delete meets the premise at every event (and the monitor is then true by the theorem) *)
Example C02_monitor_premise_met :
  let e i := mkEnq (Some i) 1%N 1%N None None 5%N 0%N 0%N in
  let o0 := mkOracle [] [] [] [] in
  let tr := model_trace Mem (mkCfg 2 true 0 1 0 0 1 0)
         [(Enqueue 100 (e 1%N), o0); (Enqueue 101 (e 2%N), o0);
          (Enqueue 102 (e 3%N), mkOracle [] [1%N] [] []);                    (* evicts 1 *)
          (Dequeue 200 None None 2 1000, mkOracle [(2%N, 11%N); (3%N, 12%N)] [] [] []);
          (LeaseOp 300 (KDead 1%N) (LKnown 11%N false), o0);
          (LeaseOp 301 (KDead 1%N) (LKnown 12%N false), o0);
          (Stats 400, mkOracle [] [2%N] [] []);                              (* DLQ depth 1: prunes 2 *)
          (Enqueue 401 (e 4%N), o0);
          (Dequeue 500 None None 1 1000, mkOracle [(4%N, 13%N)] [] [] []);
          (LeaseOp 501 KAck (LKnown 13%N false), o0);                         (* ack removes 4 *)
          (Manage 600 MDeleteDead [RPlain 3%N], o0)] in
  (forallb fresh_enqueueb tr, map (fun ev => map m_id (ev_after ev)) tr, P_C02 Mem (mkCfg 2 true 0 1 0 0 1 0) tr)
  = (true, [[1]; [1; 2]; [2; 3]; [2; 3]; [2; 3]; [2; 3]; [3]; [3; 4]; [3; 4]; [3]; []]%N, true).
Proof. vm_compute. reflexivity. Qed.

Print Assumptions C02_exactly_once_one_state.
Print Assumptions C02_every_step_legal.
Print Assumptions C02_events_chained.
Print Assumptions C02_change_keeps_identity_and_follows_machine.
Print Assumptions C02_origin_of_every_message.
Print Assumptions C02_fate_of_every_message.
Print Assumptions C02_leased_removed_only_by_its_ack.
Print Assumptions C02_error_changes_nothing.
Print Assumptions C02_monitor_holds_on_every_model_trace.
Print Assumptions C02_monitor_holds_on_every_step.
