(** C02 / C14 - the state machine, tied to the Go sources by translation.
    Gen/Transitions.v is regenerated on every run by translate/transitions.go from
    internal/queue/memory.go, sqlite.go and postgres.go (Go state checks and SQL WHERE / SET clauses):
    one row per place that writes the state of a stored message - operation, accepted source states,
    target state (or deletion), lifecycle columns written.  Vocabulary: Model/TransTable.v.
    Only theorem statements here; every proof is [exact] of a lemma of Proofs/TransitionsProofs.v.
    A change of a guard, a target or a written column in any of the three stores changes the
    generated tables and one of these theorems stops checking. *)
From Coq Require Import List ZArith NArith Bool.
From HK Require Import Model.Queue Model.QueueMon Model.TransTable Gen.Transitions Proofs.QueueBase Proofs.QueueStep
  Proofs.TransitionsProofs.
Import ListNotations.
Open Scope Z_scope.

(** the translator understood every state-writing statement of the three files *)
Theorem C02trans_extraction_complete : extraction_ok = true.
Proof. exact extraction_succeeded. Qed.

(** memory store: every row accepts exactly the states the model's operation accepts
    ([queuedb], [is_leased], [allowed_from]) and does to an accepted message exactly what the model
    does ([pm_lease], [release], [lease_effect], [manage_effect]) - for all messages, times,
    configurations; its age rules together are [prune_age_eligible]; every operation has its row *)
Theorem C02trans_memory_matches_model :
  Forall row_sound memory_table /\ prune_rules_exact memory_table /\ covers true memory_table = true.
Proof. exact (conj memory_rows_sound (conj memory_prune_exact memory_covers)). Qed.

Theorem C02trans_sqlite_matches_model :
  Forall row_sound sqlite_table /\ prune_rules_exact sqlite_table /\ covers true sqlite_table = true.
Proof. exact (conj sqlite_rows_sound (conj sqlite_prune_exact sqlite_covers)). Qed.

(** memory and SQLite have the same table, row for row *)
Theorem C02trans_sqlite_matches_memory : same_table memory_table sqlite_table = true.
Proof. exact sqlite_same_as_memory. Qed.

(** Postgres (not executable in the sandbox - this is its only tie): same machine as SQLite, and the
    tables differ exactly in the listed rows (dequeue also clears dead_reason; age rules compare
    received_at strictly; no batch enqueue) *)
Theorem C02trans_postgres_matches_sqlite :
  same_table (only_in (live postgres_table) sqlite_table) postgres_only = true
  /\ same_table (only_in sqlite_table (live postgres_table)) sqlite_not_postgres = true
  /\ same_edges postgres_table sqlite_table = true.
Proof. exact postgres_vs_sqlite. Qed.

(** every other Postgres row is sound for the model as it stands; so is its dequeue row on messages
    with an empty dead_reason; its queued / dead age rules delete only what the model's rules delete *)
Theorem C02trans_postgres_matches_model :
  Forall row_sound (filter (fun r => negb (has_row r postgres_only)) postgres_table)
  /\ covers false postgres_table = true
  /\ (forall r, In r postgres_table -> t_op r = TDequeue ->
        (forall m, accepts r m = queuedb m) /\
        forall now ttl picked lid m, accepts r m = true -> m_reason m = 0%N -> lease_of picked (m_id m) = Some lid ->
          row_effect (mkWenv now 0 ttl 0 lid 0%N) r m = Some (pm_lease now ttl picked m))
  /\ (forall r, In r postgres_table ->
        match t_op r with
        | TPruneAge k ColRecv _ =>
            k <> KDelivAge -> forall c now m, prune_row_hits c now r m = true -> prune_age_eligible c now m = true
        | _ => True
        end).
Proof. exact (conj postgres_rows_sound (conj postgres_covers (conj postgres_dequeue_row postgres_age_rules_within_model))). Qed.

(** the divergence of Postgres' delivered-retention rule, by a concrete message (reported) *)
Theorem C02trans_postgres_delivered_retention_differs :
  let c := mkCfg 0 false 0 1 10 0 0 0 in
  let m := mkMsg 1%N 1%N 1%N Delivered 0 1 100 5%N 0%N 0%N 0%N None 0 in
  existsb (fun r => prune_row_hits c 100 r m) postgres_table = true
  /\ existsb (fun r => prune_row_hits c 100 r m) sqlite_table = false
  /\ existsb (fun r => prune_row_hits c 100 r m) memory_table = false
  /\ prune_age_eligible c 100 m = false.
Proof. exact postgres_delivered_retention_differs. Qed.

(** every extracted write of the state column, in all three stores, is an edge of the documented
    machine: queued->leased (dequeue); leased->queued (nack, expiry); leased->delivered|removed (ack);
    leased->dead; extend keeps leased; queued|leased|dead->canceled; dead|canceled->queued (requeue);
    canceled->queued (resume); dead->queued|removed (DLQ); prune removes queued|delivered|dead;
    drop_oldest removes queued *)
Theorem C02trans_no_other_transition :
  forall r, In r (memory_table ++ sqlite_table ++ postgres_table) ->
  forall s, st_mem s (t_from r) = true -> documented (opclass_of (t_op r)) s (t_to r) = true.
Proof. exact no_other_transition. Qed.

(** ... which lies inside the machine [edge_ok] of the C02 theorems about Model/Queue.v *)
Theorem C02trans_edges_within_model_machine :
  forall r, In r (memory_table ++ sqlite_table ++ postgres_table) ->
  forall s s' x, st_mem s (t_from r) = true -> t_to r = TSt s' ->
    op_in_class x (opclass_of (t_op r)) -> edge_ok x s s'.
Proof. exact table_edges_within_model_machine. Qed.

(** retention and drop_oldest never take a leased (or canceled) message *)
Theorem C02trans_removal_spares_leased :
  forall r, In r (memory_table ++ sqlite_table ++ postgres_table) ->
    match opclass_of (t_op r) with
    | OcPrune | OcEvict => st_mem Leased (t_from r) = false /\ st_mem Canceled (t_from r) = false /\ t_to r = TDeleted
    | _ => True
    end.
Proof. exact removal_rows_spare_leased. Qed.

(** a message is deleted only by ack without delivered-retention, DLQ delete, prune, drop_oldest *)
Theorem C02trans_deletions_are_documented :
  forall r, In r (memory_table ++ sqlite_table ++ postgres_table) -> t_to r = TDeleted ->
    match opclass_of (t_op r) with
    | OcAck => t_cond r = CRetention false
    | OcManage MDeleteDead | OcPrune | OcEvict => True
    | _ => False
    end.
Proof. exact deletions_are. Qed.

(** "carries a lease iff leased", column-wise: a row producing [Leased] writes a fresh lease id, the
    new deadline and attempt+1; a row producing another state clears lease id and deadline and leaves
    attempt alone; a row keeping the state (extend) touches neither lease id, attempt nor reason *)
Theorem C02trans_lease_columns_follow_state :
  forallb lease_discipline (memory_table ++ sqlite_table ++ postgres_table) = true.
Proof. exact lease_discipline_all. Qed.

(** whatever a row does, id, route, target, received_at, payload, headers, trace stay (the translator
    refuses any statement that writes another column of a stored message) *)
Theorem C02trans_rows_keep_identity :
  forall e r m m', row_effect e r m = Some (Some m') -> same_imm m m'.
Proof. exact row_effect_keeps_identity. Qed.

(** non-vacuity *)
Example C02trans_table_sizes :
  (length memory_table, length sqlite_table, length postgres_table) = (32, 32, 32)%nat.
Proof. vm_compute. reflexivity. Qed.

Example C02trans_cancel_row_on_a_leased_message :
  let m := mkMsg 7%N 1%N 1%N Leased 10 2 500 5%N 0%N 0%N 0%N (Some 3%N) 500 in
  map (fun r => row_effect (mkWenv 100 0 0 0 0%N 0%N) r m)
      (filter (fun r => top_eqb (t_op r) (TManage MCancel false)) sqlite_table)
  = [Some (Some (mkMsg 7%N 1%N 1%N Canceled 10 2 100 5%N 0%N 0%N 0%N None 0))]
  /\ manage_effect 100 MCancel m = Some (mkMsg 7%N 1%N 1%N Canceled 10 2 100 5%N 0%N 0%N 0%N None 0).
Proof. vm_compute. split; reflexivity. Qed.

Example C02trans_delivered_is_terminal_but_for_pruning :
  filter (fun r => st_mem Delivered (t_from r)) memory_table
  = [mkTrans (TPruneAge KDelivAge ColNext false) CAlways [Delivered] TDeleted []].
Proof. vm_compute. reflexivity. Qed.

Print Assumptions C02trans_extraction_complete.
Print Assumptions C02trans_memory_matches_model.
Print Assumptions C02trans_sqlite_matches_model.
Print Assumptions C02trans_sqlite_matches_memory.
Print Assumptions C02trans_postgres_matches_sqlite.
Print Assumptions C02trans_postgres_matches_model.
Print Assumptions C02trans_postgres_delivered_retention_differs.
Print Assumptions C02trans_no_other_transition.
Print Assumptions C02trans_edges_within_model_machine.
Print Assumptions C02trans_removal_spares_leased.
Print Assumptions C02trans_deletions_are_documented.
Print Assumptions C02trans_lease_columns_follow_state.
Print Assumptions C02trans_rows_keep_identity.
