(** C16 — the egress policy is enforced on every delivery and on every redirect hop.
    Only theorem statements, each closed by [exact] of a lemma from Proofs/.

    Model: Model/Egress.v (checkEgressPolicyURL, matchEgressRules, matchHostRule, the hop loop
    of HTTPDeliverer.Deliver/checkRedirect, classifyDelivery), Model/IpClass.v (Go's net.IP class
    predicates, isAllowedIP, netip.Prefix.Contains).  Spec: Model/IpSpec.v (the address classes
    as RFC ranges, IPv4-mapped addresses classified by the IPv4 address they embed).
    All statements quantify over every policy, every hop (scheme/host strings, resolver answer,
    literal) and every redirect chain; nothing is bounded. *)
From Coq Require Import String Ascii List Bool NArith ZArith Arith.
From HK Require Import Model.StrUtil Model.IpClass Model.IpSpec Model.Egress Proofs.IpClassProofs Proofs.EgressProofs.
Import ListNotations.
Local Open Scope string_scope.

(** With dns_rebind_protection an allowed hop resolved to at least one address and none of the
    addresses it resolved to - the literal, or every non-nil resolver answer - is loopback,
    private, link-local, multicast or unspecified, for IPv4, IPv6 and IPv4-mapped forms. *)
Theorem C16_rebind_safe : forall p u,
  p_rebind p = true -> check p u = Allow ->
  resolved_addrs u <> [] /\
  forall i, In i (resolved_addrs u) ->
    ~ spec_loopback i /\ ~ spec_private i /\ ~ spec_link_local i /\ ~ spec_multicast i /\ ~ spec_unspecified i.
Proof. exact rebind_safe. Qed.

(** isAllowedIP exactly: a 4- or 16-byte address outside the five classes that is not 255.255.255.255. *)
Theorem C16_allowed_ip_exact : forall i,
  is_allowed_ip i = true <->
  ip_fam i <> FBad /\ ~ spec_loopback i /\ ~ spec_private i /\ ~ spec_link_local i /\
  ~ spec_multicast i /\ ~ spec_unspecified i /\ ~ spec_broadcast i.
Proof. exact is_allowed_ip_spec. Qed.

(** Go's byte tests coincide with the RFC ranges, class by class (all values, no side condition). *)
Theorem C16_classes_are_rfc_ranges : forall i,
  (is_loopback i = true <-> spec_loopback i) /\ (is_private i = true <-> spec_private i) /\
  (is_ll_unicast i = true <-> spec_link_local i) /\ (is_multicast i = true <-> spec_multicast i) /\
  (is_unspecified i = true <-> spec_unspecified i).
Proof. exact classes_are_rfc_ranges. Qed.

(** Deny rules win: a hop whose host or one of whose addresses matches a deny rule is never allowed,
    whatever the allow list says. *)
Theorem C16_deny_wins : forall p u,
  match_rules (norm_host (h_hostname u)) (ips_seen p u) (p_deny p) = true -> check p u <> Allow.
Proof. exact deny_wins. Qed.

(** A non-empty allowlist is closed: an allowed hop matches one of its rules. *)
Theorem C16_allowlist_closed : forall p u,
  p_allow p <> [] -> check p u = Allow ->
  match_rules (norm_host (h_hostname u)) (ips_seen p u) (p_allow p) = true.
Proof. exact allowlist_closed. Qed.

(** What "matches" means: some rule; an IP/CIDR rule through one of the addresses, a host rule through the host. *)
Theorem C16_match_rules_spec : forall host ips rs,
  match_rules host ips rs = true <->
  exists r, In r rs /\
    if r_is_cidr r then exists i, In i ips /\ cidr_hit (r_px r) i = true
    else match_host host r = true.
Proof. exact match_rules_full_spec. Qed.

(** An IP/CIDR rule hits an address iff the address it denotes (mapped = embedded IPv4) lies in
    the rule's block: same family, same leading [bits] bits. *)
Theorem C16_cidr_hit_spec : forall px i,
  cidr_hit px i = true <->
  match px_fam px, denotes i with
  | F4, A4 v => spec_in_block 32 (px_bits px) (px_addr px) v
  | F6, A6 w => spec_in_block 128 (px_bits px) (px_addr px) w
  | _, _ => False
  end.
Proof. exact cidr_hit_spec. Qed.

(** When any IP/CIDR rule exists (or rebind protection is on) the rules see every resolved address. *)
Theorem C16_cidr_rules_see_addresses : forall p u r,
  (In r (p_allow p) \/ In r (p_deny p)) -> r_is_cidr r = true -> ips_seen p u = resolved_addrs u.
Proof. exact cidr_rules_see_addresses. Qed.

(** "*.domain" matches proper sub-domains only: the host must end in "." ++ domain ... *)
Theorem C16_wildcard_subdomains_only : forall h r,
  r_sub r = true -> r_host r <> "" -> r_host r <> "*" ->
  (match_host h r = true <-> exists label, h = label ++ "." ++ r_host r).
Proof. exact match_host_wildcard. Qed.

(** ... in particular never the domain itself; *)
Theorem C16_wildcard_excludes_apex : forall d, d <> "*" -> match_host d (host_rule d true) = false.
Proof. exact apex_not_matched. Qed.

(** an exact rule matches exactly its host; "*" matches every (non-empty) host. *)
Theorem C16_exact_host : forall h r,
  r_sub r = false -> r_host r <> "*" -> (match_host h r = true <-> h = r_host r /\ h <> "").
Proof. exact match_host_exact. Qed.

Theorem C16_star_matches_all : forall h r, r_host r = "*" -> h <> "" -> match_host h r = true.
Proof. exact star_matches_all. Qed.

(** Only http and https (any letter case); https only when https_only; never an empty host. *)
Theorem C16_scheme_closed : forall p u, check p u = Allow ->
  to_lower (h_scheme u) = "http" \/ to_lower (h_scheme u) = "https".
Proof. exact scheme_closed. Qed.

Theorem C16_https_only_closed : forall p u,
  p_https_only p = true -> check p u = Allow -> to_lower (h_scheme u) = "https".
Proof. exact https_only_closed. Qed.

(** The complete characterisation of "allowed" (nothing else lets a hop through, nothing else stops it). *)
Theorem C16_check_exact : forall p u,
  check p u = Allow <->
  scheme_ok (h_scheme u) = true /\
  (p_https_only p = true -> to_lower (h_scheme u) = "https") /\
  norm_host (h_hostname u) <> "" /\
  (need_ips p = true -> resolved_addrs u <> []) /\
  (p_rebind p = true -> forall i, In i (resolved_addrs u) -> is_allowed_ip i = true) /\
  match_rules (norm_host (h_hostname u)) (ips_seen p u) (p_deny p) = false /\
  (p_allow p <> [] -> match_rules (norm_host (h_hostname u)) (ips_seen p u) (p_allow p) = true).
Proof. exact check_allow_iff. Qed.

(** A request is sent to hop [i] of an arbitrary redirect chain only if hop [i] and every hop
    before it passed the policy check (so nothing is ever sent to, or past, a refused hop). *)
Theorem C16_no_send_when_denied : forall p chain i h,
  nth_error (fst (deliver p chain)) i = Some h ->
  nth_error chain i = Some h /\
  forall j, j <= i -> exists hj, nth_error chain j = Some hj /\ check p hj = Allow.
Proof. exact no_send_when_denied. Qed.

(** Exactly: the requests sent are the longest all-allowed prefix of the chain, cut after one
    request when redirects are off and after ten when they are on. *)
Theorem C16_sent_exact : forall p chain,
  fst (deliver p chain) = firstn (if p_redirects p then 10 else 1) (take_while (allowed p) chain).
Proof. exact deliver_sent. Qed.

(** Redirects are not followed unless enabled: at most the target itself is contacted. *)
Theorem C16_redirects_off : forall p chain, p_redirects p = false ->
  length (fst (deliver p chain)) <= 1 /\ forall i, 1 <= i -> nth_error (fst (deliver p chain)) i = None.
Proof. exact redirects_off. Qed.

Theorem C16_hop_limit : forall p chain, length (fst (deliver p chain)) <= 10.
Proof. exact hop_limit. Qed.

(** A refusal reported by the deliverer names the first hop that is not allowed; that hop was not contacted. *)
Theorem C16_refusal_is_first_bad_hop : forall p chain v,
  snd (deliver p chain) = OStopped v ->
  v <> Allow /\ exists h, nth_error chain (length (fst (deliver p chain))) = Some h /\ check p h = v.
Proof. exact deliver_stopped. Qed.

(** A refused target: no request at all, and the dispatcher dead-letters it as policy_denied at
    once - for every attempt number and every retry budget - and for nothing but a policy denial. *)
Theorem C16_denied_target_sends_nothing : forall p h0 rest why,
  check p h0 = Deny why -> deliver p (h0 :: rest) = ([], OStopped (Deny why)).
Proof. exact denied_target_sends_nothing. Qed.

Theorem C16_denied_is_dead_unretried : forall why status attempt max,
  classify (result_of (OStopped (Deny why)) status) attempt max = LMarkDead DPolicyDenied.
Proof. exact denied_is_dead_unretried. Qed.

Theorem C16_policy_denied_only_for_denial : forall o status attempt max,
  classify (result_of o status) attempt max = LMarkDead DPolicyDenied <-> exists why, o = OStopped (Deny why).
Proof. exact policy_denied_only_for_denial. Qed.

(** IP/CIDR rules written in IPv4-mapped notation (::ffff:a.b.c.d[/n], n >= 96): config.parseEgressRule
    unmaps them ([compile_prefix], fix 4e2df4c), and the compiled rule hits exactly the addresses its
    unmapped form names - every address (plain, or itself IPv4-mapped) that denotes an IPv4 address
    inside a.b.c.d/(n-96); equivalently, whose IPv4-mapped spelling lies in the 128-bit block as written. *)
Theorem C16_mapped_rule_hits_unmapped_form : forall px i,
  px_fam px = F6 -> (96 <= px_bits px)%N -> (mapped_lo <= px_addr px <= mapped_hi)%N ->
  (cidr_hit (compile_prefix px) i = true <->
   match denotes i with
   | A4 v => spec_in_block 32 (px_bits px - 96) (px_addr px - mapped_lo) v
   | _ => False
   end).
Proof. exact mapped_rule_hits_unmapped_form. Qed.

Theorem C16_mapped_rule_hits_mapped_spelling : forall px i,
  px_fam px = F6 -> (96 <= px_bits px <= 128)%N -> (mapped_lo <= px_addr px <= mapped_hi)%N ->
  (cidr_hit (compile_prefix px) i = true <->
   match denotes i with
   | A4 v => spec_in_block 128 (px_bits px) (px_addr px) (mapped_lo + v)
   | _ => False
   end).
Proof. exact mapped_rule_hits_mapped_spelling. Qed.

(** Every other rule (plain IPv4, plain IPv6, mapped address with fewer than 96 prefix bits) is kept as written. *)
Theorem C16_compile_prefix_other : forall px,
  (px_fam px <> F6 \/ (px_bits px < 96)%N \/ ~ (mapped_lo <= px_addr px <= mapped_hi)%N) ->
  compile_prefix px = px.
Proof. exact compile_prefix_other. Qed.

(** Hence a deny rule in that notation wins like any other: a hop one of whose addresses it names is never allowed. *)
Theorem C16_mapped_deny_rule_wins : forall p u r px i v,
  In r (p_deny p) -> r_is_cidr r = true -> r_px r = compile_prefix px ->
  px_fam px = F6 -> (96 <= px_bits px)%N -> (mapped_lo <= px_addr px <= mapped_hi)%N ->
  In i (resolved_addrs u) -> denotes i = A4 v ->
  spec_in_block 32 (px_bits px - 96) (px_addr px - mapped_lo) v ->
  check p u <> Allow.
Proof. exact mapped_deny_rule_wins. Qed.

Print Assumptions C16_rebind_safe.
Print Assumptions C16_allowed_ip_exact.
Print Assumptions C16_classes_are_rfc_ranges.
Print Assumptions C16_deny_wins.
Print Assumptions C16_allowlist_closed.
Print Assumptions C16_match_rules_spec.
Print Assumptions C16_cidr_hit_spec.
Print Assumptions C16_cidr_rules_see_addresses.
Print Assumptions C16_wildcard_subdomains_only.
Print Assumptions C16_wildcard_excludes_apex.
Print Assumptions C16_exact_host.
Print Assumptions C16_star_matches_all.
Print Assumptions C16_scheme_closed.
Print Assumptions C16_https_only_closed.
Print Assumptions C16_check_exact.
Print Assumptions C16_no_send_when_denied.
Print Assumptions C16_sent_exact.
Print Assumptions C16_redirects_off.
Print Assumptions C16_hop_limit.
Print Assumptions C16_refusal_is_first_bad_hop.
Print Assumptions C16_denied_target_sends_nothing.
Print Assumptions C16_denied_is_dead_unretried.
Print Assumptions C16_policy_denied_only_for_denial.
Print Assumptions C16_mapped_rule_hits_unmapped_form.
Print Assumptions C16_mapped_rule_hits_mapped_spelling.
Print Assumptions C16_compile_prefix_other.
Print Assumptions C16_mapped_deny_rule_wins.
