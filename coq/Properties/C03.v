(** C03 - lease exclusivity: one live lease per message.
    Only theorem statements; proofs are [exact] of lemmas from Proofs/. *)
From Coq Require Import List ZArith NArith Bool.
From HK Require Import Model.Queue Model.QueueMon Proofs.QueueBase Proofs.QueueInv Proofs.QueueInvStep
  Proofs.QueueStep Proofs.QueueLease Proofs.QueueTrace Proofs.QueueEpochs Proofs.QueueMonSound.
Import ListNotations.
Open Scope Z_scope.

(** In every reachable state a message carries at most one lease (it is one field), is leased iff
    it carries one, and no lease id is held by two messages. *)
Theorem C03_one_lease_per_message : forall fl c xs,
  let s := snd (run fl c init xs) in
  (forall m, In m (msgs s) -> coherent m = true) /\ lease_inj (msgs s) /\ NoDup (ids (msgs s)).
Proof.
  intros fl c xs. destruct (inv_state_ok _ (reachable_inv fl c xs)) as [A [B C]]. split; [exact B|]. split; [exact C | exact A].
Qed.

(** What a dequeue returns: pairwise distinct messages that were ready - queued, due, matching
    route/target - in the state left by retention pruning and the release of expired leases; each
    comes back leased under a lease id that was never issued before, with attempt + 1 and
    lease_until = now + ttl > now; the number returned is min(batch', ready). *)
Theorem C03_dequeue_sound : forall fl c now route target batch ttl o s s' items,
  Inv s -> step_dequeue fl c now route target batch ttl o s = (s', RItems items) ->
  let s2 := deq_pre fl c now o s in
  NoDup (map (fun it => fst (fst (fst it))) items)
  /\ NoDup (map (fun it => snd (fst (fst it))) items)
  /\ Z.of_nat (length items) = Z.min (clamp_batch batch) (Z.of_nat (length (filter (ready now route target) (msgs s2))))
  /\ forall i lid att un, In (i, lid, att, un) items ->
       exists m0, find_id i (msgs s2) = Some m0 /\ ready now route target m0 = true
                  /\ find_id i (msgs s') = Some (leased_version now (eff_ttl ttl) lid m0)
                  /\ att = m_attempt m0 + 1 /\ un = now + eff_ttl ttl /\ now < un
                  /\ ~ In lid (issued s) /\ In lid (issued s').
Proof. exact dequeue_sound. Qed.

(** A message that is leased and unexpired, not yet due, canceled, dead or delivered is never returned. *)
Theorem C03_never_returns_unavailable : forall fl c now route target batch ttl o s s' items m,
  Inv s -> step_dequeue fl c now route target batch ttl o s = (s', RItems items) ->
  In m (msgs s) -> unavailable now m = true ->
  ~ In (m_id m) (map (fun it => fst (fst (fst it))) items).
Proof. exact dequeue_never_returns_unavailable. Qed.

(** A lease ends only by expiry, by ack/nack/dead-letter presenting that very lease before it
    expired, or by an operator cancel - so between two dequeues of one message its earlier lease
    ended in one of these ways (every step of every history is a [change], C02). *)
Theorem C03_lease_ends_only_legally : forall c x r m m' l,
  change c x r m m' -> m_lease m = Some l -> is_leased m = true -> m_lease m' <> Some l ->
  (expired (op_now x) m = true /\ releases x = true)
  \/ (In l (presented x) /\ op_now x < m_until m /\ exists k, lease_op_kind x = Some k /\ is_extend k = false)
  \/ manage_kind_of x = Some MCancel.
Proof. exact lease_ends_legally. Qed.

(** History level: whenever two dequeues of one history return the same message id, they issued
    different lease ids and, strictly between them (or at the second one, which then noticed the
    expiry itself), some event ended the first lease in one of the legal ways - expiry noticed by a
    dequeue or lease operation, ack/nack/dead-letter presenting that lease while unexpired, or an
    operator cancel.  [ended_legally c e m l] says exactly that about event e. *)
Theorem C03_two_dequeues_separated_by_lease_end : forall fl c xs i j ei ej m l l2,
  let evs := model_trace fl c xs in
  (i < j)%nat -> nth_error evs i = Some ei -> nth_error evs j = Some ej ->
  is_dequeue (ev_op ei) = true -> In (m, l) (item_pairs (ev_res ei)) ->
  is_dequeue (ev_op ej) = true -> In (m, l2) (item_pairs (ev_res ej)) ->
  l <> l2 /\ exists k ek, (i < k <= j)%nat /\ nth_error evs k = Some ek /\ ended_legally c ek m l.
Proof. exact lease_epochs_dequeues. Qed.

(** Over a whole history no lease id is handed out twice. *)
Theorem C03_lease_ids_fresh : forall fl c xs, NoDup (handed_out (model_trace fl c xs)).
Proof. exact lease_ids_fresh. Qed.

(** The executable monitor P_C03 that the check evaluates on implementation traces (pairwise-distinct,
    fresh lease ids; every returned item was ready or expired, comes back leased with attempt+1 and a
    future lease end; nothing but a dequeue creates or moves a lease) is implied by these theorems: it
    holds on every model trace whose dequeue answers were accepted as valid choices. *)
Theorem C03_monitor_holds_on_model : forall fl c xs,
  Forall (fun e => ev_res e <> RBadOracle) (model_trace fl c xs) -> P_C03 fl c (model_trace fl c xs) = true.
Proof. exact P_C03_holds_on_model. Qed.

Example C03_witness :
  let e i := mkEnq (Some i) 1%N 1%N None None 5%N 0%N 0%N in
  let o0 := mkOracle [] [] [] [] in
  handed_out (model_trace Mem (mkCfg 0 false 0 0 0 0 0 0)
     [(Enqueue 100 (e 7%N), o0); (Enqueue 100 (e 8%N), o0);
      (Dequeue 200 None None 2 1000, mkOracle [(7%N, 1%N); (8%N, 2%N)] [] [] []);
      (Dequeue 1200 None None 2 1000, mkOracle [(8%N, 3%N); (7%N, 4%N)] [] [] [])]) = [1%N; 2%N; 3%N; 4%N].
Proof. vm_compute. reflexivity. Qed.

Print Assumptions C03_one_lease_per_message.
Print Assumptions C03_dequeue_sound.
Print Assumptions C03_never_returns_unavailable.
Print Assumptions C03_lease_ends_only_legally.
Print Assumptions C03_lease_ids_fresh.
Print Assumptions C03_two_dequeues_separated_by_lease_end.
Print Assumptions C03_monitor_holds_on_model.
