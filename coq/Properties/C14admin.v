(** C14 - operator queue mutations touch exactly what they name: the request layer in front of the
    store (Admin API handlers and MCP tools, Model/ManageGlue.v) composed with the store theorems of
    Properties/C14.v.  Only statements; proofs are [exact] of lemmas from Proofs/ManageGlueProofs.v. *)
From Coq Require Import List ZArith NArith Bool.
From HK Require Import Model.Queue Model.QueueMon Model.Headers Model.Publish Model.ManageGlue
  Proofs.QueueBase Proofs.QueueInv Proofs.ManageGlueProofs.
Import ListNotations.
Open Scope Z_scope.

(** (a) parseManageIDs / parseIDs: accepted iff 1 <= |raw| <= 1000 and no raw id is blank after trimming (the cap
    is on the raw list, before de-duplication); the ids handed to the store are the trimmed,
    first-occurrence de-duplicated list - non-empty, pairwise distinct, exactly the trimmed raw ids - and the
    store's own normalisation leaves that list as it is *)
Theorem C14admin_ids_accepted_spec : forall raw,
  (forall idl, parse_manage_ids raw = Some idl ->
     1 <= Z.of_nat (length raw) <= 1000 /\ no_blank raw
     /\ idl = dedup_first (trims raw) [] /\ idl <> [] /\ NoDup idl
     /\ (forall i, In i idl <-> exists r, In r raw /\ trimmed_id r = Some i)
     /\ norm_ids (store_ids idl) [] = idl)
  /\ (1 <= Z.of_nat (length raw) <= 1000 -> no_blank raw -> exists idl, parse_manage_ids raw = Some idl)
  /\ (parse_manage_ids raw = None <-> ~ (1 <= Z.of_nat (length raw) <= 1000) \/ exists r, In r raw /\ trimmed_id r = None).
Proof. exact ids_accepted_spec. Qed.

Theorem C14admin_mcp_ids_same_parser : forall raw, mcp_parse_ids raw = parse_manage_ids raw.
Proof. exact mcp_parse_ids_same. Qed.

(** (a) composed with the store: through an id endpoint exactly the messages whose id is one of the trimmed
    raw ids and whose state the operation is defined for change, as the operation defines; every other
    message is identical; nothing appears; the count is the number selected *)
Theorem C14admin_ids_selection_exact : forall now k raw idl s s' r,
  Inv s -> parse_manage_ids raw = Some idl -> step_manage now k (store_ids idl) s = (s', r) ->
  let sel m := raw_names raw (m_id m) && allowed_from k (m_st m) in
  (forall m, In m (msgs s) -> find_id (m_id m) (msgs s') = if sel m then manage_effect now k m else Some m)
  /\ incl (ids (msgs s')) (ids (msgs s))
  /\ exists n matched, r = RCount n matched false /\ n = Z.of_nat (length (filter sel (msgs s))).
Proof. exact ids_selection_exact. Qed.

(** the whole id endpoint (POST /messages/cancel|requeue|resume, /dlq/requeue|delete): a 200 answer carries the
    number of messages changed, which is the number of named messages in an allowed state *)
Theorem C14admin_ids_end_to_end : forall x now k q raw s s' r,
  Inv s -> admin_request x now (EpIds k) q (BIds (IBIds raw)) s = (s', r) -> status_of r = 200 ->
  exists idl n, parse_manage_ids raw = Some idl /\ r = HIdsOk n
    /\ n = changed_count (msgs s) (msgs s')
    /\ n = Z.of_nat (length (filter (fun m => raw_names raw (m_id m) && allowed_from k (m_st m)) (msgs s)))
    /\ (forall m, In m (msgs s) ->
          find_id (m_id m) (msgs s') = if raw_names raw (m_id m) && allowed_from k (m_st m) then manage_effect now k m else Some m)
    /\ incl (ids (msgs s')) (ids (msgs s)).
Proof. exact admin_ids_end_to_end. Qed.

(** (b) any refusal - 400, 401, 404, 405 of the Admin API, an error result of an MCP tool - makes no store call
    and leaves the queue unchanged *)
Theorem C14admin_rejected_no_effect : forall x now e q b s s' st c,
  admin_request x now e q b s = (s', HErr st c) -> decide x e q b (msgs s) = DReject st c /\ s' = s.
Proof. exact rejected_no_effect_admin. Qed.

Theorem C14admin_rejected_no_effect_mcp : forall e now t s s' st c,
  mcp_request e now t s = (s', HErr st c) -> mcp_decide e t (msgs s) = DReject st c /\ s' = s.
Proof. exact rejected_no_effect_mcp. Qed.

Theorem C14admin_unauthorized_401 : forall x e q b ms, h_auth q = false -> decide x e q b ms = DReject 401 GUnauthorized.
Proof. exact unauthorized_401. Qed.

Theorem C14admin_wrong_method_405 : forall x e q b ms,
  h_auth q = true -> h_post q = false ->
  match e with EpScopedFilter _ (LValid _) (LValid _) => True | EpScopedFilter _ _ _ => False | _ => True end ->
  decide x e q b ms = DReject 405 GMethodNotAllowed.
Proof. exact wrong_method_405. Qed.

Theorem C14admin_ids_bad_request_400 : forall x k q raw ms,
  h_auth q = true -> h_post q = true -> parse_audit x (h_audit q) <> None -> parse_manage_ids raw = None ->
  decide_ids x k q (IBIds raw) ms = DReject 400 (GPub CInvalidBody).
Proof. exact ids_bad_request_400. Qed.

Theorem C14admin_ids_missing_reason_400 : forall x k q body ms,
  h_auth q = true -> h_post q = true -> parse_audit x (h_audit q) = None ->
  decide_ids x k q body ms = DReject 400 (GPub CAuditReason).
Proof. exact ids_missing_reason_400. Qed.

(** (c) parseMessageManageFilter: limit 0 -> 100, negative -> refused, > 1000 -> 1000; composed with the
    store's eff_limit the effective limit is: default 100 when absent/0, min(limit, 1000) otherwise *)
Theorem C14admin_limit_spec : forall raw,
  (raw < 0 -> admin_limit raw = None) /\ (0 <= raw -> admin_limit raw = Some (norm_limit raw)).
Proof. exact admin_limit_spec. Qed.

Theorem C14admin_limit_reaches_store : forall raw lim,
  admin_limit raw = Some lim ->
  0 <= raw /\ lim = (if raw =? 0 then 100 else Z.min raw 1000)
  /\ eff_limit lim = (if raw =? 0 then 100 else Z.min raw 1000) /\ 1 <= lim <= 1000.
Proof. exact admin_limit_reaches_store. Qed.

Theorem C14admin_parse_filter_refuses : forall allowed b,
  (fb_limit b < 0 -> parse_filter allowed b = None)
  /\ (fb_state b = RsUnknown -> parse_filter allowed b = None)
  /\ (forall x, fb_state b = RsKnown x -> st_in x allowed = false -> parse_filter allowed b = None)
  /\ (fb_before b = TBad -> parse_filter allowed b = None).
Proof. exact parse_filter_refuses. Qed.

(** (c) end to end, POST /messages/<verb>_by_filter: an accepted request calls the store with the endpoint's
    operation, the normalised limit, a state criterion inside the endpoint's set (or none), the trimmed
    target; the selection is the newest-first prefix of at most that limit of exactly the messages matching
    every criterion from an allowed state ([filter_call_ok] spells this out) *)
Theorem C14admin_filter_glue_spec : forall x k q body c,
  decide_filter x k q body = DCall c ->
  exists b f, body = FBOk b /\ c = SCFilter k f
    /\ 0 <= fb_limit b
    /\ f_limit f = norm_limit (fb_limit b) /\ eff_limit (f_limit f) = norm_limit (fb_limit b)
    /\ 1 <= norm_limit (fb_limit b) <= 1000
    /\ match fb_state b with
       | RsBlank => f_state f = None
       | RsKnown x => f_state f = Some x /\ allowed_from (fk_kind k) x = true
       | RsUnknown => False
       end
    /\ f_target f = trimmed_id (fb_target b) /\ f_preview f = fb_preview b /\ time_of (fb_before b) = Some (f_before f)
    /\ forall l,
         filter_select (fk_kind k) f l
         = map m_id (firstn (Z.to_nat (norm_limit (fb_limit b)))
                            (sort_by m_recv false (filter (fun m => filt_match f m && allowed_from (fk_kind k) (m_st m)) l)))
         /\ Z.of_nat (length (filter_select (fk_kind k) f l)) <= norm_limit (fb_limit b)
         /\ (forall i, In i (filter_select (fk_kind k) f l) ->
               exists m, In m l /\ m_id m = i /\ filt_match f m = true /\ allowed_from (fk_kind k) (m_st m) = true).
Proof. exact filter_glue_spec. Qed.

(** the endpoint-scoped twin additionally pins the route to the one the managed endpoint owns *)
Theorem C14admin_scoped_filter_glue_spec : forall x k app ep q body c,
  decide_scoped_filter x k app ep q body = DCall c ->
  exists b f a e rt, body = FBOk b /\ c = SCFilter k f /\ filter_call_ok k b f
                     /\ app = LValid a /\ ep = LValid e /\ find_endpoint x a e = Some rt /\ f_route f = Some (r_path rt).
Proof. exact scoped_filter_glue_spec. Qed.

(** the MCP by-filter tools: limit absent -> 100, otherwise it must already be within 1..1000 (0, negative
    and > 1000 are refused rather than defaulted / clamped); everything else as for the Admin API *)
Theorem C14admin_mcp_filter_glue_spec : forall e k a c,
  mcp_decide_filter e k a = DCall c ->
  exists f, c = SCFilter k f
    /\ mcp_limit (mf_limit a) = Some (f_limit f) /\ f_limit f = mcp_norm_limit (mf_limit a)
    /\ eff_limit (f_limit f) = f_limit f /\ 1 <= f_limit f <= 1000
    /\ match mf_state a with
       | RsBlank => f_state f = None
       | RsKnown x => f_state f = Some x /\ allowed_from (fk_kind k) x = true
       | RsUnknown => False
       end
    /\ f_target f = trimmed_id (mf_target a) /\ f_preview f = mf_preview a
    /\ forall l,
         filter_select (fk_kind k) f l
         = map m_id (firstn (Z.to_nat (f_limit f))
                            (sort_by m_recv false (filter (fun m => filt_match f m && allowed_from (fk_kind k) (m_st m)) l)))
         /\ Z.of_nat (length (filter_select (fk_kind k) f l)) <= f_limit f.
Proof. exact mcp_filter_glue_spec. Qed.

Theorem C14admin_mcp_limit_spec : forall l lim,
  mcp_limit l = Some lim <-> (l = MLAbsent /\ lim = 100) \/ (exists n, l = MLInt n /\ 1 <= n <= 1000 /\ lim = n).
Proof. exact mcp_limit_spec. Qed.

(** a state outside the endpoint's allowed set is refused with 400 - not a silently empty or wider selection *)
Theorem C14admin_filter_state_outside_400 : forall x k q b s,
  h_auth q = true -> h_post q = true -> fb_state b = RsKnown s -> allowed_from (fk_kind k) s = false ->
  decide_filter x k q (FBOk b) = DReject 400 (GPub CInvalidBody).
Proof. exact filter_state_outside_400. Qed.

Theorem C14admin_filter_bad_request_400 : forall x k q b,
  h_auth q = true -> h_post q = true -> parse_filter (filter_endpoint_states k) b = None ->
  decide_filter x k q (FBOk b) = DReject 400 (GPub CInvalidBody).
Proof. exact filter_bad_request_400. Qed.

Theorem C14admin_scoped_filter_bad_request_refused : forall x k app ep q b,
  parse_filter (filter_endpoint_states k) b = None ->
  exists st c, decide_scoped_filter x k app ep q (FBOk b) = DReject st c.
Proof. exact scoped_filter_bad_request_refused. Qed.

Theorem C14admin_mcp_filter_refuses : forall allowed a,
  (forall n, mf_limit a = MLInt n -> n <= 0 \/ 1000 < n -> mcp_parse_filter allowed a = None)
  /\ (forall x, mf_state a = RsKnown x -> st_in x allowed = false -> mcp_parse_filter allowed a = None).
Proof. exact mcp_filter_limit_refused. Qed.

(** (d) the numbers in the response are the store's RCount numbers; they equal the number of messages
    changed; preview reports matched and changes nothing *)
Theorem C14admin_response_counts_ids : forall now k idl s s' n,
  Inv s -> serve now (DCall (SCIds k idl)) s = (s', HIdsOk n) ->
  (exists matched, step_manage now k idl s = (s', RCount n matched false))
  /\ n = changed_count (msgs s) (msgs s').
Proof. exact response_counts_ids. Qed.

Theorem C14admin_response_counts_filter : forall now k f s s' m n p,
  Inv s -> serve now (DCall (SCFilter k f)) s = (s', HFilterOk m n p) ->
  step_manage_f now (fk_kind k) f s = (s', RCount n m p)
  /\ p = f_preview f
  /\ m = Z.of_nat (length (filter_select (fk_kind k) f (msgs s)))
  /\ (if p then s' = s /\ n = 0 else n = m /\ n = changed_count (msgs s) (msgs s')).
Proof. exact response_counts_filter. Qed.

Theorem C14admin_preview_reports_real : forall now k f s,
  let fp := mkFilt (f_route f) (f_target f) (f_state f) (f_limit f) (f_before f) true in
  let fr := mkFilt (f_route f) (f_target f) (f_state f) (f_limit f) (f_before f) false in
  exists m n, serve now (DCall (SCFilter k fp)) s = (s, HFilterOk m 0 true)
              /\ snd (serve now (DCall (SCFilter k fr)) s) = HFilterOk m n false
              /\ (Inv s -> n = m).
Proof. exact preview_reports_real. Qed.

(** (e) the allowed-state sets wired into the handlers and tools are the documented ones
    (cancel: queued, leased, dead; requeue: dead, canceled; resume: canceled; DLQ requeue/delete: dead)
    and coincide with the store's [allowed_from] *)
Theorem C14admin_endpoint_states_documented :
  (forall s, In s (ids_endpoint_states MCancel) <-> s = Queued \/ s = Leased \/ s = Dead)
  /\ (forall s, In s (ids_endpoint_states MRequeue) <-> s = Dead \/ s = Canceled)
  /\ (forall s, In s (ids_endpoint_states MResume) <-> s = Canceled)
  /\ (forall s, In s (ids_endpoint_states MRequeueDead) <-> s = Dead)
  /\ (forall s, In s (ids_endpoint_states MDeleteDead) <-> s = Dead)
  /\ (forall s, In s (filter_endpoint_states FCancel) <-> s = Queued \/ s = Leased \/ s = Dead)
  /\ (forall s, In s (filter_endpoint_states FRequeue) <-> s = Dead \/ s = Canceled)
  /\ (forall s, In s (filter_endpoint_states FResume) <-> s = Canceled).
Proof. exact endpoint_states_documented. Qed.

Theorem C14admin_endpoint_states_are_allowed_from :
  (forall k s, st_in s (ids_endpoint_states k) = allowed_from k s)
  /\ (forall k s, st_in s (filter_endpoint_states k) = allowed_from (fk_kind k) s)
  /\ (forall k s, st_in s (mcp_ids_tool_states k) = allowed_from k s)
  /\ (forall k s, st_in s (mcp_filter_tool_states k) = allowed_from (fk_kind k) s).
Proof.
  exact (conj ids_endpoint_states_spec (conj filter_endpoint_states_spec (conj mcp_ids_tool_states_spec mcp_filter_tool_states_spec))).
Qed.

Print Assumptions C14admin_ids_accepted_spec.
Print Assumptions C14admin_mcp_ids_same_parser.
Print Assumptions C14admin_ids_selection_exact.
Print Assumptions C14admin_ids_end_to_end.
Print Assumptions C14admin_rejected_no_effect.
Print Assumptions C14admin_rejected_no_effect_mcp.
Print Assumptions C14admin_unauthorized_401.
Print Assumptions C14admin_wrong_method_405.
Print Assumptions C14admin_ids_bad_request_400.
Print Assumptions C14admin_ids_missing_reason_400.
Print Assumptions C14admin_limit_spec.
Print Assumptions C14admin_limit_reaches_store.
Print Assumptions C14admin_parse_filter_refuses.
Print Assumptions C14admin_filter_glue_spec.
Print Assumptions C14admin_scoped_filter_glue_spec.
Print Assumptions C14admin_mcp_filter_glue_spec.
Print Assumptions C14admin_mcp_limit_spec.
Print Assumptions C14admin_filter_state_outside_400.
Print Assumptions C14admin_filter_bad_request_400.
Print Assumptions C14admin_scoped_filter_bad_request_refused.
Print Assumptions C14admin_mcp_filter_refuses.
Print Assumptions C14admin_response_counts_ids.
Print Assumptions C14admin_response_counts_filter.
Print Assumptions C14admin_preview_reports_real.
Print Assumptions C14admin_endpoint_states_documented.
Print Assumptions C14admin_endpoint_states_are_allowed_from.
