(** C17 — HMAC signing and secret rotation windows.
    Only theorem statements, each closed by [exact] of a lemma from Proofs/.

    Model: Model/Signing.v (isSigningSecretVersionValidAt, selectSigningSecretRef,
    applyDeliverySigning and the order of steps in Deliver; secrets.Version.IsValidAt,
    secrets.Set.ValidAt, loadAuth's SelectSecrets, the secret loop of HMACAuth.Verify).
    Times are integers (ns since the Unix epoch) of any size; version lists, ids, bodies,
    paths and methods are arbitrary.  SHA-256, HMAC and the secret store are universally
    quantified functions: the property is stated in terms of them. *)
From Coq Require Import String Ascii List Bool ZArith.
From HK Require Import Model.StrUtil Model.Signing Proofs.SigningProofs.
Import ListNotations.
Local Open Scope string_scope.
Local Open Scope Z_scope.

(** A version is valid exactly on [valid_from, valid_until) - no end when valid_until is absent. *)
Theorem C17_valid_at_spec : forall v t,
  valid_at v t = true <->
  v_from v <> go_zero /\ v_from v <= t /\ (v_has_until v = true -> t < v_until v).
Proof. exact valid_at_spec. Qed.

(** valid_from is inclusive and valid_until exclusive, to the nanosecond. *)
Theorem C17_window_edges : forall v,
  v_from v <> go_zero -> (v_has_until v = true -> v_from v < v_until v) ->
  valid_at v (v_from v) = true /\ valid_at v (v_from v - 1) = false /\
  (v_has_until v = true -> valid_at v (v_until v - 1) = true /\ valid_at v (v_until v) = false) /\
  (v_has_until v = false -> forall t, v_from v <= t -> valid_at v t = true).
Proof. exact window_edges. Qed.

(** The version picked is the valid version that strictly precedes every other valid version
    in the order "newer (resp. older) valid_from first, ties by smaller id"; ids are unique in a
    signing configuration (Compile refuses duplicates). *)
Theorem C17_select_spec : forall m vs t v,
  NoDup (map v_id vs) ->
  (select m vs t = Some v <->
   In v vs /\ valid_at v t = true /\
   forall w, In w vs -> valid_at w t = true ->
     w = v \/
     (match m with Newest => v_from w < v_from v | Oldest => v_from v < v_from w end
      \/ (v_from v = v_from w /\ String.ltb (v_id v) (v_id w) = true))).
Proof. exact select_spec. Qed.

(** That order is a strict total order on versions with distinct ids. *)
Theorem C17_order_strict_total : forall m,
  (forall v, ~ better m v v) /\
  (forall a b c, better m a b -> better m b c -> better m a c) /\
  (forall a b, better m a b \/ (v_from a = v_from b /\ v_id a = v_id b) \/ better m b a).
Proof. exact order_strict_total. Qed.

(** Nothing is selected iff no version is valid at the signing instant. *)
Theorem C17_select_none : forall m vs t,
  select m vs t = None <-> forall w, In w vs -> valid_at w t = false.
Proof. exact select_none. Qed.

(** With versions configured the secret reference always comes from the selected version
    (never from the plain secret_ref, never from an invalid version). *)
Theorem C17_ref_from_selected_version : forall c t r,
  c_versions c <> [] -> select_ref c t = Some r ->
  exists m v, c_mode c = Some m /\ select m (c_versions c) t = Some v /\ r = trim_space (v_ref v) /\ r <> "".
Proof. exact select_ref_versions. Qed.

(** The two header values: decimal Unix seconds of the signing instant, and
    hex(HMAC(secret, METHOD \n escaped-path-or-"/" \n seconds \n hex(sha256(body)))) under the
    loaded, non-empty secret of the selected reference - and signing succeeds in no other way. *)
Theorem C17_signature_is_hmac : forall sha256 hmac load c now meth path body ts sg,
  sign sha256 hmac load c now meth path body = Some (ts, sg) <->
  trim_space (c_sig_header c) <> "" /\ trim_space (c_ts_header c) <> "" /\
  exists ref secret,
    select_ref c now = Some ref /\ load ref = Some secret /\ secret <> "" /\
    ts = dec (now / 1000000000) /\
    sg = hex (hmac secret
                (to_upper meth ++ nl ++ (if (path =? "")%string then "/" else path) ++ nl
                 ++ dec (now / 1000000000) ++ nl ++ hex (sha256 body))%string).
Proof. exact sign_exact. Qed.

(** Every request that leaves for a signing target carries exactly these two headers, over the
    method, path and body actually sent. *)
Theorem C17_sent_is_signed : forall sha256 hmac load c now meth path body q,
  deliver_signed sha256 hmac load (Some c) now meth path body = Some q ->
  q_method q = meth /\ q_path q = path /\ q_body q = body /\
  exists ts sg, sign sha256 hmac load c now meth path body = Some (ts, sg) /\
                q_signed q = [(trim_space (c_ts_header c), ts); (trim_space (c_sig_header c), sg)].
Proof. exact sent_is_signed. Qed.

(** No version valid, or the secret cannot be loaded (or is empty): nothing is sent. *)
Theorem C17_nothing_sent_when_no_version_valid : forall sha256 hmac load c now meth path body,
  c_versions c <> [] -> (forall w, In w (c_versions c) -> valid_at w now = false) ->
  deliver_signed sha256 hmac load (Some c) now meth path body = None.
Proof. exact nothing_sent_when_no_version_valid. Qed.

Theorem C17_nothing_sent_without_secret : forall sha256 hmac load c now meth path body,
  (select_ref c now = None \/
   exists ref, select_ref c now = Some ref /\ (load ref = None \/ load ref = Some "")) ->
  deliver_signed sha256 hmac load (Some c) now meth path body = None.
Proof. exact nothing_sent_without_secret. Qed.

(** Inbound: Version.IsValidAt has the same half-open window; *)
Theorem C17_inbound_window : forall v t,
  iv_valid_at v t = true <->
  iv_from v <> go_zero /\ iv_from v <= t /\ (iv_until v <> go_zero -> t < iv_until v).
Proof. exact iv_valid_at_spec. Qed.

(** the secrets offered to the verifier are exactly the inline ones and the values of the
    versions valid at the signed timestamp (never an expired or not-yet-valid one, never a
    valid one missing); *)
Theorem C17_inbound_exact : forall vs inline t k,
  In k (select_secrets vs inline t) <->
  In k inline \/ exists v, In v vs /\ iv_valid_at v t = true /\ iv_value v = k.
Proof. exact inbound_exact. Qed.

(** and a signature is accepted iff it is the HMAC under one of those. *)
Theorem C17_inbound_accept_exact : forall hmac vs inline ts msg sg,
  vs <> [] ->
  (accepts hmac (secrets_for vs inline ts) msg sg = true <->
   exists k, k <> "" /\ hmac k msg = sg /\
     (In k inline \/ exists v, In v vs /\ iv_valid_at v (ts * 1000000000) = true /\ iv_value v = k)).
Proof. exact inbound_accept_exact. Qed.

Print Assumptions C17_valid_at_spec.
Print Assumptions C17_window_edges.
Print Assumptions C17_select_spec.
Print Assumptions C17_order_strict_total.
Print Assumptions C17_select_none.
Print Assumptions C17_ref_from_selected_version.
Print Assumptions C17_signature_is_hmac.
Print Assumptions C17_sent_is_signed.
Print Assumptions C17_nothing_sent_when_no_version_valid.
Print Assumptions C17_nothing_sent_without_secret.
Print Assumptions C17_inbound_window.
Print Assumptions C17_inbound_exact.
Print Assumptions C17_inbound_accept_exact.
