(** C09 - replay protection: a signed request is accepted at most once.
    Only theorem statements, each closed by [exact] of a lemma from Proofs/.
    Everything is parametric in [sha256] and [hmac].  A history is a list of events of one route
    path in LOCK ORDER: [EReq now r] = one request = one atomic step (clock reading [now], tolerance
    test and nonce cache under the cache mutex - nonceCache.cache_admit); [EReload new] = one loadAuth.
    [admit_of s now r = Some (n, t)]: in state [s] the request passes the nonce step with trimmed
    nonce [n] and signed instant [t] (ns); a request Verify accepts is admitted
    ([C09_accepted_is_admitted]), so "never admitted twice" implies "never accepted twice". *)
From Coq Require Import ZArith List Bool NArith.
From HK Require Import Model.NonceCache Model.Hmac Model.ReloadAuth Model.HmacHistory
  Proofs.HmacProofs Proofs.ReplayProofs Proofs.NonceCacheInv.
Import ListNotations.
Open Scope Z_scope.

(** Between two admissions of one nonce there is a request - possibly the second one itself - whose
    clock reading lay beyond the first request's window under the tolerance then in force.
    No assumption at all: any clock, any reloads (changing secrets, header names, tolerance; dropping
    the route and adding it back), any other requests. *)
Theorem C09_window_closed_between : forall sha256 hmac s1 now1 r1 n t1 h now2 r2 t2,
  admit_of s1 now1 r1 = Some (n, t1) ->
  let s1' := fst (step sha256 hmac s1 (EReq now1 r1)) in
  admit_of (run sha256 hmac s1' h) now2 r2 = Some (n, t2) ->
  exists k tolk, In (k, tolk) (checkpoints sha256 hmac s1' (h ++ [EReq now2 r2])) /\ t1 + tolk < k.
Proof. exact window_closed_between_admitted. Qed.

(** no_double_accept.  Clock readings non-decreasing in lock order (the reading is taken under the
    mutex), tolerance in force at the second admission not larger than the tolerance in force at any
    request in between: the nonce is admitted again only strictly after [t1 + tol], i.e. a request
    with the same nonce is rejected while [now2 <= t1 + tol2], at the window edge included. *)
Theorem C09_no_double_accept : forall sha256 hmac s1 now1 r1 n t1 h now2 r2 t2 tol2,
  admit_of s1 now1 r1 = Some (n, t1) ->
  let s1' := fst (step sha256 hmac s1 (EReq now1 r1)) in
  admit_of (run sha256 hmac s1' h) now2 r2 = Some (n, t2) ->
  clock_mono now1 (h ++ [EReq now2 r2]) ->
  (forall k tolk, In (k, tolk) (checkpoints sha256 hmac s1' (h ++ [EReq now2 r2])) -> tol2 <= tolk) ->
  t1 + tol2 < now2.
Proof. exact no_double_accept. Qed.

(** replay_never_twice.  A request with the same nonce and signed timestamp as an admitted one - in
    particular a byte-identical replay - is never admitted again, whatever lies in between. *)
Theorem C09_replay_never_twice : forall sha256 hmac s1 now1 r1 n t h now2 r2,
  admit_of s1 now1 r1 = Some (n, t) ->
  let s1' := fst (step sha256 hmac s1 (EReq now1 r1)) in
  clock_mono now1 (h ++ [EReq now2 r2]) ->
  (forall a, p_active (run sha256 hmac s1' h) = Some a -> 0 < h_tol (a_cfg a) /\
     forall k tolk, In (k, tolk) (checkpoints sha256 hmac s1' h) -> h_tol (a_cfg a) <= tolk) ->
  admit_of (run sha256 hmac s1' h) now2 r2 <> Some (n, t).
Proof. exact replay_never_twice. Qed.

Theorem C09_accepted_is_admitted : forall sha256 hmac s now r a,
  p_active s = Some a -> hmac_configured (a_cfg a) ->
  snd (step sha256 hmac s (EReq now r)) = true -> exists n t, admit_of s now r = Some (n, t).
Proof. exact step_accept_admitted. Qed.

(** reload_keeps_nonces.  Any sequence of reloads keeps an honoured nonce remembered (by the active
    authenticator, or by the retired one while the path has none) with an expiry that covers the
    first request's window under the tolerance then configured ... *)
Theorem C09_reload_keeps_nonces : forall sha256 hmac s n t1 reloads,
  remembered s n t1 -> remembered (run sha256 hmac s (map EReload reloads)) n t1.
Proof. exact reload_keeps_nonces. Qed.

(** ... hence the replay after any placement of reloads is refused inside that window. *)
Theorem C09_reload_then_replay_refused : forall sha256 hmac s1 now1 r1 n t1 reloads now2 r2 t2 a,
  admit_of s1 now1 r1 = Some (n, t1) ->
  let s2 := run sha256 hmac (fst (step sha256 hmac s1 (EReq now1 r1))) (map EReload reloads) in
  p_active s2 = Some a -> now2 <= t1 + h_tol (a_cfg a) ->
  admit_of s2 now2 r2 <> Some (n, t2).
Proof. exact reload_then_replay_refused. Qed.

(** concurrent_duplicates.  k copies of one request served concurrently = some order of atomic steps
    with non-decreasing readings, any other requests in between: after the first admitted copy no
    other copy is admitted (so exactly one of k valid copies passes). *)
Theorem C09_concurrent_duplicates : forall sha256 hmac s cfg r n t now1 h now2,
  cfg_of s = Some cfg -> 0 < h_tol cfg ->
  admit_of s now1 r = Some (n, t) ->
  let s' := fst (step sha256 hmac s (EReq now1 r)) in
  only_reqs h -> clock_mono now1 (h ++ [EReq now2 r]) ->
  admit_of (run sha256 hmac s' h) now2 r = None.
Proof. exact concurrent_duplicates. Qed.

(** The tolerance hypothesis of [C09_replay_never_twice] cannot be dropped: known finding
    `reload-tolerance-grown-after-cleanup` (window closes, clean-up forgets the nonce, a reload raises
    the tolerance, the identical request is admitted again). *)
Theorem C09_tolerance_grown_refuted : forall sha256 hmac,
  let tol5 := 300 * sec in let tol10 := 600 * sec in
  let r := w_req [49;48;48;48]%N [110;49]%N in
  let other := w_req [49;51;48;48]%N [110;50]%N in
  let now1 := 1000 * sec in let now_mid := 1000 * sec + tol5 + 1 in let now2 := 1000 * sec + tol5 + 2 in
  let s1 := reload_path (Some (w_cfg tol5)) p_init in
  let s1' := fst (step sha256 hmac s1 (EReq now1 r)) in
  let h := [EReq now_mid other; EReload (Some (w_cfg tol10))] in
  clock_mono now1 (h ++ [EReq now2 r]) /\
  admit_of s1 now1 r = Some ([110;49]%N, 1000 * sec) /\
  admit_of (run sha256 hmac s1' h) now2 r = Some ([110;49]%N, 1000 * sec).
Proof. exact tolerance_grown_refuted. Qed.

(** The executable predicate the check evaluates on the implementation's trace of acceptances means:
    a nonce is accepted again only after the earlier request's window was over. *)
Theorem C09_P_C09_spec : forall tr,
  P_C09 tr = true <->
  forall pre a mid b post, tr = pre ++ a :: mid ++ b :: post ->
    ac_nonce a = ac_nonce b -> ac_signed a + ac_tol b < ac_now b.
Proof. exact P_C09_spec. Qed.

(** The nonce cache as a data structure.  The Go map nonce -> expiry is an association list in the
    model; every cache reachable from the empty one by admissions (accepted or refused, any clock) and
    tolerance-growing reloads holds each nonce at most once, so the model's [lookup] reads THE entry
    of a nonce exactly as the Go map does. *)
Theorem C09_cache_is_a_map : forall ops, wf (fold_left cache_step ops []).
Proof. exact wf_reachable. Qed.

(** An accepted admission leaves exactly one entry for the nonce and it covers the window t + tol. *)
Theorem C09_accepted_entry_unique : forall n t tol now c c',
  wf c -> cache_admit n t tol now c = (true, c') ->
  wf c' /\ lookup n c' = Some (t + tol) /\ (forall e, In (n, e) c' -> e = t + tol).
Proof. exact admit_true_entry. Qed.

(** The opportunistic clean-up bounds the cache: after any request that passes the tolerance test
    (new nonce or replay alike), no entry already expired at that request's clock reading is left -
    the cache holds at most the nonces whose windows are still open; a request outside the tolerance
    window does not touch the cache at all (it can neither evict nor insert). *)
Theorem C09_cache_holds_only_open_windows : forall n t tol now c,
  n <> [] -> 0 < tol -> - tol <= now - t <= tol ->
  live_at now (snd (cache_admit n t tol now c)).
Proof. exact admit_in_window_live. Qed.

Theorem C09_out_of_window_request_leaves_cache_untouched : forall n t tol now c,
  0 < tol -> (now - t < - tol \/ tol < now - t) -> cache_admit n t tol now c = (false, c).
Proof. exact admit_out_of_window_untouched. Qed.

Print Assumptions C09_window_closed_between.
Print Assumptions C09_P_C09_spec.
Print Assumptions C09_no_double_accept.
Print Assumptions C09_replay_never_twice.
Print Assumptions C09_accepted_is_admitted.
Print Assumptions C09_reload_keeps_nonces.
Print Assumptions C09_reload_then_replay_refused.
Print Assumptions C09_concurrent_duplicates.
Print Assumptions C09_tolerance_grown_refuted.
Print Assumptions C09_cache_is_a_map.
Print Assumptions C09_accepted_entry_unique.
Print Assumptions C09_cache_holds_only_open_windows.
Print Assumptions C09_out_of_window_request_leaves_cache_untouched.
