(** C13 - queue backends are observationally equivalent.
    The model has one function per Store method with a flavour parameter; these theorems state
    exactly where the two flavours can differ. Each real backend is tied to its own flavour by the
    per-step correspondence, and the two real backends are also compared with each other directly
    (props/c13.py).  Only theorem statements; proofs are [exact] of lemmas from Proofs/. *)
From Coq Require Import List ZArith NArith Bool.
From HK Require Import Model.Queue Model.QueueMon Proofs.QueueBase Proofs.QueueInv Proofs.QueueInvStep
  Proofs.QueueStep Proofs.QueueFlavour Proofs.QueueAdmit Proofs.QueueFlavourHist.
Import ListNotations.
Open Scope Z_scope.

(** ack/nack/extend/dead (single and batch), cancel/requeue/resume/DLQ requeue/DLQ delete (by id and by
    filter), list, DLQ list, lookup, stats: same result, same observable state, for every argument *)
Theorem C13_flavour_free_operations_agree : forall c x o sm ss,
  flavour_free x = true -> same_obs sm ss ->
  snd (step Mem c sm x o) = snd (step Sql c ss x o)
  /\ same_obs (fst (step Mem c sm x o)) (fst (step Sql c ss x o)).
Proof. exact flavour_free_agree. Qed.

(** dequeue: same result and state for the same choice among eligible messages whenever the SQLite
    call sweeps; the only other regime is the bounded sweep delay of C05 *)
Theorem C13_dequeue_agrees_when_sweeping : forall c now route target batch ttl o sm ss,
  same_obs sm ss -> sql_sweep_due now (last_sweep ss) = true ->
  snd (step_dequeue Mem c now route target batch ttl o sm) = snd (step_dequeue Sql c now route target batch ttl o ss)
  /\ same_obs (fst (step_dequeue Mem c now route target batch ttl o sm)) (fst (step_dequeue Sql c now route target batch ttl o ss)).
Proof. exact dequeue_agree. Qed.

(** enqueue (single and batch): same result and state without a depth limit or under the reject
    policy, as long as the memory-only resource rules (memory pressure, delivered-retention depth
    term) do not fire.  [C13_..._partial]: under drop_oldest the two flavours additionally agree only
    up to the choice of victim among equally old queued messages; both choices are proved to be an
    oldest queued message (C12), the equality of the remaining state is checked by the correspondence. *)
Theorem C13_enqueue_agrees_partial : forall c now single es o sm ss,
  (single = true -> length es = 1%nat) ->
  same_obs sm ss -> c_drop_oldest c = false \/ c_max_depth c <= 0 ->
  mem_rules_off c (msgs (prune c now (o_gone o) ss)) ->
  snd (step_enqueue Mem c now single es o sm) = snd (step_enqueue Sql c now single es o ss)
  /\ msgs (fst (step_enqueue Mem c now single es o sm)) = msgs (fst (step_enqueue Sql c now single es o ss))
  /\ issued (fst (step_enqueue Mem c now single es o sm)) = issued (fst (step_enqueue Sql c now single es o ss))
  /\ last_prune (fst (step_enqueue Mem c now single es o sm)) = last_prune (fst (step_enqueue Sql c now single es o ss)).
Proof. exact enqueue_agree_reject. Qed.

(** under drop_oldest both backends evict an oldest queued message (by received_at) *)
Theorem C13_victims_equally_old_sql : forall hint l v,
  sql_victim hint l = Some v ->
  exists m, In m l /\ m_id m = v /\ queuedb m = true /\ forall q, In q l -> queuedb q = true -> m_recv m <= m_recv q.
Proof. exact sql_victim_oldest. Qed.

Theorem C13_victims_equally_old_mem : forall ord l vs m,
  mem_oldest ord l vs None = Some m ->
  forall i q, In i ord -> find_id i l = Some q -> queuedb q = true -> ~ In i vs -> m_recv m <= m_recv q.
Proof. intros ord l vs m H. exact (proj2 (mem_oldest_min ord l vs None m H)). Qed.

(** the normalisation constants of the two backends (batch default/cap, default lease TTL, list and
    filter limits), regenerated from memory.go and sqlite.go on every run, are the same numbers - the
    model uses one set for both flavours *)
Theorem C13_backend_constants_agree :
  Gen.Consts.sql_dequeue_batch_default = Gen.Consts.mem_dequeue_batch_default
  /\ Gen.Consts.sql_dequeue_batch_cap = Gen.Consts.mem_dequeue_batch_cap
  /\ Gen.Consts.sql_dequeue_leasettl_default = Gen.Consts.mem_dequeue_leasettl_default
  /\ Gen.Consts.sql_list_limit_default = Gen.Consts.mem_list_limit_default
  /\ Gen.Consts.sql_list_limit_cap = Gen.Consts.mem_list_limit_cap
  /\ Gen.Consts.sql_filter_limit_default = Gen.Consts.mem_filter_limit_default
  /\ Gen.Consts.sql_filter_limit_cap = Gen.Consts.mem_filter_limit_cap
  /\ Gen.Consts.mem_filter_limit_default = Gen.Consts.mem_list_limit_default
  /\ Gen.Consts.mem_filter_limit_cap = Gen.Consts.mem_list_limit_cap.
Proof. repeat split; reflexivity. Qed.

Example C13_witness :
  let e := mkEnq (Some 7%N) 1%N 1%N None None 5%N 0%N 0%N in
  let o0 := mkOracle [] [] [] [] in
  let h := [(Enqueue 100 e, o0);
            (Dequeue 20000000 None None 1 1000, mkOracle [(7%N, 1%N)] [] [] []);
            (LeaseOp 20000300 (KNack 0) (LKnown 1%N true), o0);
            (ListDead 20000400 None 0 None, o0)] in
  map ev_res (model_trace Mem (mkCfg 3 false 0 0 0 0 0 0) h) = map ev_res (model_trace Sql (mkCfg 3 false 0 0 0 0 0 0) h)
  /\ map ev_after (model_trace Mem (mkCfg 3 false 0 0 0 0 0 0) h) = map ev_after (model_trace Sql (mkCfg 3 false 0 0 0 0 0 0) h).
Proof. vm_compute. split; reflexivity. Qed.

(** Over whole histories: started in states with the same observable content, the two flavours return the
    same result and hold the same stored messages after EVERY operation of a history, as long as each
    step stays in a regime in which the backends are specified to agree ([agree_hist]: every SQLite
    dequeue sweeps, i.e. the sweep interval has passed since the last sweeping dequeue; enqueues under
    the reject policy or without depth limit, with the memory-only resource rules not firing; no process
    restart in between).  The per-step theorems above say what the other regimes are. *)
Theorem C13_flavours_agree_along_history : forall c xs sm ss,
  same_obs sm ss -> agree_hist c ss xs ->
  map ev_res (fst (run Mem c sm xs)) = map ev_res (fst (run Sql c ss xs))
  /\ map ev_after (fst (run Mem c sm xs)) = map ev_after (fst (run Sql c ss xs))
  /\ same_obs (snd (run Mem c sm xs)) (snd (run Sql c ss xs)).
Proof. exact flavours_agree_along_history. Qed.

(** without a depth limit and without an explicit memory-pressure limit an enqueue never leaves that regime *)
Theorem C13_unlimited_queue_enqueues_agree : forall c l, c_max_depth c <= 0 -> c_press_items c <= 0 -> mem_rules_off c l.
Proof. exact no_limits_rules_off. Qed.

(** non-vacuity: the premise holds for a history with retention pruning, batch enqueue, dequeues 10 ms apart, nack, dead-letter, requeue *)
Example C13_history_premise_met :
  let e i := mkEnq (Some i) 1%N 1%N None None 5%N 0%N 0%N in
  let o0 := mkOracle [] [] [] [] in
  let c := mkCfg 0 false 100000000 1 0 0 2 0 in
  let h := [(EnqueueBatch 100 [e 1%N; e 2%N; e 3%N], o0);
            (Dequeue 20000000 None None 2 1000, mkOracle [(1%N, 11%N); (2%N, 12%N)] [] [] []);
            (LeaseOp 20000300 (KNack 5) (LKnown 11%N false), o0);
            (LeaseBatch 20000400 (KDead 3%N) [LKnown 12%N false; LUnknown], o0);
            (Dequeue 40000000 None None 5 1000, mkOracle [(1%N, 13%N); (3%N, 14%N)] [] [] []);
            (Manage 40000100 MRequeueDead [RPlain 2%N], o0);
            (Stats 40000200, o0)] in
  agree_hist c init h
  /\ map (fun ev => map m_st (ev_after ev)) (model_trace Sql c h)
     = [[Queued; Queued; Queued]; [Leased; Leased; Queued]; [Queued; Leased; Queued]; [Queued; Dead; Queued];
        [Leased; Dead; Leased]; [Leased; Queued; Leased]; [Leased; Queued; Leased]].
Proof. vm_compute. repeat split; auto; left; discriminate. Qed.

Print Assumptions C13_flavour_free_operations_agree.
Print Assumptions C13_dequeue_agrees_when_sweeping.
Print Assumptions C13_enqueue_agrees_partial.
Print Assumptions C13_victims_equally_old_sql.
Print Assumptions C13_victims_equally_old_mem.
Print Assumptions C13_backend_constants_agree.
Print Assumptions C13_flavours_agree_along_history.
Print Assumptions C13_unlimited_queue_enqueues_agree.
