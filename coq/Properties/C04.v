(** C04 - lease fencing: stale or foreign leases cannot change a message.
    Only theorem statements; proofs are [exact] of lemmas from Proofs/. *)
From Coq Require Import List ZArith NArith Bool.
From HK Require Import Model.Queue Model.QueueMon Proofs.QueueBase Proofs.QueueInv Proofs.QueueInvStep
  Proofs.QueueStep Proofs.QueueLease Proofs.QueueFence Proofs.QueueMonC04.
Import ListNotations.
Open Scope Z_scope.

(** ack / nack / positive extend / dead-letter with lease id x:
    - if x is the current, unexpired lease of a message m: success, m gets the operation's effect,
      every other message is untouched;
    - otherwise: a conflict (not found / expired), nothing changes except that a message still
      leased under x whose lease has expired goes back to the queue (and then the answer is "expired"). *)
Theorem C04_single_op_fenced : forall fl c now k x p s s' r,
  Inv s -> is_noop_extend k = false -> step_lease fl c now k (LKnown x p) s = (s', r) ->
  exists pm, msgs s' = apply_pm pm (msgs s) /\
    match current now x (msgs s) with
    | Some m => r = RUnit /\ pm m = lease_effect c now k m
                /\ forall y, In y (msgs s) -> y <> m -> pm y = Some y
    | None => (r = RErr ENotFound \/ r = RErr EExpired) /\
              forall y, In y (msgs s) ->
                pm y = Some y
                \/ (m_lease y = Some x /\ expired now y = true /\ pm y = Some (release now y) /\ r = RErr EExpired)
    end.
Proof. exact lease_op_fenced. Qed.

Theorem C04_blank_or_unknown_lease : forall fl c now k s,
  is_noop_extend k = false ->
  step_lease fl c now k LBlank s = (s, RErr ENotFound) /\ step_lease fl c now k LUnknown s = (s, RErr ENotFound).
Proof. exact lease_op_unknown. Qed.

(** the documented no-op: extend by a non-positive duration *)
Theorem C04_nonpositive_extend_noop : forall fl c now by_ l s, by_ <= 0 -> step_lease fl c now (KExtend by_) l s = (s, RUnit).
Proof. exact extend_nonpositive_is_noop. Qed.

(** batch calls apply the same rule per lease id: every message is unchanged, or released because its
    expired lease was presented, or settled because its current unexpired lease was presented - and a
    presented current lease always takes effect (exactly once, duplicates conflict). *)
Theorem C04_batch_fenced : forall c now k ls s s' r,
  batch_kind_ok k = true -> Inv s -> step_lease_batch c now k ls s = (s', r) ->
  let k' := match k with KNack d => KNack (Z.max d 0) | _ => k end in
  exists pm, msgs s' = apply_pm pm (msgs s)
    /\ (forall m, In m (msgs s) -> lchange c now k' (known_leases ls) m (pm m))
    /\ (forall m x, In m (msgs s) -> m_lease m = Some x -> In x (known_leases ls) -> is_leased m = true ->
                    now < m_until m -> pm m = lease_effect c now k' m).
Proof. exact lease_batch_fenced. Qed.

(** cancel / requeue / resume / expiry void the lease ... *)
Theorem C04_operator_mutation_voids_lease : forall now k m m', manage_effect now k m = Some m' -> m_lease m' = None.
Proof. exact manage_effect_clears. Qed.

(** ... and a lease id that no message holds any more (an earlier epoch) is never current again,
    whatever happens later: new leases are always fresh ids. *)
Theorem C04_voided_lease_never_returns : forall fl c s xs l,
  Inv s -> In l (issued s) -> (forall m, In m (msgs s) -> m_lease m <> Some l) ->
  forall m, In m (msgs (snd (run fl c s xs))) -> m_lease m <> Some l.
Proof. exact voided_lease_never_returns. Qed.

Example C04_witness :
  let e := mkEnq (Some 7%N) 1%N 1%N None None 5%N 0%N 0%N in
  let o0 := mkOracle [] [] [] [] in
  map ev_res (model_trace Sql (mkCfg 0 false 0 0 0 0 0 0)
     [(Enqueue 100 e, o0);
      (Dequeue 200 None None 1 1000, mkOracle [(7%N, 1%N)] [] [] []);
      (LeaseOp 1200 KAck (LKnown 1%N false), o0);                       (* expired: conflict, message requeued *)
      (Dequeue 1300 None None 1 1000, mkOracle [(7%N, 2%N)] [] [] []);
      (LeaseOp 1400 KAck (LKnown 1%N false), o0);                       (* stale epoch: not found *)
      (LeaseOp 1500 KAck (LKnown 2%N false), o0)])                      (* current: success *)
  = [RUnit; RItems [(7%N, 1%N, 1, 1200)]; RErr EExpired; RItems [(7%N, 2%N, 2, 2300)]; RErr ENotFound; RUnit].
Proof. vm_compute. reflexivity. Qed.

(** A lease batch settles exactly the stored messages whose current, unexpired lease it presents; every
    other presented id is reported as a conflict, and the conflicts classified "expired" are exactly the
    stored messages whose expired lease it presents (duplicates in the batch count once). *)
Theorem C04_batch_counts_exact : forall c now k ls ms iss,
  batch_kind_ok k = true -> InvL ms iss ->
  let '(ms', n, cs) := lease_batch c now k ls ms in
  n = Z.of_nat (length (filter (curb now (known_leases ls)) ms))
  /\ Z.of_nat (length cs) = Z.of_nat (length ls) - n
  /\ truecount cs = length (filter (expb now (known_leases ls)) ms).
Proof. exact lease_batch_counts. Qed.

(** The executable monitor [P_C04] - what the correspondence check evaluates on traces of the Go stores -
    holds on every trace of the model made of Store-interface operations (there is no batch Extend). *)
Theorem C04_monitor_holds_on_every_model_trace : forall fl c xs,
  Forall (fun xo : op * oracle => store_lease_op (fst xo)) xs -> P_C04 fl c (model_trace fl c xs) = true.
Proof. exact P_C04_holds_on_model. Qed.

Theorem C04_monitor_holds_on_every_step : forall fl c s x o s' r,
  store_lease_op x -> Inv s -> step fl c s x o = (s', r) -> c04_event c (mkEvent x o r (msgs s) (msgs s')) = true.
Proof. exact c04_event_holds. Qed.

Print Assumptions C04_single_op_fenced.
Print Assumptions C04_blank_or_unknown_lease.
Print Assumptions C04_nonpositive_extend_noop.
Print Assumptions C04_batch_fenced.
Print Assumptions C04_operator_mutation_voids_lease.
Print Assumptions C04_voided_lease_never_returns.
Print Assumptions C04_batch_counts_exact.
Print Assumptions C04_monitor_holds_on_every_model_trace.
Print Assumptions C04_monitor_holds_on_every_step.
