(** C18 - configuration changes apply atomically or not at all.
    Only theorem statements, each closed by [exact] of a lemma from Proofs/.

    Part 1 (failed reload changes nothing): holds for the model of the pinned code.
    Part 2 (each request sees one configuration): REFUTED for the model of the pinned code, twice
            ([C18_two_lock_window_refuted], [C18_per_request_reads_refuted]); the positive theorem
            [C18_snapshot_design_atomic] is proved for the repair target (one snapshot per request,
            one write per reload), and [C18_code_single_callback_atomic] says what IS atomic today.
    Part 3 (file rewrites): [C18_replace_ok_sound] and companions - every syscall trace the checker accepts
            is crash-atomic; [C18_mutation_validated] - only validated bytes are installed and failures
            put the previous bytes back. *)
From Coq Require Import List Bool Arith NArith.
From HK Require Import Model.Reload Model.FsAtomic Model.ConfigMutation
                       Proofs.ReloadProofs Proofs.FsAtomicProofs Proofs.ConfigMutationProofs.
Import ListNotations.

(** * Part 1 *)

(** For every reader, parser, compiler, restart comparison, secret loader (arbitrary functions), every
    running configuration and every runtime state: if reloadConfig does not report success, the runtime
    state is the one it was given and the configuration it returns is the running one. *)
Theorem C18_failed_reload_frame :
  forall (bytes ast compiled authset : Type)
         (read_file : option bytes) (parse : bytes -> option ast) (compile : ast -> option compiled)
         (requires_restart : compiled -> compiled -> bool) (load_secrets : compiled -> option authset)
         (inherit : authset -> authset -> authset)
         (running : compiled) (r r' : runtime compiled authset) (ret : compiled) (o : outcome),
    reload bytes ast compiled authset read_file parse compile requires_restart load_secrets inherit running r
      = (r', ret, o) ->
    o <> Reloaded -> r' = r /\ ret = running.
Proof. exact failed_reload_frame. Qed.

(** Which exit is taken (order of the tests): an unreadable file, a parse error, a compile error, a
    restart-requiring change and a secret that cannot be loaded each have their own exit, in this order,
    and success needs all five to pass. *)
Theorem C18_reload_outcome_spec :
  forall (bytes ast compiled authset : Type)
         (read_file : option bytes) (parse : bytes -> option ast) (compile : ast -> option compiled)
         (requires_restart : compiled -> compiled -> bool) (load_secrets : compiled -> option authset)
         (inherit : authset -> authset -> authset) (running : compiled) (r : runtime compiled authset),
    let o := snd (reload bytes ast compiled authset read_file parse compile requires_restart load_secrets inherit running r) in
    (o = ReadFailed <-> read_file = None) /\
    (o = ParseFailed <-> exists d, read_file = Some d /\ parse d = None) /\
    (o = CompileFailed <-> exists d cfg, read_file = Some d /\ parse d = Some cfg /\ compile cfg = None) /\
    (o = RestartRequired <-> exists d cfg c, read_file = Some d /\ parse d = Some cfg /\ compile cfg = Some c
                                             /\ requires_restart c running = true) /\
    (o = AuthFailed <-> exists d cfg c, read_file = Some d /\ parse d = Some cfg /\ compile cfg = Some c
                                        /\ requires_restart c running = false /\ load_secrets c = None) /\
    (o = Reloaded <-> exists d cfg c a, read_file = Some d /\ parse d = Some cfg /\ compile cfg = Some c
                                        /\ requires_restart c running = false /\ load_secrets c = Some a).
Proof. exact reload_outcome_spec. Qed.

(** A successful reload is the two critical sections (loadAuth's, then updateAll's) and returns the
    configuration it compiled. *)
Theorem C18_reload_success :
  forall (bytes ast compiled authset : Type)
         (read_file : option bytes) (parse : bytes -> option ast) (compile : ast -> option compiled)
         (requires_restart : compiled -> compiled -> bool) (load_secrets : compiled -> option authset)
         (inherit : authset -> authset -> authset)
         (running : compiled) (r r' : runtime compiled authset) (ret : compiled),
    reload bytes ast compiled authset read_file parse compile requires_restart load_secrets inherit running r
      = (r', ret, Reloaded) ->
    exists d cfg a, read_file = Some d /\ parse d = Some cfg /\ compile cfg = Some ret /\
                    requires_restart ret running = false /\ load_secrets ret = Some a /\
                    r' = write_tables compiled authset ret (write_auth compiled authset inherit a r).
Proof. exact reload_success. Qed.

(** Step-list reading: in ANY program whose fallible steps all precede its writes a failure exit is taken
    with no write performed; reloadConfig's step list is such a program, each of its five failure points
    is reachable, and none of them has written anything. *)
Theorem C18_frame_general : forall fails prog,
  fallible_first prog = true -> snd (exec fails prog) <> None -> fst (exec fails prog) = [].
Proof. exact frame_general. Qed.

Theorem C18_reload_prog_frame :
  fallible_first reload_prog = true /\
  (forall fails p, snd (exec fails reload_prog) = Some p -> fst (exec fails reload_prog) = []) /\
  (forall p, exists fails, exec fails reload_prog = ([], Some p)) /\
  exec (fun _ => false) reload_prog = ([WAuth; WTables], None).
Proof.
  exact (conj reload_prog_fallible_first (conj reload_prog_frame (conj reload_prog_exits reload_prog_success))).
Qed.

(** * Part 2 *)

(** [no_mixture shape reqs] := for every number of reloads and every schedule, every request of [reqs]
    reads one version.  Refuted for the pinned code, cause 1: reloadConfig publishes in two critical
    sections.  The witness request performs ONE locked read (authorizePull). *)
Theorem C18_two_lock_window_refuted :
  ~ no_mixture code_shape [[CAuthorizePull]]
  /\ observations code_shape 1 [[CAuthorizePull]] [AReload; AReq 0; AReload]
     = [[(CAuthorizePull, FPullAuth, 1); (CAuthorizePull, FPullByRoute, 1); (CAuthorizePull, FPathToRoute, 0)]]
  /\ P_no_mixture (observations code_shape 1 [ingress_request] ([AReload] ++ repeat (AReq 0) 8 ++ [AReload])) = false.
Proof. exact (conj two_lock_window_refuted (conj two_lock_window_witness two_lock_window_ingress_refuted)). Qed.

(** Cause 2: a request performs several independent locked reads.  The witness reload is ONE write of
    every field.  Ingress (every position inside the request), pull and admin requests. *)
Theorem C18_per_request_reads_refuted :
  ~ no_mixture single_write_shape [ingress_request]
  /\ map versions_seen (observations single_write_shape 1 [ingress_request]
                                     ([AReq 0] ++ [AReload] ++ repeat (AReq 0) 7))
     = [[0; 1; 1; 1; 1; 1; 1; 1; 1]]
  /\ forallb (fun k => negb (P_no_mixture (observations single_write_shape 1 [ingress_request]
                                              (repeat (AReq 0) k ++ [AReload] ++ repeat (AReq 0) (8 - k)))))
             [1; 2; 3; 4; 5; 6; 7] = true
  /\ ~ no_mixture single_write_shape [pull_request]
  /\ ~ no_mixture single_write_shape [admin_publish_request].
Proof.
  exact (conj per_request_reads_refuted (conj per_request_reads_witness (conj per_request_reads_every_position
        (conj per_request_reads_pull_refuted per_request_reads_admin_refuted)))).
Qed.

Theorem C18_code_no_mixture_refuted : ~ no_mixture code_shape [ingress_request; pull_request].
Proof. exact code_no_mixture_refuted. Qed.

(** The repair target: if a reload is ONE critical section [w] that assigns every field any handler
    reads, and every request performs at most ONE locked read, then for all numbers of reloads, all
    sets of requests and all schedules every request is served under one version. *)
Theorem C18_snapshot_design_atomic : forall (w : list field) (reqs : list request),
  (forall r c f, In r reqs -> In c r -> In f (fields_of c) -> In f w) ->
  (forall r, In r reqs -> length r <= 1) ->
  forall n sched, P_no_mixture (observations [w] n reqs sched) = true.
Proof. exact snapshot_design_atomic. Qed.

Theorem C18_snapshot_requests_atomic : forall k n sched,
  P_no_mixture (observations single_write_shape n (repeat [CSnapshot] k) sched) = true.
Proof. exact snapshot_requests_atomic. Qed.

(** What is atomic on the pinned code: handlers that consult the state once, inside one group of fields
    (admin authorisation; any one authenticator / route-table lookup). *)
Theorem C18_code_single_callback_atomic : forall reqs,
  (forall r, In r reqs -> exists c, r = [c] /\ single_group_callback c = true) ->
  forall n sched, P_no_mixture (observations code_shape n reqs sched) = true.
Proof. exact code_single_callback_atomic. Qed.

(** The monitor predicate means what it says. *)
Theorem C18_one_version_spec : forall o : obs,
  one_version o = true <-> exists v, forall x, In x o -> snd x = v.
Proof. exact one_version_spec. Qed.

(** * Part 3 *)

(** If the checker accepts the syscall trace [tr] as a replacement of P by NEW, then from every start
    state in which P durably holds [old] (or is absent), after every prefix of [tr] (= crash point),
    for every number [k] of journalled name-space operations that reached the disk and every choice [ch]
    of how much of each file's pending data did (including a torn last write), P reads back as exactly
    [old] or exactly NEW. *)
Theorem C18_replace_ok_sound : forall P NEW old tr s0,
  init_ok s0 P old -> replace_ok P NEW tr = true ->
  forall n k ch,
    crash_read (run s0 (firstn n tr)) k ch P = old \/
    crash_read (run s0 (firstn n tr)) k ch P = Some NEW.
Proof. exact replace_ok_sound. Qed.

(** Once the call has returned NEW is durable, and the state is again a start state. *)
Theorem C18_replace_ok_durable : forall P NEW old tr s0,
  init_ok s0 P old -> replace_ok P NEW tr = true ->
  init_ok (run s0 tr) P (Some NEW) /\
  forall k ch, crash_read (run s0 tr) k ch P = Some NEW.
Proof. exact replace_ok_durable. Qed.

(** A concurrent reader of the file (the --watch reload) sees the complete old or new content too. *)
Theorem C18_replace_ok_reader_atomic : forall P NEW old tr s0,
  init_ok s0 P old -> replace_ok P NEW tr = true ->
  forall n, read_vol (run s0 (firstn n tr)) P = old \/ read_vol (run s0 (firstn n tr)) P = Some NEW.
Proof. exact replace_ok_reader_atomic. Qed.

(** Apply then roll back: OLD or NEW at every crash point of the two replacements, OLD at the end. *)
Theorem C18_apply_then_rollback_sound : forall P OLD NEW tr1 tr2 s0,
  init_ok s0 P (Some OLD) -> replace_ok P NEW tr1 = true -> replace_ok P OLD tr2 = true ->
  (forall n k ch, crash_read (run s0 (firstn n (tr1 ++ tr2))) k ch P = Some OLD \/
                  crash_read (run s0 (firstn n (tr1 ++ tr2))) k ch P = Some NEW)
  /\ forall k ch, crash_read (run s0 (tr1 ++ tr2)) k ch P = Some OLD.
Proof. exact apply_then_rollback_sound. Qed.

(** Non-vacuity of the checker and of the threat model: the trace shape of writeFileAtomic is accepted;
    traces without fsync before rename, with the temp file in another directory, with a partial write,
    with a write after the fsync, without the directory fsync, writing in place, with a stray mutating
    call, renaming elsewhere, or empty are rejected; and the rejected shapes really lose data here. *)
Theorem C18_checker_examples :
  replace_ok exP exNEW good_trace = true
  /\ map (replace_ok exP exNEW)
         [no_fsync_trace; other_dir_trace; partial_write_trace; write_after_fsync_trace;
          no_dir_fsync_trace; in_place_trace; stray_op_trace; wrong_target_trace; []]
     = [false; false; false; false; false; false; false; false; false]
  /\ init_ok exS0 exP (Some exOLD)
  /\ crash_read (run exS0 no_fsync_trace) 2 (fun _ => (0, 0)) exP = Some []
  /\ crash_read (run exS0 (firstn 2 in_place_trace)) 0 (fun _ => (1, 0)) exP = Some []
  /\ crash_read (run exS0 no_dir_fsync_trace) 0 (fun _ => (0, 0)) exP = Some exOLD.
Proof.
  exact (conj good_trace_accepted (conj bad_traces_rejected (conj exS0_init
        (conj (proj1 no_fsync_loses_data) (conj (proj1 in_place_is_not_atomic) no_dir_fsync_not_durable))))).
Qed.

(** Validated mutation (mutateManagedEndpointConfig, toolConfigApply, management_endpoint_* through it),
    for every validity oracle, flavour, previous content, candidate and failure oracle. *)
Theorem C18_mutation_validated : forall valid fl file cand o,
  let '(file', res, writes) := mutate valid fl file cand o in
  (forall w, In w writes -> (w = Some cand /\ valid cand = true) \/ w = file)
  /\ (file' = file \/ (file' = Some cand /\ valid cand = true))
  /\ (res = MApplied -> file' = Some cand /\ valid cand = true /\ o_write o = true
                        /\ (fl = FApp -> o_post o = true /\ o_reload o = true)
                        /\ (fl = FMcpWriteAndReload -> o_reload o = true))
  /\ (res <> MApplied -> o_rollback o = true -> file' = file)
  /\ (valid cand = false -> file' = file /\ writes = [] /\ res = MInvalid).
Proof. exact mutation_validated. Qed.

Print Assumptions C18_failed_reload_frame.
Print Assumptions C18_reload_outcome_spec.
Print Assumptions C18_reload_success.
Print Assumptions C18_frame_general.
Print Assumptions C18_reload_prog_frame.
Print Assumptions C18_two_lock_window_refuted.
Print Assumptions C18_per_request_reads_refuted.
Print Assumptions C18_code_no_mixture_refuted.
Print Assumptions C18_snapshot_design_atomic.
Print Assumptions C18_snapshot_requests_atomic.
Print Assumptions C18_code_single_callback_atomic.
Print Assumptions C18_one_version_spec.
Print Assumptions C18_replace_ok_sound.
Print Assumptions C18_replace_ok_durable.
Print Assumptions C18_replace_ok_reader_atomic.
Print Assumptions C18_apply_then_rollback_sound.
Print Assumptions C18_checker_examples.
Print Assumptions C18_mutation_validated.
