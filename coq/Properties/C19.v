(** C19 - config fmt round-trips: the spelling layer (lexer.go vs the value helpers of
    format.go), for ALL rune sequences.  Only theorem statements, each closed by [exact] of a
    lemma from Proofs/LexerProofs.v.

    Scope: these theorems are about single values / lines of values.  The directive layer
    (parser.go recursive descent, the write* functions of format.go, Compile) is NOT modelled
    and NOT a theorem; it is decided by the differential check in props/c19.py.

    A Go string is represented by the sequence of utf8.DecodeRuneInString steps; an item
    >= 0x110000 is one undecodable byte (see Model/Lexer.v). *)
From Coq Require Import List NArith Bool.
From HK Require Import Model.Lexer Model.FormatValue Proofs.LexerProofs.
Import ListNotations.
Open Scope N_scope.

(** quoteString followed by anything lexes as ONE string token with the same text and leaves
    exactly the rest - for every string without undecodable bytes (every string token text
    is such a string, see [C19_string_tokens_valid]; the management API writes JSON strings). *)
Theorem C19_quote_roundtrip : forall s rest,
  Forall (fun r => invalid r = false) s ->
  next_token (quote_string s ++ rest) = LTok (TString s) rest.
Proof. exact quote_roundtrip. Qed.

(** ... and for EVERY Go string: undecodable bytes become U+FFFD (range + WriteRune), nothing else changes,
    and quoting the result again writes the same characters. *)
Theorem C19_quote_roundtrip_any : forall s rest,
  next_token (quote_string s ++ rest) = LTok (TString (map norm_rune s)) rest
  /\ quote_string (map norm_rune s) = quote_string s.
Proof. exact quote_roundtrip_any_stable. Qed.

(** Every identifier token the lexer can ever return is a maximal run without blank { } DQUOTE #
    whose first item is decodable, or a {$..} / {env...} / {file...} placeholder. *)
Theorem C19_ident_shapes : forall s t rest,
  next_token s = LTok (TIdent t) rest ->
  (exists r tl, t = r :: tl /\ invalid r = false /\ Forall (fun x => is_ident_stop x = false) t)
  \/ (exists body, t = 123 :: body ++ [125] /\ ph_prefix t = true /\
        Forall (fun x => invalid x = false /\ is_space x = false /\ x <> 123 /\ x <> 125) body).
Proof. exact ident_shapes. Qed.

Theorem C19_string_tokens_valid : forall s t rest,
  next_token s = LTok (TString t) rest -> Forall (fun r => invalid r = false) t.
Proof. exact string_token_valid. Qed.

(** An identifier-shaped text followed by a delimiter (end of input, blank, brace, quote, #)
    lexes back as ONE identifier token with the same text. *)
Theorem C19_unquoted_roundtrip : forall t rest,
  ident_shaped t -> delim_ok rest -> next_token (t ++ rest) = LTok (TIdent t) rest.
Proof. exact unquoted_roundtrip. Qed.

(** The formatter writes every identifier-shaped value unquoted, unchanged. *)
Theorem C19_ident_written_unquoted : forall t, ident_shaped t -> format_value t false = t.
Proof. exact ident_written_unquoted. Qed.

(** Token-level fixpoint: a value token (text, quotedness) that came out of the lexer, written
    by formatValue and lexed again, is the same token - same text, same quotedness - so
    formatting once more writes the same characters. *)
Theorem C19_format_value_fixpoint : forall src t q rest0 rest,
  next_token src = LTok (value_token t q) rest0 -> delim_ok rest ->
  next_token (format_value t q ++ rest) = LTok (value_token t q) rest.
Proof. exact format_value_fixpoint. Qed.

(** Same for route paths (string token, or identifier token starting with '/'); and the first
    character written keeps the parser's top-level dispatch (DQUOTE or '/'). *)
Theorem C19_route_path_fixpoint : forall t q rest,
  parser_path t q -> delim_ok rest ->
  next_token (format_route_path t q ++ rest) = LTok (value_token t q) rest
  /\ exists tl, format_route_path t q = (if q then 34 else 47) :: tl.
Proof. exact route_path_fixpoint. Qed.

(** An arbitrary AST value (not from the lexer) that ends up quoted is stable from the first
    output on. *)
Theorem C19_quoted_stable : forall s q rest,
  (q = true \/ is_unquoted_value_safe s = false) ->
  next_token (format_value s q ++ rest) = LTok (TString (map norm_rune s)) rest /\
  format_value (map norm_rune s) true = format_value s q.
Proof. exact format_value_quoted_stable. Qed.

(** Keyword safety: a formatted parser value lexes to the identifier [kw] iff it already was the
    unquoted identifier [kw]; so the rule that ends a multi-value directive
    (kind == tokIdent && isXDirective(text)) fires on exactly the same values after fmt. *)
Theorem C19_keyword_safety : forall t q rest kw rest',
  parser_value t q -> delim_ok rest ->
  (next_token (format_value t q ++ rest) = LTok (TIdent kw) rest' <-> q = false /\ t = kw /\ rest' = rest).
Proof. exact keyword_safety. Qed.

Theorem C19_quoted_never_ident : forall s rest kw rest',
  next_token (format_value s true ++ rest) <> LTok (TIdent kw) rest'.
Proof. exact quoted_never_ident. Qed.

(** A whole line of values, each preceded by one blank and ended by a newline, lexes back to
    exactly the value tokens it was written from. *)
Theorem C19_line_roundtrip : forall vs,
  Forall (fun v => parser_value (fst v) (snd v)) vs ->
  lexes_to (format_line vs) (map (fun v => value_token (fst v) (snd v)) vs).
Proof. exact line_roundtrip. Qed.

(** The executable tokenizer used by the correspondence is the relation above and never stops
    for lack of fuel. *)
Theorem C19_tokenize_total : forall s,
  snd (tokenize s) <> EndFuel /\ (forall ts, tokenize s = (ts, EndEOF) -> lexes_to s ts).
Proof. exact tokenize_total. Qed.

(** NOT true, and why it does not matter for the parser: isUnquotedValueSafe accepts values
    that do not lex back as one identifier ({foo}: LBrace ident RBrace).  An unquoted value
    round-trips iff it is identifier-shaped; the offenders are brace-led or start with an
    undecodable byte.  The parser's unquoted values are identifier tokens
    ([C19_ident_shapes]) and the management writers set Quoted = true. *)
Theorem C19_safe_unquoted_refuted :
  exists s, is_unquoted_value_safe s = true /\ ~ ident_shaped s /\
            forall rest, next_token (format_value s false ++ rest) = LTok TLBrace (tl s ++ rest).
Proof. exact safe_unquoted_refuted. Qed.

Theorem C19_unquoted_roundtrip_iff : forall s rest,
  delim_ok rest -> (next_token (s ++ rest) = LTok (TIdent s) rest <-> ident_shaped s).
Proof. exact roundtrip_iff_ident_shaped. Qed.

Theorem C19_safe_not_shaped_cases : forall s,
  is_unquoted_value_safe s = true -> ~ ident_shaped s ->
  starts_with 123 s = true \/ exists r tl, s = r :: tl /\ invalid r = true.
Proof. exact safe_not_shaped_cases. Qed.

Print Assumptions C19_quote_roundtrip.
Print Assumptions C19_quote_roundtrip_any.
Print Assumptions C19_ident_shapes.
Print Assumptions C19_string_tokens_valid.
Print Assumptions C19_unquoted_roundtrip.
Print Assumptions C19_ident_written_unquoted.
Print Assumptions C19_format_value_fixpoint.
Print Assumptions C19_route_path_fixpoint.
Print Assumptions C19_quoted_stable.
Print Assumptions C19_keyword_safety.
Print Assumptions C19_quoted_never_ident.
Print Assumptions C19_line_roundtrip.
Print Assumptions C19_tokenize_total.
Print Assumptions C19_safe_unquoted_refuted.
Print Assumptions C19_unquoted_roundtrip_iff.
Print Assumptions C19_safe_not_shaped_cases.
