(** C13pg - the Postgres store is tied, statement by statement, to the SQLite store.

    internal/queue/postgres.go cannot be executed in the sandbox.  translate/pgtie.go regenerates Gen/PgTie.v
    from internal/queue/sqlite.go and postgres.go on every run: for every function its statement skeleton (SQL
    statements with every placeholder bound to the Go expression passed for it, transaction points, helper calls,
    sentinel errors returned, defaults and clamps with constants resolved, the conditions and loops around them).
    The theorems say that after the dialect normaliser (Model/SqlNorm.v) and exactly the reviewed differences of
    Model/PgAllowedDiffs.v (each of which must occur) the two skeletons of every tied function are equal token
    for token; that no function with a database statement is outside the table; and - for all token lists - that
    the normaliser is idempotent and never changes a column name, a string literal, a comparison operator or a
    guard / ordering keyword, so that equal normal forms have the same guards and the same ORDER BY keys.

    What this is NOT: a proof about Postgres.  It is a checked statement about the text of the two files; the
    engine semantics and the listed differences are reviewed, not proved (docs/notes/C13pg.md). *)
From Coq Require Import String List Bool.
From HK Require Import Gen.PgTie Model.SqlNorm Model.PgAllowedDiffs Proofs.SqlNormProofs Proofs.PgTieProofs.
Import ListNotations.
Local Open Scope string_scope.

(** * the ties: SQLite skeleton, normalised, after the listed differences = Postgres skeleton, normalised *)

Theorem C13pg_Enqueue_same_skeleton :
  sqlite_side sqlite_skeletons "Enqueue" sqlite_Enqueue = (pg_side pg_Enqueue, []).
Proof. exact tie_Enqueue. Qed.

Theorem C13pg_Dequeue_same_skeleton :
  sqlite_side sqlite_skeletons "Dequeue" sqlite_Dequeue = (pg_side pg_Dequeue, []).
Proof. exact tie_Dequeue. Qed.

Theorem C13pg_Ack_same_skeleton :
  sqlite_side sqlite_skeletons "Ack" sqlite_Ack = (pg_side pg_Ack, []).
Proof. exact tie_Ack. Qed.

Theorem C13pg_Nack_same_skeleton :
  sqlite_side sqlite_skeletons "Nack" sqlite_Nack = (pg_side pg_Nack, []).
Proof. exact tie_Nack. Qed.

Theorem C13pg_Extend_same_skeleton :
  sqlite_side sqlite_skeletons "Extend" sqlite_Extend = (pg_side pg_Extend, []).
Proof. exact tie_Extend. Qed.

Theorem C13pg_MarkDead_same_skeleton :
  sqlite_side sqlite_skeletons "MarkDead" sqlite_MarkDead = (pg_side pg_MarkDead, []).
Proof. exact tie_MarkDead. Qed.

Theorem C13pg_ListDead_same_skeleton :
  sqlite_side sqlite_skeletons "ListDead" sqlite_ListDead = (pg_side pg_ListDead, []).
Proof. exact tie_ListDead. Qed.

Theorem C13pg_RequeueDead_same_skeleton :
  sqlite_side sqlite_skeletons "RequeueDead" sqlite_RequeueDead = (pg_side pg_RequeueDead, []).
Proof. exact tie_RequeueDead. Qed.

Theorem C13pg_DeleteDead_same_skeleton :
  sqlite_side sqlite_skeletons "DeleteDead" sqlite_DeleteDead = (pg_side pg_DeleteDead, []).
Proof. exact tie_DeleteDead. Qed.

Theorem C13pg_ListMessages_same_skeleton :
  sqlite_side sqlite_skeletons "ListMessages" sqlite_ListMessages = (pg_side pg_ListMessages, []).
Proof. exact tie_ListMessages. Qed.

Theorem C13pg_LookupMessages_same_skeleton :
  sqlite_side sqlite_skeletons "LookupMessages" sqlite_LookupMessages = (pg_side pg_LookupMessages, []).
Proof. exact tie_LookupMessages. Qed.

Theorem C13pg_CancelMessages_same_skeleton :
  sqlite_side sqlite_skeletons "CancelMessages" sqlite_CancelMessages = (pg_side pg_CancelMessages, []).
Proof. exact tie_CancelMessages. Qed.

Theorem C13pg_RequeueMessages_same_skeleton :
  sqlite_side sqlite_skeletons "RequeueMessages" sqlite_RequeueMessages = (pg_side pg_RequeueMessages, []).
Proof. exact tie_RequeueMessages. Qed.

Theorem C13pg_ResumeMessages_same_skeleton :
  sqlite_side sqlite_skeletons "ResumeMessages" sqlite_ResumeMessages = (pg_side pg_ResumeMessages, []).
Proof. exact tie_ResumeMessages. Qed.

Theorem C13pg_CancelMessagesByFilter_same_skeleton :
  sqlite_side sqlite_skeletons "CancelMessagesByFilter" sqlite_CancelMessagesByFilter = (pg_side pg_CancelMessagesByFilter, []).
Proof. exact tie_CancelMessagesByFilter. Qed.

Theorem C13pg_RequeueMessagesByFilter_same_skeleton :
  sqlite_side sqlite_skeletons "RequeueMessagesByFilter" sqlite_RequeueMessagesByFilter = (pg_side pg_RequeueMessagesByFilter, []).
Proof. exact tie_RequeueMessagesByFilter. Qed.

Theorem C13pg_ResumeMessagesByFilter_same_skeleton :
  sqlite_side sqlite_skeletons "ResumeMessagesByFilter" sqlite_ResumeMessagesByFilter = (pg_side pg_ResumeMessagesByFilter, []).
Proof. exact tie_ResumeMessagesByFilter. Qed.

Theorem C13pg_Stats_same_skeleton :
  sqlite_side sqlite_skeletons "Stats" sqlite_Stats = (pg_side pg_Stats, []).
Proof. exact tie_Stats. Qed.

Theorem C13pg_RecordAttempt_same_skeleton :
  sqlite_side sqlite_skeletons "RecordAttempt" sqlite_RecordAttempt = (pg_side pg_RecordAttempt, []).
Proof. exact tie_RecordAttempt. Qed.

Theorem C13pg_ListAttempts_same_skeleton :
  sqlite_side sqlite_skeletons "ListAttempts" sqlite_ListAttempts = (pg_side pg_ListAttempts, []).
Proof. exact tie_ListAttempts. Qed.

Theorem C13pg_AckBatch_same_skeleton :
  sqlite_side sqlite_skeletons "AckBatch" sqlite_AckBatch = (pg_side pg_AckBatch, []).
Proof. exact tie_AckBatch. Qed.

Theorem C13pg_NackBatch_same_skeleton :
  sqlite_side sqlite_skeletons "NackBatch" sqlite_NackBatch = (pg_side pg_NackBatch, []).
Proof. exact tie_NackBatch. Qed.

Theorem C13pg_MarkDeadBatch_same_skeleton :
  sqlite_side sqlite_skeletons "MarkDeadBatch" sqlite_MarkDeadBatch = (pg_side pg_MarkDeadBatch, []).
Proof. exact tie_MarkDeadBatch. Qed.

Theorem C13pg_CaptureBacklogTrendSample_same_skeleton :
  sqlite_side sqlite_skeletons "CaptureBacklogTrendSample" sqlite_CaptureBacklogTrendSample = (pg_side pg_CaptureBacklogTrendSample, []).
Proof. exact tie_CaptureBacklogTrendSample. Qed.

Theorem C13pg_ListBacklogTrend_same_skeleton :
  sqlite_side sqlite_skeletons "ListBacklogTrend" sqlite_ListBacklogTrend = (pg_side pg_ListBacklogTrend, []).
Proof. exact tie_ListBacklogTrend. Qed.

Theorem C13pg_dequeueOnce_same_skeleton :
  sqlite_side sqlite_skeletons "dequeueOnce" sqlite_dequeueOnce = (pg_side pg_dequeueOnce, []).
Proof. exact tie_dequeueOnce. Qed.

Theorem C13pg_withLease_same_skeleton :
  sqlite_side sqlite_skeletons "withLease" sqlite_withLeaseMutation = (pg_side pg_withLease, []).
Proof. exact tie_withLease. Qed.

Theorem C13pg_requeueExpiredLeases_same_skeleton :
  sqlite_side sqlite_skeletons "requeueExpiredLeases" sqlite_requeueExpiredLeases = (pg_side pg_requeueExpiredLeasesTx, []).
Proof. exact tie_requeueExpiredLeases. Qed.

Theorem C13pg_requeueLease_same_skeleton :
  sqlite_side sqlite_skeletons "requeueLease" sqlite_requeueLease = (pg_side pg_requeueLeaseTx, []).
Proof. exact tie_requeueLease. Qed.

Theorem C13pg_maybePrune_same_skeleton :
  sqlite_side sqlite_skeletons "maybePrune" sqlite_maybePrune = (pg_side pg_maybePrune, []).
Proof. exact tie_maybePrune. Qed.

Theorem C13pg_selectMessageIDsByFilter_same_skeleton :
  sqlite_side sqlite_skeletons "selectMessageIDsByFilter" sqlite_selectMessageIDsByFilter = (pg_side pg_selectMessageIDsByFilter, []).
Proof. exact tie_selectMessageIDsByFilter. Qed.

Theorem C13pg_dropOldestQueued_same_skeleton :
  sqlite_side sqlite_skeletons "dropOldestQueued" sqlite_dropOldestQueued = (pg_side pg_dropOldestQueued, []).
Proof. exact tie_dropOldestQueued. Qed.

Theorem C13pg_activeCount_same_skeleton :
  sqlite_side sqlite_skeletons "activeCount" sqlite_activeDepthCountTx = (pg_side pg_activeCount, []).
Proof. exact tie_activeCount. Qed.

Theorem C13pg_mapInsertError_same_skeleton :
  sqlite_side sqlite_skeletons "mapInsertError" sqlite_mapQueueInsertError = (pg_side pg_mapPostgresInsertError, []).
Proof. exact tie_mapInsertError. Qed.

Theorem C13pg_NewStore_same_skeleton :
  sqlite_side sqlite_skeletons "NewStore" sqlite_NewSQLiteStore = (pg_side pg_NewPostgresStore, []).
Proof. exact tie_NewStore. Qed.

Theorem C13pg_WithNowFunc_same_skeleton :
  sqlite_side sqlite_skeletons "WithNowFunc" sqlite_WithSQLiteNowFunc = (pg_side pg_WithPostgresNowFunc, []).
Proof. exact tie_WithNowFunc. Qed.

Theorem C13pg_WithPollInterval_same_skeleton :
  sqlite_side sqlite_skeletons "WithPollInterval" sqlite_WithSQLitePollInterval = (pg_side pg_WithPostgresPollInterval, []).
Proof. exact tie_WithPollInterval. Qed.

Theorem C13pg_WithQueueLimits_same_skeleton :
  sqlite_side sqlite_skeletons "WithQueueLimits" sqlite_WithSQLiteQueueLimits = (pg_side pg_WithPostgresQueueLimits, []).
Proof. exact tie_WithQueueLimits. Qed.

Theorem C13pg_WithRetention_same_skeleton :
  sqlite_side sqlite_skeletons "WithRetention" sqlite_WithSQLiteRetention = (pg_side pg_WithPostgresRetention, []).
Proof. exact tie_WithRetention. Qed.

Theorem C13pg_WithDeliveredRetention_same_skeleton :
  sqlite_side sqlite_skeletons "WithDeliveredRetention" sqlite_WithSQLiteDeliveredRetention = (pg_side pg_WithPostgresDeliveredRetention, []).
Proof. exact tie_WithDeliveredRetention. Qed.

Theorem C13pg_WithDLQRetention_same_skeleton :
  sqlite_side sqlite_skeletons "WithDLQRetention" sqlite_WithSQLiteDLQRetention = (pg_side pg_WithPostgresDLQRetention, []).
Proof. exact tie_WithDLQRetention. Qed.


(** * the functions that need no listed difference: equal normal forms *)

Theorem C13pg_LookupMessages_exact : norm_pg pg_LookupMessages = norm_sqlite sqlite_LookupMessages.
Proof. exact exact_LookupMessages. Qed.

Theorem C13pg_CancelMessages_exact : norm_pg pg_CancelMessages = norm_sqlite sqlite_CancelMessages.
Proof. exact exact_CancelMessages. Qed.

Theorem C13pg_RequeueMessages_exact : norm_pg pg_RequeueMessages = norm_sqlite sqlite_RequeueMessages.
Proof. exact exact_RequeueMessages. Qed.

Theorem C13pg_ResumeMessages_exact : norm_pg pg_ResumeMessages = norm_sqlite sqlite_ResumeMessages.
Proof. exact exact_ResumeMessages. Qed.

Theorem C13pg_CancelMessagesByFilter_exact : norm_pg pg_CancelMessagesByFilter = norm_sqlite sqlite_CancelMessagesByFilter.
Proof. exact exact_CancelMessagesByFilter. Qed.

Theorem C13pg_RequeueMessagesByFilter_exact : norm_pg pg_RequeueMessagesByFilter = norm_sqlite sqlite_RequeueMessagesByFilter.
Proof. exact exact_RequeueMessagesByFilter. Qed.

Theorem C13pg_ResumeMessagesByFilter_exact : norm_pg pg_ResumeMessagesByFilter = norm_sqlite sqlite_ResumeMessagesByFilter.
Proof. exact exact_ResumeMessagesByFilter. Qed.

Theorem C13pg_requeueExpiredLeases_exact : norm_pg pg_requeueExpiredLeasesTx = norm_sqlite sqlite_requeueExpiredLeases.
Proof. exact exact_requeueExpiredLeases. Qed.

Theorem C13pg_WithNowFunc_exact : norm_pg pg_WithPostgresNowFunc = norm_sqlite sqlite_WithSQLiteNowFunc.
Proof. exact exact_WithNowFunc. Qed.

Theorem C13pg_WithPollInterval_exact : norm_pg pg_WithPostgresPollInterval = norm_sqlite sqlite_WithSQLitePollInterval.
Proof. exact exact_WithPollInterval. Qed.

Theorem C13pg_WithQueueLimits_exact : norm_pg pg_WithPostgresQueueLimits = norm_sqlite sqlite_WithSQLiteQueueLimits.
Proof. exact exact_WithQueueLimits. Qed.

Theorem C13pg_WithRetention_exact : norm_pg pg_WithPostgresRetention = norm_sqlite sqlite_WithSQLiteRetention.
Proof. exact exact_WithRetention. Qed.

Theorem C13pg_WithDeliveredRetention_exact : norm_pg pg_WithPostgresDeliveredRetention = norm_sqlite sqlite_WithSQLiteDeliveredRetention.
Proof. exact exact_WithDeliveredRetention. Qed.

Theorem C13pg_WithDLQRetention_exact : norm_pg pg_WithPostgresDLQRetention = norm_sqlite sqlite_WithSQLiteDLQRetention.
Proof. exact exact_WithDLQRetention. Qed.


(** * inventory *)
Theorem C13pg_sqlite_functions_covered :
  covered (map fst sqlite_skeletons) (map fst sqlite_only) (map (fun t => snd (fst t)) tied) = true.
Proof. exact sqlite_functions_covered. Qed.

Theorem C13pg_pg_functions_covered :
  covered (map fst pg_skeletons) (map fst pg_only) (map snd tied) = true.
Proof. exact pg_functions_covered. Qed.

Theorem C13pg_tied_functions_exist :
  forallb (fun t => match t with (_, a, b) =>
     match assoc a sqlite_skeletons, assoc b pg_skeletons with Some _, Some _ => true | _, _ => false end end) tied = true.
Proof. exact tied_functions_exist. Qed.

Theorem C13pg_untied_functions_exist :
  forallb (fun p => match assoc (fst p) sqlite_skeletons with Some _ => true | None => false end) sqlite_only
  && forallb (fun p => match assoc (fst p) pg_skeletons with Some _ => true | None => false end) pg_only = true.
Proof. exact untied_functions_exist. Qed.

Theorem C13pg_methods_same : pg_methods = filter (fun m => negb (m =? "EnqueueBatch")) sqlite_methods.
Proof. exact methods_same. Qed.

Theorem C13pg_errors_same : pg_errors_used = sqlite_errors_used.
Proof. exact errors_same. Qed.

Theorem C13pg_schema_columns :
  pg_columns = filter (fun c => negb (String.prefix "queue_counters." c)) sqlite_columns.
Proof. exact schema_columns_same. Qed.

Theorem C13pg_columns_are_kept :
  forallb (fun c => keep (after_dot c)) (sqlite_columns ++ pg_columns) = true.
Proof. exact columns_are_kept. Qed.

Theorem C13pg_limits :
  pg_consts = ["postgresBacklogMaxLimit=20000"; "postgresMaxDequeueBatch=100"; "postgresMaxListLimit=1000"].
Proof. exact pg_limits. Qed.

Theorem C13pg_sqlite_tx_helpers_pinned :
  stmts_of sqlite_beginImmediateWithRetry = [["BEGIN"; "IMMEDIATE"; ";"]]
  /\ stmts_of sqlite_commitTx = [["COMMIT"; ";"]]
  /\ stmts_of sqlite_rollbackTx = [["ROLLBACK"; ";"]].
Proof. exact sqlite_tx_helpers_pinned. Qed.

Theorem C13pg_pg_wrappers_pinned :
  pg_runStoreOperation = ["#callparam:fn"] /\ pg_runPostgresStoreOperationResult = ["#callparam:fn"].
Proof. exact pg_wrappers_pinned. Qed.

Theorem C13pg_diffs_well_formed :
  forallb (fun d => negb (Nat.eqb (length (d_sqlite d)) 0)
                    && forallb (fun n => mem n (map (fun t => fst (fst t)) tied)) (d_in d)
                    && negb (Nat.eqb (length (d_in d)) 0)) allowed_diffs = true.
Proof. exact diffs_well_formed. Qed.

Theorem C13pg_divergent_entries :
  map d_id (filter (fun d => match d_kind d with Divergent => true | Structural => false end) allowed_diffs) =
  ["enqueue-normalisation"; "enqueue-depth-limit"; "enqueue-insert-shape"; "mark-dead-reason-1"; "mark-dead-reason-2";
   "list-without-prune"; "list-include-2"; "stats-bucket-ages-1"; "stats-bucket-ages-2"; "dequeue-select-and-lease";
   "prune-queued-boundary"; "prune-delivered-column";
   "prune-dead-boundary"].
Proof. exact divergent_entries. Qed.

(** * the normaliser, for all token lists *)
Theorem C13pg_norm_idempotent : forall cm d l, norm cm d (norm cm d l) = norm cm d l.
Proof. exact norm_idem. Qed.

Theorem C13pg_pass_a_idempotent : forall cm d l, pass_a cm d (pass_a cm d l) = pass_a cm d l.
Proof. exact pass_a_idem. Qed.

Theorem C13pg_any_in_idempotent : forall l, any_in (any_in l) = any_in l.
Proof. exact any_in_idem. Qed.

Theorem C13pg_norm_never_changes_guard_tokens : forall cm d t, keep t = true -> norm_tok cm d t = [t].
Proof. exact norm_tok_keep. Qed.

Theorem C13pg_norm_keeps_guards : forall cm d l,
  filter keep (norm cm d l) = filter keep (map kw_upper (resolve d l)).
Proof. exact norm_keeps_guards. Qed.

Theorem C13pg_same_normal_form_same_guards : forall cm1 cm2 a b,
  norm cm1 Pg a = norm cm2 Sqlite b ->
  filter keep (map kw_upper (resolve Pg a)) = filter keep (map kw_upper (resolve Sqlite b)).
Proof. exact same_guards. Qed.

(** * non-vacuity *)

(** what the normaliser does *)
Example norm_pg_example :
  norm_pg ["#stmt:exec"; "UPDATE"; "queue_items"; "SET"; "next_run_at"; "="; "$2{s.now().UTC()}"; "WHERE"; "state"; "="; "ANY"; "(";
           "$3{['queued','leased']}"; ")"; "AND"; "id"; "="; "ANY"; "("; "$4{ids}"; ")"; "#endstmt"; "#call:requeueLeaseTx"]
  = ["#stmt:exec"; "UPDATE"; "queue_items"; "SET"; "next_run_at"; "="; "@{now}"; "WHERE"; "state"; "IN"; "("; "'queued'"; ",";
     "'leased'"; ")"; "AND"; "id"; "IN"; "("; "@{ids}"; ")"; "#endstmt"; "#do:requeueLease"].
Proof. vm_compute. reflexivity. Qed.

Example norm_sqlite_example :
  norm_sqlite ["#call:beginImmediateWithRetry"; "#stmt:exec"; "update"; "queue_items"; "SET"; "next_run_at"; "="; "?{s.now().UnixNano()}";
               "WHERE"; "state"; "IN"; "("; "?{'queued'}"; ","; "?{'leased'}"; ")"; "AND"; "id"; "IN"; "("; "?*{ids}"; ")"; ";"; "#endstmt";
               "#call:requeueLease"; "#call:commitTx"]
  = ["#begin"; "#stmt:exec"; "UPDATE"; "queue_items"; "SET"; "next_run_at"; "="; "@{now}"; "WHERE"; "state"; "IN"; "("; "'queued'"; ",";
     "'leased'"; ")"; "AND"; "id"; "IN"; "("; "@{ids}"; ")"; "#endstmt"; "#do:requeueLease"; "#commit"].
Proof. vm_compute. reflexivity. Qed.

(** the normaliser does not identify different guards, orders or errors *)
Example guard_operator_matters :
  norm_pg ["lease_until"; "<="; "$2{now}"] <> norm_pg ["lease_until"; "<"; "$2{now}"].
Proof. vm_compute. discriminate. Qed.

Example state_literal_matters :
  norm_pg ["state"; "="; "$1{'dead'}"] <> norm_sqlite ["state"; "="; "?{'queued'}"].
Proof. vm_compute. discriminate. Qed.

(** the ties are sensitive: each of these edits of one generated skeleton breaks its tie *)
Definition edit (from to l : list string) : list string * nat := replace_all (S (length l)) from to l.

Example DeleteDead_without_state_guard_breaks :
  let (pg', n) := edit ["AND"; "state"; "="; "$2{'dead'}"] [] pg_DeleteDead in
  n = 1 /\ tie_holds sqlite_skeletons "DeleteDead" sqlite_DeleteDead pg' = false.
Proof. vm_compute. split; reflexivity. Qed.

Example dequeue_other_order_breaks :
  let (pg', n) := edit ["ORDER"; "BY"; "next_run_at"; "ASC"; ","; "received_at"; "ASC"; ","; "id"; "ASC"] ["ORDER"; "BY"; "id"; "ASC"] pg_dequeueOnce in
  n = 1 /\ tie_holds sqlite_skeletons "dequeueOnce" sqlite_dequeueOnce pg' = false.
Proof. vm_compute. split; reflexivity. Qed.

Example expired_answered_not_found_breaks :
  let (pg', n) := edit ["#ret:ErrLeaseExpired"] ["#ret:ErrLeaseNotFound"] pg_withLease in
  n = 1 /\ tie_holds sqlite_skeletons "withLease" sqlite_withLeaseMutation pg' = false.
Proof. vm_compute. split; reflexivity. Qed.

Example sqlite_edit_breaks_too :
  let (sq', n) := edit ["?{'dead'}"] ["?{'canceled'}"] sqlite_RequeueDead in
  n = 1 /\ tie_holds sqlite_skeletons "RequeueDead" sq' pg_RequeueDead = false.
Proof. vm_compute. split; reflexivity. Qed.

(** a listed difference that does not occur is an error, not a licence *)
Example unused_difference_is_reported :
  snd (sqlite_side sqlite_skeletons "LookupMessages" sqlite_LookupMessages) = []
  /\ snd (apply_diffs [mkDiff "x" ["LookupMessages"] ["no"; "such"; "fragment"] [] Structural ""] "LookupMessages"
            (norm_sqlite sqlite_LookupMessages)) = ["x"].
Proof. vm_compute. split; reflexivity. Qed.


Print Assumptions C13pg_Enqueue_same_skeleton.
Print Assumptions C13pg_Dequeue_same_skeleton.
Print Assumptions C13pg_Ack_same_skeleton.
Print Assumptions C13pg_Nack_same_skeleton.
Print Assumptions C13pg_Extend_same_skeleton.
Print Assumptions C13pg_MarkDead_same_skeleton.
Print Assumptions C13pg_ListDead_same_skeleton.
Print Assumptions C13pg_RequeueDead_same_skeleton.
Print Assumptions C13pg_DeleteDead_same_skeleton.
Print Assumptions C13pg_ListMessages_same_skeleton.
Print Assumptions C13pg_LookupMessages_same_skeleton.
Print Assumptions C13pg_CancelMessages_same_skeleton.
Print Assumptions C13pg_RequeueMessages_same_skeleton.
Print Assumptions C13pg_ResumeMessages_same_skeleton.
Print Assumptions C13pg_CancelMessagesByFilter_same_skeleton.
Print Assumptions C13pg_RequeueMessagesByFilter_same_skeleton.
Print Assumptions C13pg_ResumeMessagesByFilter_same_skeleton.
Print Assumptions C13pg_Stats_same_skeleton.
Print Assumptions C13pg_RecordAttempt_same_skeleton.
Print Assumptions C13pg_ListAttempts_same_skeleton.
Print Assumptions C13pg_AckBatch_same_skeleton.
Print Assumptions C13pg_NackBatch_same_skeleton.
Print Assumptions C13pg_MarkDeadBatch_same_skeleton.
Print Assumptions C13pg_CaptureBacklogTrendSample_same_skeleton.
Print Assumptions C13pg_ListBacklogTrend_same_skeleton.
Print Assumptions C13pg_dequeueOnce_same_skeleton.
Print Assumptions C13pg_withLease_same_skeleton.
Print Assumptions C13pg_requeueExpiredLeases_same_skeleton.
Print Assumptions C13pg_requeueLease_same_skeleton.
Print Assumptions C13pg_maybePrune_same_skeleton.
Print Assumptions C13pg_selectMessageIDsByFilter_same_skeleton.
Print Assumptions C13pg_dropOldestQueued_same_skeleton.
Print Assumptions C13pg_activeCount_same_skeleton.
Print Assumptions C13pg_mapInsertError_same_skeleton.
Print Assumptions C13pg_NewStore_same_skeleton.
Print Assumptions C13pg_WithNowFunc_same_skeleton.
Print Assumptions C13pg_WithPollInterval_same_skeleton.
Print Assumptions C13pg_WithQueueLimits_same_skeleton.
Print Assumptions C13pg_WithRetention_same_skeleton.
Print Assumptions C13pg_WithDeliveredRetention_same_skeleton.
Print Assumptions C13pg_WithDLQRetention_same_skeleton.
Print Assumptions C13pg_LookupMessages_exact.
Print Assumptions C13pg_CancelMessages_exact.
Print Assumptions C13pg_RequeueMessages_exact.
Print Assumptions C13pg_ResumeMessages_exact.
Print Assumptions C13pg_CancelMessagesByFilter_exact.
Print Assumptions C13pg_RequeueMessagesByFilter_exact.
Print Assumptions C13pg_ResumeMessagesByFilter_exact.
Print Assumptions C13pg_requeueExpiredLeases_exact.
Print Assumptions C13pg_WithNowFunc_exact.
Print Assumptions C13pg_WithPollInterval_exact.
Print Assumptions C13pg_WithQueueLimits_exact.
Print Assumptions C13pg_WithRetention_exact.
Print Assumptions C13pg_WithDeliveredRetention_exact.
Print Assumptions C13pg_WithDLQRetention_exact.
Print Assumptions C13pg_sqlite_functions_covered.
Print Assumptions C13pg_pg_functions_covered.
Print Assumptions C13pg_tied_functions_exist.
Print Assumptions C13pg_untied_functions_exist.
Print Assumptions C13pg_methods_same.
Print Assumptions C13pg_errors_same.
Print Assumptions C13pg_schema_columns.
Print Assumptions C13pg_columns_are_kept.
Print Assumptions C13pg_limits.
Print Assumptions C13pg_sqlite_tx_helpers_pinned.
Print Assumptions C13pg_pg_wrappers_pinned.
Print Assumptions C13pg_diffs_well_formed.
Print Assumptions C13pg_divergent_entries.
Print Assumptions C13pg_norm_idempotent.
Print Assumptions C13pg_pass_a_idempotent.
Print Assumptions C13pg_any_in_idempotent.
Print Assumptions C13pg_norm_never_changes_guard_tokens.
Print Assumptions C13pg_norm_keeps_guards.
Print Assumptions C13pg_same_normal_form_same_guards.
