(** C15 - Admin publish is validated and all-or-nothing.
    Only theorem statements, each closed by [exact] of a lemma from Proofs/. *)
From Coq Require Import List NArith ZArith Bool.
From HK Require Import Model.Queue Model.Headers Model.Base64 Model.HeaderValidate Model.Publish.
From HK Require Import Proofs.PublishProofs Proofs.HeaderValidateProofs.
Import ListNotations.
Open Scope Z_scope.

(** POST /messages/publish on a store with EnqueueBatch (memory, SQLite), both flavours, any
    queue limits / drop policy / pre-existing content, any oracle: 200 means published =
    number of items and every item is stored queued; any other status leaves the queue as it
    was (up to the retention prune that every store operation performs first). *)
Theorem C15_publish_atomic_global : forall hb hh fl c now o x a ok items s s' r,
  publish_global hb hh true fl c now o x a ok items s = (s', r) ->
  match r with
  | ROk n => n = Z.of_nat (length items) /\ all_stored (item_ids items) (msgs s') /\
             exists es kept, preflight_global x a ok items = Accept es /\
                             Forall2 (accepted_global x) items es /\
                             msgs s' = kept ++ map (stored hb hh now) es /\
                             (forall m, In m kept -> In m (msgs s))
  | RFail st _ _ => st <> 200 /\ unchanged c now o s s'
  end.
Proof. exact publish_atomic_global. Qed.

Theorem C15_publish_atomic_scoped : forall hb hh fl c now o x app ep a ok items s s' r,
  publish_scoped hb hh true fl c now o x app ep a ok items s = (s', r) ->
  match r with
  | ROk n => n = Z.of_nat (length items) /\ all_stored (item_ids items) (msgs s') /\
             exists es kept rt ts, preflight_scoped x app ep a ok items = Accept es /\
                             scope_of x app ep = Some (rt, ts) /\
                             Forall2 (accepted_scoped x rt ts) items es /\
                             msgs s' = kept ++ map (stored hb hh now) es /\
                             (forall m, In m kept -> In m (msgs s))
  | RFail st _ _ => st <> 200 /\ unchanged c now o s s'
  end.
Proof. exact publish_atomic_scoped. Qed.

(** "unchanged" is literal when no retention prune is due *)
Theorem C15_unchanged_no_prune : forall c now o s s',
  prune_due c now (last_prune s) = false -> unchanged c now o s s' -> s' = s.
Proof. exact unchanged_no_prune. Qed.

(** A refusal that names an item: the item is the offender of the pass that found it, and no
    earlier item offends at that pass (passes: 1 parse incl. in-batch duplicate ids,
    2 managed selector on the global path, 3 semantic per-item checks). *)
Theorem C15_first_offender_global : forall x ok items st c idx,
  items_global x ok items = Reject st c idx ->
  (idx = -1 /\ st = 400 /\ c = CInvalidBody /\ (ok = false \/ ~ count_ok items)) \/
  (exists k it, idx = Z.of_nat k /\ nth_error items k = Some it /\ offender_global x items st c k it).
Proof. exact items_global_reject. Qed.

Theorem C15_first_offender_scoped : forall x r targets ok items st c idx,
  items_scoped x r targets ok items = Reject st c idx ->
  (idx = -1 /\ st = 400 /\ c = CInvalidBody /\ (ok = false \/ ~ count_ok items)) \/
  (exists k it, idx = Z.of_nat k /\ nth_error items k = Some it /\ offender_scoped x r targets items st c k it).
Proof. exact items_scoped_reject. Qed.

(** request-level refusals carry no item index; otherwise the handler is the item passes *)
Theorem C15_request_level_global : forall x a ok items,
  (exists st c, preflight_global x a ok items = Reject st c (-1) /\ c <> CInvalidBody) \/
  preflight_global x a ok items = items_global x ok items.
Proof. exact preflight_global_items. Qed.

Theorem C15_request_level_scoped : forall x app ep a ok items,
  (exists st c, preflight_scoped x app ep a ok items = Reject st c (-1)) \/
  (exists r targets, scope_of x app ep = Some (r, targets) /\ targets <> [] /\
                     route_policy_error x r targets true = None /\
                     preflight_scoped x app ep a ok items = items_scoped x r targets ok items).
Proof. exact preflight_scoped_items. Qed.

(** pass 4 (LookupMessages): the index reported with 409 duplicate_id is the first item
    whose id is already stored *)
Theorem C15_first_existing : forall ids s, NoDup ids ->
  match first_existing ids s with
  | Some k => exists i, nth_error ids k = Some i /\ has_id i (msgs s) = true /\
              forall k' i', (k' < k)%nat -> nth_error ids k' = Some i' -> has_id i' (msgs s) = false
  | None => forall i, In i ids -> has_id i (msgs s) = false
  end.
Proof. exact first_existing_spec. Qed.

Theorem C15_batch_ids_distinct : forall req items, parse_ok_all req items -> NoDup (item_ids items).
Proof. exact parse_ok_nodup. Qed.

(** what an accepted batch looks like, item by item *)
Theorem C15_accept_global : forall x ok items es,
  items_global x ok items = Accept es ->
  ok = true /\ count_ok items /\ parse_ok_all true items /\
  (forall it, In it items -> has_managed_selector it = false) /\
  Forall2 (accepted_global x) items es.
Proof. exact items_global_accept. Qed.

Theorem C15_accept_scoped : forall x r targets ok items es,
  items_scoped x r targets ok items = Accept es ->
  ok = true /\ count_ok items /\ parse_ok_all false items /\
  Forall2 (accepted_scoped x r targets) items es.
Proof. exact items_scoped_accept. Qed.

(** messages created by publish: queued, never attempted, not leased, one target that belongs
    to the route, payload within max_body, headers valid and within max_headers *)
Theorem C15_published_shape_global : forall hb hh x items es now e,
  Forall2 (accepted_global x) items es -> In e es ->
  shape_ok hb hh x now e (stored hb hh now e) /\
  exists it, In it items /\ payload_of (i_payload it) = Some (pe_payload e) /\ pe_headers e = i_headers it.
Proof. exact published_shape_global. Qed.

Theorem C15_published_shape_scoped : forall hb hh x r ts items es now e,
  Forall2 (accepted_scoped x r ts) items es -> ts = targets_for x r -> In e es ->
  shape_ok hb hh x now e (stored hb hh now e) /\
  exists it, In it items /\ payload_of (i_payload it) = Some (pe_payload e) /\ pe_headers e = i_headers it.
Proof. exact published_shape_scoped. Qed.

(** ValidateMap accepts exactly: non-empty token names, values without CR/LF/DEL/control bytes *)
Theorem C15_validate_map_spec : forall m, validate_map m = forallb entry_ok m.
Proof. exact validate_map_spec. Qed.

(** The handler's per-item fallback for a store WITHOUT BatchEnqueuer (in this tree:
    PostgresStore) is not all-or-nothing: two valid items, room for one - the first is stored,
    the request fails with 503 naming item 1; the batching path refuses the same request
    without storing anything.  (The positive statement for such stores is refuted.) *)
Theorem C15_fallback_not_atomic_refuted :
  exists fl c now o x a items s',
    publish_global hash_bytes hash_smap false fl c now o x a true items init = (s', RFail 503 CQueueFull 1)
    /\ msgs s' <> msgs init
    /\ prune_due c now (last_prune init) = false
    /\ publish_global hash_bytes hash_smap true fl c now o x a true items init = (init, RFail 503 CQueueFull (-1)).
Proof. exact fallback_not_atomic_refuted. Qed.

Print Assumptions C15_publish_atomic_global.
Print Assumptions C15_publish_atomic_scoped.
Print Assumptions C15_unchanged_no_prune.
Print Assumptions C15_first_offender_global.
Print Assumptions C15_first_offender_scoped.
Print Assumptions C15_request_level_global.
Print Assumptions C15_request_level_scoped.
Print Assumptions C15_first_existing.
Print Assumptions C15_batch_ids_distinct.
Print Assumptions C15_accept_global.
Print Assumptions C15_accept_scoped.
Print Assumptions C15_published_shape_global.
Print Assumptions C15_published_shape_scoped.
Print Assumptions C15_validate_map_spec.
Print Assumptions C15_fallback_not_atomic_refuted.
