(** C06 — push delivery: outcome classification, bounded retry with back-off, DLQ.
    Only theorem statements, each closed by [exact] of a lemma from Proofs/. *)
From Coq Require Import ZArith QArith Qround List Bool.
From HK Require Import Model.Retry Model.Dispatcher Proofs.RetryProofs Proofs.DispatcherProofs.
Import ListNotations.
Open Scope Z_scope.

(** The complete decision table, for every status code 100..599, every error kind, every
    attempt number and every retry.max (all unbounded [Z]). *)
Theorem C06_classify_total : forall (c attempt mx : Z) (k : err_kind),
  100 <= c <= 599 ->
  (200 <= c <= 299 -> classify (RStatus c) attempt mx = AAck) /\
  ((500 <= c <= 599 \/ c = 429 \/ c = 408) ->
      (attempt <= mx -> classify (RStatus c) attempt mx = ANack) /\
      (mx < attempt -> classify (RStatus c) attempt mx = ADead MaxRetries)) /\
  ((100 <= c <= 199 \/ 300 <= c <= 399 \/ (400 <= c <= 499 /\ c <> 408 /\ c <> 429)) ->
      classify (RStatus c) attempt mx = ADead NoRetry) /\
  ((k = Net \/ k = Timeout \/ k = Other) ->
      (attempt <= mx -> classify (RErr k) attempt mx = ANack) /\
      (mx < attempt -> classify (RErr k) attempt mx = ADead MaxRetries)) /\
  ((k = PolicyDenied \/ k = PolicyDeniedWrapped) -> classify (RErr k) attempt mx = ADead PolicyDeniedR).
Proof. exact classify_total. Qed.

(** the classes of the table cover 100..599 *)
Theorem C06_code_classes_partition : forall c, 100 <= c <= 599 ->
  (200 <= c <= 299) \/ (500 <= c <= 599 \/ c = 429 \/ c = 408) \/
  (100 <= c <= 199 \/ 300 <= c <= 399 \/ (400 <= c <= 499 /\ c <> 408 /\ c <> 429)).
Proof. exact code_classes_partition. Qed.

(** the same table as a computed sweep over all 500 codes against a table written from the
    property text *)
Theorem C06_classify_table : forall c a m, 100 <= c <= 599 ->
  enc_action (classify (RStatus c) a m) = table_action c (a <=? m).
Proof. exact classify_table. Qed.

(** converse readings, for every result whatsoever *)
Theorem C06_ack_iff_2xx : forall r a m,
  classify r a m = AAck <-> exists c, r = RStatus c /\ 200 <= c <= 299.
Proof. exact ack_iff_2xx. Qed.

Theorem C06_never_success_1xx_3xx : forall c a m,
  (100 <= c <= 199 \/ 300 <= c <= 399) -> classify (RStatus c) a m <> AAck.
Proof. exact never_success_1xx_3xx. Qed.

Theorem C06_retry_only_within_max : forall r a m,
  classify r a m = ANack -> a <= m /\ should_retry r = true /\ is_policy_denied r = false.
Proof. exact nack_implies. Qed.

Theorem C06_policy_denied_never_retried : forall r a m,
  classify r a m = ADead PolicyDeniedR <-> is_policy_denied r = true.
Proof. exact dead_policy_iff. Qed.

Theorem C06_max_retries_means_exhausted : forall r a m,
  classify r a m = ADead MaxRetries -> m < a /\ should_retry r = true.
Proof. exact dead_max_implies. Qed.

(** For EVERY stream of target behaviours and jitter draws, a cycle that starts at attempt a0 >= 1
    sends the message at least once and at most retry.max + 1 times and ends delivered or dead
    with one of the three reasons - never dropped, never retried forever. *)
Theorem C06_attempts_bounded : forall rc a0 beh draw,
  0 <= rc_max rc -> 1 <= a0 ->
  let tr := dispatch_cycle rc a0 beh draw in
  1 <= sends tr <= rc_max rc + 1 /\
  sends tr <= Z.max 1 (rc_max rc + 2 - a0) /\
  exists t, snd tr = Some t /\
    (t = TDelivered \/ t = TDead NoRetry \/ t = TDead PolicyDeniedR \/ t = TDead MaxRetries).
Proof. exact attempts_bounded. Qed.

(** the bound does not depend on the fuel of the executable model *)
Theorem C06_sends_bounded_any_fuel : forall fuel rc a beh draw k,
  sends (cycle fuel rc a beh draw k) <= Z.max 1 (rc_max rc + 2 - a).
Proof. exact cycle_sends_le. Qed.

Theorem C06_cycle_fuel_irrelevant : forall f1 f2 rc a beh draw k,
  (Z.to_nat (rc_max rc + 1 - a) < f1)%nat -> (Z.to_nat (rc_max rc + 1 - a) < f2)%nat ->
  cycle f1 rc a beh draw k = cycle f2 rc a beh draw k.
Proof. exact cycle_fuel_irrelevant. Qed.

(** the terminal state is the one the last behaviour calls for; everything before it was a retry *)
Theorem C06_cycle_last : forall fuel rc a beh draw k t,
  snd (cycle fuel rc a beh draw k) = Some t ->
  exists n : nat, sends (cycle fuel rc a beh draw k) = Z.of_nat (S n) /\
    (forall i : nat, (i < n)%nat -> classify (beh (k + i)%nat) (a + Z.of_nat i) (rc_max rc) = ANack) /\
    match t with
    | TDelivered => classify (beh (k + n)%nat) (a + Z.of_nat n) (rc_max rc) = AAck
    | TDead why => classify (beh (k + n)%nat) (a + Z.of_nat n) (rc_max rc) = ADead why
    end.
Proof. exact cycle_last. Qed.

(** the bound is tight: a target that keeps failing is sent to exactly max+1 times *)
Theorem C06_always_failing_exhausts : forall rc beh draw,
  0 <= rc_max rc -> (forall k, should_retry (beh k) = true /\ is_success (beh k) = false) ->
  let tr := dispatch_cycle rc 1 beh draw in
  sends tr = rc_max rc + 1 /\ snd tr = Some (TDead MaxRetries).
Proof. exact always_failing_exhausts. Qed.

(** back-off window: min(base*2^(attempt-1), cap) * (1 -+ jitter) *)
Theorem C06_delay_bounds : forall (base cap attempt : Z) (u j : Q),
  (0 <= j /\ j <= 1)%Q -> 0 < base <= cap -> 1 <= attempt -> (0 <= u /\ u < 1)%Q ->
  let d := backoffQ base cap attempt in
  (d * (1 - j) <= delayQ base cap attempt u j /\ delayQ base cap attempt u j <= d * (1 + j))%Q.
Proof. exact delay_bounds. Qed.

Theorem C06_delay_ns_bounds : forall (base cap attempt : Z) (u j : Q),
  (0 <= j /\ j <= 1)%Q -> 0 < base <= cap -> cap <= max_int64 -> 1 <= attempt -> (0 <= u /\ u < 1)%Q ->
  let d := backoffQ base cap attempt in
  Qfloor (d * (1 - j)) <= delay_ns base cap attempt u j /\
  (inject_Z (delay_ns base cap attempt u j) <= d * (1 + j))%Q /\
  0 <= delay_ns base cap attempt u j <= max_int64.
Proof. exact delay_ns_bounds. Qed.

Theorem C06_delay_nonneg : forall base cap attempt u j, (0 <= delayQ base cap attempt u j)%Q.
Proof. exact delay_nonneg. Qed.

Theorem C06_backoff_monotone : forall base cap a1 a2,
  0 < base -> a1 <= a2 -> (backoffQ base cap a1 <= backoffQ base cap a2)%Q.
Proof. exact backoff_monotone. Qed.

(** exactly one attempt record per classify path, with the matching outcome *)
Theorem C06_attempt_recorded : forall rc a r u,
  exists rec, attempt_records rc a r u = [rec] /\
    ar_attempt rec = a /\ ar_result rec = r /\
    (classify r a (rc_max rc) = AAck -> ar_outcome rec = OAcked /\ ar_reason rec = None /\ ar_delay rec = None) /\
    (classify r a (rc_max rc) = ANack -> ar_outcome rec = ORetry /\ ar_reason rec = None /\
        ar_delay rec = Some (delayQ (rc_base rc) (rc_cap rc) a u (rc_jitter rc))) /\
    (forall why, classify r a (rc_max rc) = ADead why -> ar_outcome rec = ODead /\ ar_reason rec = Some why /\ ar_delay rec = None).
Proof. exact attempt_recorded. Qed.

(** the records of a finished cycle: attempt numbers a, a+1, ...; retries, then one terminal record *)
Theorem C06_cycle_shape : forall fuel rc a beh draw k t,
  snd (cycle fuel rc a beh draw k) = Some t ->
  consecutive a (fst (cycle fuel rc a beh draw k)) /\ retries_then t (fst (cycle fuel rc a beh draw k)).
Proof. exact cycle_shape. Qed.

(** the lease handed out with a micro-batch covers its sequential delivery *)
Theorem C06_ttl_covers_microbatch : forall timeouts slack batch t,
  In t timeouts -> 1 <= batch ->
  batch * eff_timeout t + slack <= route_lease_ttl timeouts slack batch /\
  30 * sec <= route_lease_ttl timeouts slack batch.
Proof. exact ttl_covers_microbatch. Qed.

Theorem C06_dequeue_batch_range : forall c n,
  let b := route_dequeue_batch (eff_concurrency c) n in
  1 <= b <= 4 /\ b <= eff_concurrency c /\ (1 < n -> b <= 2) /\ route_mutation_batch b = b.
Proof. exact dequeue_batch_range. Qed.

Theorem C06_start_ttl_covers : forall timeouts slack conc t,
  In t timeouts ->
  let b := route_dequeue_batch (eff_concurrency conc) (Z.of_nat (length timeouts)) in
  b * eff_timeout t + eff_slack slack <= route_lease_ttl timeouts (eff_slack slack) b.
Proof. exact start_ttl_covers. Qed.

Print Assumptions C06_classify_total.
Print Assumptions C06_classify_table.
Print Assumptions C06_ack_iff_2xx.
Print Assumptions C06_retry_only_within_max.
Print Assumptions C06_policy_denied_never_retried.
Print Assumptions C06_attempts_bounded.
Print Assumptions C06_cycle_last.
Print Assumptions C06_always_failing_exhausts.
Print Assumptions C06_delay_bounds.
Print Assumptions C06_delay_ns_bounds.
Print Assumptions C06_attempt_recorded.
Print Assumptions C06_cycle_shape.
Print Assumptions C06_ttl_covers_microbatch.
Print Assumptions C06_start_ttl_covers.
