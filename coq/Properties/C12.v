(** C12 - placeholder while the proofs are being written (replaced in this session). *)
From Coq Require Import List ZArith.
From HK Require Import Model.Queue Model.QueueMon.
Theorem C12_placeholder : True. Proof. exact I. Qed.
