(** C12 - admission limits: depth and drop policy (this file, queue model); size limits and the
    rate limiter are in Properties/C12rl.v.
    Only theorem statements; proofs are [exact] of lemmas from Proofs/. *)
From Coq Require Import List ZArith NArith Bool.
From HK Require Import Model.Queue Model.QueueMon Proofs.QueueBase Proofs.QueueInv Proofs.QueueInvStep
  Proofs.QueueStep Proofs.QueueAdmit Proofs.QueueMonC02 Proofs.QueueMonC12.
Import ListNotations.
Open Scope Z_scope.

(** every refusal (full, duplicate id, memory pressure) leaves the queue exactly as it was - what the
    call's own retention prune removed aside: nothing is evicted, nothing stored, nothing touched *)
Theorem C12_refusal_frame : forall fl c now single es o s s' e,
  step_enqueue fl c now single es o s = (s', RErr e) -> s' = prune c now (o_gone o) s.
Proof. exact enqueue_refusal_frame. Qed.

(** a successful enqueue (single or batch, either policy, either backend) leaves at most max_depth
    active messages, provided the queue was not already lifted above max_depth (the stated exclusion) *)
Theorem C12_admitted_within_depth : forall fl c now single es o s s' r,
  (single = true -> length es = 1%nat) ->
  Inv s -> step_enqueue fl c now single es o s = (s', r) -> res_ok r = true -> es <> [] ->
  0 < c_max_depth c -> active (msgs (prune c now (o_gone o) s)) <= c_max_depth c ->
  active (msgs s') <= c_max_depth c.
Proof. exact enqueue_within_depth. Qed.

(** history level: as long as no operator requeue/resume lifts it, queued+leased <= max_depth always *)
Theorem C12_active_bounded_along_history : forall fl c xs,
  0 < c_max_depth c ->
  Forall (fun xo : op * oracle => lifts (fst xo) = false) xs ->
  active (msgs (snd (run fl c init xs))) <= c_max_depth c.
Proof.
  intros fl c xs Hmax HF. apply active_bounded_along_history; auto; [exact inv_init | unfold active, count_st; simpl; Lia.lia].
Qed.

(** evictions happen only for a successful enqueue under drop_oldest, only of queued - never leased -
    messages (C02's [rm_evict]); SQLite evicts exactly as many as needed, one per message stored beyond the room *)
Theorem C12_sql_evicts_exactly : forall c fuel need hint l l2,
  NoDup (ids l) -> sql_make_room c fuel need hint l = Some l2 ->
  exists vs, l2 = apply_pm (pm_remove_ids vs) l /\ queued_ids l vs /\ NoDup vs
             /\ Z.of_nat (length vs) = Z.max 0 (need - c_max_depth c).
Proof. exact sql_make_room_exact. Qed.

Theorem C12_mem_plan_sound : forall c fuel extra ord l a ad vs,
  mem_plan_loop c fuel extra ord l a ad [] = Some vs ->
  NoDup vs /\ queued_ids l vs /\
  exists n, Z.of_nat (length vs) = n /\ 0 <= n /\ mem_full c extra (a - n) (ad - n) = false.
Proof.
  intros c fuel extra ord l a ad vs H.
  destruct (mem_plan_loop_exact c fuel extra ord l a ad [] vs H (NoDup_nil N)) as [A [B [n [Ln [Hn Hf]]]]]; [intros v []|].
  split; [exact A|]. split; [exact B|]. exists n. simpl in Ln. repeat split; assumption.
Qed.

(** the victim is an oldest queued message *)
Theorem C12_sql_victim_is_oldest_queued : forall hint l v,
  sql_victim hint l = Some v ->
  exists m, In m l /\ m_id m = v /\ queuedb m = true /\ forall q, In q l -> queuedb q = true -> m_recv m <= m_recv q.
Proof. exact sql_victim_oldest. Qed.

Theorem C12_mem_victim_is_oldest_queued : forall ord l vs m,
  mem_oldest ord l vs None = Some m ->
  forall i q, In i ord -> find_id i l = Some q -> queuedb q = true -> ~ In i vs -> m_recv m <= m_recv q.
Proof. intros ord l vs m H. exact (proj2 (mem_oldest_min ord l vs None m H)). Qed.

(** memory backend, over every history: the order log covers every stored id (invariant), hence the
    first planned victim is an oldest queued message of the whole store *)
Theorem C12_mem_first_victim_is_oldest_of_store : forall c xs m,
  let s := snd (run Mem c init xs) in
  mem_oldest (order s) (msgs s) [] None = Some m ->
  In m (msgs s) /\ queuedb m = true /\ forall q, In q (msgs s) -> queuedb q = true -> m_recv m <= m_recv q.
Proof. exact mem_first_victim_is_oldest. Qed.

(** nothing but an enqueue or an operator requeue/resume raises the active count *)
Theorem C12_only_enqueue_raises_active : forall fl c s x o s' r,
  Inv s -> raises_active x = false -> step fl c s x o = (s', r) -> active (msgs s') <= active (msgs s).
Proof. exact step_active_not_raised. Qed.

Example C12_witness :
  let e i := mkEnq (Some i) 1%N 1%N None None 5%N 0%N 0%N in
  let o0 := mkOracle [] [] [] [] in
  map (fun ev => (ev_res ev, map m_id (ev_after ev)))
      (model_trace Sql (mkCfg 2 true 0 0 0 0 0 0)
         [(Enqueue 100 (e 1%N), o0); (Enqueue 101 (e 2%N), o0);
          (Enqueue 102 (e 2%N), mkOracle [] [1%N] [] []);      (* full + duplicate id: refused, nothing evicted *)
          (Enqueue 103 (e 3%N), mkOracle [] [1%N] [] [])])     (* full: the oldest queued is evicted, 3 stored *)
  = [(RUnit, [1%N]); (RUnit, [1%N; 2%N]); (RErr EExists, [1%N; 2%N]); (RUnit, [2%N; 3%N])].
Proof. vm_compute. reflexivity. Qed.

(** What a successful enqueue evicts, exactly, on either backend: [vs] are distinct ids of queued
    messages of the pruned store [P]; as many as the new items need to fit and no more
    (max 0 (A + k - max_depth) under drop_oldest with a depth limit, none otherwise; A = active count,
    for the memory store with delivered retention the larger of active and active+delivered); under
    the reject policy the items fit as they are; and every evicted message is no younger (received_at)
    than every queued message that stays. *)
Theorem C12_successful_enqueue_evicts_exactly : forall fl c now single es o s s' r,
  es <> [] -> Inv s -> (fl = Mem -> order_covers s) -> step_enqueue fl c now single es o s = (s', r) ->
  (msgs s' = msgs s /\ r = RBadOracle)
  \/ (msgs s' = msgs (prune c now (o_gone o) s) /\ exists e, r = RErr e)
  \/ (exists vs ies, assign_ids es (o_genids o) = Some ies
        /\ evict_spec fl c (Z.of_nat (length ies)) (msgs (prune c now (o_gone o) s)) vs
        /\ msgs s' = apply_pm (pm_remove_ids vs) (msgs (prune c now (o_gone o) s)) ++ mk_news now ies
        /\ r = (if single then RUnit else RCount (Z.of_nat (length ies)) 0 false)).
Proof. exact step_enqueue_shape12. Qed.

(** The executable monitor [P_C12] - what the correspondence check evaluates on traces of the Go stores -
    holds on every trace of the model (both flavours, every configuration and history) in which no
    successful enqueue re-uses the id of a message stored when it started. *)
Theorem C12_monitor_holds_on_every_model_trace : forall fl c xs,
  Forall fresh_enqueue (model_trace fl c xs) -> P_C12 fl c (model_trace fl c xs) = true.
Proof. exact P_C12_holds_on_model. Qed.

Theorem C12_monitor_holds_on_every_step : forall fl c s x o s' r ins,
  Inv s -> (fl = Mem -> order_covers s) -> step fl c s x o = (s', r) ->
  fresh_enqueue (mkEvent x o r (msgs s) (msgs s')) ->
  c12_event fl c ins (mkEvent x o r (msgs s) (msgs s')) = true.
Proof. exact c12_event_holds. Qed.

(** non-vacuity: a history with evictions on both flavours, a refusal and an operator-lifted queue *)
Example C12_monitor_premise_met :
  let e i := mkEnq (Some i) 1%N 1%N None None 5%N 0%N 0%N in
  let o0 := mkOracle [] [] [] [] in
  let h := [(Enqueue 100 (e 1%N), o0); (Enqueue 101 (e 2%N), o0);
            (EnqueueBatch 102 [e 3%N; e 4%N], mkOracle [] [1%N; 2%N] [] []);       (* evicts 1 and 2 *)
            (Enqueue 103 (e 4%N), o0);                                               (* duplicate id: refused, eviction undone *)
            (Dequeue 200 None None 2 1000, mkOracle [(3%N, 11%N); (4%N, 12%N)] [] [] []);
            (Enqueue 201 (e 5%N), o0)] in                                            (* both slots leased: full *)
  let cfg := mkCfg 2 true 0 0 0 0 0 0 in
  (forallb fresh_enqueueb (model_trace Sql cfg h) && forallb fresh_enqueueb (model_trace Mem cfg h),
   map (fun ev => map m_id (ev_after ev)) (model_trace Sql cfg h),
   P_C12 Sql cfg (model_trace Sql cfg h), P_C12 Mem cfg (model_trace Mem cfg h))
  = (true, [[1]; [1; 2]; [3; 4]; [3; 4]; [3; 4]; [3; 4]]%N, true, true).
Proof. vm_compute. reflexivity. Qed.

Print Assumptions C12_refusal_frame.
Print Assumptions C12_admitted_within_depth.
Print Assumptions C12_active_bounded_along_history.
Print Assumptions C12_sql_evicts_exactly.
Print Assumptions C12_mem_plan_sound.
Print Assumptions C12_sql_victim_is_oldest_queued.
Print Assumptions C12_mem_victim_is_oldest_queued.
Print Assumptions C12_only_enqueue_raises_active.
Print Assumptions C12_mem_first_victim_is_oldest_of_store.
Print Assumptions C12_successful_enqueue_evicts_exactly.
Print Assumptions C12_monitor_holds_on_every_model_trace.
Print Assumptions C12_monitor_holds_on_every_step.
