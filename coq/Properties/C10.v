(** C10 - Ingress route resolution and channel isolation.
    Only theorem statements, each closed by [exact] of a lemma from Proofs/.
    Models: Model/PathClean.v (path.Clean), Model/PathMatch.v (router.MatchPath),
    Model/HostMatch.v (normalizeHost, matchHosts), Model/Resolve.v (resolveIngress,
    allowedMethodsFor, matchers, ingress ServeHTTP no-match branch).
    Non-vacuity: Proofs/C10Examples.v. *)
From Coq Require Import List NArith Bool.
From Coq Require Strings.String.
Import Coq.Strings.String.StringSyntax.
From HK Require Import Model.RBytes Model.PathClean Model.PathMatch Model.HostMatch Model.Resolve
     Proofs.PathProofs Proofs.HostProofs Proofs.ResolveProofs Proofs.C10Examples.
Import ListNotations.
Open Scope N_scope.
Open Scope string_scope.

(** The chosen route is the FIRST one in configuration order whose criteria all hold,
    for every route list, request and address parser. *)
Theorem C10_resolve_first_match : forall parse_addr rs q p r,
  resolve parse_addr rs q p = Some r <->
  exists i, nth_error rs i = Some r /\ criteria parse_addr q p r = true /\
            forall j r', (j < i)%nat -> nth_error rs j = Some r' -> criteria parse_addr q p r' = false.
Proof. exact resolve_first_match. Qed.

(** What "criteria" means: inbound (not outbound/internal), path, host, headers, query,
    remote address and method all hold. *)
Theorem C10_criteria_spec : forall parse_addr q p r,
  criteria parse_addr q p r = true <->
  (r_channel r <> ch_outbound /\ r_channel r <> ch_internal) /\
  match_path p (r_path r) = true /\
  match_hosts (normalize_host (q_host q)) (r_hosts r) = true /\
  match_headers (q_headers q) (r_headers r) (r_header_exists r) = true /\
  match_query (q_query q) (r_query r) (r_query_exists r) = true /\
  match_remote (parse_remote_addr parse_addr (q_remote q)) (r_remote r) = true /\
  match_methods (q_method q) (r_methods r) = true.
Proof. exact criteria_spec. Qed.

(** Channel isolation: for every configuration and every request, ingress never resolves
    to a route declared outbound or internal ... *)
Theorem C10_channel_isolation : forall parse_addr rs q p r,
  resolve parse_addr rs q p = Some r -> r_channel r <> ch_outbound /\ r_channel r <> ch_internal.
Proof. exact channel_isolation. Qed.

(** ... and such routes do not even contribute to the Allow header. *)
Theorem C10_allow_isolated : forall parse_addr rs q p m,
  In m (allowed_methods parse_addr rs q p) ->
  exists r, In r rs /\ r_channel r <> ch_outbound /\ r_channel r <> ch_internal /\ In m (methods_of r).
Proof. exact allowed_methods_isolated. Qed.

(** No route: 404, or 405 + Allow exactly when only the method differs; no effect on the queue. *)
Theorem C10_no_match_no_effect : forall parse_addr (store : Type) pipeline rs q (st : store),
  resolve parse_addr rs q (ingress_request_path (q_url_path q)) = None ->
  let al := allowed_methods parse_addr rs q (ingress_request_path (q_url_path q)) in
  let '(resp, st') := ingress_serve parse_addr store pipeline rs q st in
  st' = st /\
  ((al = [] /\ rs_status resp = 404 /\ rs_allow resp = None) \/
   (al <> [] /\ rs_status resp = 405 /\ rs_allow resp = Some (join comma_space al))).
Proof. exact no_match_no_effect. Qed.

Theorem C10_allowed_methods_spec : forall parse_addr rs q p m,
  In m (allowed_methods parse_addr rs q p) <->
  exists r, In r rs /\ criteria_but_method parse_addr q p r = true /\ In m (methods_of r).
Proof. exact allowed_methods_spec. Qed.

Theorem C10_allowed_methods_nonempty : forall parse_addr rs q p,
  allowed_methods parse_addr rs q p <> [] <->
  exists r, In r rs /\ criteria_but_method parse_addr q p r = true.
Proof. exact allowed_methods_nonempty. Qed.

Theorem C10_allowed_methods_nodup : forall parse_addr rs q p, NoDup (allowed_methods parse_addr rs q p).
Proof. exact allowed_methods_NoDup. Qed.

(** A resolved request is handed to the resolved route's pipeline and to nothing else. *)
Theorem C10_match_dispatch : forall parse_addr (store : Type) pipeline rs q (st : store) r,
  resolve parse_addr rs q (ingress_request_path (q_url_path q)) = Some r ->
  ingress_serve parse_addr store pipeline rs q st =
  (let '(code, st') := pipeline r q (ingress_request_path (q_url_path q)) st in
   ({| rs_status := code; rs_allow := None |}, st')).
Proof. exact match_dispatch. Qed.

(** Path rule: equal, or a prefix that ends at a segment boundary; "/" matches everything. *)
Theorem C10_match_path_spec : forall p r,
  match_path p r = true <->
  r <> [] /\ (r = [47] \/ p = r \/ exists t, p = r ++ 47 :: t).
Proof. exact match_path_spec. Qed.

Theorem C10_match_path_needs_boundary : forall r c t,
  r <> [47] -> c <> 47 -> match_path (r ++ c :: t) r = false.
Proof. exact match_path_needs_boundary. Qed.

(** path.Clean: idempotent; a rooted path stays rooted and consists of elements that are
    non-empty, not ".", not ".." and slash-free - dot segments cannot escape a route prefix. *)
Theorem C10_clean_idempotent : forall p, clean (clean p) = clean p.
Proof. exact clean_idempotent. Qed.

Theorem C10_clean_rooted : forall p, is_rooted p = true -> is_rooted (clean p) = true.
Proof. exact clean_rooted. Qed.

Theorem C10_clean_no_dot_segments : forall p, is_rooted p = true ->
  exists segs, clean p = slash :: join [slash] segs /\ Forall good_seg segs.
Proof. exact clean_rooted_shape. Qed.

Theorem C10_clean_rooted_segments : forall p, is_rooted p = true ->
  clean p = [slash] \/
  exists segs, segs <> [] /\ Forall good_seg segs /\ split_on slash (clean p) = [] :: segs.
Proof. exact clean_rooted_segments. Qed.

(** Host rule: exact, "*", or "*.d" for hosts ending in "." ++ d (proper sub-domains only). *)
Theorem C10_match_hosts_spec : forall h al,
  match_hosts h al = true <->
  al = [] \/ (h <> [] /\ exists a, In a al /\ host_pattern_matches a h).
Proof. exact match_hosts_spec. Qed.

Theorem C10_host_wildcard_proper : forall h d,
  match_hosts h [star_dot ++ d] = true <->
  h <> [] /\ (h = star_dot ++ d \/ (d <> [] /\ exists x, h = x ++ 46 :: d)).
Proof. exact host_wildcard_proper. Qed.

Theorem C10_host_wildcard_rejects_apex : forall d, match_hosts d [star_dot ++ d] = false.
Proof. exact host_wildcard_rejects_apex. Qed.

Theorem C10_host_wildcard_rejects_lookalike : forall x c d,
  c <> 46 -> match_hosts (x ++ c :: d) [star_dot ++ d] = false.
Proof. exact host_wildcard_rejects_lookalike. Qed.

(** Method, header, query and remote-address rules. *)
Theorem C10_match_methods_spec : forall m allowed,
  match_methods m allowed = true <-> m <> [] /\ ((allowed = [] /\ m = m_post) \/ In m allowed).
Proof. exact match_methods_spec. Qed.

Theorem C10_match_headers_spec : forall h expected required,
  match_headers h expected required = true <->
  (forall n, In n required -> header_values n h <> []) /\
  (forall n v, In (n, v) expected -> exists x, In x (header_values n h) /\ header_value_ok v x).
Proof. exact match_headers_spec. Qed.

Theorem C10_match_query_spec : forall q expected required,
  match_query q expected required = true <->
  (forall n, In n required -> assoc_present n q = true /\ assoc_values n q <> []) /\
  (forall n v, In (n, v) expected -> assoc_present n q = true /\ In v (assoc_values n q)).
Proof. exact match_query_spec. Qed.

Theorem C10_match_remote_spec : forall a allowed,
  match_remote a allowed = true <->
  allowed = [] \/ exists x p, a = Some x /\ In p allowed /\ prefix_contains p x = true.
Proof. exact match_remote_spec. Qed.

Theorem C10_prefix_contains_spec : forall p a,
  prefix_contains p a = true <->
  ip_zone a = false /\ p_v4 p = ip_v4 a /\
  N.shiftr (ip_bits a) (width (p_v4 p) - p_len p) = N.shiftr (p_addr p) (width (p_v4 p) - p_len p).
Proof. exact prefix_contains_spec. Qed.

Theorem C10_unmap_mapped : forall n z, n < two32 ->
  unmap {| ip_v4 := false; ip_bits := 65535 * two32 + n; ip_zone := z |} =
  {| ip_v4 := true; ip_bits := n; ip_zone := false |}.
Proof. exact unmap_mapped. Qed.

(** Non-vacuity (Proofs/C10Examples.v): an outbound and an internal route whose paths match are skipped. *)
Theorem C10_example_isolation :
  res (req "POST" "/jobs" "a" "203.0.113.7:1") = 0 /\
  res (req "POST" "/hooks/../jobs/./x" "a" "203.0.113.7:1") = 0 /\
  res (req "PUT" "/hooks/partner/evt" "API.Example.COM:8443" "198.51.100.1:9") = 3.
Proof. exact (conj ex_outbound_not_reachable (conj ex_traversal_into_outbound ex_first_match_wins)). Qed.

Print Assumptions C10_resolve_first_match.
Print Assumptions C10_criteria_spec.
Print Assumptions C10_channel_isolation.
Print Assumptions C10_allow_isolated.
Print Assumptions C10_no_match_no_effect.
Print Assumptions C10_allowed_methods_spec.
Print Assumptions C10_allowed_methods_nonempty.
Print Assumptions C10_allowed_methods_nodup.
Print Assumptions C10_match_dispatch.
Print Assumptions C10_match_path_spec.
Print Assumptions C10_match_path_needs_boundary.
Print Assumptions C10_clean_idempotent.
Print Assumptions C10_clean_rooted.
Print Assumptions C10_clean_no_dot_segments.
Print Assumptions C10_clean_rooted_segments.
Print Assumptions C10_match_hosts_spec.
Print Assumptions C10_host_wildcard_proper.
Print Assumptions C10_host_wildcard_rejects_apex.
Print Assumptions C10_host_wildcard_rejects_lookalike.
Print Assumptions C10_match_methods_spec.
Print Assumptions C10_match_headers_spec.
Print Assumptions C10_match_query_spec.
Print Assumptions C10_match_remote_spec.
Print Assumptions C10_prefix_contains_spec.
Print Assumptions C10_unmap_mapped.
Print Assumptions C10_example_isolation.
