(** C05 - at-least-once redelivery: every unsettled message becomes visible again.
    Only theorem statements; proofs are [exact] of lemmas from Proofs/. *)
From Coq Require Import List ZArith NArith Bool.
From HK Require Import Gen.Consts Model.Queue Model.QueueMon Proofs.QueueBase Proofs.QueueInv Proofs.QueueInvStep
  Proofs.QueueStep Proofs.QueueLease Proofs.QueueRedeliver Proofs.QueueMonC05.
Import ListNotations.
Open Scope Z_scope.

(** A dequeue returns exactly min(batch', ready) items, batch' = batch clamped to 1..cap, "ready"
    counted in the state after pruning and the release of expired leases: no ready message is starved
    while capacity is requested. *)
Theorem C05_dequeue_count : forall fl c now route target batch ttl o s s' items,
  Inv s -> step_dequeue fl c now route target batch ttl o s = (s', RItems items) ->
  Z.of_nat (length items) =
  Z.min (clamp_batch batch) (Z.of_nat (length (filter (ready now route target) (msgs (deq_pre fl c now o s)))))
  /\ 1 <= clamp_batch batch <= mem_dequeue_batch_cap.
Proof.
  intros fl c now route target batch ttl o s s' items I H.
  split; [exact (proj1 (proj2 (proj2 (dequeue_sound fl c now route target batch ttl o s s' items I H)))) | exact (clamp_batch_range batch)].
Qed.

(** hence no ready message is starved while capacity is requested: when the clamped batch covers the
    ready messages of the route/target, every one of them is returned *)
Theorem C05_all_ready_returned_when_capacity : forall fl c now route target batch ttl o s s' items m,
  Inv s -> step_dequeue fl c now route target batch ttl o s = (s', RItems items) ->
  let s2 := deq_pre fl c now o s in
  Z.of_nat (length (filter (ready now route target) (msgs s2))) <= clamp_batch batch ->
  In m (msgs s2) -> ready now route target m = true ->
  In (m_id m) (map (fun it => fst (fst (fst it))) items).
Proof. exact dequeue_returns_all_when_capacity. Qed.

(** nack with delay d: offered from now + max(d,0), not earlier ... *)
Theorem C05_nack_schedule : forall c now d m m',
  lease_effect c now (KNack d) m = Some m' -> m_st m' = Queued /\ m_next m' = now + Z.max d 0 /\ m_lease m' = None.
Proof. exact nack_schedule. Qed.

(** ... because only due messages are ready, and nothing ever moves next_run_at into the past. *)
Theorem C05_ready_is_due : forall now route target m, ready now route target m = true -> m_st m = Queued /\ m_next m <= now.
Proof. exact ready_is_due. Qed.

Theorem C05_next_run_never_set_into_past : forall c x r m m',
  change c x r m m' -> m_next m' = m_next m \/ op_now x <= m_next m'.
Proof. exact next_run_never_set_into_past. Qed.

(** An expired lease is visible to the very next dequeue on the memory backend, and on SQLite
    whenever that dequeue sweeps; the message is then ready for every matching filter. *)
Theorem C05_expiry_visible : forall fl c now o s m,
  Inv s -> In m (msgs s) -> expired now m = true ->
  (fl = Mem \/ sql_sweep_due now (last_sweep s) = true) ->
  find_id (m_id m) (msgs (deq_pre fl c now o s)) = Some (release now m)
  /\ forall route target, opt_match route (m_route m) = true -> opt_match target (m_target m) = true ->
                          ready now route target (release now m) = true.
Proof. exact expiry_visible. Qed.

(** SQLite: along every history whose clock does not run backwards, every live lease ends after the
    last sweep; hence a dequeue at least one sweep interval (10 ms, from the source) after the expiry
    sweeps and offers the message: the bounded delay the statement grants. *)
Theorem C05_sql_swept_invariant : forall c xs,
  monotone_from 0 xs -> swept (snd (run Sql c init xs)) (last_time 0 xs).
Proof. intros c xs M. exact (swept_along_monotone_histories c init 0 xs inv_init swept_init M). Qed.

Theorem C05_sql_expiry_bounded_delay : forall c s t now o m,
  Inv s -> swept s t -> t <= now -> In m (msgs s) -> is_leased m = true ->
  m_until m <= now - sql_sweep_interval_ns ->
  sql_sweep_due now (last_sweep s) = true
  /\ find_id (m_id m) (msgs (deq_pre Sql c now o s)) = Some (release now m).
Proof. exact sql_expiry_bounded_delay. Qed.

(** a process restart resets the sweep throttle: the first dequeue after it sweeps (now >= 10 ms) *)
Theorem C05_restart_sweeps : forall c s now, sql_sweep_interval_ns <= now ->
  sql_sweep_due now (last_sweep (fst (step Sql c s (Reopen now) (mkOracle [] [] [] [])))) = true.
Proof.
  intros c s now H. cbn [step fst last_sweep]. unfold sql_sweep_due. apply Bool.negb_true_iff. apply Z.ltb_ge.
  rewrite Z.sub_0_r. exact H.
Qed.

Example C05_witness :
  let e := mkEnq (Some 7%N) 1%N 1%N None None 5%N 0%N 0%N in
  let o0 := mkOracle [] [] [] [] in
  map ev_res (model_trace Mem (mkCfg 0 false 0 0 0 0 0 0)
     [(Enqueue 100 e, o0);
      (Dequeue 200 None None 1 1000, mkOracle [(7%N, 1%N)] [] [] []);
      (LeaseOp 300 (KNack 500) (LKnown 1%N false), o0);
      (Dequeue 799 None None 1 1000, o0);                                (* not before now + d *)
      (Dequeue 800 None None 1 1000, mkOracle [(7%N, 2%N)] [] [] []);    (* from now + d on *)
      (Dequeue 1800 None None 1 1000, mkOracle [(7%N, 3%N)] [] [] [])])  (* lease expired: offered again *)
  = [RUnit; RItems [(7%N, 1%N, 1, 1200)]; RUnit; RItems []; RItems [(7%N, 2%N, 2, 1800)]; RItems [(7%N, 3%N, 3, 2800)]].
Proof. vm_compute. reflexivity. Qed.

(** The executable monitor [P_C05] - what the correspondence check evaluates on traces of the Go stores -
    holds on every trace of the model whose dequeue answers were accepted as valid choices: at every
    dequeue, min(batch, must-offer) <= returned <= min(batch, may-offer), and only due or expired
    messages are returned.  must-offer counts queued-and-due messages plus leases expired for at least
    one SQLite sweep interval; may-offer counts every expired lease.  For the SQLite flavour the clock
    must not run backwards (its sweep throttle compares clock readings). *)
Theorem C05_monitor_holds_on_every_model_trace : forall fl c xs,
  (fl = Sql -> monotone_from 0 xs) ->
  Forall (fun e => ev_res e <> RBadOracle) (model_trace fl c xs) -> P_C05 fl c (model_trace fl c xs) = true.
Proof. exact P_C05_holds_on_model. Qed.

Theorem C05_monitor_holds_on_every_step : forall fl c s x o s' r,
  Inv s -> sweep_ok fl (op_now x) s -> step fl c s x o = (s', r) -> r <> RBadOracle ->
  c05_event (mkEvent x o r (msgs s) (msgs s')) = true.
Proof. exact c05_event_holds. Qed.

Print Assumptions C05_dequeue_count.
Print Assumptions C05_all_ready_returned_when_capacity.
Print Assumptions C05_nack_schedule.
Print Assumptions C05_next_run_never_set_into_past.
Print Assumptions C05_expiry_visible.
Print Assumptions C05_sql_swept_invariant.
Print Assumptions C05_sql_expiry_bounded_delay.
Print Assumptions C05_restart_sweeps.
Print Assumptions C05_monitor_holds_on_every_model_trace.
Print Assumptions C05_monitor_holds_on_every_step.
