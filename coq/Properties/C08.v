(** C08 - ingress authentication is sound and fails closed.
    Only theorem statements, each closed by [exact] of a lemma from Proofs/.
    Parametric in [sha256] and [hmac] (HMAC-SHA256 is what the property is stated in terms of).
    [serve rs c now r o] = ingress.Server.ServeHTTP on a request [r] that resolved to [rs], with nonce
    cache [c], HMAC clock reading [now] and oracle [o] (rate limiter, backpressure, forward-auth
    service answer, header-size test, store results); result = (status, targets enqueued, cache). *)
From Coq Require Import ZArith List Bool NArith.
From HK Require Import Model.NonceCache Model.Hmac Model.BasicAuth Model.Ingress Model.AuthCompile
  Proofs.HmacProofs Proofs.IngressProofs Proofs.AuthCompileProofs.
Import ListNotations.
Open Scope Z_scope.

(** HMAC: Verify accepts exactly the requests with all three headers present (after trimming), a
    timestamp that parses as a 64-bit decimal integer within the tolerance of the clock reading, a
    non-empty hex signature equal to HMAC(k, ts "\n" method "\n" cleaned path "\n" hex(sha256 body))
    for a non-empty secret k valid at the signed timestamp - and whose nonce the cache admits. *)
Theorem C08_hmac_verify_spec : forall sha256 hmac cfg c now r,
  hmac_configured cfg ->
  (fst (verify sha256 hmac cfg c now r) = true <->
   hmac_valid sha256 hmac cfg now r /\
   fst (cache_admit (trim_space (header_get (h_nonce cfg) (q_headers r)))
              (match parse_int (trim_space (header_get (h_ts cfg) (q_headers r))) with Some ts => ts * sec | None => 0 end)
              (h_tol cfg) now c) = true).
Proof. exact verify_spec. Qed.

Theorem C08_hmac_sound : forall sha256 hmac cfg c now r,
  hmac_configured cfg -> fst (verify sha256 hmac cfg c now r) = true ->
  let sg := trim_space (header_get (h_sig cfg) (q_headers r)) in
  let tt := trim_space (header_get (h_ts cfg) (q_headers r)) in
  let nn := trim_space (header_get (h_nonce cfg) (q_headers r)) in
  sg <> [] /\ tt <> [] /\ nn <> [] /\
  exists ts, parse_int tt = Some ts /\
    (0 < h_tol cfg -> - h_tol cfg <= now - ts * sec <= h_tol cfg) /\
    exists got k, hex_decode sg = Some got /\ got <> [] /\
      In k (secrets_at cfg (ts * sec)) /\ k <> [] /\
      got = hmac k (string_to_sign sha256 tt (q_method r) (q_path r) (q_body r)).
Proof. exact verify_sound. Qed.

(** the secrets tried at a signed instant: versions valid at it (valid_from inclusive, valid_until
    exclusive) followed by the inline secrets; without secret_refs just the inline secrets *)
Theorem C08_secrets_valid_at : forall cfg t k,
  In k (secrets_at cfg t) <->
  In k (h_static cfg) \/
  exists v, In v (h_versions cfg) /\ v_value v = k /\ v_from v <= t /\
            match v_until v with None => True | Some u => t < u end.
Proof. exact secrets_at_spec. Qed.

(** Soundness of the handler: whatever is enqueued, and every 202, passed every mechanism the route
    declares (Basic: a configured user with exactly its password; forward auth: the service answered
    2xx; HMAC: Verify accepted). *)
Theorem C08_enqueue_implies_authenticated : forall sha256 hmac rc c now r o,
  enq_of (serve sha256 hmac (RRoute rc) c now r o) <> [] ->
  (rc_basic rc <> [] -> exists u p, parse_basic (header_get authorization_name (q_headers r)) = Some (u, p)
                                    /\ lookup_user u (rc_basic rc) = Some p) /\
  (rc_forward rc = true -> exists copied, o_fwd o = F2xx copied) /\
  (forall cfg, rc_hmac rc = Some cfg -> fst (verify sha256 hmac cfg c now r) = true).
Proof. exact enqueue_implies_authenticated. Qed.

Theorem C08_accepted_implies_authenticated : forall sha256 hmac rc c now r o,
  bp_valid o -> status_of (serve sha256 hmac (RRoute rc) c now r o) = 202 ->
  authenticated sha256 hmac rc c now r o /\
  enq_of (serve sha256 hmac (RRoute rc) c now r o) = targets_of rc.
Proof. exact accepted_implies_authenticated. Qed.

Theorem C08_basic_user_in_table : forall u users p, lookup_user u users = Some p -> In (u, p) users.
Proof. exact lookup_user_In. Qed.

(** Fail closed: any answer other than 202 leaves the queue untouched, except the documented fan-out
    prefix (all authentication passed; the store refused target k; targets before k are enqueued; 503). *)
Theorem C08_fail_closed : forall sha256 hmac rc c now r o,
  let res := serve sha256 hmac (RRoute rc) c now r o in
  status_of res <> 202 ->
  enq_of res = [] \/
  (status_of res = 503 /\ authenticated sha256 hmac rc c now r o /\
   exists k, enq_of res = firstn k (targets_of rc) /\ (0 < k < length (targets_of rc))%nat /\ nth k (o_enq o) true = false).
Proof. exact fail_closed. Qed.

Theorem C08_no_route_untouched : forall sha256 hmac allowed c now r o,
  let res := serve sha256 hmac (RNone allowed) c now r o in
  enq_of res = [] /\ (status_of res = 404 \/ status_of res = 405).
Proof. exact no_route_untouched. Qed.

(** Statuses: Basic failure 401; forward auth 401 -> 401, 403 -> 403, anything else (other status,
    timeout, unreachable) -> 503; HMAC failure 401; nothing enqueued in each case. *)
Theorem C08_basic_failure_401 : forall sha256 hmac rc c now r o,
  reaches_auth o -> rc_basic rc <> [] -> ~ basic_valid (rc_basic rc) (q_headers r) ->
  status_of (serve sha256 hmac (RRoute rc) c now r o) = 401 /\ enq_of (serve sha256 hmac (RRoute rc) c now r o) = [].
Proof. exact basic_failure_401. Qed.

Theorem C08_forward_failure_status : forall sha256 hmac rc c now r o,
  reaches_auth o -> basic_verify (rc_basic rc) (q_headers r) = true -> body_ok rc r o ->
  rc_forward rc = true -> (forall copied, o_fwd o <> F2xx copied) ->
  enq_of (serve sha256 hmac (RRoute rc) c now r o) = [] /\
  status_of (serve sha256 hmac (RRoute rc) c now r o) =
    match o_fwd o with F401 => 401 | F403 => 403 | _ => 503 end.
Proof. exact forward_failure_status. Qed.

Theorem C08_hmac_failure_401 : forall sha256 hmac rc c now r o cfg,
  reaches_auth o -> basic_verify (rc_basic rc) (q_headers r) = true -> body_ok rc r o ->
  (rc_forward rc = true -> exists copied, o_fwd o = F2xx copied) ->
  rc_hmac rc = Some cfg -> fst (verify sha256 hmac cfg c now r) = false ->
  status_of (serve sha256 hmac (RRoute rc) c now r o) = 401 /\ enq_of (serve sha256 hmac (RRoute rc) c now r o) = [].
Proof. exact hmac_failure_401. Qed.

(** Tampering: two accepted requests presenting the same signature bytes either agree on timestamp
    text, method, cleaned path and SHA-256 of the body, or exhibit an HMAC collision (one tag for two
    different messages).  With [string_to_sign_inj]: the signature binds all four fields. *)
Theorem C08_tamper_needs_collision : forall sha256 hmac cfg c c' now now' r r',
  hmac_configured cfg ->
  (forall x, Forall (fun y => (y < 256)%N) (sha256 x)) ->
  ~ In 10%N (q_method r) -> ~ In 10%N (q_method r') ->
  fst (verify sha256 hmac cfg c now r) = true -> fst (verify sha256 hmac cfg c' now' r') = true ->
  hex_decode (trim_space (header_get (h_sig cfg) (q_headers r))) =
  hex_decode (trim_space (header_get (h_sig cfg) (q_headers r'))) ->
  (trim_space (header_get (h_ts cfg) (q_headers r)) = trim_space (header_get (h_ts cfg) (q_headers r')) /\
   q_method r = q_method r' /\ q_path r = q_path r' /\ sha256 (q_body r) = sha256 (q_body r'))
  \/ exists k k' s s', k <> [] /\ k' <> [] /\ s <> s' /\ hmac k s = hmac k' s'.
Proof. exact tamper_needs_collision. Qed.

Theorem C08_string_to_sign_inj : forall sha256 ts m p b ts' m' p' b',
  ~ In 10%N ts -> ~ In 10%N ts' -> ~ In 10%N m -> ~ In 10%N m' ->
  (forall x, Forall (fun y => (y < 256)%N) (sha256 x)) ->
  string_to_sign sha256 ts m p b = string_to_sign sha256 ts' m' p' b' ->
  ts = ts' /\ m = m' /\ p = p' /\ sha256 b = sha256 b'.
Proof. exact string_to_sign_inj. Qed.

(** the relevant Compile rules (small model, Model/AuthCompile.v): an accepted route has no empty
    secret, pairwise distinct (case-insensitive) HMAC header names, a positive tolerance, no mix of
    mechanisms, non-empty unique Basic users *)
Theorem C08_compile_auth_rules : forall known ra,
  compile_auth known ra = true ->
  (forall s k, In (s, k) (ra_secrets ra) -> s <> []) /\
  (let sg := effective (ra_sig ra) default_sig in
   let ts := effective (ra_ts ra) default_ts in
   let nn := effective (ra_nonce ra) default_nonce in
   fold_eq sg ts = false /\ fold_eq sg nn = false /\ fold_eq ts nn = false) /\
  (forall d, ra_tol ra = Some d -> exists v, d = Some v /\ 0 < v) /\
  (ra_basic ra <> [] -> ra_secrets ra = [] /\ has_hmac_options ra = false) /\
  (ra_forward ra = true -> ra_basic ra = [] /\ ra_secrets ra = [] /\ has_hmac_options ra = false) /\
  (forall u p, In (u, p) (ra_basic ra) -> u <> [] /\ p <> []) /\
  NoDup (map fst (ra_basic ra)).
Proof. exact compile_auth_rules. Qed.

Print Assumptions C08_hmac_verify_spec.
Print Assumptions C08_hmac_sound.
Print Assumptions C08_secrets_valid_at.
Print Assumptions C08_enqueue_implies_authenticated.
Print Assumptions C08_accepted_implies_authenticated.
Print Assumptions C08_fail_closed.
Print Assumptions C08_basic_user_in_table.
Print Assumptions C08_no_route_untouched.
Print Assumptions C08_basic_failure_401.
Print Assumptions C08_forward_failure_status.
Print Assumptions C08_hmac_failure_401.
Print Assumptions C08_tamper_needs_collision.
Print Assumptions C08_string_to_sign_inj.
Print Assumptions C08_compile_auth_rules.
