(** C20 — MCP tools are role-, flag- and principal-gated, confined and audited.
    Only theorem statements, each closed by [exact] of a lemma from Proofs/. *)
From Coq Require Import String List Bool Arith.
From HK Require Import Gen.McpTables Model.McpGate Model.McpSpec Proofs.McpGateProofs Proofs.McpSessionProofs.
Import ListNotations.
Open Scope string_scope.

(** A call passes the gate iff the tool is known, the role suffices, the needed
    feature flag is on and - for mutating tools - a principal is configured.
    Holds for every string [t] (known, unknown, near-miss) and every setting. *)
Theorem C20_gate_spec : forall s t,
  access s t = Allowed <->
  exists r, required t = Some r /\ rank r <= rank (s_role s)
            /\ (needs_mut t = true -> s_mut s = true)
            /\ (needs_rt t = true -> s_rt s = true)
            /\ (mutating t = true -> s_principal s <> "").
Proof. exact gate_spec. Qed.

(** For every documented tool the code's switch tables give the documented role,
    flags and mutating class (spec.md), so "the tool's required role" is pinned. *)
Theorem C20_roles_as_documented : forall t r m rt mu,
  spec_of t = Some (r, m, rt, mu) ->
  required t = Some r /\ needs_mut t = m /\ needs_rt t = rt /\ mutating t = mu.
Proof. exact roles_as_documented. Qed.

Theorem C20_rank_order : rank RRead < rank ROperate /\ rank ROperate < rank RAdmin.
Proof. exact rank_order. Qed.

(** The tool body runs iff the gate allows; nothing is dispatched otherwise. *)
Theorem C20_call_spec : forall s t,
  (call s t = ODispatched <-> access s t = Allowed) /\ call s t <> ONoHandler.
Proof. exact call_spec. Qed.

Theorem C20_unknown_refused : forall s t, known t = false -> call s t = ODenied CkUnknown.
Proof. exact unknown_refused. Qed.

(** tools/list advertises exactly the tools tools/call would run, once each. *)
Theorem C20_list_call_agree : forall s t, In t (list_tools s) <-> access s t = Allowed.
Proof. exact list_call_agree. Qed.

Theorem C20_list_nodup : forall s, NoDup (list_tools s).
Proof. exact list_tools_nodup. Qed.

(** Every mutating tool is behind a feature flag and needs at least [operate]. *)
Theorem C20_mutating_gated : forall t, mutating t = true ->
  (needs_mut t = true \/ needs_rt t = true) /\
  exists r, required t = Some r /\ rank ROperate <= rank r.
Proof. exact mutating_gated. Qed.

Theorem C20_mutating_needs : forall s t, mutating t = true -> access s t = Allowed ->
  s_role s <> RRead /\ (s_mut s = true \/ s_rt s = true) /\ s_principal s <> "".
Proof. exact mutating_needs. Qed.

(** One audit record per mutating call - denied, failed or successful - none otherwise. *)
Theorem C20_audit_once : forall s t b, mutating t = true ->
  exists a, audit s t b = [a] /\
            (a = ADenied <-> access s t <> Allowed) /\
            (access s t = Allowed -> a = if b then ASuccess else AError).
Proof. exact audit_once. Qed.

Theorem C20_audit_none : forall s t b, mutating t = false -> audit s t b = [].
Proof. exact audit_none. Qed.

Theorem C20_role_monotone : forall s s' t,
  rank (s_role s) <= rank (s_role s') -> s_mut s' = s_mut s -> s_rt s' = s_rt s ->
  s_principal s' = s_principal s -> access s t = Allowed -> access s' t = Allowed.
Proof. exact role_monotone. Qed.

(** A supplied actor must equal the principal; config tools touch only the configured path. *)
Theorem C20_actor_bound : forall a p x, bind_actor a p = Some x -> p <> "" -> x = p.
Proof. exact bind_actor_spec. Qed.

Theorem C20_actor_mismatch : forall a p, a <> "" -> p <> "" -> a <> p -> bind_actor a p = None.
Proof. exact bind_actor_mismatch. Qed.

Theorem C20_path_confined : forall cfg arg p,
  resolve_config_path cfg arg = Some p -> p = cfg /\ cfg <> "".
Proof. exact path_confined. Qed.

Theorem C20_foreign_path_refused : forall cfg a,
  a <> "" -> a <> cfg -> resolve_config_path cfg (Some a) = None.
Proof. exact foreign_path_refused. Qed.

(** Whole sessions.  For every server setting and every sequence of tools/call requests (any tools,
    known or not, any outcome of each tool body): the audit log is exactly one record per call of a
    mutating tool, in call order - [denied] for a refused call, [success]/[error] for a dispatched one -
    and nothing else; a refused mutating call is recorded at the position of the call; a session of
    read-only and unknown tools leaves no record. *)
Theorem C20_session_audit_exact : forall s calls,
  session_audit s calls = map (record_of s) (filter is_mutating calls).
Proof. exact session_audit_exact. Qed.

Theorem C20_session_audit_count : forall s calls,
  length (session_audit s calls) = length (filter is_mutating calls).
Proof. exact session_audit_length. Qed.

Theorem C20_session_denied_recorded_in_place : forall s pre t b post,
  mutating t = true -> access s t <> Allowed ->
  session_audit s (pre ++ (t, b) :: post)%list =
  (session_audit s pre ++ ADenied :: session_audit s post)%list.
Proof. exact session_audit_denied_recorded. Qed.

Theorem C20_session_readonly_silent : forall s calls,
  Forall (fun c => mutating (fst c) = false) calls -> session_audit s calls = [].
Proof. exact session_audit_readonly. Qed.

Print Assumptions C20_gate_spec.
Print Assumptions C20_roles_as_documented.
Print Assumptions C20_call_spec.
Print Assumptions C20_list_call_agree.
Print Assumptions C20_mutating_gated.
Print Assumptions C20_mutating_needs.
Print Assumptions C20_audit_once.
Print Assumptions C20_role_monotone.
Print Assumptions C20_actor_bound.
Print Assumptions C20_path_confined.
Print Assumptions C20_session_audit_exact.
Print Assumptions C20_session_audit_count.
Print Assumptions C20_session_denied_recorded_in_place.
Print Assumptions C20_session_readonly_silent.
