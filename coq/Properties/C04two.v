(** C04 / C14 (continued) - two calls on one queue in either order (Model/TwoCalls.v): what a gateway's lease operation and an
    operator's cancel, or a by-filter mutation and a competing change, may leave behind when each call is atomic.  The tables are
    evaluated from Model/Queue.step; the harness compares the two-store-objects runs with them (lib/twostores.py). *)
From Coq Require Import ZArith List Bool NArith.
From HK Require Import Model.Queue Model.TwoCalls.
Import ListNotations.
Open Scope Z_scope.

(** whatever the lease operation, live or expired lease, either order: a cancel that reports one canceled message leaves it
    canceled; the bystander is never touched; and the message ends canceled in every case but one - a successful ack of the live
    lease that came first (then the cancel finds nothing to cancel) *)
Definition is_ack (a : a_op) : bool := match a with AAckOp => true | _ => false end.
Definition lease_op_vs_cancel_ok (a : a_op) (stale deliv a_first : bool) : bool :=
  let r := lease_vs_cancel a stale deliv a_first in
  let answer := nth 0 r 0 in let canceled := nth 1 r 0 in let final := nth 2 r 0 in let bystander := nth 3 r 0 in
  (bystander =? 1)
  && implb (canceled =? 1) (final =? 5)
  && ((final =? 5) || (is_ack a && negb stale && a_first && (answer =? 0) && (canceled =? 0) && (final =? (if deliv then 3 else 0))))
  && implb stale (answer =? (if a_first then 1 else 2))
  && implb (negb a_first) ((answer =? 2) && (canceled =? 1)).

Theorem C04_lease_op_vs_cancel : forall a stale deliv a_first, lease_op_vs_cancel_ok a stale deliv a_first = true.
Proof. intros a stale deliv a_first. destruct a, stale, deliv, a_first; vm_compute; reflexivity. Qed.

(** a by-filter mutation and a competing change: exactly one of the two calls takes the message, the other counts nothing *)
Definition by_filter_vs_change_ok (sc : scen) (a_first : bool) : bool :=
  let r := filter_vs_change sc a_first in
  let a_count := nth 0 r 0 in let b_count := nth 1 r 0 in let b_leased := nth 2 r 0 in let final := nth 3 r 0 in
  (a_count + b_count =? 1) && Bool.eqb (a_count =? 1) a_first
  && match sc with
     | CancelVsAck => (final =? (if a_first then 5 else 3)) && (b_leased =? (if a_first then 0 else 1))
     | _ => (final =? 2) && (b_leased =? 1)
     end.

Theorem C14_by_filter_vs_competing_change : forall sc a_first, by_filter_vs_change_ok sc a_first = true.
Proof. intros sc a_first. destruct sc, a_first; vm_compute; reflexivity. Qed.

Print Assumptions C04_lease_op_vs_cancel.
Print Assumptions C14_by_filter_vs_competing_change.
