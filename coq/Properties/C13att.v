(** C13, the delivery-attempt log of the Store contract (RecordAttempt / ListAttempts): one model for every
    backend.  The memory and the SQLite store are each compared with this model on the same operation
    sequences (lib/c13att.py), so what is proved here about the model is what both must show - and
    therefore what they show alike.  Only statements; proofs are [exact] of Proofs/AttemptsProofs.v. *)
From Coq Require Import ZArith NArith List Bool Sorting.Permutation Sorting.Sorted.
From HK Require Import Model.Attempts Proofs.AttemptsProofs.
Import ListNotations.
Open Scope Z_scope.

(** the log only grows: whatever operations follow - any number of further attempts, listings, refused
    duplicates - everything that was in the log is still there, unchanged and in place *)
Theorem C13_attempt_log_is_append_only : forall ops log,
  exists ext, log_after log ops = log ++ ext.
Proof. exact log_after_ext. Qed.

(** RecordAttempt either appends exactly the (normalised) attempt, or - when its non-blank id is already in the log -
    fails and changes nothing; non-blank ids therefore stay unique *)
Theorem C13_record_appends_or_refuses_a_duplicate_id : forall log a,
  (dup_id log a = false -> record log a = (log ++ [norm a], true))
  /\ (dup_id log a = true -> record log a = (log, false)).
Proof. intros log a. split; [apply record_fresh|apply record_dup]. Qed.

Theorem C13_attempt_ids_stay_unique : forall ops log, ids_unique log -> ids_unique (log_after log ops).
Proof. exact log_after_unique. Qed.

(** a listing is the newest [limit] of the attempts matching every criterion: the listed ones and the
    left-out ones together are exactly the matching ones, every listed one is at least as new as every
    left-out one, the listing is ordered newest first (ties by id), and its length is min(limit, matching) *)
Theorem C13_list_attempts_is_the_newest_matching : forall log q,
  let r := list_attempts log q in
  let rest := skipn (eff_limit q) (AttSort.sort (filter (matches q) log)) in
  Permutation (r ++ rest) (filter (matches q) log)
  /\ (forall a b, In a r -> In b rest -> newer_eq a b = true)
  /\ StronglySorted (fun a b => is_true (newer_eq a b)) r
  /\ length r = Nat.min (eff_limit q) (length (filter (matches q) log))
  /\ (forall a, In a r -> In a log /\ matches q a = true).
Proof. exact list_attempts_spec. Qed.

(** an attempt once accepted is listed by every later query it matches, as long as the matching attempts do
    not exceed the limit - whatever was recorded before and after it *)
Theorem C13_recorded_attempt_stays_listed : forall log0 ops1 a ops2 q,
  let log := log_after log0 (ops1 ++ ARec a :: ops2) in
  snd (record (log_after log0 ops1) a) = true ->
  matches q (norm a) = true ->
  (length (filter (matches q) log) <= eff_limit q)%nat ->
  In (norm a) (list_attempts log q).
Proof. exact recorded_attempt_stays_listed. Qed.

(** non-vacuity: one attempt of event 7, then 12,000 generated attempts of other events; the query for event 7
    matches once (within the limit) and lists it *)
Example C13_attempt_example :
  let a := mkAtt 9999999 7 1 10 1 503 0 1600000000000000000 in
  let q := mkAReq 0 0 7 0 10 None in
  let log := log_after [] ([ARec a; AGen 0 12000]) in
  Z.of_nat (length log) = 12001 /\ snd (record [] a) = true /\ matches q (norm a) = true
  /\ (length (filter (matches q) log) <= eff_limit q)%nat
  /\ map a_event (list_attempts log q) = [7%N].
Proof. vm_compute. repeat split; intros; discriminate || reflexivity || (now apply Nat.leb_le). Qed.

(** non-vacuity of the refusal: the second attempt under id 5 is refused, the log keeps the first *)
Example C13_attempt_duplicate_example :
  let a := mkAtt 5 1 1 1 1 (-7) 1 1700000000000000000 in
  let b := mkAtt 5 2 1 1 2 200 2 1700000000000000001 in
  arun [] [ARec a; ARec b; AList (mkAReq 0 0 0 0 0 None)] = [[-1]; enc_att (norm a)].
Proof. vm_compute. reflexivity. Qed.

Print Assumptions C13_attempt_log_is_append_only.
Print Assumptions C13_record_appends_or_refuses_a_duplicate_id.
Print Assumptions C13_attempt_ids_stay_unique.
Print Assumptions C13_list_attempts_is_the_newest_matching.
Print Assumptions C13_recorded_attempt_stays_listed.
