(** C12 (rate-limit and size-limit part) — token bucket bound, limiter choice, 413 on size.
    Only theorem statements, each closed by [exact] of a lemma from Proofs/.
    To be merged into Properties/C12.v by the integrator. *)
From Coq Require Import ZArith QArith Qminmax List Bool.
From HK Require Import Model.Retry Model.TokenBucket Model.SizeLimit
  Proofs.TokenBucketProofs Proofs.SizeLimitProofs.
Import ListNotations.
Open Scope Q_scope.

(** 0 <= tokens <= burst after every call sequence (any times, any order) *)
Theorem C12_bucket_inv : forall rps burst now ts,
  let b := fst (run (new_bucket rps burst now) ts) in
  0 <= tb_tokens b /\ tb_tokens b <= tb_burst b /\ tb_burst b = tb_burst (new_bucket rps burst now).
Proof. exact bucket_inv. Qed.

(** The rate clause: for every call sequence with non-decreasing times and every closed window
    [a, c], the limiter admits at most burst + rps * (c - a) of the calls inside the window
    (exact rationals, seconds).  burst and rps are the effective values of newTokenBucketLimiter. *)
Theorem C12_window_bound : forall rps burst now ts a c,
  nondecreasing ts -> a <= c ->
  let b0 := new_bucket rps burst now in
  inject_Z (count_window a c ts (snd (run b0 ts))) <= tb_burst b0 + tb_rate b0 * (c - a).
Proof. exact window_bound. Qed.

(** the same from any later state of the limiter (after any prefix of calls, in any order) *)
Theorem C12_window_bound_after_prefix : forall rps burst now pre ts a c,
  nondecreasing ts -> a <= c ->
  let b0 := new_bucket rps burst now in
  let b := fst (run b0 pre) in
  inject_Z (admitted_in a c b ts) <= tb_burst b0 + tb_rate b0 * (c - a).
Proof. exact window_bound_after_prefix. Qed.

(** and from any state satisfying the invariant *)
Theorem C12_window_bound_from : forall ts a c b,
  valid b -> inv b -> nondecreasing ts -> a <= c ->
  inject_Z (admitted_in a c b ts) <= tb_burst b + tb_rate b * (c - a).
Proof. exact window_bound_from. Qed.

(** the clock stands still or steps back: no refill, [last] does not move *)
Theorem C12_backwards_no_refill : forall b t, t <= tb_last b -> refill b t = b.
Proof. exact refill_backwards. Qed.

Theorem C12_no_advance_only_drains : forall ts b, valid b -> inv b ->
  Forall (fun t => t <= tb_last b) ts -> inject_Z (admitted b ts) <= tb_tokens b.
Proof. exact no_advance_only_drains. Qed.

(** call times in ANY order: a call at t followed by any calls admits at most
    burst + rate * (latest time seen - max(last, t)) - time that runs backwards earns nothing *)
Theorem C12_segment_bound_any_order : forall b t rest, valid b -> inv b ->
  inject_Z (admitted b (t :: rest)) <=
  tb_burst b + tb_rate b * (max_time (Qmax (tb_last b) t) rest - Qmax (tb_last b) t).
Proof. exact segment_bound_any_order. Qed.

(** a refused call takes no token and means fewer than one token was available *)
Theorem C12_refuse_iff : forall b t, snd (allow_at b t) = false <-> tb_tokens (refill b t) < 1.
Proof. exact refuse_iff. Qed.

Theorem C12_new_bucket_ok : forall rps burst now,
  valid (new_bucket rps burst now) /\ inv (new_bucket rps burst now) /\
  1 <= tb_burst (new_bucket rps burst now) /\ 0 < tb_rate (new_bucket rps burst now).
Proof. exact new_bucket_ok. Qed.

(** allowIngress: route limiter iff declared, else global, else size_verdict; others untouched *)
Theorem C12_limiter_choice : forall ls r t,
  (forall b, find_route r (l_routes ls) = Some b ->
      snd (allow_ingress ls r t) = snd (allow_at b t) /\
      find_route r (l_routes (fst (allow_ingress ls r t))) = Some (fst (allow_at b t)) /\
      l_global (fst (allow_ingress ls r t)) = l_global ls /\
      (forall r', r' <> r -> find_route r' (l_routes (fst (allow_ingress ls r t))) = find_route r' (l_routes ls))) /\
  (find_route r (l_routes ls) = None -> forall g, l_global ls = Some g ->
      snd (allow_ingress ls r t) = snd (allow_at g t) /\
      l_global (fst (allow_ingress ls r t)) = Some (fst (allow_at g t)) /\
      l_routes (fst (allow_ingress ls r t)) = l_routes ls) /\
  (find_route r (l_routes ls) = None -> l_global ls = None -> allow_ingress ls r t = (ls, true)).
Proof. exact limiter_choice. Qed.

(** through any request sequence each limiter sees exactly its own requests *)
Theorem C12_route_projection : forall reqs ls r b,
  find_route r (l_routes ls) = Some b ->
  decisions_of r reqs (snd (run_ingress ls reqs)) = snd (run b (times_of r reqs)).
Proof. exact route_projection. Qed.

Theorem C12_global_projection : forall reqs ls g,
  l_global ls = Some g ->
  decisions_global ls reqs (snd (run_ingress ls reqs)) = snd (run g (times_global ls reqs)).
Proof. exact global_projection. Qed.

(** size limits *)
Theorem C12_too_large_body : forall rate_ok body max_body hs max_headers,
  rate_ok = true -> (max_body < body)%Z -> size_verdict rate_ok body max_body hs max_headers = V413.
Proof. exact too_large_body. Qed.

Theorem C12_too_large_headers : forall rate_ok body max_body hs max_headers,
  rate_ok = true -> (body <= max_body)%Z -> (0 < max_headers)%Z -> (max_headers < header_kv_size hs)%Z ->
  size_verdict rate_ok body max_body hs max_headers = V413.
Proof. exact too_large_headers. Qed.

Theorem C12_admit_iff : forall rate_ok body max_body hs max_headers, (0 < max_headers)%Z ->
  (size_verdict rate_ok body max_body hs max_headers = VAdmit <->
   rate_ok = true /\ (body <= max_body)%Z /\ (header_kv_size hs <= max_headers)%Z).
Proof. exact admit_iff. Qed.

Theorem C12_refusal_enqueues_nothing : forall v targets, v <> VAdmit -> enqueues v targets = 0%Z.
Proof. exact refusal_enqueues_nothing. Qed.

Print Assumptions C12_bucket_inv.
Print Assumptions C12_window_bound.
Print Assumptions C12_window_bound_after_prefix.
Print Assumptions C12_backwards_no_refill.
Print Assumptions C12_no_advance_only_drains.
Print Assumptions C12_segment_bound_any_order.
Print Assumptions C12_limiter_choice.
Print Assumptions C12_route_projection.
Print Assumptions C12_global_projection.
Print Assumptions C12_too_large_body.
Print Assumptions C12_admit_iff.
