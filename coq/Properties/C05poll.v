(** C05 (continued) - a consumer that is already WAITING inside Dequeue (MaxWait > 0) when a message becomes ready.
    Only theorem statements, each closed by [exact] of a lemma from Proofs/LongPollProofs.v. *)
From Coq Require Import ZArith List Bool NArith.
From HK Require Import Model.Queue Model.QueueMon Model.LongPoll Proofs.QueueBase Proofs.QueueInv Proofs.QueueInvStep Proofs.LongPollProofs.
Import ListNotations.
Open Scope Z_scope.

(** the waiting call always answers, and keeps the queue invariant whatever the other clients do meanwhile *)
Theorem C05_long_poll_answers : forall fl c route target batch ttl a tl s,
  exists r, snd (long_poll fl c route target batch ttl s (a :: tl)) = Some r.
Proof. exact long_poll_answers. Qed.

Theorem C05_long_poll_keeps_invariant : forall fl c route target batch ttl ats s,
  Inv s -> Inv (fst (long_poll fl c route target batch ttl s ats)).
Proof. exact long_poll_inv. Qed.

(** it gives the empty answer only after every attempt up to the deadline found nothing *)
Theorem C05_long_poll_empty_only_at_deadline : forall fl c route target batch ttl ats s r,
  snd (long_poll fl c route target batch ttl s ats) = Some r -> empty_items r = true ->
  attempts_made fl c route target batch ttl s ats = length ats.
Proof. exact long_poll_empty_only_at_deadline. Qed.

(** no ready message stays hidden behind a waiting consumer: if the k-th attempt of the wait selects from a state that
    holds a ready message of the route / target (its lease ran out, its nack delay matured, it was enqueued - whatever
    the other clients did), the call returns at that attempt, and not empty-handed *)
Theorem C05_long_poll_returns_what_became_ready : forall fl c route target batch ttl ats s k sk a m,
  Inv s -> state_before fl c route target batch ttl s ats k = Some sk -> nth_error ats k = Some a ->
  In m (msgs (deq_pre fl c (at_now a) (at_orc a) sk)) -> ready (at_now a) route target m = true ->
  snd (step fl c sk (Dequeue (at_now a) route target batch ttl) (at_orc a)) <> RBadOracle ->
  attempts_made fl c route target batch ttl s ats = S k
  /\ exists r, snd (long_poll fl c route target batch ttl s ats) = Some r /\ empty_items r = false.
Proof. exact long_poll_returns_what_became_ready. Qed.

(** non-vacuity: the holder's lease (until 100) runs out while a second consumer waits: the attempts at 50 and 80 find
    nothing, the attempt at 120 releases the lease and returns the message with attempt 2; the deadline attempt at 200 is
    never made *)
Definition ex_lp_state : state :=
  mkState [mkMsg 1 1 1 Leased 0 1 100 0 0 0 0 (Some 9%N) 100] [1%N] None 0 [9%N].
Definition ex_lp_attempts : list attempt :=
  [mkAttempt [] 50 (mkOracle [] [] [] []); mkAttempt [] 80 (mkOracle [] [] [] []);
   mkAttempt [] 120 (mkOracle [(1%N, 10%N)] [] [] []); mkAttempt [] 200 (mkOracle [] [] [] [])].
Example C05_long_poll_example :
  snd (long_poll Mem (mkCfg 0 false 0 0 0 0 0 0) None None 5 1000 ex_lp_state ex_lp_attempts) = Some (RItems [(1%N, 10%N, 2, 1120)])
  /\ attempts_made Mem (mkCfg 0 false 0 0 0 0 0 0) None None 5 1000 ex_lp_state ex_lp_attempts = 3%nat.
Proof. vm_compute. split; reflexivity. Qed.

Print Assumptions C05_long_poll_answers.
Print Assumptions C05_long_poll_keeps_invariant.
Print Assumptions C05_long_poll_empty_only_at_deadline.
Print Assumptions C05_long_poll_returns_what_became_ready.
