(** What one operation may do to one stored message (C02): the documented state machine as a
    relation [change], the documented removals as [removal], and the theorem that every step of the
    model is a per-message application of exactly these, plus the appended messages of a successful
    enqueue. *)
From Coq Require Import List ZArith NArith Bool Lia.
From HK Require Import Gen.Consts Model.Queue Model.QueueHash Model.QueueMon
  Proofs.QueueBase Proofs.QueueInv Proofs.QueueInvStep.
Import ListNotations.
Open Scope Z_scope.

(** operations that release leases which have already expired when they run *)
Definition releases (x : op) : bool :=
  match x with Dequeue _ _ _ _ _ | LeaseOp _ _ _ | LeaseBatch _ _ _ => true | _ => false end.

Definition leased_version (now ttl : Z) (lid : N) (m0 : msg) : msg :=
  upd m0 Leased (now + ttl) (m_reason m0) (Some lid) (now + ttl) (m_attempt m0 + 1).

Definition item_pairs (r : res) : list (N * N) :=
  map (fun it => (fst (fst (fst it)), snd (fst (fst it)))) (deq_items r).

Definition manage_kind_of (x : op) : option manage_kind :=
  match x with
  | Manage _ k _ => Some k
  | ManageF _ k f => if f_preview f then None else Some k
  | _ => None
  end.

Definition prune_reason (c : cfg) (now : Z) (m : msg) : Prop :=
  is_leased m = false /\ 0 < c_prune_iv c /\
  (prune_age_eligible c now m = true \/ (m_st m = Dead /\ 0 < c_dlq_depth c)).

(** the operation is an enqueue and its result is the success result of that form *)
Definition enq_ok (x : op) (r : res) : bool :=
  match x, r with
  | Enqueue _ _, RUnit => true
  | EnqueueBatch _ (_ :: _), RCount _ _ _ => true
  | _, _ => false
  end.

Lemma enq_ok_res_ok x r : enq_ok x r = true -> res_ok r = true.
Proof. destruct x, r; simpl; intros H; try discriminate; try reflexivity; destruct es; discriminate. Qed.

Inductive change (c : cfg) (x : op) (r : res) (m m' : msg) : Prop :=
| ch_same : m' = m -> change c x r m m'
| ch_expire : releases x = true -> expired (op_now x) m = true ->
              (is_dequeue x = true \/ presents x m = true) ->       (* a dequeue sweeps; a lease operation releases only the lease it was given *)
              m' = release (op_now x) m -> change c x r m m'
| ch_dequeue : forall route target b ttl lid m0,
    x = Dequeue (op_now x) route target b ttl ->
    (m0 = m \/ (expired (op_now x) m = true /\ m0 = release (op_now x) m)) ->
    ready (op_now x) route target m0 = true ->
    In (m_id m, lid) (item_pairs r) ->
    m_lease m <> Some lid ->                                          (* the new lease id is not the one the message held *)
    m' = leased_version (op_now x) (eff_ttl ttl) lid m0 ->
    change c x r m m'
| ch_settle : forall k lid,
    lease_op_kind x = Some k -> In lid (presented x) -> m_lease m = Some lid ->
    is_leased m = true -> op_now x < m_until m -> res_ok r = true -> is_noop_extend k = false ->
    lease_effect c (op_now x) k m = Some m' -> change c x r m m'
| ch_manage : forall k,
    manage_kind_of x = Some k -> allowed_from k (m_st m) = true -> res_ok r = true ->
    manage_effect (op_now x) k m = Some m' -> change c x r m m'.

Inductive removal (c : cfg) (x : op) (r : res) (m : msg) : Prop :=
| rm_ack : forall lid,
    lease_op_kind x = Some KAck -> In lid (presented x) -> m_lease m = Some lid ->
    is_leased m = true -> op_now x < m_until m -> res_ok r = true ->
    c_deliv_age c <= 0 -> removal c x r m
| rm_delete : (exists now ids, x = Manage now MDeleteDead ids /\ In (m_id m) (norm_ids ids [])) ->
              m_st m = Dead -> res_ok r = true -> removal c x r m
| rm_prune : prunes x = true -> prune_reason c (op_now x) m -> removal c x r m
| rm_evict : enq_ok x r = true -> c_drop_oldest c = true -> 0 < c_max_depth c ->
             queuedb m = true -> removal c x r m.

(** every message after the step is the image of a message before it under [pm], or new *)
Definition per_message (c : cfg) (x : op) (r : res) (l : list msg) (pm : msg -> option msg) : Prop :=
  forall m, In m l -> match pm m with Some m' => change c x r m m' | None => removal c x r m end.

Definition news_ok (x : op) (o : oracle) (r : res) (news : list msg) : Prop :=
  news = [] \/
  (enq_ok x r = true /\ exists ies, assign_ids (enq_list x) (o_genids o) = Some ies /\
                                  news = map (fun p => mk_msg (op_now x) (fst p) (snd p)) ies).

Definition step_spec (c : cfg) (x : op) (o : oracle) (r : res) (l l' : list msg) : Prop :=
  exists pm news, l' = apply_pm pm l ++ news /\ per_message c x r l pm /\ news_ok x o r news.

(** ** consequences of [change] / [removal]: the documented machine *)
Lemma change_same_imm c x r m m' : change c x r m m' -> same_imm m m'.
Proof.
  intros H. destruct H as [E | _ _ _ E | route target b ttl lid m0 _ H0 _ _ _ E | k lid _ _ _ _ _ _ _ E | k _ _ _ E].
  - subst. apply same_imm_refl.
  - subst. apply release_same_imm.
  - subst. destruct H0 as [H0 | [_ H0]]; subst; repeat split.
  - apply (lease_effect_imm c (op_now x) k). exact E.
  - apply (manage_effect_imm (op_now x) k). exact E.
Qed.

Definition edge_ok (x : op) (a b : st) : Prop :=
  a = b \/
  match a, b with
  | Queued, Leased => is_dequeue x = true
  | Leased, Queued => releases x = true                                     (* nack, or expiry noticed by a dequeue / lease operation *)
  | Leased, Delivered => lease_op_kind x = Some KAck
  | Leased, Dead => exists rs, lease_op_kind x = Some (KDead rs)
  | (Queued | Leased | Dead), Canceled => manage_kind_of x = Some MCancel
  | Dead, Queued => manage_kind_of x = Some MRequeue \/ manage_kind_of x = Some MRequeueDead
  | Canceled, Queued => manage_kind_of x = Some MRequeue \/ manage_kind_of x = Some MResume
  | _, _ => False
  end.

Lemma lease_op_kind_releases x k : lease_op_kind x = Some k -> releases x = true.
Proof. destruct x; simpl; intros H; try discriminate; reflexivity. Qed.

Lemma change_edge c x r m m' : change c x r m m' -> edge_ok x (m_st m) (m_st m').
Proof.
  intros H. destruct H as [E | Hr He _ E | route target b ttl lid m0 Ex H0 Hrd _ _ E | k lid Hk _ _ Hl _ _ _ E | k Hk Ha _ E].
  - subst. left. reflexivity.
  - subst. unfold expired, is_leased in He. apply andb_true_iff in He. destruct He as [Hs _].
    destruct (m_st m); simpl in Hs; try discriminate. right. simpl. exact Hr.
  - subst m'. simpl. rewrite Ex. destruct H0 as [H0 | [He H0]]; subst m0.
    + unfold ready, queuedb in Hrd. rewrite !andb_true_iff in Hrd. destruct Hrd as [[[Hq _] _] _].
      destruct (m_st m); simpl in Hq; try discriminate. right. reflexivity.
    + unfold expired, is_leased in He. apply andb_true_iff in He. destruct He as [Hs _].
      destruct (m_st m); simpl in Hs; try discriminate. left. reflexivity.
  - unfold is_leased in Hl. destruct (m_st m) eqn:Es; simpl in Hl; try discriminate.
    unfold lease_effect in E. destruct k.
    + destruct (0 <? c_deliv_age c); inversion E; subst; simpl. right. exact Hk.
    + inversion E; subst; simpl. right. apply (lease_op_kind_releases x _ Hk).
    + inversion E; subst; simpl. left. reflexivity.
    + inversion E; subst; simpl. right. exists reason. exact Hk.
  - unfold manage_effect in E.
    destruct k; inversion E; subst; simpl; destruct (m_st m); simpl in Ha; try discriminate;
      right; simpl; auto.
Qed.

(** a message that was leased and whose lease had not expired is removed only by its own ack *)
Lemma removal_of_live_lease c x r m :
  removal c x r m -> is_leased m = true ->
  lease_op_kind x = Some KAck /\ exists lid, m_lease m = Some lid /\ In lid (presented x) /\ op_now x < m_until m.
Proof.
  intros H L. destruct H as [lid Hk Hp Hl _ Hu _ _ | _ Hd _ | _ [Hn _] | _ _ _ Hq].
  - split; [exact Hk|]. exists lid. repeat split; assumption.
  - unfold is_leased in L. rewrite Hd in L. discriminate.
  - congruence.
  - unfold queuedb in Hq. unfold is_leased in L. destruct (m_st m); discriminate.
Qed.

(** an operation that reports an error: only expired leases are released, retention may prune *)
Lemma change_on_error c x e m m' :
  change c x (RErr e) m m' -> m' = m \/ (expired (op_now x) m = true /\ m' = release (op_now x) m).
Proof.
  intros H. destruct H as [E | _ He _ E | route target b ttl lid m0 _ _ _ Hin _ _ | k lid _ _ _ _ _ Hok _ _ | k _ _ Hok _].
  - left. exact E.
  - right. split; assumption.
  - simpl in Hin. destruct Hin.
  - discriminate.
  - discriminate.
Qed.

Lemma removal_on_error c x e m : removal c x (RErr e) m -> prunes x = true /\ prune_reason c (op_now x) m.
Proof.
  intros H. destruct H as [lid _ _ _ _ _ Hok _ | _ _ Hok | Hp Hr | Hok _ _ _]; try discriminate.
  - split; assumption.
  - destruct x; try discriminate; destruct es; discriminate.
Qed.

(** ** the phases *)
(** *** retention prune *)
Lemma In_insert_by key asc m l x : In x (insert_by key asc m l) <-> x = m \/ In x l.
Proof.
  induction l as [|a tl IH]; simpl.
  - split; [intros [H | []]; left; auto | intros [H | []]; left; auto].
  - destruct (if asc then lt_key (key m) (m_id m) (key a) (m_id a) else lt_key (key a) (m_id a) (key m) (m_id m)); simpl.
    + split; [intros [H | [H | H]]; auto | intros [H | [H | H]]; auto].
    + rewrite IH. split; [intros [H | [H | H]]; auto | intros [H | [H | H]]; auto].
Qed.

Lemma In_sort_by key asc l x : In x (sort_by key asc l) <-> In x l.
Proof.
  unfold sort_by. induction l as [|a tl IH]; simpl; [tauto|].
  rewrite In_insert_by, IH. split; [intros [H | H]; auto | intros [H | H]; auto].
Qed.

Lemma In_prefer hint cands i : In i (prefer hint cands) -> In i cands.
Proof.
  unfold prefer. intros H. apply in_app_or in H. destruct H as [H | H]; apply filter_In in H; apply H.
Qed.

Lemma In_firstn (A : Type) n (l : list A) x : In x (firstn n l) -> In x l.
Proof.
  revert l. induction n as [|n IH]; simpl; intros l H; [destruct H|].
  destruct l as [|a tl]; [destruct H|]. destruct H as [H | H]; [left; exact H | right; apply IH; exact H].
Qed.

Lemma dlq_victims_dead depth hint l i :
  In i (dlq_depth_victims depth hint l) -> 0 < depth /\ exists m, In m l /\ m_id m = i /\ m_st m = Dead.
Proof.
  unfold dlq_depth_victims.
  set (deads := filter (fun m => st_eqb (m_st m) Dead) l).
  destruct ((0 <? depth) && (depth <? Z.of_nat (length deads))) eqn:E; [|intros []].
  apply andb_true_iff in E. destruct E as [E _]. apply Z.ltb_lt in E.
  destruct (nth_error (sort_by m_recv true deads) _) as [cutm|]; [|intros []].
  intros H. split; [exact E|].
  assert (Hd : forall m, In m (sort_by m_recv true deads) -> In m l /\ m_st m = Dead).
  { intros m Hm. apply In_sort_by in Hm. unfold deads in Hm. apply filter_In in Hm. destruct Hm as [A B].
    split; [exact A|]. destruct (m_st m); simpl in B; try discriminate. reflexivity. }
  apply in_app_or in H. destruct H as [H | H].
  - apply in_map_iff in H. destruct H as [m [Em Hm]]. apply filter_In in Hm. destruct Hm as [Hm _].
    destruct (Hd m Hm). exists m. auto.
  - apply In_firstn in H. apply In_prefer in H. apply in_map_iff in H. destruct H as [m [Em Hm]].
    apply filter_In in Hm. destruct Hm as [Hm _]. destruct (Hd m Hm). exists m. auto.
Qed.

Lemma prune_age_not_leased c now m : prune_age_eligible c now m = true -> is_leased m = false.
Proof. unfold prune_age_eligible, is_leased. destruct (m_st m); simpl; intros H; try discriminate; reflexivity. Qed.

Lemma prune_enabled_iv c now lp : prune_due c now lp = true -> 0 < c_prune_iv c.
Proof.
  unfold prune_due, prune_enabled. rewrite !andb_true_iff. intros [[H _] _]. apply Z.ltb_lt. exact H.
Qed.

Lemma prune_pm_cases c now hint s m :
  NoDup (ids (msgs s)) -> In m (msgs s) ->
  prune_pm c now hint s m = Some m \/ (prune_pm c now hint s m = None /\ prune_reason c now m).
Proof.
  intros ND Hm. unfold prune_pm. destruct (prune_due c now (last_prune s)) eqn:Ed; [|left; reflexivity].
  pose proof (prune_enabled_iv _ _ _ Ed) as Hiv.
  unfold pm_prune_msgs, pm_comp.
  destruct (prune_age_eligible c now m) eqn:Ea.
  - assert (Epa : pm_prune_age c now m = None) by (unfold pm_prune_age; rewrite Ea; reflexivity). rewrite Epa.
    right. split; [reflexivity|]. split; [apply (prune_age_not_leased c now); exact Ea|]. split; [exact Hiv | left; exact Ea].
  - assert (Epa : pm_prune_age c now m = Some m) by (unfold pm_prune_age; rewrite Ea; reflexivity). rewrite Epa.
    unfold pm_remove_ids.
    destruct (memN (m_id m) (dlq_depth_victims (c_dlq_depth c) hint (apply_pm (pm_prune_age c now) (msgs s)))) eqn:Ev;
      [|left; reflexivity].
    right. split; [reflexivity|]. apply memN_In in Ev. apply dlq_victims_dead in Ev.
    destruct Ev as [Hd [m1 [H1 [Ei Es]]]].
    apply apply_pm_In in H1. destruct H1 as [m0 [H0 Ep]]. unfold pm_prune_age in Ep.
    destruct (prune_age_eligible c now m0); inversion Ep; subst m1.
    assert (m0 = m) by (apply (nodup_ids_inj (msgs s)); assumption). subst m0.
    split; [unfold is_leased; rewrite Es; reflexivity|]. split; [exact Hiv|]. right. split; assumption.
Qed.

(** *** the state a dequeue selects from *)
Definition deq_pre_pm (fl : flavour) (c : cfg) (now : Z) (o : oracle) (s : state) : msg -> option msg :=
  let sweeping := match fl with Mem => true | Sql => sql_sweep_due now (last_sweep s) end in
  pm_comp (prune_pm c now (o_gone o) s) (if sweeping then pm_sweep now else (fun m => Some m)).

Lemma deq_pre_msgs fl c now o s : msgs (deq_pre fl c now o s) = apply_pm (deq_pre_pm fl c now o s) (msgs s).
Proof.
  unfold deq_pre, deq_pre_pm. destruct fl; simpl.
  - unfold sweep. rewrite prune_msgs_eq, apply_pm_comp. reflexivity.
  - rewrite prune_last_sweep. destruct (sql_sweep_due now (last_sweep s)); simpl.
    + unfold sweep. rewrite prune_msgs_eq, apply_pm_comp. reflexivity.
    + rewrite prune_msgs_eq, <- apply_pm_comp, apply_pm_id. reflexivity.
Qed.

Lemma deq_pre_issued fl c now o s : issued (deq_pre fl c now o s) = issued s.
Proof.
  unfold deq_pre. destruct fl; simpl; [apply prune_issued|].
  destruct (sql_sweep_due _ _); simpl; apply prune_issued.
Qed.

Lemma deq_pre_cases fl c now o s m :
  NoDup (ids (msgs s)) -> In m (msgs s) ->
  (deq_pre_pm fl c now o s m = None /\ prune_reason c now m)
  \/ deq_pre_pm fl c now o s m = Some m
  \/ (deq_pre_pm fl c now o s m = Some (release now m) /\ expired now m = true).
Proof.
  intros ND Hm. unfold deq_pre_pm, pm_comp.
  destruct (prune_pm_cases c now (o_gone o) s m ND Hm) as [E | [E R]]; rewrite E; [|left; split; [reflexivity | exact R]].
  right. destruct (match fl with Mem => true | Sql => sql_sweep_due now (last_sweep s) end); [|left; reflexivity].
  unfold pm_sweep. destruct (expired now m) eqn:Ee; [right; split; reflexivity | left; reflexivity].
Qed.

(** *** the lease phase *)
Lemma pm_lease_cases l iss now route target b t picked m0 :
  InvL l iss -> valid_pick now route target b l iss picked = true -> In m0 l ->
  pm_lease now t picked m0 = Some m0
  \/ exists lid, In (m_id m0, lid) picked /\ ready now route target m0 = true
                 /\ pm_lease now t picked m0 = Some (leased_version now t lid m0).
Proof.
  intros I V Hm. unfold pm_lease. destruct (lease_of picked (m_id m0)) as [lid|] eqn:E; [|left; reflexivity].
  right. exists lid. apply lease_of_In in E. split; [exact E|]. split; [|reflexivity].
  apply valid_pick_parts in V. destruct V as [_ [_ [Cc _]]].
  destruct (Cc (m_id m0)) as [m1 [F R]]; [apply in_map_iff; exists (m_id m0, lid); split; [reflexivity | exact E]|].
  rewrite (find_id_In_NoDup l m0 (inv_nodup _ _ I) Hm) in F. inversion F; subst. exact R.
Qed.

Lemma item_pairs_RItems l3 picked :
  item_pairs (RItems (map (fun p : N * N => match find_id (fst p) l3 with
                                            | Some m => (fst p, snd p, m_attempt m, m_until m)
                                            | None => (fst p, snd p, 0, 0) end) picked)) = picked.
Proof.
  unfold item_pairs, deq_items. rewrite map_map. rewrite <- (map_id picked) at 2. apply map_ext.
  intros [a b]. simpl. destruct (find_id a l3); reflexivity.
Qed.

Lemma step_dequeue_spec fl c now route target batch ttl o s s' r :
  Inv s -> step_dequeue fl c now route target batch ttl o s = (s', r) ->
  step_spec c (Dequeue now route target batch ttl) o r (msgs s) (msgs s').
Proof.
  intros I H. rewrite step_dequeue_eq in H. cbv zeta in H.
  pose proof (deq_pre_inv fl c now o s I) as I2.
  set (x := Dequeue now route target batch ttl).
  destruct (valid_pick now route target (clamp_batch batch) (msgs (deq_pre fl c now o s)) (issued (deq_pre fl c now o s)) (o_picked o)) eqn:V;
    inversion H; subst s' r; clear H.
  - (* the lease ids handed out are not held by any stored message *)
    assert (Fresh : forall m lid, In m (msgs s) -> In (m_id m, lid) (o_picked o) -> m_lease m <> Some lid).
    { intros m lid Hm Pin L. apply valid_pick_parts in V. destruct V as [_ [_ [_ [D _]]]].
      apply (D lid); [apply in_map_iff; exists (m_id m, lid); auto|]. rewrite deq_pre_issued. apply (inv_liss _ _ I m lid Hm L). }
    exists (pm_comp (deq_pre_pm fl c now o s) (pm_lease now (eff_ttl ttl) (o_picked o))), [].
    split; [simpl; rewrite app_nil_r, deq_pre_msgs, apply_pm_comp; reflexivity|]. split; [|left; reflexivity].
    intros m Hm. unfold pm_comp.
    destruct (deq_pre_cases fl c now o s m (inv_nodup _ _ I) Hm) as [[E R] | [E | [E Ee]]]; rewrite E.
    + apply rm_prune; [reflexivity | exact R].
    + assert (Hin : In m (msgs (deq_pre fl c now o s))) by (rewrite deq_pre_msgs; apply apply_pm_In; exists m; auto).
      destruct (pm_lease_cases _ _ _ _ _ _ (eff_ttl ttl) _ m I2 V Hin) as [P | [lid [Pin [Prd P]]]]; rewrite P.
      * apply ch_same. reflexivity.
      * apply (ch_dequeue c x _ m _ route target batch ttl lid m); auto;
          try (rewrite item_pairs_RItems; exact Pin); try exact (Fresh m lid Hm Pin).
    + assert (Hin : In (release now m) (msgs (deq_pre fl c now o s))) by (rewrite deq_pre_msgs; apply apply_pm_In; exists m; auto).
      destruct (pm_lease_cases _ _ _ _ _ _ (eff_ttl ttl) _ _ I2 V Hin) as [P | [lid [Pin [Prd P]]]]; rewrite P.
      * apply ch_expire; auto.
      * apply (ch_dequeue c x _ m _ route target batch ttl lid (release now m)); auto;
          try (rewrite item_pairs_RItems; exact Pin); try exact (Fresh m lid Hm Pin).
  - exists (deq_pre_pm fl c now o s), []. split; [rewrite app_nil_r; apply deq_pre_msgs|]. split; [|left; reflexivity].
    intros m Hm.
    destruct (deq_pre_cases fl c now o s m (inv_nodup _ _ I) Hm) as [[E R] | [E | [E Ee]]]; rewrite E.
    + apply rm_prune; [reflexivity | exact R].
    + apply ch_same. reflexivity.
    + apply ch_expire; auto.
Qed.

(** *** reads that prune *)
Lemma prune_only_spec c x o r s hint :
  Inv s -> prunes x = true ->
  step_spec c x o r (msgs s) (msgs (prune c (op_now x) hint s)).
Proof.
  intros I Hp. exists (prune_pm c (op_now x) hint s), []. rewrite app_nil_r.
  split; [apply prune_msgs_eq|]. split; [|left; reflexivity].
  intros m Hm. destruct (prune_pm_cases c (op_now x) hint s m (inv_nodup _ _ I) Hm) as [E | [E R]]; rewrite E.
  - apply ch_same. reflexivity.
  - apply rm_prune; assumption.
Qed.

Lemma identity_spec c x o r l : step_spec c x o r l l.
Proof.
  exists (fun m => Some m), []. rewrite app_nil_r, apply_pm_id. split; [reflexivity|]. split; [|left; reflexivity].
  intros m _. apply ch_same. reflexivity.
Qed.

(** *** single lease operations *)
Definition lchange (c : cfg) (now : Z) (k : lease_kind) (pres : list N) (m : msg) (r : option msg) : Prop :=
  r = Some m
  \/ (exists lid, m_lease m = Some lid /\ In lid pres /\ expired now m = true /\ r = Some (release now m))
  \/ (exists lid, m_lease m = Some lid /\ In lid pres /\ is_leased m = true /\ now < m_until m /\ r = lease_effect c now k m).

Lemma lchange_mono c now k p1 p2 m r : incl p1 p2 -> lchange c now k p1 m r -> lchange c now k p2 m r.
Proof.
  intros Hi [H | [[lid [A [B [Cc D]]]] | [lid [A [B [Cc [D E]]]]]]].
  - left. exact H.
  - right. left. exists lid. repeat split; auto.
  - right. right. exists lid. repeat split; auto.
Qed.

Lemma lease_one_pm c now k x l l' out iss :
  InvL l iss -> lease_one c now k x l = (l', out) ->
  exists pm, l' = apply_pm pm l /\ (forall m, In m l -> lchange c now k [x] m (pm m))
             /\ (out = LOk -> exists m, In m l /\ m_lease m = Some x /\ is_leased m = true /\ now < m_until m
                                        /\ pm m = lease_effect c now k m)
             /\ (forall m, In m l -> m_lease m = Some x -> is_leased m = true -> now < m_until m ->
                            pm m = lease_effect c now k m /\ out = LOk).
Proof.
  intros I H. unfold lease_one in H.
  destruct (find_lease x l) as [m|] eqn:F.
  2:{ inversion H; subst. exists (fun m => Some m). rewrite apply_pm_id. split; [reflexivity|]. split; [|split; [discriminate|]].
      - intros m _. left. reflexivity.
      - intros m Hm Lm _ _. exfalso. apply (find_lease_None x l' F m Hm Lm). }
  apply find_lease_Some in F. destruct F as [Hm Lm].
  assert (Uniq : forall y, In y l -> m_lease y = Some x -> y = m).
  { intros y Hy Ly. apply (inv_linj _ _ I y m x); assumption. }
  destruct (negb (is_leased m)) eqn:El.
  { inversion H; subst. exists (fun m => Some m). rewrite apply_pm_id. split; [reflexivity|]. split; [|split; [discriminate|]].
    - intros m0 _. left. reflexivity.
    - intros y Hy Ly Il _. rewrite (Uniq y Hy Ly) in Il. apply negb_true_iff in El. congruence. }
  apply negb_false_iff in El.
  assert (Only : forall y, In y l -> N.eqb (m_id y) (m_id m) = true -> y = m).
  { intros y Hy E. apply N.eqb_eq in E. apply (nodup_ids_inj l); [apply I | | |]; assumption. }
  destruct (m_until m <=? now) eqn:Eu; inversion H; subst; clear H.
  - exists (pm_on_id (m_id m) (fun y => Some (release now y))). split; [reflexivity|]. split; [|split; [discriminate|]].
    + intros y Hy. unfold pm_on_id. destruct (N.eqb (m_id y) (m_id m)) eqn:E; [|left; reflexivity].
      rewrite (Only y Hy E). right. left. exists x. repeat split; auto; [left; reflexivity|].
      unfold expired. rewrite El, Eu. reflexivity.
    + intros y Hy Ly _ Hu. rewrite (Uniq y Hy Ly) in Hu. apply Z.leb_le in Eu. lia.
  - apply Z.leb_gt in Eu. exists (pm_on_id (m_id m) (lease_effect c now k)). split; [reflexivity|]. split.
    + intros y Hy. unfold pm_on_id. destruct (N.eqb (m_id y) (m_id m)) eqn:E; [|left; reflexivity].
      rewrite (Only y Hy E). right. right. exists x. repeat split; auto. left. reflexivity.
    + split.
      * intros _. exists m. repeat split; auto. unfold pm_on_id. rewrite N.eqb_refl. reflexivity.
      * intros y Hy Ly _ _. rewrite (Uniq y Hy Ly). split; [|reflexivity]. unfold pm_on_id. rewrite N.eqb_refl. reflexivity.
Qed.

Lemma lchange_to_change c x r k m :
  lease_op_kind x = Some k -> is_noop_extend k = false ->
  (lease_effect c (op_now x) k m = None -> k = KAck /\ c_deliv_age c <= 0) ->
  forall res, lchange c (op_now x) k (presented x) m res ->
  (forall lid, m_lease m = Some lid -> In lid (presented x) -> is_leased m = true -> op_now x < m_until m ->
               res = lease_effect c (op_now x) k m -> res_ok r = true) ->
  match res with Some m' => change c x r m m' | None => removal c x r m end.
Proof.
  intros Hk Hne Hnone res [H | [[lid [A [B [Cc D]]]] | [lid [A [B [Cc [D E]]]]]]] Hok.
  - subst. apply ch_same. reflexivity.
  - subst. apply ch_expire; [apply (lease_op_kind_releases x k Hk) | exact Cc | | reflexivity].
    right. unfold presents. rewrite A. apply memN_In. exact B.
  - pose proof (Hok lid A B Cc D E) as Ok. subst res. destruct (lease_effect c (op_now x) k m) as [m'|] eqn:Ef.
    + apply (ch_settle c x r m m' k lid); auto.
    + destruct (Hnone eq_refl) as [Ek Hd]. subst k. apply (rm_ack c x r m lid); auto.
Qed.

Lemma lease_effect_none c now k m : lease_effect c now k m = None -> k = KAck /\ c_deliv_age c <= 0.
Proof.
  unfold lease_effect. destruct k; try discriminate. destruct (0 <? c_deliv_age c) eqn:E; [discriminate|].
  intros _. split; [reflexivity|]. apply Z.ltb_ge. exact E.
Qed.

Lemma step_lease_spec fl c now k lr o s s' r :
  Inv s -> step_lease fl c now k lr s = (s', r) ->
  step_spec c (LeaseOp now k lr) o r (msgs s) (msgs s').
Proof.
  intros I H. unfold step_lease in H.
  destruct (is_noop_extend k) eqn:Hne; [inversion H; subst; apply identity_spec|].
  destruct lr as [x p| |]; try (inversion H; subst; apply identity_spec).
  destruct (lease_one c now k x (msgs s)) as [l' out] eqn:E.
  destruct (lease_one_pm c now k x (msgs s) l' out (issued s) I E) as [pm [El [Hpm Hout]]].
  set (xop := LeaseOp now k (LKnown x p)).
  assert (Hk : lease_op_kind xop = Some k) by reflexivity.
  exists pm, []. rewrite app_nil_r.
  assert (Hmsgs : msgs s' = l') by (destruct out as [|[|]]; inversion H; subst; reflexivity).
  split; [rewrite Hmsgs; exact El|]. split; [|left; reflexivity].
  intros m Hm. apply (lchange_to_change c xop r k m Hk Hne).
  - apply lease_effect_none.
  - exact (Hpm m Hm).
  - (* the effect was applied: the outcome is LOk, hence the result is RUnit *)
    intros lid A B Cc D Eres. simpl in B. destruct B as [B | []]. subst lid.
    unfold lease_one in E. destruct (find_lease x (msgs s)) as [m1|] eqn:F.
    2:{ exfalso. apply (find_lease_None x (msgs s) F m Hm). exact A. }
    apply find_lease_Some in F. destruct F as [H1 L1].
    assert (m1 = m) by (apply (inv_linj _ _ I m1 m x); assumption). subst m1.
    rewrite Cc in E. simpl in E. assert (Eu : (m_until m <=? now) = false) by (apply Z.leb_gt; exact D).
    rewrite Eu in E. inversion E; subst out. inversion H; subst. reflexivity.
Qed.

(** *** batch lease operations *)
Fixpoint known_leases (ls : list lref) : list N :=
  match ls with
  | [] => []
  | LKnown x _ :: tl => x :: known_leases tl
  | _ :: tl => known_leases tl
  end.

Lemma presented_batch now k ls : presented (LeaseBatch now k ls) = known_leases ls.
Proof.
  unfold presented. induction ls as [|l tl IH]; simpl; [reflexivity|].
  destruct l; simpl; rewrite IH; reflexivity.
Qed.

Lemma not_leased_lchange c now k pres m r :
  is_leased m = false -> lchange c now k pres m r -> r = Some m.
Proof.
  intros L [H | [[lid [_ [_ [E _]]]] | [lid [_ [_ [E _]]]]]]; [exact H | |].
  - unfold expired in E. rewrite L in E. discriminate.
  - congruence.
Qed.

Lemma lease_effect_not_leased c now k m m' :
  batch_kind_ok k = true -> lease_effect c now k m = Some m' -> is_leased m' = false.
Proof.
  unfold lease_effect. destruct k; simpl; intros Hk E; try discriminate.
  - destruct (0 <? c_deliv_age c); inversion E; subst; reflexivity.
  - inversion E; subst; reflexivity.
  - inversion E; subst; reflexivity.
Qed.

Lemma lease_batch_pm c now k ls ms iss :
  batch_kind_ok k = true -> InvL ms iss ->
  exists pm, fst (fst (lease_batch c now k ls ms)) = apply_pm pm ms
             /\ (forall m, In m ms -> lchange c now k (known_leases ls) m (pm m))
             /\ (forall m x, In m ms -> m_lease m = Some x -> In x (known_leases ls) -> is_leased m = true ->
                              now < m_until m -> pm m = lease_effect c now k m).
Proof.
  intros Hk. revert ms. induction ls as [|l tl IH]; intros ms I.
  - exists (fun m => Some m). simpl. rewrite apply_pm_id. split; [reflexivity|].
    split; [intros m _; left; reflexivity | intros m x _ _ []].
  - destruct l as [x p| |].
    + simpl. destruct (lease_one c now k x ms) as [ms1 out] eqn:E.
      destruct (lease_one_pm c now k x ms ms1 out iss I E) as [pm1 [E1 [H1 [_ H1c]]]].
      assert (I1 : InvL ms1 iss) by (apply (lease_one_inv _ _ _ _ _ _ _ _ E); exact I).
      destruct (IH ms1 I1) as [pm2 [E2 [H2 H2c]]].
      exists (pm_comp pm1 pm2). split; [|split].
      * rewrite <- apply_pm_comp, <- E1.
        destruct out; destruct (lease_batch c now k tl ms1) as [[ms' n] cs]; simpl in *; exact E2.
      * intros m Hm. unfold pm_comp. specialize (H1 m Hm).
        destruct H1 as [P | [[lid [A [B [Cc P]]]] | [lid [A [B [Cc [D P]]]]]]].
        -- rewrite P. assert (Hin : In m ms1) by (rewrite E1; apply apply_pm_In; exists m; auto).
           apply (lchange_mono c now k (known_leases tl)); [intros z Hz; right; exact Hz | apply H2; exact Hin].
        -- rewrite P. assert (Hin : In (release now m) ms1) by (rewrite E1; apply apply_pm_In; exists m; auto).
           rewrite (not_leased_lchange c now k (known_leases tl) (release now m) (pm2 (release now m)) eq_refl (H2 _ Hin)).
           right. left. exists lid. repeat split; auto. destruct B as [B | []]. left. exact B.
        -- rewrite P. destruct (lease_effect c now k m) as [m1|] eqn:Ef.
           ++ assert (Hin : In m1 ms1) by (rewrite E1; apply apply_pm_In; exists m; split; [exact Hm | congruence]).
              rewrite (not_leased_lchange c now k _ _ _ (lease_effect_not_leased c now k m m1 Hk Ef) (H2 _ Hin)).
              right. right. exists lid. repeat split; auto. destruct B as [B | []]. left. exact B.
           ++ right. right. exists lid. repeat split; auto. destruct B as [B | []]. left. exact B.
      * (* completeness: a current unexpired lease that is presented takes effect *)
        intros m y Hm Ly Hy Il Hu. unfold pm_comp. simpl in Hy.
        destruct (N.eq_dec x y) as [Exy | Nxy].
        -- subst y. destruct (H1c m Hm Ly Il Hu) as [P _]. rewrite P.
           destruct (lease_effect c now k m) as [m1|] eqn:Ef; [|reflexivity].
           assert (Hin : In m1 ms1) by (rewrite E1; apply apply_pm_In; exists m; split; [exact Hm | congruence]).
           apply (not_leased_lchange c now k _ _ _ (lease_effect_not_leased c now k m m1 Hk Ef) (H2 _ Hin)).
        -- destruct Hy as [Hy | Hy]; [contradiction|].
           assert (P : pm1 m = Some m).
           { destruct (H1 m Hm) as [P | [[lid [A [B _]]] | [lid [A [B _]]]]]; [exact P | |];
               destruct B as [B | []]; exfalso; apply Nxy; congruence. }
           rewrite P. assert (Hin : In m ms1) by (rewrite E1; apply apply_pm_In; exists m; auto).
           apply (H2c m y Hin Ly Hy Il Hu).
    + simpl. destruct (IH ms I) as [pm [E H]]. exists pm.
      destruct (lease_batch c now k tl ms) as [[ms' n] cs]; simpl in *. split; [exact E | exact H].
    + simpl. destruct (IH ms I) as [pm [E H]]. exists pm.
      destruct (lease_batch c now k tl ms) as [[ms' n] cs]; simpl in *. split; [exact E | exact H].
Qed.

Lemma step_lease_batch_spec c now k ls o s s' r :
  batch_kind_ok k = true -> Inv s -> step_lease_batch c now k ls s = (s', r) ->
  step_spec c (LeaseBatch now k ls) o r (msgs s) (msgs s').
Proof.
  intros Hk I H. unfold step_lease_batch in H.
  set (k' := match k with KNack d => KNack (Z.max d 0) | _ => k end) in *.
  assert (Hk' : batch_kind_ok k' = true) by (destruct k; exact Hk).
  destruct (lease_batch_pm c now k' ls (msgs s) (issued s) Hk' I) as [pm [E [Hpm _]]].
  destruct (lease_batch c now k' ls (msgs s)) as [[ms' n] cs] eqn:Eb. inversion H; subst s' r. simpl in *.
  set (xop := LeaseBatch now k ls).
  assert (Hkind : lease_op_kind xop = Some k') by reflexivity.
  exists pm, []. rewrite app_nil_r. split; [exact E|]. split; [|left; reflexivity].
  assert (Hne : is_noop_extend k' = false) by (destruct k; simpl in *; try reflexivity; discriminate).
  intros m Hm. apply (lchange_to_change c xop (RBatch n cs) k' m Hkind Hne).
  - apply lease_effect_none.
  - unfold xop. rewrite presented_batch. exact (Hpm m Hm).
  - intros; reflexivity.
Qed.

(** *** operator mutations *)
Lemma step_manage_spec c now k idl o s s' r :
  step_manage now k idl s = (s', r) ->
  step_spec c (Manage now k idl) o r (msgs s) (msgs s').
Proof.
  intros H. unfold step_manage in H. inversion H; subst s' r; clear H.
  exists (pm_manage now k (norm_ids idl [])), []. simpl. rewrite app_nil_r. split; [reflexivity|]. split; [|left; reflexivity].
  intros m _. unfold pm_manage. destruct (memN (m_id m) (norm_ids idl []) && allowed_from k (m_st m)) eqn:E.
  - pose proof E as E0. apply andb_true_iff in E. destruct E as [_ Ea].
    destruct (manage_effect now k m) as [m'|] eqn:Ef.
    + apply (ch_manage c _ _ m m' k); auto.
    + unfold manage_effect in Ef. destruct k; try discriminate.
      apply rm_delete; [| | reflexivity].
      * exists now, idl. split; [reflexivity|]. apply andb_true_iff in E0. destruct E0 as [Em _]. apply memN_In. exact Em.
      * destruct (m_st m); simpl in Ea; try discriminate. reflexivity.
  - apply ch_same. reflexivity.
Qed.

Lemma step_manage_f_spec c now k f o s s' r :
  (k = MCancel \/ k = MRequeue \/ k = MResume) ->
  step_manage_f now k f s = (s', r) ->
  step_spec c (ManageF now k f) o r (msgs s) (msgs s').
Proof.
  intros Hk H. unfold step_manage_f in H. destruct (f_preview f) eqn:Ep.
  - inversion H; subst. apply identity_spec.
  - inversion H; subst s' r; clear H.
    exists (pm_manage now k (filter_select k f (msgs s))), []. simpl. rewrite app_nil_r.
    split; [reflexivity|]. split; [|left; reflexivity].
    intros m _. unfold pm_manage. destruct (memN (m_id m) (filter_select k f (msgs s)) && allowed_from k (m_st m)) eqn:E.
    + apply andb_true_iff in E. destruct E as [_ Ea].
      assert (Ef : manage_effect now k m = Some (upd m (match k with MCancel => Canceled | _ => Queued end) now 0%N None 0 (m_attempt m))).
      { destruct Hk as [Hk | [Hk | Hk]]; subst k; reflexivity. }
      rewrite Ef. apply (ch_manage c _ _ m _ k); auto. simpl. rewrite Ep. reflexivity.
    + apply ch_same. reflexivity.
Qed.

(** *** enqueue *)
Lemma mem_oldest_spec ord l vs best m :
  mem_oldest ord l vs best = Some m -> best = Some m \/ (In m l /\ queuedb m = true).
Proof.
  revert best. induction ord as [|i tl IH]; simpl; intros best H; [left; exact H|].
  destruct (find_id i l) as [mi|] eqn:F; [|apply IH; exact H].
  destruct (queuedb mi && negb (memN i vs)) eqn:Eq; [|apply IH; exact H].
  apply andb_true_iff in Eq. destruct Eq as [Eq _]. apply find_id_Some in F. destruct F as [Fin _].
  destruct best as [b|].
  - destruct (m_recv mi <? m_recv b); destruct (IH _ H) as [E | E]; auto.
    inversion E; subst. right. split; assumption.
  - destruct (IH _ H) as [E | E]; auto. inversion E; subst. right. split; assumption.
Qed.

Definition queued_ids (l : list msg) (vs : list N) : Prop :=
  forall v, In v vs -> exists m, In m l /\ m_id m = v /\ queuedb m = true.

Lemma mem_plan_loop_spec c fuel extra ord l a ad vs0 vs :
  mem_plan_loop c fuel extra ord l a ad vs0 = Some vs -> queued_ids l vs0 -> queued_ids l vs.
Proof.
  revert a ad vs0. induction fuel as [|f IH]; simpl; intros a ad vs0 H Q.
  - destruct (negb (mem_full c extra a ad)); [inversion H; subst; exact Q | discriminate].
  - destruct (negb (mem_full c extra a ad)); [inversion H; subst; exact Q|].
    destruct (mem_oldest ord l vs0 None) as [m|] eqn:E; [|discriminate].
    apply (IH _ _ _ H). intros v Hv. apply in_app_or in Hv. destruct Hv as [Hv | [Hv | []]]; [apply Q; exact Hv|].
    subst v. apply mem_oldest_spec in E. destruct E as [E | [E1 E2]]; [discriminate|]. exists m. auto.
Qed.

Lemma mem_plan_spec c extra s l vs :
  mem_plan c extra s l = Some vs -> queued_ids l vs /\ (vs <> [] -> c_drop_oldest c = true /\ 0 < c_max_depth c).
Proof.
  unfold mem_plan. destruct (c_max_depth c <=? 0) eqn:Ed.
  { intros H; inversion H; subst. split; [intros v []|]. intros N; contradiction. }
  destruct (negb (mem_full c extra (active l) (active_deliv l))).
  { intros H; inversion H; subst. split; [intros v []|]. intros N; contradiction. }
  destruct (negb (c_drop_oldest c)) eqn:Edo; [discriminate|].
  intros H. split.
  - apply (mem_plan_loop_spec _ _ _ _ _ _ _ _ _ H). intros v [].
  - intros _. split; [apply negb_false_iff; exact Edo | apply Z.leb_gt; exact Ed].
Qed.

Lemma sql_victim_spec hint l v : sql_victim hint l = Some v -> exists m, In m l /\ m_id m = v /\ queuedb m = true.
Proof.
  unfold sql_victim. destruct (sort_by m_recv true (filter queuedb l)) as [|first rest]; [discriminate|].
  intros H. destruct (prefer hint _) as [|h t] eqn:Ep; simpl in H; [discriminate|]. inversion H; subst h.
  assert (Hin : In v (prefer hint (map m_id (filter (fun m => m_recv m =? m_recv first) (filter queuedb l))))) by (rewrite Ep; left; reflexivity).
  apply In_prefer in Hin. apply in_map_iff in Hin. destruct Hin as [m [Em Hm]].
  apply filter_In in Hm. destruct Hm as [Hm _]. apply filter_In in Hm. destruct Hm as [Hm Hq]. exists m. auto.
Qed.

Lemma memN_cons x v vs : memN x (v :: vs) = N.eqb x v || memN x vs.
Proof. reflexivity. Qed.

Lemma remove_then_remove v vs l :
  apply_pm (pm_remove_ids vs) (remove_id v l) = apply_pm (pm_remove_ids (v :: vs)) l.
Proof.
  unfold remove_id. rewrite apply_pm_comp. apply apply_pm_ext. intros m _.
  unfold pm_comp, pm_remove_ids. rewrite memN_cons. simpl. destruct (N.eqb (m_id m) v); simpl; reflexivity.
Qed.

Lemma remove_id_In v l m : In m (remove_id v l) -> In m l.
Proof.
  unfold remove_id. intros H. apply apply_pm_In in H. destruct H as [m0 [H0 E]].
  unfold pm_remove_ids in E. destruct (memN _ _); inversion E; subst. exact H0.
Qed.

Lemma sql_make_room_spec c fuel need hint l l2 :
  sql_make_room c fuel need hint l = Some l2 ->
  exists vs, l2 = apply_pm (pm_remove_ids vs) l /\ queued_ids l vs.
Proof.
  revert need l. induction fuel as [|f IH]; simpl; intros need l H.
  - destruct (need <=? c_max_depth c); inversion H; subst.
    exists []. split; [|intros v []]. symmetry. rewrite <- (apply_pm_id l2) at 2. apply apply_pm_ext. reflexivity.
  - destruct (need <=? c_max_depth c).
    { inversion H; subst. exists []. split; [|intros v []]. symmetry. rewrite <- (apply_pm_id l2) at 2. apply apply_pm_ext. reflexivity. }
    destruct (sql_victim hint l) as [v|] eqn:Ev; [|discriminate].
    destruct (IH _ _ H) as [vs [E Q]]. exists (v :: vs). split; [rewrite E; apply remove_then_remove|].
    intros w [Hw | Hw].
    + subst w. apply (sql_victim_spec hint). exact Ev.
    + destruct (Q w Hw) as [m [A [B Cc]]]. exists m. split; [apply (remove_id_In v); exact A | auto].
Qed.

Lemma remove_nil l : apply_pm (pm_remove_ids []) l = l.
Proof. rewrite <- (apply_pm_id l) at 2. apply apply_pm_ext. reflexivity. Qed.

Lemma step_enqueue_spec fl c x now single es o s s' r :
  op_now x = now -> enq_list x = es -> (es <> [] -> prunes x = true) ->
  (single = true -> exists n e, x = Enqueue n e) ->
  (single = false -> es = [] \/ exists n e0 es0, x = EnqueueBatch n (e0 :: es0)) ->
  Inv s -> step_enqueue fl c now single es o s = (s', r) ->
  step_spec c x o r (msgs s) (msgs s').
Proof.
  intros Hnow Hes Hpr HokS HokB I H. unfold step_enqueue in H.
  destruct es as [|e0 es0]; [inversion H; subst; apply identity_spec|].
  set (es := e0 :: es0) in *.
  assert (Hp : prunes x = true) by (apply Hpr; discriminate).
  pose proof (inv_prune c now (o_gone o) s I) as I1.
  assert (Pruned : forall r0, step_spec c x o r0 (msgs s) (msgs (prune c now (o_gone o) s))).
  { intros r0. rewrite <- Hnow. apply prune_only_spec; assumption. }
  destruct (assign_ids es (o_genids o)) as [ies|] eqn:EA; [|inversion H; subst; apply identity_spec].
  set (s1 := prune c now (o_gone o) s) in *.
  set (l1 := msgs s1) in *.
  set (news := map (fun p => mk_msg now (fst p) (snd p)) ies) in *.
  (* the successful outcome, for any list of evicted queued ids *)
  assert (Success : forall vs ord lp ls iss r0,
            res_ok r0 = true -> enq_ok x r0 = true -> queued_ids l1 vs -> (vs <> [] -> c_drop_oldest c = true /\ 0 < c_max_depth c) ->
            step_spec c x o r0 (msgs s) (msgs (mkState (apply_pm (pm_remove_ids vs) l1 ++ news) ord lp ls iss))).
  { intros vs ord lp ls iss r0 Hok Heok Q Hdrop.
    exists (pm_comp (prune_pm c now (o_gone o) s) (pm_remove_ids vs)), news. simpl.
    split; [unfold l1, s1; rewrite prune_msgs_eq, apply_pm_comp; reflexivity|]. split.
    - intros m Hm. unfold pm_comp.
      destruct (prune_pm_cases c now (o_gone o) s m (inv_nodup _ _ I) Hm) as [E | [E R]]; rewrite E.
      + unfold pm_remove_ids. destruct (memN (m_id m) vs) eqn:Ev; [|apply ch_same; reflexivity].
        apply memN_In in Ev. destruct (Q _ Ev) as [m1 [H1 [Ei Eq]]].
        assert (Hin : In m l1) by (unfold l1, s1; rewrite prune_msgs_eq; apply apply_pm_In; exists m; auto).
        assert (m1 = m) by (apply (nodup_ids_inj l1); [apply I1 | | |]; assumption). subst m1.
        assert (Hne : vs <> []) by (intros N; subst vs; destruct Ev).
        destruct (Hdrop Hne). apply rm_evict; auto.
      + rewrite <- Hnow in R. apply rm_prune; assumption.
    - right. split; [exact Heok|]. exists ies. rewrite Hes, Hnow. split; [exact EA | reflexivity]. }
  destruct fl.
  - (* memory *)
    destruct (mem_plan c (Z.of_nat (length ies)) s1 l1) as [victims|] eqn:EP; [|inversion H; subst; apply Pruned].
    apply mem_plan_spec in EP. destruct EP as [Q Hdrop].
    destruct single.
    + destruct (pressure c l1); [inversion H; subst; apply Pruned|].
      destruct (negb (forallb (fun i => negb (has_id i l1) || memN i victims) (map fst ies))); [inversion H; subst; apply Pruned|].
      inversion H; subst s' r. apply Success; auto. destruct (HokS eq_refl) as [n0 [e1 Ex]]. subst x. reflexivity.
    + destruct (negb (nodupN (map fst ies) && forallb (fun i => negb (has_id i l1) || memN i victims) (map fst ies)));
        [inversion H; subst; apply Pruned|].
      destruct (pressure c l1); [inversion H; subst; apply Pruned|].
      inversion H; subst s' r. apply Success; auto.
      destruct (HokB eq_refl) as [Ex | [n0 [e1 [es1 Ex]]]]; [discriminate | subst x; reflexivity].
  - (* SQLite *)
    match type of H with (match ?rm with _ => _ end) = _ => set (room := rm) in * end.
    assert (Hroom : forall l2, room = Some l2 ->
              exists vs, l2 = apply_pm (pm_remove_ids vs) l1 /\ queued_ids l1 vs /\ (vs <> [] -> c_drop_oldest c = true /\ 0 < c_max_depth c)).
    { intros l2 Hr. unfold room in Hr.
      destruct (0 <? c_max_depth c) eqn:Ed.
      2:{ inversion Hr; subst. exists []. rewrite remove_nil. split; [reflexivity|]. split; [intros v []|]. intros N; contradiction. }
      apply Z.ltb_lt in Ed.
      destruct (c_drop_oldest c) eqn:Edo.
      - destruct (sql_make_room_spec _ _ _ _ _ _ Hr) as [vs [E Q]]. exists vs. split; [exact E|]. split; [exact Q|].
        intros _. split; [reflexivity | exact Ed].
      - destruct (c_max_depth c <? active l1 + Z.of_nat (length ies)); [discriminate|]. inversion Hr; subst.
        exists []. rewrite remove_nil. split; [reflexivity|]. split; [intros v []|]. intros N; contradiction. }
    destruct room as [l2|] eqn:Er; [|inversion H; subst; apply Pruned].
    destruct (nodupN (map fst ies) && forallb (fun i => negb (has_id i l2)) (map fst ies)); [|inversion H; subst; apply Pruned].
    destruct (Hroom l2 eq_refl) as [vs [E [Q Hdrop]]]. subst l2.
    inversion H; subst s' r. apply Success; auto; [destruct single; reflexivity|].
    destruct single.
    + destruct (HokS eq_refl) as [n0 [e1 Ex]]. subst x. reflexivity.
    + destruct (HokB eq_refl) as [Ex | [n0 [e1 [es1 Ex]]]]; [discriminate | subst x; reflexivity].
Qed.

(** ** every step *)
Theorem step_sound fl c s x o s' r :
  Inv s -> step fl c s x o = (s', r) -> step_spec c x o r (msgs s) (msgs s').
Proof.
  intros I H. destruct x; cbn [step] in H.
  - apply (step_enqueue_spec fl c _ now true [e] o s s' r); auto; [intros _; exists now, e; reflexivity | discriminate].
  - apply (step_enqueue_spec fl c _ now false es o s s' r); auto.
    + intros N. destruct es; [contradiction | reflexivity].
    + discriminate.
    + intros _. destruct es as [|e0 es0]; [left; reflexivity | right; exists now, e0, es0; reflexivity].
  - apply (step_dequeue_spec fl c now route target batch ttl o s s' r); assumption.
  - apply (step_lease_spec fl c now k l o s s' r); assumption.
  - destruct (batch_kind_ok k) eqn:Ek.
    + apply (step_lease_batch_spec c now k ls o s s' r); assumption.
    + inversion H; subst. apply identity_spec.
  - eapply step_manage_spec. exact H.
  - destruct k; try (inversion H; subst; apply identity_spec);
      apply (step_manage_f_spec c now _ f o s s' r); auto.
  - unfold step_list in H. destruct ord; inversion H; subst;
      apply (prune_only_spec c (ListMessages now f _) o _ s (o_gone o)); auto.
  - unfold step_list_dead in H. inversion H; subst.
    apply (prune_only_spec c (ListDead now route limit before) o _ s (o_gone o)); auto.
  - unfold step_lookup in H. inversion H; subst. apply identity_spec.
  - unfold step_stats in H. inversion H; subst.
    apply (prune_only_spec c (Stats now) o _ s (o_gone o)); auto.
  - destruct fl; inversion H; subst; apply identity_spec.
Qed.
