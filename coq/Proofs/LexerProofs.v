(** Lemmas about the lexer / formatter spelling layer (C19).
    Everything here is for ALL rune sequences (unbounded); no sampling. *)
From Coq Require Import List NArith Bool Lia.
From HK Require Import Model.Lexer Model.FormatValue.
Import ListNotations.
Open Scope N_scope.

(** * Vocabulary *)

(** no undecodable byte *)
Definition valid_runes (s : list rune) : Prop := Forall (fun r => invalid r = false) s.

(** what may follow an unquoted value so that readIdent stops there: end of input or a
    stop rune (the formatter always writes ' ', or '\n' after a value) *)
Definition delim_ok (rest : list rune) : Prop :=
  match rest with [] => True | r :: _ => is_ident_stop r = true end.

(** the two shapes of text a [TIdent] token can have *)
Definition plain_ident (t : list rune) : Prop :=
  exists r tl, t = r :: tl /\ invalid r = false /\ Forall (fun x => is_ident_stop x = false) t.

Definition ph_clean (x : rune) : Prop :=
  invalid x = false /\ is_space x = false /\ x <> 123 /\ x <> 125.

Definition placeholder_ident (t : list rune) : Prop :=
  exists body, t = 123 :: body ++ [125] /\ ph_prefix t = true /\ Forall ph_clean body.

Definition ident_shaped (t : list rune) : Prop := plain_ident t \/ placeholder_ident t.

(** an AST value as the parser builds it: parseValue returns (tok.text, tok.kind == tokString) *)
Definition value_token (t : list rune) (quoted : bool) : token :=
  if quoted then TString t else TIdent t.

Definition parser_value (t : list rune) (quoted : bool) : Prop :=
  if quoted then valid_runes t else ident_shaped t.

(** a route path as the parser builds it: a string token, or an ident token starting with '/' *)
Definition parser_path (t : list rune) (quoted : bool) : Prop :=
  if quoted then valid_runes t else plain_ident t /\ starts_with 47 t = true.

(** * Character-set facts *)

Lemma eqb_false_neq (a b : N) : (a =? b) = false -> a <> b.
Proof. apply N.eqb_neq. Qed.

Lemma neq_eqb_false (a b : N) : a <> b -> (a =? b) = false.
Proof. apply N.eqb_neq. Qed.

Lemma unsafe_is_stop r : unsafe_rune r = is_ident_stop r.
Proof.
  unfold unsafe_rune, is_ident_stop, is_space.
  destruct (r =? 32), (r =? 9), (r =? 10), (r =? 13), (r =? 123), (r =? 125), (r =? 34), (r =? 35); reflexivity.
Qed.

Lemma ws_is_space r : ws_rune r = is_space r.
Proof.
  unfold ws_rune, is_space.
  destruct (r =? 32), (r =? 9), (r =? 10), (r =? 13); reflexivity.
Qed.

Lemma space_is_stop r : is_space r = true -> is_ident_stop r = true.
Proof. unfold is_ident_stop. intros ->. reflexivity. Qed.

Lemma stop_false_parts r : is_ident_stop r = false ->
  is_space r = false /\ r <> 123 /\ r <> 125 /\ r <> 34 /\ r <> 35.
Proof.
  unfold is_ident_stop. intros H.
  apply orb_false_iff in H. destruct H as [H H35].
  apply orb_false_iff in H. destruct H as [H H34].
  apply orb_false_iff in H. destruct H as [H H125].
  apply orb_false_iff in H. destruct H as [Hs H123].
  repeat split; try assumption; apply eqb_false_neq; assumption.
Qed.

Lemma stop_false_build r :
  is_space r = false -> r <> 123 -> r <> 125 -> r <> 34 -> r <> 35 -> is_ident_stop r = false.
Proof.
  intros Hs H1 H2 H3 H4. unfold is_ident_stop.
  rewrite Hs, (neq_eqb_false _ _ H1), (neq_eqb_false _ _ H2), (neq_eqb_false _ _ H3), (neq_eqb_false _ _ H4).
  reflexivity.
Qed.

Lemma space_false_parts r : is_space r = false -> r <> 32 /\ r <> 9 /\ r <> 10 /\ r <> 13.
Proof.
  unfold is_space. intros H.
  repeat (apply orb_false_iff in H; destruct H as [H ?]).
  repeat split; apply eqb_false_neq; assumption.
Qed.

Lemma classify_other r : classify r = COther <-> invalid r = false /\ is_ident_stop r = false.
Proof.
  unfold classify, is_ident_stop.
  destruct (invalid r); [split; [discriminate | intros [? _]; discriminate]|].
  destruct (is_space r); [split; [discriminate | intros [_ ?]; discriminate]|].
  destruct (r =? 123); [split; [discriminate | intros [_ ?]; discriminate]|].
  destruct (r =? 35) eqn:E35.
  { split; [discriminate|]. intros [_ H]. rewrite orb_true_r in H. discriminate. }
  destruct (r =? 125); [split; [discriminate | intros [_ ?]; discriminate]|].
  destruct (r =? 34); [split; [discriminate | intros [_ ?]; discriminate]|].
  split; auto.
Qed.

Lemma classify_space r : classify r = CSpace -> is_space r = true.
Proof.
  unfold classify. destruct (invalid r); [discriminate|].
  destruct (is_space r); [reflexivity|].
  destruct (r =? 123), (r =? 35), (r =? 125), (r =? 34); discriminate.
Qed.

Lemma classify_lbrace r : classify r = CLBrace -> r = 123.
Proof.
  unfold classify. destruct (invalid r); [discriminate|]. destruct (is_space r); [discriminate|].
  destruct (r =? 123) eqn:E; [intros _; apply N.eqb_eq; exact E|].
  destruct (r =? 35), (r =? 125), (r =? 34); discriminate.
Qed.

Lemma norm_valid r : invalid (norm_rune r) = false.
Proof. unfold norm_rune. destruct (invalid r) eqn:E; [reflexivity | exact E]. Qed.

Lemma norm_id r : invalid r = false -> norm_rune r = r.
Proof. unfold norm_rune. intros ->. reflexivity. Qed.

Lemma norm_neq r c : c < 0xFFFD -> r <> c -> norm_rune r <> c.
Proof. unfold norm_rune. intros Hc Hr. destruct (invalid r); [lia | exact Hr]. Qed.

Lemma map_norm_valid s : valid_runes s -> map norm_rune s = s.
Proof.
  induction 1 as [|r s Hr _ IH]; [reflexivity|]. cbn [map]. rewrite (norm_id _ Hr), IH. reflexivity.
Qed.

Lemma map_norm_is_valid s : valid_runes (map norm_rune s).
Proof. induction s; constructor; [apply norm_valid | assumption]. Qed.

(** * readString reads back what quoteString wrote *)

Lemma read_string_quote tl : read_string (34 :: tl) = SOk [] tl.
Proof. reflexivity. Qed.

Lemma read_string_escape e tl :
  invalid e = false -> read_string (92 :: e :: tl) = str_cons (unescape e) (read_string tl).
Proof.
  intros H. change (read_string (92 :: e :: tl)) with
    (if invalid e then SErr EInvalidUtf8 else str_cons (unescape e) (read_string tl)).
  rewrite H. reflexivity.
Qed.

Lemma read_string_plain r tl :
  invalid r = false -> r <> 10 -> r <> 34 -> r <> 92 ->
  read_string (r :: tl) = str_cons r (read_string tl).
Proof.
  intros Hi H10 H34 H92. cbn [read_string].
  rewrite Hi, (neq_eqb_false _ _ H10), (neq_eqb_false _ _ H34), (neq_eqb_false _ _ H92). reflexivity.
Qed.

Lemma quote_body_cons r s : quote_body (r :: s) = quote_rune r ++ quote_body s.
Proof. reflexivity. Qed.

Lemma read_string_quote_body s rest :
  read_string (quote_body s ++ 34 :: rest) = SOk (map norm_rune s) rest.
Proof.
  induction s as [|r s IH]; [reflexivity|].
  rewrite quote_body_cons, <- app_assoc. cbn [map]. unfold quote_rune.
  destruct (r =? 92) eqn:E92.
  { apply N.eqb_eq in E92. subst r. cbn [app].
    rewrite read_string_escape by reflexivity. rewrite IH. reflexivity. }
  destruct (r =? 34) eqn:E34.
  { apply N.eqb_eq in E34. subst r. cbn [app].
    rewrite read_string_escape by reflexivity. rewrite IH. reflexivity. }
  destruct (r =? 10) eqn:E10.
  { apply N.eqb_eq in E10. subst r. cbn [app].
    rewrite read_string_escape by reflexivity. rewrite IH. reflexivity. }
  destruct (r =? 9) eqn:E9.
  { apply N.eqb_eq in E9. subst r. cbn [app].
    rewrite read_string_escape by reflexivity. rewrite IH. reflexivity. }
  destruct (r =? 13) eqn:E13.
  { apply N.eqb_eq in E13. subst r. cbn [app].
    rewrite read_string_escape by reflexivity. rewrite IH. reflexivity. }
  cbn [app].
  apply eqb_false_neq in E92, E34, E10.
  rewrite read_string_plain.
  - rewrite IH. reflexivity.
  - apply norm_valid.
  - apply norm_neq; [reflexivity | exact E10].
  - apply norm_neq; [reflexivity | exact E34].
  - apply norm_neq; [reflexivity | exact E92].
Qed.

Lemma next_token_quote_char tl :
  next_token (34 :: tl) =
  match read_string tl with SOk t rest => LTok (TString t) rest | SErr e => LErr e end.
Proof. reflexivity. Qed.

Lemma quote_string_app s rest : quote_string s ++ rest = 34 :: quote_body s ++ 34 :: rest.
Proof. unfold quote_string. cbn [app]. rewrite <- app_assoc. reflexivity. Qed.

(** For EVERY Go string (undecodable bytes included): the lexer reads the quoted spelling
    back as one string token whose text is the input with each undecodable byte replaced by
    U+FFFD (what [range] + [WriteRune] do), and leaves exactly [rest]. *)
Lemma quote_roundtrip_any s rest :
  next_token (quote_string s ++ rest) = LTok (TString (map norm_rune s)) rest.
Proof.
  rewrite quote_string_app, next_token_quote_char, read_string_quote_body. reflexivity.
Qed.

Lemma quote_roundtrip s rest :
  valid_runes s -> next_token (quote_string s ++ rest) = LTok (TString s) rest.
Proof. intros H. rewrite quote_roundtrip_any, (map_norm_valid _ H). reflexivity. Qed.

(** quoting is insensitive to the U+FFFD normalisation, hence stable from the first output on *)
Lemma quote_rune_norm r : quote_rune (norm_rune r) = quote_rune r.
Proof.
  unfold norm_rune. destruct (invalid r) eqn:E; [|reflexivity].
  unfold quote_rune, norm_rune.
  assert (H : 0x110000 <= r) by (apply N.leb_le; exact E).
  assert (E1 : (r =? 92) = false) by (apply N.eqb_neq; lia).
  assert (E2 : (r =? 34) = false) by (apply N.eqb_neq; lia).
  assert (E3 : (r =? 10) = false) by (apply N.eqb_neq; lia).
  assert (E4 : (r =? 9) = false) by (apply N.eqb_neq; lia).
  assert (E5 : (r =? 13) = false) by (apply N.eqb_neq; lia).
  rewrite E1, E2, E3, E4, E5, E. reflexivity.
Qed.

Lemma quote_string_norm s : quote_string (map norm_rune s) = quote_string s.
Proof.
  unfold quote_string, quote_body. f_equal. f_equal.
  induction s as [|r s IH]; [reflexivity|]. cbn [map flat_map]. rewrite quote_rune_norm, IH. reflexivity.
Qed.

(** * Texts of string tokens never contain an undecodable byte *)

Lemma unescape_valid e : invalid e = false -> invalid (unescape e) = false.
Proof.
  intros H. unfold unescape.
  destruct (e =? 110); [reflexivity|]. destruct (e =? 116); [reflexivity|].
  destruct (e =? 114); [reflexivity|]. exact H.
Qed.

Lemma str_cons_ok r x t rest : str_cons r x = SOk t rest -> exists t', x = SOk t' rest /\ t = r :: t'.
Proof. destruct x; cbn; [|discriminate]. intros H. inversion H. subst. eauto. Qed.

Lemma read_string_valid_pair s :
  (forall t rest, read_string s = SOk t rest -> valid_runes t /\ (length rest < length s)%nat) /\
  (forall x t rest, read_string (x :: s) = SOk t rest -> valid_runes t /\ (length rest < length (x :: s))%nat).
Proof.
  induction s as [|a s [IH1 IH2]].
  - split; [intros t rest H; discriminate|].
    intros x t rest. cbn [read_string].
    destruct (invalid x); [discriminate|]. destruct (x =? 10); [discriminate|].
    destruct (x =? 34); [intros H; inversion H; split; [constructor | cbn; lia]|].
    destruct (x =? 92); [discriminate|]. cbn. discriminate.
  - split; [intros t rest H; apply (IH2 a t rest H)|].
    intros x t rest.
    change (read_string (x :: a :: s)) with
      (if invalid x then SErr EInvalidUtf8
       else if x =? 10 then SErr EUnterminatedString
       else if x =? 34 then SOk [] (a :: s)
       else if x =? 92 then (if invalid a then SErr EInvalidUtf8 else str_cons (unescape a) (read_string s))
       else str_cons x (read_string (a :: s))).
    destruct (invalid x) eqn:Ex; [discriminate|]. destruct (x =? 10); [discriminate|].
    destruct (x =? 34); [intros H; inversion H; split; [constructor | cbn; lia]|].
    destruct (x =? 92).
    + destruct (invalid a) eqn:Ea; [discriminate|]. intros H.
      apply str_cons_ok in H. destruct H as [t' [H ->]]. apply IH1 in H. destruct H as [Hv Hl].
      split; [constructor; [apply unescape_valid; exact Ea | exact Hv] | cbn in *; lia].
    + intros H. apply str_cons_ok in H. destruct H as [t' [H ->]]. apply IH2 in H. destruct H as [Hv Hl].
      split; [constructor; [exact Ex | exact Hv] | cbn in *; lia].
Qed.

Lemma read_string_valid s t rest : read_string s = SOk t rest -> valid_runes t.
Proof. intros H. apply (proj1 (read_string_valid_pair s)) in H. tauto. Qed.

Lemma read_string_shorter s t rest : read_string s = SOk t rest -> (length rest < length s)%nat.
Proof. intros H. apply (proj1 (read_string_valid_pair s)) in H. tauto. Qed.

(** * readIdent *)

Lemma read_ident_spec s : forall a b, read_ident s = (a, b) ->
  s = a ++ b /\ Forall (fun x => is_ident_stop x = false) a /\ delim_ok b.
Proof.
  induction s as [|r s IH]; intros a b; cbn [read_ident].
  - intros H. inversion H. repeat split; constructor.
  - destruct (is_ident_stop r) eqn:E.
    + intros H. inversion H. subst. repeat split; [constructor | exact E].
    + destruct (read_ident s) as [a' b'] eqn:R. intros H. inversion H. subst.
      destruct (IH a' b eq_refl) as [-> [Hf Hd]].
      repeat split; [constructor; assumption | exact Hd].
Qed.

Lemma read_ident_app a b :
  Forall (fun x => is_ident_stop x = false) a -> delim_ok b -> read_ident (a ++ b) = (a, b).
Proof.
  intros Ha Hb. induction Ha as [|r a Hr _ IH].
  - cbn [app]. destruct b as [|r b]; [reflexivity|]. cbn [read_ident]. cbn in Hb. rewrite Hb. reflexivity.
  - cbn [app read_ident]. rewrite Hr, IH. reflexivity.
Qed.

Lemma read_comment_app s : forall a b, read_comment s = (a, b) -> s = a ++ b.
Proof.
  induction s as [|r s IH]; intros a b; cbn [read_comment].
  - intros H. inversion H. reflexivity.
  - destruct (r =? 10); [intros H; inversion H; reflexivity|].
    destruct (read_comment s) as [a' b'] eqn:R. intros H. inversion H. subst.
    rewrite (IH a' b eq_refl). reflexivity.
Qed.

(** * readPlaceholder *)

Lemma ph_cons_ok r x t rest : ph_cons r x = PhOk t rest -> exists t', x = PhOk t' rest /\ t = r :: t'.
Proof. destruct x; cbn; try discriminate. intros H. inversion H. subst. eauto. Qed.

Lemma ph_scan_spec s : forall a b, ph_scan s = PhOk a b ->
  exists body, a = body ++ [125] /\ s = a ++ b /\ Forall ph_clean body.
Proof.
  induction s as [|r s IH]; intros a b; cbn [ph_scan]; [discriminate|].
  destruct (invalid r) eqn:Ei; [discriminate|].
  destruct (is_space r) eqn:Es; [cbn; discriminate|].
  destruct (r =? 123) eqn:E123; [cbn; discriminate|]. cbn [orb].
  destruct (r =? 125) eqn:E125.
  - intros H. inversion H. subst. apply N.eqb_eq in E125. subst r.
    exists []. repeat split. constructor.
  - intros H. apply ph_cons_ok in H. destruct H as [t' [H ->]].
    destruct (IH _ _ H) as [body [-> [-> Hc]]].
    exists (r :: body). repeat split.
    constructor; [|exact Hc]. repeat split; try assumption; apply eqb_false_neq; assumption.
Qed.

Lemma ph_scan_app body rest :
  Forall ph_clean body -> ph_scan (body ++ 125 :: rest) = PhOk (body ++ [125]) rest.
Proof.
  induction 1 as [|r body [Hi [Hs [H1 H2]]] _ IH]; [reflexivity|].
  cbn [app ph_scan]. rewrite Hi, Hs, (neq_eqb_false _ _ H1), (neq_eqb_false _ _ H2). cbn [orb].
  rewrite IH. reflexivity.
Qed.

Lemma has_prefix_app p : forall a b, has_prefix p a = true -> has_prefix p (a ++ b) = true.
Proof.
  induction p as [|c p IH]; intros a b; [reflexivity|].
  destruct a as [|x a]; cbn [has_prefix app]; [discriminate|].
  intros H. apply andb_true_iff in H. destruct H as [H1 H2]. rewrite H1, (IH _ _ H2). reflexivity.
Qed.

Lemma has_prefix_cut p x : ~ In x p -> forall a rest,
  has_prefix p (a ++ x :: rest) = true -> has_prefix p a = true.
Proof.
  induction p as [|c p IH]; intros Hx a rest; [reflexivity|].
  destruct a as [|y a]; cbn [has_prefix app].
  - intros H. apply andb_true_iff in H. destruct H as [H _]. apply N.eqb_eq in H.
    exfalso. apply Hx. left. exact H.
  - intros H. apply andb_true_iff in H. destruct H as [H1 H2]. rewrite H1.
    rewrite (IH (fun h => Hx (or_intror h)) _ _ H2). reflexivity.
Qed.

Lemma ph_prefix_app a b : ph_prefix a = true -> ph_prefix (a ++ b) = true.
Proof.
  unfold ph_prefix. intros H.
  apply orb_true_iff in H. destruct H as [H|H].
  - apply orb_true_iff in H. destruct H as [H|H].
    + rewrite (has_prefix_app _ _ _ H). reflexivity.
    + rewrite (has_prefix_app _ _ _ H). rewrite orb_true_r. reflexivity.
  - rewrite (has_prefix_app _ _ _ H). rewrite orb_true_r. reflexivity.
Qed.

Lemma ph_prefix_cut a rest : ph_prefix (a ++ 125 :: rest) = true -> ph_prefix a = true.
Proof.
  unfold ph_prefix. intros H.
  assert (N1 : ~ In 125 pfx_dollar) by (cbn; intros [?|[?|[]]]; discriminate).
  assert (N2 : ~ In 125 pfx_env) by (cbn; intros [?|[?|[?|[?|[?|[]]]]]]; discriminate).
  assert (N3 : ~ In 125 pfx_file) by (cbn; intros [?|[?|[?|[?|[?|[?|[]]]]]]]; discriminate).
  apply orb_true_iff in H. destruct H as [H|H].
  - apply orb_true_iff in H. destruct H as [H|H].
    + rewrite (has_prefix_cut _ _ N1 _ _ H). reflexivity.
    + rewrite (has_prefix_cut _ _ N2 _ _ H). rewrite orb_true_r. reflexivity.
  - rewrite (has_prefix_cut _ _ N3 _ _ H). rewrite orb_true_r. reflexivity.
Qed.

(** * nextToken, one step *)

Lemma next_token_space r tl : is_space r = true -> invalid r = false -> next_token (r :: tl) = next_token tl.
Proof. intros Hs Hi. cbn [next_token]. unfold classify. rewrite Hi, Hs. reflexivity. Qed.

Lemma next_token_other r tl : classify r = COther ->
  next_token (r :: tl) = let (i, rest) := read_ident (r :: tl) in LTok (TIdent i) rest.
Proof. intros H. cbn [next_token]. rewrite H. reflexivity. Qed.

Lemma next_token_lbrace tl :
  next_token (123 :: tl) =
  match read_placeholder (123 :: tl) with
  | PhErr => LErr EInvalidUtf8
  | PhOk t rest => LTok (TIdent t) rest
  | PhNo => LTok TLBrace tl
  end.
Proof. reflexivity. Qed.

Lemma next_token_step r s :
  next_token (r :: s) =
  match classify r with
  | CInvalid => LErr EInvalidUtf8
  | CSpace => next_token s
  | CLBrace =>
      match read_placeholder (r :: s) with
      | PhErr => LErr EInvalidUtf8
      | PhOk t rest => LTok (TIdent t) rest
      | PhNo => LTok TLBrace s
      end
  | CHash => let (c, rest) := read_comment (r :: s) in LTok (TComment c) rest
  | CRBrace => LTok TRBrace s
  | CQuote =>
      match read_string s with
      | SOk t rest => LTok (TString t) rest
      | SErr e => LErr e
      end
  | COther => let (i, rest) := read_ident (r :: s) in LTok (TIdent i) rest
  end.
Proof. reflexivity. Qed.

(** * ident_shapes: every identifier token has one of the two shapes *)

Lemma ident_shapes s : forall t rest, next_token s = LTok (TIdent t) rest -> ident_shaped t.
Proof.
  induction s as [|r s IH]; intros t rest; [cbn; discriminate|].
  rewrite next_token_step. destruct (classify r) eqn:C.
  - discriminate.
  - apply IH.
  - apply classify_lbrace in C. subst r.
    match goal with |- context [read_placeholder ?x] => remember (read_placeholder x) as ph eqn:P end. symmetry in P.
    destruct ph as [| |t' rest']; try discriminate.
    intros H. injection H as E1 E2. subst t' rest'.
    unfold read_placeholder in P. destruct (ph_prefix (123 :: s)) eqn:PP; [|discriminate P].
    apply ph_cons_ok in P. destruct P as [a [P ->]].
    destruct (ph_scan_spec _ _ _ P) as [body [-> [Hs Hc]]].
    right. exists body. repeat split; [|exact Hc].
    rewrite Hs in PP. rewrite <- app_assoc in PP. cbn [app] in PP.
    change (123 :: body ++ 125 :: rest) with ((123 :: body) ++ 125 :: rest) in PP.
    apply ph_prefix_cut in PP.
    change (123 :: body ++ [125]) with ((123 :: body) ++ [125]). apply ph_prefix_app. exact PP.
  - destruct (read_comment (r :: s)). discriminate.
  - discriminate.
  - destruct (read_string s); discriminate.
  - match goal with |- context [read_ident ?x] => remember (read_ident x) as ri eqn:R end. symmetry in R. destruct ri as [i rest'].
    intros H. injection H as E1 E2. subst i rest'.
    apply classify_other in C. destruct C as [Ci Cs].
    destruct (read_ident_spec _ _ _ R) as [Hs [Hf _]].
    left. destruct t as [|r0 a].
    + exfalso. cbn [read_ident] in R. rewrite Cs in R. destruct (read_ident s). discriminate R.
    + cbn [app] in Hs. inversion Hs. subst r0. exists r, a. repeat split; [exact Ci | exact Hf].
Qed.

Lemma string_token_valid s : forall t rest, next_token s = LTok (TString t) rest -> valid_runes t.
Proof.
  induction s as [|r s IH]; intros t rest; [cbn; discriminate|].
  cbn [next_token]. destruct (classify r) eqn:C.
  - discriminate.
  - apply IH.
  - destruct (read_placeholder (r :: s)); discriminate.
  - destruct (read_comment (r :: s)). discriminate.
  - discriminate.
  - destruct (read_string s) as [t' rest'|] eqn:R; [|discriminate].
    intros H. inversion H. subst. apply (read_string_valid _ _ _ R).
  - destruct (read_ident (r :: s)). discriminate.
Qed.

(** every value the parser can put into the AST is a [parser_value] *)
Lemma lexed_value_is_parser_value s t q rest :
  next_token s = LTok (value_token t q) rest -> parser_value t q.
Proof.
  destruct q; cbn [value_token parser_value]; [apply string_token_valid | apply ident_shapes].
Qed.

(** * unquoted_roundtrip *)

Lemma plain_roundtrip t rest :
  plain_ident t -> delim_ok rest -> next_token (t ++ rest) = LTok (TIdent t) rest.
Proof.
  intros [r [tl [-> [Hi Hf]]]] Hd.
  assert (C : classify r = COther).
  { apply classify_other. split; [exact Hi|]. inversion Hf. assumption. }
  cbn [app]. rewrite (next_token_other _ _ C).
  change (r :: tl ++ rest) with ((r :: tl) ++ rest). rewrite (read_ident_app _ _ Hf Hd). reflexivity.
Qed.

Lemma placeholder_roundtrip t rest :
  placeholder_ident t -> next_token (t ++ rest) = LTok (TIdent t) rest.
Proof.
  intros [body [-> [Hp Hc]]].
  cbn [app]. rewrite next_token_lbrace. unfold read_placeholder.
  change (123 :: (body ++ [125]) ++ rest) with ((123 :: body ++ [125]) ++ rest).
  rewrite (ph_prefix_app _ _ Hp). cbn [app].
  rewrite <- app_assoc. cbn [app]. rewrite (ph_scan_app _ _ Hc). reflexivity.
Qed.

Lemma unquoted_roundtrip t rest :
  ident_shaped t -> delim_ok rest -> next_token (t ++ rest) = LTok (TIdent t) rest.
Proof. intros [H|H] Hd; [apply plain_roundtrip; assumption | apply placeholder_roundtrip; assumption]. Qed.

(** leading blanks before a token change nothing (the formatter indents and separates with ' ') *)
Lemma next_token_skip ws s : Forall (fun r => is_space r = true) ws -> next_token (ws ++ s) = next_token s.
Proof.
  induction 1 as [|r ws Hr _ IH]; [reflexivity|].
  cbn [app]. rewrite next_token_space; [exact IH | exact Hr|].
  unfold is_space in Hr. unfold invalid.
  repeat (apply orb_true_iff in Hr; destruct Hr as [Hr|Hr]); apply N.eqb_eq in Hr; subst r; reflexivity.
Qed.

(** * What the formatter writes unquoted *)

Lemma forallb_safe_stop t :
  forallb (fun r => negb (unsafe_rune r)) t = true <-> Forall (fun x => is_ident_stop x = false) t.
Proof.
  rewrite forallb_forall, Forall_forall. split; intros H x Hx.
  - specialize (H x Hx). rewrite unsafe_is_stop in H. apply negb_true_iff. exact H.
  - rewrite unsafe_is_stop. apply negb_true_iff. apply H. exact Hx.
Qed.

Lemma ends_with_last c a : ends_with c (a ++ [c]) = true.
Proof.
  induction a as [|x a IH]; [cbn; apply N.eqb_refl|].
  cbn [app]. destruct (a ++ [c]) eqn:E; [destruct a; discriminate|].
  cbn [ends_with]. exact IH.
Qed.

Lemma ident_shaped_safe t : ident_shaped t -> is_unquoted_value_safe t = true.
Proof.
  intros [[r [tl [-> [Hi Hf]]]] | [body [-> [Hp Hc]]]].
  - unfold is_unquoted_value_safe.
    destruct (starts_with 123 (r :: tl) && ends_with 125 (r :: tl) && negb (existsb ws_rune (r :: tl))); [reflexivity|].
    apply forallb_safe_stop. exact Hf.
  - unfold is_unquoted_value_safe.
    assert (E1 : starts_with 123 (123 :: body ++ [125]) = true) by reflexivity.
    assert (E2 : ends_with 125 (123 :: body ++ [125]) = true)
      by (change (123 :: body ++ [125]) with ((123 :: body) ++ [125]); apply ends_with_last).
    assert (E3 : existsb ws_rune (123 :: body ++ [125]) = false).
    { cbn [existsb]. change (ws_rune 123) with false. cbn [orb]. rewrite existsb_app. cbn [existsb].
      change (ws_rune 125) with false. cbn [orb]. rewrite orb_false_r.
      clear -Hc. induction Hc as [|x body [_ [Hs _]] _ IH]; [reflexivity|].
      cbn [existsb]. rewrite ws_is_space, Hs, IH. reflexivity. }
    rewrite E1, E2, E3. reflexivity.
Qed.

Lemma plain_slash_path_safe t : plain_ident t -> starts_with 47 t = true -> is_unquoted_path_safe t = true.
Proof.
  intros [r [tl [-> [Hi Hf]]]] Hs. unfold is_unquoted_path_safe. rewrite Hs. cbn [negb].
  apply forallb_safe_stop. exact Hf.
Qed.

(** * format_value_fixpoint and friends *)

Lemma format_value_roundtrip t q rest :
  parser_value t q -> delim_ok rest ->
  next_token (format_value t q ++ rest) = LTok (value_token t q) rest.
Proof.
  destruct q; cbn [parser_value value_token]; unfold format_value; intros H Hd.
  - apply quote_roundtrip. exact H.
  - rewrite (ident_shaped_safe _ H). apply unquoted_roundtrip; assumption.
Qed.

(** a value that came out of the lexer, formatted and lexed again, is the same token:
    so formatting the re-lexed value reproduces the same characters (token-level idempotence) *)
Lemma format_value_fixpoint src t q rest0 rest :
  next_token src = LTok (value_token t q) rest0 -> delim_ok rest ->
  next_token (format_value t q ++ rest) = LTok (value_token t q) rest.
Proof. intros H. apply format_value_roundtrip. apply (lexed_value_is_parser_value _ _ _ _ H). Qed.

(** for an arbitrary AST value (not necessarily from the lexer) that ends up quoted:
    it lexes as a string token, and re-formatting THAT token gives the same characters *)
Lemma format_value_quoted_stable s q rest :
  (q = true \/ is_unquoted_value_safe s = false) ->
  next_token (format_value s q ++ rest) = LTok (TString (map norm_rune s)) rest /\
  format_value (map norm_rune s) true = format_value s q.
Proof.
  intros H. assert (E : format_value s q = quote_string s).
  { unfold format_value. destruct q; [reflexivity|]. destruct H as [H|H]; [discriminate|]. rewrite H. reflexivity. }
  rewrite E. split; [apply quote_roundtrip_any|]. unfold format_value. apply quote_string_norm.
Qed.

Lemma route_path_roundtrip t q rest :
  parser_path t q -> delim_ok rest ->
  next_token (format_route_path t q ++ rest) = LTok (value_token t q) rest.
Proof.
  destruct q; cbn [parser_path value_token]; unfold format_route_path; intros H Hd.
  - apply quote_roundtrip. exact H.
  - destruct H as [Hp Hs]. rewrite (plain_slash_path_safe _ Hp Hs). apply plain_roundtrip; assumption.
Qed.

(** the first rune of the written path keeps the parser's top-level dispatch: a quoted path
    starts with 'DQUOTE' (string token => route), an unquoted one with '/' *)
Lemma route_path_head t q : parser_path t q ->
  exists tl, format_route_path t q = (if q then 34 else 47) :: tl.
Proof.
  destruct q; cbn [parser_path]; unfold format_route_path.
  - intros _. unfold quote_string. eauto.
  - intros [Hp Hs]. rewrite (plain_slash_path_safe _ Hp Hs).
    destruct t as [|r tl]; [discriminate|]. cbn in Hs. apply N.eqb_eq in Hs. subst r. eauto.
Qed.

(** * Keyword safety at the token layer.
    The parser ends a multi-value directive only at [kind == tokIdent && isXDirective(text)].
    A formatted value lexes to the identifier [kw] exactly when it already was the unquoted
    identifier [kw]; a quoted value never becomes an identifier. *)
Lemma keyword_safety t q rest kw rest' :
  parser_value t q -> delim_ok rest ->
  (next_token (format_value t q ++ rest) = LTok (TIdent kw) rest' <-> q = false /\ t = kw /\ rest' = rest).
Proof.
  intros Hv Hd. rewrite (format_value_roundtrip _ _ _ Hv Hd). destruct q; cbn [value_token]; split.
  - discriminate.
  - intros [H _]. discriminate.
  - intros H. inversion H. auto.
  - intros [_ [-> ->]]. reflexivity.
Qed.

Lemma quoted_never_ident s rest kw rest' :
  next_token (format_value s true ++ rest) <> LTok (TIdent kw) rest'.
Proof. unfold format_value. rewrite quote_roundtrip_any. discriminate. Qed.

(** * A whole directive line of values: [ v1 v2 ... vn\n] lexes back to the same tokens *)

Inductive lexes_to : list rune -> list token -> Prop :=
| lx_eof s rest : next_token s = LTok TEOF rest -> lexes_to s []
| lx_tok s t rest ts : next_token s = LTok t rest -> t <> TEOF -> lexes_to rest ts -> lexes_to s (t :: ts).

Definition format_line (vs : list (list rune * bool)) : list rune :=
  flat_map (fun v => 32 :: format_value (fst v) (snd v)) vs ++ [10].

Lemma value_token_not_eof t q : value_token t q <> TEOF.
Proof. destruct q; discriminate. Qed.

Lemma line_roundtrip vs :
  Forall (fun v => parser_value (fst v) (snd v)) vs ->
  lexes_to (format_line vs) (map (fun v => value_token (fst v) (snd v)) vs).
Proof.
  unfold format_line. induction 1 as [|[t q] vs Hv _ IH].
  - cbn. apply lx_eof with (rest := []). reflexivity.
  - cbn [flat_map map fst snd]. rewrite <- app_assoc.
    set (rest := flat_map (fun v => 32 :: format_value (fst v) (snd v)) vs ++ [10]) in *.
    cbn [app]. apply lx_tok with (rest := rest).
    + rewrite next_token_space by reflexivity. apply format_value_roundtrip; [exact Hv|].
      subst rest. destruct vs as [|v vs']; cbn; reflexivity.
    + apply value_token_not_eof.
    + exact IH.
Qed.

(** * The executable tokenizer agrees with [lexes_to] and never runs out of fuel *)

Lemma tokenize_fuel_sound n : forall s ts, tokenize_fuel n s = (ts, EndEOF) -> lexes_to s ts.
Proof.
  induction n as [|n IH]; intros s ts; cbn [tokenize_fuel]; [discriminate|].
  destruct (next_token s) as [t rest|e] eqn:E; [|discriminate].
  destruct t; try (destruct (tokenize_fuel n rest) as [ts' e'] eqn:R; intros H; inversion H; subst;
                   eapply lx_tok; [exact E | discriminate | apply IH; exact R]).
  intros H. inversion H. eapply lx_eof. exact E.
Qed.

Lemma app_length_lt {A} (a b : list A) : a <> [] -> (length b < length (a ++ b))%nat.
Proof. intros H. rewrite app_length. destruct a; [congruence | cbn; lia]. Qed.

Lemma next_token_progress s : forall t rest, next_token s = LTok t rest -> t <> TEOF -> (length rest < length s)%nat.
Proof.
  induction s as [|r s IH]; intros t rest; cbn [next_token]; [intros H; inversion H; congruence|].
  destruct (classify r) eqn:C.
  - discriminate.
  - intros H Ht. specialize (IH _ _ H Ht). cbn. lia.
  - apply classify_lbrace in C. subst r.
    destruct (read_placeholder (123 :: s)) as [| |t' rest'] eqn:P; try discriminate.
    + intros H _. inversion H. cbn. lia.
    + intros H _. inversion H. subst t rest'. unfold read_placeholder in P.
      destruct (ph_prefix (123 :: s)); [|discriminate P].
      apply ph_cons_ok in P. destruct P as [a [P ->]].
      destruct (ph_scan_spec _ _ _ P) as [body [-> [Hs _]]]. rewrite Hs. cbn. rewrite !app_length. cbn. lia.
  - destruct (read_comment (r :: s)) as [c rest'] eqn:R. intros H _. inversion H. subst.
    cbn [read_comment] in R. destruct (r =? 10) eqn:E10.
    + exfalso. apply N.eqb_eq in E10. subst r. discriminate.
    + destruct (read_comment s) as [a b] eqn:R2. inversion R. subst.
      rewrite (read_comment_app _ _ _ R2). cbn. rewrite app_length. lia.
  - intros H _. inversion H. cbn. lia.
  - destruct (read_string s) as [t' rest'|] eqn:R; [|discriminate].
    intros H _. inversion H. subst. apply read_string_shorter in R. cbn. lia.
  - destruct (read_ident (r :: s)) as [i rest'] eqn:R. intros H _. inversion H. subst.
    apply classify_other in C. destruct C as [_ Cs].
    cbn [read_ident] in R. rewrite Cs in R. destruct (read_ident s) as [a b] eqn:R2. inversion R. subst.
    destruct (read_ident_spec _ _ _ R2) as [-> _]. cbn. rewrite app_length. lia.
Qed.

Lemma tokenize_fuel_enough n : forall s, (length s < n)%nat -> snd (tokenize_fuel n s) <> EndFuel.
Proof.
  induction n as [|n IH]; intros s Hn; [lia|].
  cbn [tokenize_fuel]. destruct (next_token s) as [t rest|e] eqn:E; [|cbn; discriminate].
  destruct t; try (cbn; discriminate);
    (assert (Hl : (length rest < length s)%nat) by (eapply next_token_progress; [exact E | discriminate]);
     specialize (IH rest ltac:(lia)); destruct (tokenize_fuel n rest); cbn in *; exact IH).
Qed.

Lemma tokenize_never_out_of_fuel s : snd (tokenize s) <> EndFuel.
Proof. unfold tokenize. apply tokenize_fuel_enough. lia. Qed.

Lemma tokenize_sound s ts : tokenize s = (ts, EndEOF) -> lexes_to s ts.
Proof. apply tokenize_fuel_sound. Qed.

(** * What is NOT true: unquoted-safe per the formatter does not imply it lexes back *)

(** [{foo}]: isUnquotedValueSafe says yes (brace-wrapped, no blank), but the lexer reads
    LBrace, ident, RBrace.  The parser never produces such an unquoted value (its unquoted
    values are identifier tokens, see [ident_shapes]); only a programmatic AST writer could. *)
Definition brace_foo : list rune := [123; 102; 111; 111; 125].

Lemma safe_unquoted_refuted :
  exists s, is_unquoted_value_safe s = true /\ ~ ident_shaped s /\
            forall rest, next_token (format_value s false ++ rest) = LTok TLBrace (tl s ++ rest).
Proof.
  exists brace_foo. split; [reflexivity|]. split.
  - intros [[r [tl [E [Hi Hf]]]] | [body [E [Hp Hc]]]].
    + inversion E. subst. inversion Hf. discriminate.
    + discriminate Hp.
  - intros rest. reflexivity.
Qed.

(** exactly which safe values fail to round-trip: those that are not identifier-shaped;
    and these are brace-led values or values whose first item is an undecodable byte *)
Lemma roundtrip_iff_ident_shaped s rest :
  delim_ok rest -> (next_token (s ++ rest) = LTok (TIdent s) rest <-> ident_shaped s).
Proof. intros Hd. split; [apply ident_shapes | intros H; apply unquoted_roundtrip; assumption]. Qed.

Lemma safe_not_shaped_cases s :
  is_unquoted_value_safe s = true -> ~ ident_shaped s ->
  starts_with 123 s = true \/ exists r tl, s = r :: tl /\ invalid r = true.
Proof.
  intros Hs Hn. destruct s as [|r tl]; [discriminate|].
  unfold is_unquoted_value_safe in Hs.
  destruct (starts_with 123 (r :: tl)) eqn:E1; [left; reflexivity|]. cbn [andb] in Hs.
  right. exists r, tl. split; [reflexivity|].
  destruct (invalid r) eqn:Ei; [reflexivity|]. exfalso. apply Hn. left.
  exists r, tl. repeat split; [exact Ei|]. apply forallb_safe_stop. exact Hs.
Qed.

(** * Non-vacuity: the hypotheses of the theorems are met by real values *)

Example ex_plain : plain_ident [101; 110; 118; 58; 84; 79; 75] (* env:TOK *).
Proof. exists 101, [110; 118; 58; 84; 79; 75]. repeat split. repeat constructor. Qed.

Example ex_placeholder : placeholder_ident [123; 36; 88; 58; 100; 125] (* {$X:d} *).
Proof. exists [36; 88; 58; 100]. repeat split; repeat constructor; discriminate. Qed.

Example ex_placeholder_with_quote_and_hash : placeholder_ident [123; 101; 110; 118; 46; 34; 35; 125] (* {env.DQUOTE#} *).
Proof. exists [101; 110; 118; 46; 34; 35]. repeat split; repeat constructor; discriminate. Qed.

(** a value with every escape, a non-ASCII rune and an astral rune; and the empty value *)
Example ex_quote_roundtrip :
  next_token (quote_string [34; 92; 10; 9; 13; 32; 35; 123; 125; 233; 0x1F600] ++ [32; 120])
  = LTok (TString [34; 92; 10; 9; 13; 32; 35; 123; 125; 233; 0x1F600]) [32; 120].
Proof. apply quote_roundtrip. repeat constructor. Qed.

Example ex_empty_quoted : format_value [] true = [34; 34] /\ format_value [] false = [34; 34]
  /\ next_token ([34; 34] ++ [10]) = LTok (TString []) [10].
Proof. repeat split. Qed.

(** an undecodable byte (0xFF) inside an identifier is kept by the lexer and written back raw *)
Example ex_invalid_in_ident :
  next_token ([97; 0x1100FF] ++ [10]) = LTok (TIdent [97; 0x1100FF]) [10]
  /\ format_value [97; 0x1100FF] false = [97; 0x1100FF]
  /\ quote_string [97; 0x1100FF] = [34; 97; 0xFFFD; 34].
Proof. repeat split. Qed.

(** keyword-valued values: [deny] unquoted is an identifier before and after; quoted it is a
    string before and after *)
Example ex_keyword :
  next_token (format_value [100; 101; 110; 121] false ++ [10]) = LTok (TIdent [100; 101; 110; 121]) [10]
  /\ next_token (format_value [100; 101; 110; 121] true ++ [10]) = LTok (TString [100; 101; 110; 121]) [10].
Proof. split; reflexivity. Qed.

Example ex_line :
  lexes_to (format_line [([117], false); ([112; 32; 119], true); ([123; 36; 80; 125], false)])
           [TIdent [117]; TString [112; 32; 119]; TIdent [123; 36; 80; 125]].
Proof.
  apply line_roundtrip.
  apply Forall_cons; [|apply Forall_cons; [|apply Forall_cons; [|apply Forall_nil]]]; cbn [fst snd parser_value].
  - left. exists 117, []. repeat split. repeat constructor.
  - repeat constructor.
  - right. exists [36; 80]. repeat split; repeat constructor; discriminate.
Qed.

Example ex_tokenize :
  tokenize [47; 97; 32; 123; 10; 32; 97; 117; 116; 104; 32; 34; 120; 92; 110; 34; 32; 35; 99; 10; 125]
  = ([TIdent [47; 97]; TLBrace; TIdent [97; 117; 116; 104]; TString [120; 10]; TComment [35; 99]; TRBrace], EndEOF).
Proof. reflexivity. Qed.

Example ex_errors :
  next_token [34; 97] = LErr EUnterminatedString /\ next_token [34; 97; 10; 34] = LErr EUnterminatedString
  /\ next_token [34; 92] = LErr EUnterminatedEscape /\ next_token [0x110080] = LErr EInvalidUtf8
  /\ next_token [123; 36; 0x110080; 125] = LErr EInvalidUtf8
  /\ next_token [123; 36; 97; 32; 125] = LTok TLBrace [36; 97; 32; 125].
Proof. repeat split. Qed.

(** * Statements packaged as they appear in Properties/C19.v *)

Lemma quote_roundtrip_any_stable s rest :
  next_token (quote_string s ++ rest) = LTok (TString (map norm_rune s)) rest
  /\ quote_string (map norm_rune s) = quote_string s.
Proof. split; [apply quote_roundtrip_any | apply quote_string_norm]. Qed.

Lemma ident_written_unquoted t : ident_shaped t -> format_value t false = t.
Proof. intros H. unfold format_value. rewrite (ident_shaped_safe t H). reflexivity. Qed.

Lemma route_path_fixpoint t q rest :
  parser_path t q -> delim_ok rest ->
  next_token (format_route_path t q ++ rest) = LTok (value_token t q) rest
  /\ exists tl, format_route_path t q = (if q then 34 else 47) :: tl.
Proof. intros H Hd. split; [apply route_path_roundtrip; assumption | apply route_path_head; assumption]. Qed.

Lemma tokenize_total s :
  snd (tokenize s) <> EndFuel /\ (forall ts, tokenize s = (ts, EndEOF) -> lexes_to s ts).
Proof. split; [apply tokenize_never_out_of_fuel | apply tokenize_sound]. Qed.
