(** Lemmas about the normaliser of Model/SqlNorm.v (used by the static tie of the Postgres store, C13pg),
    quantified over all token lists, all call maps and both dialects:
      - [norm_tok_stable], [pass_a_idem], [any_in_idem], [norm_idem]: normal forms are fixed points;
      - [norm_tok_keep]: a token that names a column or table, a string literal (the states), a comparison
        operator other than [=], or one of the keywords that structure guards and ordering is never changed;
      - [norm_keeps_guards], [same_guards]: the sequence of such tokens in a normal form is the sequence in the
        raw skeleton after placeholder binding and keyword case-folding alone; two skeletons with the same normal
        form therefore have the same guards on the same columns with the same literals in the same order, and the
        same ORDER BY keys.
    Nothing here depends on the generated skeletons (Gen/PgTie.v): the ties themselves are in
    Proofs/PgTieProofs.v. *)
From Coq Require Import String Ascii List Bool NArith Lia.
From HK Require Import Model.SqlNorm.
Import ListNotations.
Local Open Scope string_scope.

(* ------------------------------------------------------------------------- *)
(** * characters *)

Definition is_upper (c : ascii) : bool :=
  let n := N_of_ascii c in (65 <=? n)%N && (n <=? 90)%N.

Ltac ascii_cases c :=
  destruct c as [[] [] [] [] [] [] [] []]; vm_compute; try reflexivity; try discriminate; auto.

Lemma up_idem : forall c, up (up c) = up c.
Proof. intro c. ascii_cases c. Qed.

Lemma special_up : forall c, is_special (up c) = is_special c.
Proof. intro c. ascii_cases c. Qed.

Lemma lower_not_special : forall c, is_lower c = true -> is_special c = false.
Proof. intro c. ascii_cases c. Qed.

Lemma up_upper_or_same : forall c, is_lower c = false -> up c = c.
Proof. intros c H. unfold up. rewrite H. reflexivity. Qed.

Lemma up_is_upper : forall c, is_lower c = true -> is_upper (up c) = true.
Proof. intro c. ascii_cases c. Qed.

Lemma upper_not_lower : forall c, is_upper c = true -> is_lower c = false.
Proof. intro c. ascii_cases c. Qed.

Lemma upper_idem : forall s, upper (upper s) = upper s.
Proof. induction s as [|c s IH]; simpl; [reflexivity|]. now rewrite up_idem, IH. Qed.

Lemma ph_start_special : forall d c, ph_start d c = true -> is_special c = true.
Proof.
  intros d c H. unfold is_special. destruct d; simpl in H; rewrite H; simpl; try reflexivity.
  now rewrite orb_true_r.
Qed.

Lemma not_special_parts : forall c, is_special c = false ->
  (c =? "?")%char = false /\ (c =? "$")%char = false /\ (c =? ";")%char = false /\ (c =? "#")%char = false
  /\ (c =? """")%char = false /\ (c =? "`")%char = false.
Proof.
  intros c H. unfold is_special in H.
  repeat (apply orb_false_iff in H; destruct H as [H ?]). repeat split; assumption.
Qed.

Lemma not_special_ph : forall d c, is_special c = false -> ph_start d c = false.
Proof.
  intros d c H. destruct (ph_start d c) eqn:E; [|reflexivity].
  apply ph_start_special in E. congruence.
Qed.

(* ------------------------------------------------------------------------- *)
(** * keywords *)

Lemma mem_In : forall x l, mem x l = true <-> In x l.
Proof.
  induction l as [|y l IH]; simpl; [split; [discriminate|tauto]|].
  rewrite orb_true_iff, IH, String.eqb_eq. split; intros [H|H]; auto.
Qed.

Definition starts_upper (s : string) : bool :=
  match s with String c _ => is_upper c | EmptyString => false end.

Lemma keywords_start_upper : forall k, In k keywords -> starts_upper k = true.
Proof.
  assert (H : forallb starts_upper keywords = true) by (vm_compute; reflexivity).
  rewrite forallb_forall in H. exact H.
Qed.

(** a token whose first character is not a letter is not a keyword in any case *)
Lemma kw_upper_nonletter : forall c r, is_lower c = false -> is_upper c = false -> kw_upper (String c r) = String c r.
Proof.
  intros c r Hl Hu. unfold kw_upper.
  destruct (mem (upper (String c r)) keywords) eqn:E; [|reflexivity].
  apply mem_In, keywords_start_upper in E. simpl in E.
  rewrite (up_upper_or_same c Hl) in E. congruence.
Qed.

Lemma kw_upper_idem : forall t, kw_upper (kw_upper t) = kw_upper t.
Proof.
  intro t. unfold kw_upper at 2. destruct (mem (upper t) keywords) eqn:E.
  - unfold kw_upper. rewrite upper_idem, E. reflexivity.
  - unfold kw_upper. rewrite E. reflexivity.
Qed.

(* ------------------------------------------------------------------------- *)
(** * pass A: every output token is a fixed point *)

Definition stable (cm : callmap) (d : dialect) (u : string) : Prop := norm_tok cm d u = [u].

Lemma special_char_facts : forall c, is_lower c = false -> is_upper c = false -> True.
Proof. trivial. Qed.

(** tokens that start with a character which is neither special nor a letter *)
Lemma stable_plain_first : forall cm d c r,
  is_special c = false -> is_lower c = false -> is_upper c = false -> stable cm d (String c r).
Proof.
  intros cm d c r Hs Hl Hu. unfold stable, norm_tok.
  rewrite (not_special_ph d c Hs).
  destruct (not_special_parts c Hs) as (_ & _ & H3 & H4 & H5 & H6).
  rewrite H3, H4, H5, H6, Hs. simpl. now rewrite kw_upper_nonletter.
Qed.

Lemma stable_quoted : forall cm d e, is_quoted_lit e = true -> stable cm d e.
Proof.
  intros cm d e H. destruct e as [|c r]; [discriminate|]. simpl in H.
  apply Ascii.eqb_eq in H. subst c. apply stable_plain_first; reflexivity.
Qed.

Lemma stable_at : forall cm d r, stable cm d ("@{" ++ r).
Proof. intros. simpl. apply stable_plain_first; reflexivity. Qed.

Lemma stable_comma : forall cm d, stable cm d ",".
Proof. intros. apply stable_plain_first; reflexivity. Qed.

Lemma stable_target : forall cm d t, stable cm d (render_target t).
Proof.
  intros cm d t. unfold stable. destruct t; destruct d; try reflexivity.
Qed.

Lemma intersperse_in : forall sep l u, In u (intersperse sep l) -> u = sep \/ In u l.
Proof.
  intros sep l. induction l as [|x l IH]; simpl; [tauto|].
  destruct l as [|y l'].
  - simpl. intros u [H|[]]. auto.
  - intros u [H|[H|H]]; auto. destruct (IH u H) as [E|E]; auto.
Qed.

Lemma stable_bind_arg : forall cm d e u, In u (bind_arg e) -> stable cm d u.
Proof.
  intros cm d e u. unfold bind_arg.
  destruct (is_quoted_lit e) eqn:Q.
  - intros [<-|[]]. now apply stable_quoted.
  - assert (D : In u ["@{" ++ norm_arg e ++ "}"] -> stable cm d u).
    { intros [<-|[]]. apply stable_at. }
    destruct e as [|c r]; [exact D|].
    destruct c as [[] [] [] [] [] [] [] []]; try exact D.
    destruct (strip_suffix "]" r) as [inner|]; [|exact D].
    destruct (forallb is_quoted_lit (split_commas "" inner)) eqn:F; [|exact D].
    intro H. apply intersperse_in in H. destruct H as [->|H].
    + apply stable_comma.
    + rewrite forallb_forall in F. apply stable_quoted. now apply F.
Qed.

Lemma plain_ident_stable : forall cm d s, is_plain_ident s = true -> stable cm d s.
Proof.
  intros cm d s H. destruct s as [|c r]; [discriminate|].
  unfold is_plain_ident in H. apply andb_true_iff in H. destruct H as [H Hk].
  apply andb_true_iff in H. destruct H as [Hl _].
  apply negb_true_iff in Hk.
  pose proof (lower_not_special c Hl) as Hs.
  unfold stable, norm_tok. rewrite (not_special_ph d c Hs).
  destruct (not_special_parts c Hs) as (_ & _ & H3 & H4 & H5 & H6).
  rewrite H3, H4, H5, H6, Hs. simpl. unfold kw_upper. rewrite Hk. reflexivity.
Qed.

Lemma unquote_cases : forall t, unquote t = t \/ is_plain_ident (unquote t) = true.
Proof.
  intro t. unfold unquote. destruct t as [|q r]; [now left|].
  destruct (strip_suffix (String q "") r) as [inner|]; [|now left].
  destruct (is_plain_ident inner) eqn:E; [now right|now left].
Qed.

Theorem norm_tok_stable : forall cm d t u, In u (norm_tok cm d t) -> stable cm d u.
Proof.
  intros cm d t u. destruct t as [|c r].
  - simpl. intros [<-|[]]. reflexivity.
  - unfold norm_tok at 1.
    destruct (ph_start d c) eqn:P.
    { destruct (after_brace (String c r)) as [e|] eqn:A.
      - apply stable_bind_arg.
      - intros [<-|[]]. unfold stable, norm_tok. now rewrite P, A. }
    destruct (c =? ";")%char eqn:S1.
    { destruct (r =? "") eqn:R; [intros []|].
      intros [<-|[]]. unfold stable, norm_tok. now rewrite P, S1, R. }
    destruct (c =? "#")%char eqn:S2.
    { destruct (call_name (String c r)) as [f|] eqn:C.
      - intros [<-|[]]. apply stable_target.
      - intros [<-|[]]. unfold stable, norm_tok. now rewrite P, S1, S2, C. }
    destruct ((c =? """")%char || (c =? "`")%char) eqn:S3.
    { intros [<-|[]]. destruct (unquote_cases (String c r)) as [E|E].
      - rewrite E. unfold stable, norm_tok. rewrite P, S1, S2, S3. now rewrite E.
      - now apply plain_ident_stable. }
    destruct (is_special c) eqn:S4.
    { intros [<-|[]]. unfold stable, norm_tok. now rewrite P, S1, S2, S3, S4. }
    intros [<-|[]].
    unfold kw_upper. destruct (mem (upper (String c r)) keywords) eqn:K.
    + (* a keyword in some case: its upper-casing *)
      simpl. unfold stable, norm_tok.
      assert (Hs : is_special (up c) = false) by now rewrite special_up.
      rewrite (not_special_ph d (up c) Hs).
      destruct (not_special_parts (up c) Hs) as (_ & _ & H3 & H4 & H5 & H6).
      rewrite H3, H4, H5, H6, Hs. simpl.
      change (String (up c) (upper r)) with (upper (String c r)).
      unfold kw_upper. now rewrite upper_idem, K.
    + unfold stable, norm_tok. rewrite P, S1, S2, S3, S4. unfold kw_upper. now rewrite K.
Qed.

Lemma pass_a_stable_id : forall cm d l, Forall (stable cm d) l -> pass_a cm d l = l.
Proof.
  intros cm d l H. induction H as [|x l Hx _ IH]; [reflexivity|].
  unfold pass_a in *. simpl. rewrite Hx, IH. reflexivity.
Qed.

Lemma pass_a_all_stable : forall cm d l, Forall (stable cm d) (pass_a cm d l).
Proof.
  intros cm d l. apply Forall_forall. intros u H. unfold pass_a in H.
  apply in_flat_map in H. destruct H as (t & _ & H). eapply norm_tok_stable; eauto.
Qed.

Theorem pass_a_idem : forall cm d l, pass_a cm d (pass_a cm d l) = pass_a cm d l.
Proof. intros. apply pass_a_stable_id, pass_a_all_stable. Qed.

(* ------------------------------------------------------------------------- *)
(** * pass B *)

Lemma any_in_cons_noeq : forall x r, (x =? "=") = false -> any_in (x :: r) = x :: any_in r.
Proof.
  intros x r H. destruct r as [|y [|z t]]; simpl; try reflexivity.
  unfold is_any_redex. rewrite H. reflexivity.
Qed.

Lemma any_in_unfold3 : forall x y z t,
  any_in (x :: y :: z :: t) = if is_any_redex x y z then "IN" :: any_in (z :: t) else x :: any_in (y :: z :: t).
Proof. reflexivity. Qed.

(** the head of [any_in (z :: t)] is [z] or ["IN"] *)
Lemma any_in_head : forall z t, exists w r, any_in (z :: t) = w :: r /\ (w = z \/ w = "IN").
Proof.
  intros z t. destruct t as [|a [|b t']].
  - exists z, []. auto.
  - exists z, [a]. auto.
  - rewrite any_in_unfold3. destruct (is_any_redex z a b); eauto.
Qed.

Lemma redex_in_second : forall x w, is_any_redex x "IN" w = false.
Proof. intros. unfold is_any_redex. simpl. now rewrite andb_false_r. Qed.

Lemma redex_in_third : forall x y, is_any_redex x y "IN" = false.
Proof. intros. unfold is_any_redex. simpl. now rewrite andb_false_r. Qed.

(** rewriting a list does not create a redex with the token in front of it *)
Lemma any_in_no_new_redex : forall x l,
  (forall y z t, l = y :: z :: t -> is_any_redex x y z = false) ->
  forall w1 w2 t', any_in l = w1 :: w2 :: t' -> is_any_redex x w1 w2 = false.
Proof.
  intros x l H w1 w2 t' E. destruct l as [|y [|z t]]; [discriminate E | discriminate E |].
  pose proof (H y z t eq_refl) as Hyz.
  destruct t as [|t0 t1].
  - simpl in E. inversion E; subst. exact Hyz.
  - rewrite any_in_unfold3 in E. destruct (is_any_redex y z t0).
    + inversion E; subst. apply redex_in_second.
    + destruct (any_in_head z (t0 :: t1)) as (w & r & Ew & Hw). rewrite Ew in E. inversion E; subst.
      destruct Hw as [->| ->]; [exact Hyz | apply redex_in_third].
Qed.

Lemma any_in_skip : forall x l,
  (forall y z t, l = y :: z :: t -> is_any_redex x y z = false) ->
  any_in (x :: any_in l) = x :: any_in (any_in l).
Proof.
  intros x l H. pose proof (any_in_no_new_redex x l H) as N.
  destruct (any_in l) as [|w1 [|w2 t']] eqn:E; try reflexivity.
  rewrite any_in_unfold3. now rewrite (N w1 w2 t' eq_refl).
Qed.

Lemma any_in_idem_n : forall n l, length l <= n -> any_in (any_in l) = any_in l.
Proof.
  induction n as [|n IH]; intros l Hn.
  - destruct l; [reflexivity | simpl in Hn; lia].
  - destruct l as [|x [|y [|z t]]]; try reflexivity.
    rewrite any_in_unfold3. destruct (is_any_redex x y z) eqn:R.
    + rewrite any_in_cons_noeq by reflexivity. f_equal. apply IH. simpl in *. lia.
    + rewrite any_in_skip.
      * f_equal. apply IH. simpl in *. lia.
      * intros y' z' t' E. inversion E; subst. exact R.
Qed.

Theorem any_in_idem : forall l, any_in (any_in l) = any_in l.
Proof. intro l. apply (any_in_idem_n (length l)). lia. Qed.

Lemma any_in_tokens_n : forall n l u, length l <= n -> In u (any_in l) -> u = "IN" \/ In u l.
Proof.
  induction n as [|n IH]; intros l u Hn H.
  - destruct l; [destruct H | simpl in Hn; lia].
  - destruct l as [|x [|y [|z t]]]; try (right; exact H).
    rewrite any_in_unfold3 in H. destruct (is_any_redex x y z).
    + destruct H as [<-|H]; [now left|]. destruct (IH (z :: t) u) as [E|E]; auto; [simpl in *; lia|].
      right. simpl. simpl in E. tauto.
    + destruct H as [<-|H]; [right; now left|]. destruct (IH (y :: z :: t) u) as [E|E]; auto; [simpl in *; lia|].
      right. now right.
Qed.

Lemma stable_IN : forall cm d, stable cm d "IN".
Proof. intros cm d. unfold stable. destruct d; reflexivity. Qed.

Theorem norm_idem : forall cm d l, norm cm d (norm cm d l) = norm cm d l.
Proof.
  intros cm d l. unfold norm.
  rewrite (pass_a_stable_id cm d (any_in (pass_a cm d l))).
  - apply any_in_idem.
  - apply Forall_forall. intros u H.
    apply (any_in_tokens_n (length (pass_a cm d l))) in H; [|lia].
    destruct H as [->|H]; [apply stable_IN|].
    pose proof (pass_a_all_stable cm d l) as F. rewrite Forall_forall in F. now apply F.
Qed.

(* ------------------------------------------------------------------------- *)
(** * what the normaliser never touches *)

Lemma In_concrete_stable : forall cm d (l : list string),
  forallb (fun t => match norm_tok [] Sqlite t, norm_tok [] Pg t with
                    | [a], [b] => (a =? t) && (b =? t) | _, _ => false end) l = true ->
  forallb (fun t => match t with String c _ => negb (c =? "#")%char | _ => true end) l = true ->
  forall t, In t l -> stable cm d t.
Proof.
  intros cm d l H1 H2 t Ht. rewrite forallb_forall in H1, H2.
  specialize (H1 t Ht). specialize (H2 t Ht).
  (* the call map is only consulted for tokens starting with [#] *)
  assert (E : norm_tok cm d t = norm_tok [] d t).
  { destruct t as [|c r]; [reflexivity|]. unfold norm_tok.
    apply negb_true_iff in H2. rewrite H2. reflexivity. }
  unfold stable. rewrite E.
  destruct d.
  - destruct (norm_tok [] Sqlite t) as [|a [|]]; try discriminate.
    destruct (norm_tok [] Pg t) as [|b [|]]; try discriminate.
    apply andb_true_iff in H1. destruct H1 as [H1 _]. apply String.eqb_eq in H1. now subst.
  - destruct (norm_tok [] Sqlite t) as [|a [|]]; try discriminate.
    destruct (norm_tok [] Pg t) as [|b [|]]; try discriminate.
    apply andb_true_iff in H1. destruct H1 as [_ H1]. apply String.eqb_eq in H1. now subst.
Qed.

(** a column or table name, a string literal, a comparison operator (other than [=]) or a keyword that
    structures guards and ordering is never changed, whatever the dialect and the call map *)
Theorem norm_tok_keep : forall cm d t, keep t = true -> norm_tok cm d t = [t].
Proof.
  intros cm d t H. unfold keep in H.
  apply orb_true_iff in H. destruct H as [H|H4].
  - apply orb_true_iff in H. destruct H as [H|H3].
    + apply orb_true_iff in H. destruct H as [H1|H2].
      * now apply plain_ident_stable.
      * now apply stable_quoted.
    + apply mem_In in H3. revert t H3. apply In_concrete_stable; vm_compute; reflexivity.
  - apply mem_In in H4. revert t H4. apply In_concrete_stable; vm_compute; reflexivity.
Qed.

Lemma keep_eq : keep "=" = false. Proof. vm_compute. reflexivity. Qed.
Lemma keep_ANY : keep "ANY" = false. Proof. vm_compute. reflexivity. Qed.
Lemma keep_IN : keep "IN" = false. Proof. vm_compute. reflexivity. Qed.

Lemma redex_inv : forall x y z, is_any_redex x y z = true -> x = "=" /\ y = "ANY" /\ z = "(".
Proof.
  intros x y z H. unfold is_any_redex in H.
  apply andb_true_iff in H. destruct H as [H H3]. apply andb_true_iff in H. destruct H as [H1 H2].
  apply String.eqb_eq in H1, H2, H3. auto.
Qed.

Lemma any_in_keep_n : forall n l, length l <= n -> filter keep (any_in l) = filter keep l.
Proof.
  induction n as [|n IH]; intros l Hn.
  - destruct l; [reflexivity | simpl in Hn; lia].
  - destruct l as [|x [|y [|z t]]]; try reflexivity.
    rewrite any_in_unfold3. destruct (is_any_redex x y z) eqn:R.
    + destruct (redex_inv _ _ _ R) as (-> & -> & ->).
      change (filter keep ("IN" :: any_in ("(" :: t))) with
        (if keep "IN" then "IN" :: filter keep (any_in ("(" :: t)) else filter keep (any_in ("(" :: t))).
      rewrite keep_IN. rewrite IH by (simpl in *; lia).
      change (filter keep ("=" :: "ANY" :: "(" :: t)) with
        (if keep "=" then "=" :: (if keep "ANY" then "ANY" :: filter keep ("(" :: t) else filter keep ("(" :: t))
         else (if keep "ANY" then "ANY" :: filter keep ("(" :: t) else filter keep ("(" :: t))).
      now rewrite keep_eq, keep_ANY.
    + change (filter keep (x :: any_in (y :: z :: t))) with
        (if keep x then x :: filter keep (any_in (y :: z :: t)) else filter keep (any_in (y :: z :: t))).
      rewrite IH by (simpl in *; lia). reflexivity.
Qed.

Lemma keep_first_special : forall c r, is_special c = true -> keep (String c r) = false.
Proof.
  intros c r H.
  assert (Hl : is_lower c = false).
  { destruct (is_lower c) eqn:E; [|reflexivity]. apply lower_not_special in E. congruence. }
  assert (A1 : is_plain_ident (String c r) = false).
  { unfold is_plain_ident. now rewrite Hl. }
  assert (A2 : is_quoted_lit (String c r) = false).
  { unfold is_quoted_lit. destruct (c =? "'")%char eqn:E; [|reflexivity]. apply Ascii.eqb_eq in E. subst. discriminate. }
  assert (A3 : mem (String c r) cmp_ops = false).
  { destruct (mem (String c r) cmp_ops) eqn:E1; [|reflexivity]. apply mem_In in E1. unfold cmp_ops in E1.
    exfalso. repeat (destruct E1 as [E1|E1]; [inversion E1; subst; discriminate|]). destruct E1. }
  assert (A4 : mem (String c r) guard_keywords = false).
  { destruct (mem (String c r) guard_keywords) eqn:E2; [|reflexivity]. apply mem_In in E2.
    assert (F : forallb starts_upper guard_keywords = true) by (vm_compute; reflexivity).
    rewrite forallb_forall in F. apply F in E2. unfold starts_upper in E2.
    exfalso. revert H E2. clear. ascii_cases c. }
  unfold keep. now rewrite A1, A2, A3, A4.
Qed.

Lemma keep_hash : forall r, keep (String "#" r) = false.
Proof. intro r. now apply keep_first_special. Qed.

Lemma kw_upper_bind_arg : forall e, map kw_upper (bind_arg e) = bind_arg e.
Proof.
  intro e.
  assert (G : forall l, (forall u, In u l -> stable [] Sqlite u /\ exists c r, u = String c r /\ is_lower c = false /\ is_upper c = false) ->
              map kw_upper l = l).
  { induction l as [|u l IH]; intros H; [reflexivity|]. simpl.
    destruct (H u (or_introl eq_refl)) as (_ & c & r & -> & Hl & Hu).
    rewrite kw_upper_nonletter by assumption. f_equal. apply IH. intros v Hv. apply H. now right. }
  apply G. intros u Hu. split; [now apply (stable_bind_arg [] Sqlite e)|].
  unfold bind_arg in Hu. destruct (is_quoted_lit e) eqn:Q.
  - destruct Hu as [<-|[]]. destruct e as [|c r]; [discriminate|]. simpl in Q. apply Ascii.eqb_eq in Q. subst.
    exists "'"%char, r. auto.
  - assert (D : In u ["@{" ++ norm_arg e ++ "}"] -> exists c r, u = String c r /\ is_lower c = false /\ is_upper c = false).
    { intros [<-|[]]. simpl. eexists _, _. split; [reflexivity|]. split; reflexivity. }
    destruct e as [|c r]; [now apply D|].
    destruct c as [[] [] [] [] [] [] [] []]; try (now apply D).
    destruct (strip_suffix "]" r) as [inner|]; [|now apply D].
    destruct (forallb is_quoted_lit (split_commas "" inner)) eqn:F; [|now apply D].
    apply intersperse_in in Hu. destruct Hu as [->|Hu].
    + exists ","%char, "". auto.
    + rewrite forallb_forall in F. apply F in Hu. destruct u as [|c' r']; [discriminate|].
      simpl in Hu. apply Ascii.eqb_eq in Hu. subst. exists "'"%char, r'. auto.
Qed.

Lemma special_not_letter : forall c, is_special c = true -> is_lower c = false /\ is_upper c = false.
Proof. intro c. ascii_cases c. Qed.

(** token by token: the kept tokens of the normal form are the kept tokens after binding + keyword case *)
Lemma norm_tok_guards : forall cm d t,
  filter keep (norm_tok cm d t) = filter keep (map kw_upper (resolve_tok d t)).
Proof.
  intros cm d t. destruct t as [|c r]; [reflexivity|].
  unfold norm_tok, resolve_tok.
  destruct (ph_start d c) eqn:P.
  { destruct (after_brace (String c r)).
    - now rewrite kw_upper_bind_arg.
    - cbn [map]. destruct (special_not_letter c (ph_start_special d c P)) as [Hl Hu].
      now rewrite kw_upper_nonletter. }
  destruct (c =? ";")%char eqn:S1.
  { apply Ascii.eqb_eq in S1. subst c.
    assert (Q : ((";" =? """")%char || (";" =? "`")%char) = false) by reflexivity. rewrite Q.
    cbn [map]. rewrite kw_upper_nonletter by reflexivity.
    pose proof (keep_first_special ";" r eq_refl) as K.
    destruct (r =? ""); cbn [filter]; now rewrite K. }
  destruct (c =? "#")%char eqn:S2.
  { apply Ascii.eqb_eq in S2. subst c.
    assert (Q : (("#" =? """")%char || ("#" =? "`")%char) = false) by reflexivity. rewrite Q.
    cbn [map]. rewrite kw_upper_nonletter by reflexivity.
    pose proof (keep_hash r) as K.
    destruct (call_name (String "#" r)) as [f|].
    - cbn [filter]. rewrite K. destruct (lookup_call cm f); cbn [render_target].
      + now rewrite (keep_hash "begin").
      + now rewrite (keep_hash "commit").
      + now rewrite (keep_hash "rollback").
      + change ("#do:" ++ g) with (String "#" ("do:" ++ g)). now rewrite keep_hash.
    - reflexivity. }
  destruct ((c =? """")%char || (c =? "`")%char) eqn:S3.
  { cbn [map]. destruct (unquote_cases (String c r)) as [E|E].
    - rewrite E. assert (Hs : is_special c = true).
      { unfold is_special. apply orb_true_iff in S3. destruct S3 as [->| ->]; cbn [orb]; now rewrite ?orb_true_r. }
      destruct (special_not_letter c Hs) as [Hl Hu]. now rewrite kw_upper_nonletter.
    - f_equal. f_equal. unfold kw_upper.
      destruct (unquote (String c r)) as [|c' r'] eqn:U; [discriminate|].
      unfold is_plain_ident in E. apply andb_true_iff in E. destruct E as [_ E]. apply negb_true_iff in E.
      now rewrite E. }
  destruct (is_special c) eqn:S4.
  { cbn [map]. destruct (special_not_letter c S4) as [Hl Hu]. now rewrite kw_upper_nonletter. }
  reflexivity.
Qed.

Lemma pass_a_guards : forall cm d l,
  filter keep (pass_a cm d l) = filter keep (map kw_upper (resolve d l)).
Proof.
  intros cm d l. unfold pass_a, resolve. induction l as [|t l IH]; [reflexivity|].
  simpl. rewrite map_app, !filter_app, IH, norm_tok_guards. reflexivity.
Qed.

(** the guards and ordering keys of a normal form are those of the raw skeleton (after placeholder binding
    and keyword case-folding, nothing else) *)
Theorem norm_keeps_guards : forall cm d l,
  filter keep (norm cm d l) = filter keep (map kw_upper (resolve d l)).
Proof.
  intros cm d l. unfold norm.
  rewrite (any_in_keep_n (length (pass_a cm d l))) by lia. apply pass_a_guards.
Qed.

(** two skeletons with the same normal form have the same columns, literals, comparison operators and
    guard / ordering keywords, in the same order *)
Theorem same_guards : forall cm1 cm2 a b,
  norm cm1 Pg a = norm cm2 Sqlite b ->
  filter keep (map kw_upper (resolve Pg a)) = filter keep (map kw_upper (resolve Sqlite b)).
Proof.
  intros cm1 cm2 a b H.
  rewrite <- (norm_keeps_guards cm1 Pg a), <- (norm_keeps_guards cm2 Sqlite b). now rewrite H.
Qed.
