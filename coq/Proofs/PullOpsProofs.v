(** Proofs about the pull layer (Model/PullOps.v): the recent-ops cache, the idempotent duplicate
    answer, the status mapping, fencing lifted from the store (Proofs/QueueFence.v), the dequeue clamps. *)
From Coq Require Import List ZArith NArith Bool Lia.
From HK Require Import Gen.Consts Model.Queue Model.QueueHash Model.QueueMon Model.PullOps
  Proofs.QueueBase Proofs.QueueInv Proofs.QueueInvStep Proofs.QueueStep Proofs.QueueLease Proofs.QueueFence.
Import ListNotations.
Open Scope Z_scope.

(** ** the cache as a list: sub-lists *)
Definition ckey (e : centry) : N * opk := (ce_lease e, ce_op e).
Definition ckeys (ch : cache) : list (N * opk) := map ckey ch.

Inductive sub : cache -> cache -> Prop :=
| sub_nil : sub [] []
| sub_skip e a b : sub a b -> sub a (e :: b)
| sub_keep e a b : sub a b -> sub (e :: a) (e :: b).

Lemma sub_refl a : sub a a.
Proof. induction a; constructor; assumption. Qed.

Lemma sub_trans a b c : sub a b -> sub b c -> sub a c.
Proof.
  intros H1 H2. revert a H1. induction H2; intros a' H1.
  - inversion H1; constructor.
  - constructor. apply IHsub. exact H1.
  - inversion H1; subst.
    + constructor. apply IHsub. assumption.
    + apply sub_keep. apply IHsub. assumption.
Qed.

Lemma sub_In a b e : sub a b -> In e a -> In e b.
Proof.
  induction 1; intros H0; [exact H0 | right; auto |].
  destruct H0 as [H0 | H0]; [left; exact H0 | right; auto].
Qed.

Lemma sub_length a b : sub a b -> (length a <= length b)%nat.
Proof. induction 1; simpl; lia. Qed.

Lemma sub_nil_l a : sub a [] -> a = [].
Proof. inversion 1; reflexivity. Qed.

Lemma sub_NoDup a b : sub a b -> NoDup (ckeys b) -> NoDup (ckeys a).
Proof.
  induction 1; intros ND; [exact ND | |]; simpl in ND; inversion ND; subst.
  - auto.
  - simpl. constructor; [|auto]. intros Hin. apply H2.
    apply in_map_iff in Hin. destruct Hin as [x [Ex Hx]]. apply in_map_iff. exists x. split; [exact Ex|].
    apply (sub_In a b); assumption.
Qed.

Lemma cache_prune_sub cnow ch : sub (cache_prune cnow ch) ch.
Proof.
  induction ch as [|e tl IH]; simpl; [constructor|].
  destruct (cnow <? ce_exp e); [apply sub_refl | constructor; exact IH].
Qed.

Lemma filter_sub f (ch : cache) : sub (filter f ch) ch.
Proof. induction ch as [|e tl IH]; simpl; [constructor|]. destruct (f e); constructor; exact IH. Qed.

Lemma skipn_sub n (ch : cache) : sub (skipn n ch) ch.
Proof.
  revert ch. induction n as [|n IH]; intros ch; simpl; [apply sub_refl|].
  destruct ch as [|e tl]; [constructor | constructor; apply IH].
Qed.

Lemma opk_eqb_eq a b : opk_eqb a b = true <-> a = b.
Proof. destruct a, b; simpl; split; intros H; try reflexivity; try discriminate. Qed.

Lemma key_eqb_true l k e : key_eqb l k e = true <-> ckey e = (l, k).
Proof.
  unfold key_eqb, ckey. rewrite andb_true_iff, N.eqb_eq, opk_eqb_eq. split.
  - intros [A B]. rewrite A, B. reflexivity.
  - intros H. inversion H. split; reflexivity.
Qed.

Lemma cache_find_Some l k ch e : cache_find l k ch = Some e -> In e ch /\ ckey e = (l, k).
Proof.
  unfold cache_find. intros H. apply find_some in H. destruct H as [A B]. split; [exact A|]. apply key_eqb_true. exact B.
Qed.

Lemma cache_find_None l k ch : cache_find l k ch = None -> ~ In (l, k) (ckeys ch).
Proof.
  unfold cache_find. intros H Hin. apply in_map_iff in Hin. destruct Hin as [e [Ek He]].
  pose proof (find_none _ _ H e He) as Hn. apply key_eqb_true in Ek. rewrite Ek in Hn. discriminate.
Qed.

Lemma cache_remove_no_key l k ch : ~ In (l, k) (ckeys (cache_remove l k ch)).
Proof.
  unfold cache_remove. intros Hin. apply in_map_iff in Hin. destruct Hin as [e [Ek He]].
  apply filter_In in He. destruct He as [_ Hf]. apply key_eqb_true in Ek. rewrite Ek in Hf. discriminate.
Qed.

Lemma cache_remove_shorter l k ch e : In e ch -> ckey e = (l, k) -> (length (cache_remove l k ch) < length ch)%nat.
Proof.
  unfold cache_remove. induction ch as [|x tl IH]; intros Hin Ek; [destruct Hin|]. simpl.
  destruct Hin as [Hin | Hin].
  - subst x. apply key_eqb_true in Ek. rewrite Ek. simpl.
    pose proof (sub_length _ _ (filter_sub (fun e0 => negb (key_eqb l k e0)) tl)). lia.
  - specialize (IH Hin Ek). destruct (negb (key_eqb l k x)); simpl; lia.
Qed.

(** *** isRecentlyCompletedLease *)
Lemma cache_lookup_sub pc cnow l k ch : sub (fst (cache_lookup pc cnow l k ch)) ch.
Proof.
  unfold cache_lookup. destruct (cache_off pc); [apply sub_refl|].
  destruct (cache_find l k (cache_prune cnow ch)) as [e|]; [|apply cache_prune_sub].
  destruct (cnow <? ce_exp e); simpl; [apply cache_prune_sub|].
  apply (sub_trans _ (cache_prune cnow ch)); [apply filter_sub | apply cache_prune_sub].
Qed.

(** a hit means: the cache is switched on and holds an entry for exactly this (lease id, op) that has not expired *)
Lemma cache_lookup_hit pc cnow l k ch :
  snd (cache_lookup pc cnow l k ch) = true ->
  cache_off pc = false /\ exists e, In e ch /\ ckey e = (l, k) /\ cnow < ce_exp e.
Proof.
  unfold cache_lookup. destruct (cache_off pc); [discriminate|].
  destruct (cache_find l k (cache_prune cnow ch)) as [e|] eqn:F; [|discriminate].
  destruct (cnow <? ce_exp e) eqn:E; [|discriminate]. intros _. split; [reflexivity|].
  apply cache_find_Some in F. destruct F as [A B]. exists e. split; [|split; [exact B | apply Z.ltb_lt; exact E]].
  apply (sub_In _ _ e (cache_prune_sub cnow ch)). exact A.
Qed.

(** and conversely an unexpired entry for the key is found (keys are unique) *)
Lemma cache_prune_keeps cnow ch e : In e ch -> cnow < ce_exp e -> In e (cache_prune cnow ch).
Proof.
  induction ch as [|x tl IH]; intros Hin Hlt; [destruct Hin|]. simpl.
  destruct (cnow <? ce_exp x) eqn:E; [exact Hin|]. destruct Hin as [Hin | Hin]; [|auto].
  subst x. apply Z.ltb_ge in E. lia.
Qed.

Lemma nodup_keys_inj ch e1 e2 : NoDup (ckeys ch) -> In e1 ch -> In e2 ch -> ckey e1 = ckey e2 -> e1 = e2.
Proof.
  induction ch as [|x tl IH]; intros ND H1 H2 E; [destruct H1|]. simpl in ND. inversion ND; subst.
  destruct H1 as [H1 | H1]; destruct H2 as [H2 | H2].
  - congruence.
  - subst x. exfalso. apply H3. rewrite E. apply in_map. exact H2.
  - subst x. exfalso. apply H3. rewrite <- E. apply in_map. exact H1.
  - auto.
Qed.

Lemma cache_lookup_finds pc cnow l k ch e :
  cache_off pc = false -> NoDup (ckeys ch) -> In e ch -> ckey e = (l, k) -> cnow < ce_exp e ->
  snd (cache_lookup pc cnow l k ch) = true.
Proof.
  intros Off ND Hin Ek Hlt. unfold cache_lookup. rewrite Off.
  pose proof (cache_prune_keeps cnow ch e Hin Hlt) as Hp.
  destruct (cache_find l k (cache_prune cnow ch)) as [e'|] eqn:F.
  - apply cache_find_Some in F. destruct F as [A B].
    assert (e' = e).
    { apply (nodup_keys_inj (cache_prune cnow ch)); [apply (sub_NoDup _ ch); [apply cache_prune_sub | exact ND] | exact A | exact Hp | congruence]. }
    subst e'. apply Z.ltb_lt in Hlt. rewrite Hlt. reflexivity.
  - exfalso. apply (cache_find_None l k _ F). apply in_map_iff. exists e. split; assumption.
Qed.

(** *** rememberCompletedLease *)
Lemma cache_remember_off pc cnow l k ch : cache_off pc = true -> cache_remember pc cnow l k ch = ch.
Proof. intros H. unfold cache_remember. rewrite H. reflexivity. Qed.

Lemma cache_remember_In pc cnow l k ch e :
  In e (cache_remember pc cnow l k ch) -> In e ch \/ (e = mkCE l k (cnow + p_recent_ttl pc) /\ cache_off pc = false).
Proof.
  unfold cache_remember. destruct (cache_off pc); [left; assumption|].
  destruct (cache_find l k (cache_prune cnow ch)).
  - intros H. apply in_app_or in H. destruct H as [H | [H | []]]; [left | right; split; [symmetry; exact H | reflexivity]].
    apply (sub_In _ _ e (cache_prune_sub cnow ch)). unfold cache_remove in H. apply (sub_In _ _ e (filter_sub _ _) H).
  - intros H. unfold cache_trim in H. apply (sub_In _ _ e (skipn_sub _ _)) in H.
    apply in_app_or in H. destruct H as [H | [H | []]]; [left | right; split; [symmetry; exact H | reflexivity]].
    apply (sub_In _ _ e (cache_prune_sub cnow ch)). exact H.
Qed.

Lemma cache_off_false pc : cache_off pc = false -> 0 < p_recent_ttl pc /\ 0 < p_recent_cap pc.
Proof.
  unfold cache_off. intros H. apply orb_false_iff in H. destruct H as [A B].
  apply Z.leb_gt in A. apply Z.leb_gt in B. split; assumption.
Qed.

Lemma cache_remember_length pc cnow l k ch :
  (length ch <= Z.to_nat (p_recent_cap pc))%nat -> (length (cache_remember pc cnow l k ch) <= Z.to_nat (p_recent_cap pc))%nat.
Proof.
  intros H. unfold cache_remember. destruct (cache_off pc) eqn:Off; [exact H|].
  pose proof (sub_length _ _ (cache_prune_sub cnow ch)) as Hp.
  destruct (cache_find l k (cache_prune cnow ch)) as [e|] eqn:F.
  - apply cache_find_Some in F. destruct F as [A B].
    pose proof (cache_remove_shorter l k _ e A B). rewrite app_length. simpl. lia.
  - unfold cache_trim. rewrite skipn_length, app_length. simpl. lia.
Qed.

Lemma NoDup_snoc (A : Type) (l : list A) (x : A) : NoDup l -> ~ In x l -> NoDup (l ++ [x]).
Proof.
  intros ND Hn. apply NoDup_app_intro; [exact ND | constructor; [intros [] | constructor] |].
  intros y Hy [Hx | []]. subst y. contradiction.
Qed.

Lemma cache_remember_NoDup pc cnow l k ch : NoDup (ckeys ch) -> NoDup (ckeys (cache_remember pc cnow l k ch)).
Proof.
  intros ND. unfold cache_remember. destruct (cache_off pc); [exact ND|].
  pose proof (sub_NoDup _ _ (cache_prune_sub cnow ch) ND) as NDp.
  destruct (cache_find l k (cache_prune cnow ch)) as [e|] eqn:F.
  - unfold ckeys. rewrite map_app. simpl. apply NoDup_snoc.
    + apply (sub_NoDup _ (cache_prune cnow ch)); [apply filter_sub | exact NDp].
    + apply cache_remove_no_key.
  - apply (sub_NoDup _ (cache_prune cnow ch ++ [mkCE l k (cnow + p_recent_ttl pc)])); [apply skipn_sub|].
    unfold ckeys. rewrite map_app. simpl. apply NoDup_snoc; [exact NDp | apply (cache_find_None l k _ F)].
Qed.

Lemma remember_all_off pc cnow st ch : cache_off pc = true -> remember_all pc cnow st ch = ch.
Proof.
  intros Off. unfold remember_all. revert ch. induction st as [|p tl IH]; intros ch; simpl; [reflexivity|].
  rewrite cache_remember_off by exact Off. apply IH.
Qed.

Lemma remember_all_In pc cnow st ch e :
  In e (remember_all pc cnow st ch) ->
  In e ch \/ (exists p, In p st /\ e = mkCE (fst p) (snd p) (cnow + p_recent_ttl pc)).
Proof.
  unfold remember_all. revert ch. induction st as [|p tl IH]; intros ch H; simpl in H; [left; exact H|].
  destruct (IH _ H) as [H1 | [q [Hq Eq]]].
  - apply cache_remember_In in H1. destruct H1 as [H1 | [H1 _]]; [left; exact H1|].
    right. exists p. split; [left; reflexivity | exact H1].
  - right. exists q. split; [right; exact Hq | exact Eq].
Qed.

Lemma remember_all_length pc cnow st ch :
  (length ch <= Z.to_nat (p_recent_cap pc))%nat -> (length (remember_all pc cnow st ch) <= Z.to_nat (p_recent_cap pc))%nat.
Proof.
  unfold remember_all. revert ch. induction st as [|p tl IH]; intros ch H; simpl; [exact H|].
  apply IH. apply cache_remember_length. exact H.
Qed.

Lemma remember_all_NoDup pc cnow st ch : NoDup (ckeys ch) -> NoDup (ckeys (remember_all pc cnow st ch)).
Proof.
  unfold remember_all. revert ch. induction st as [|p tl IH]; intros ch H; simpl; [exact H|].
  apply IH. apply cache_remember_NoDup. exact H.
Qed.

(** *** partitionRecentlyCompletedLeases *)
Lemma partition_recent_spec pc cnow k ls ch :
  let '(ch', pending, completed) := partition_recent pc cnow k ls ch in
  sub ch' ch
  /\ incl pending ls /\ incl completed ls
  /\ (forall l, In l ls -> In l pending \/ In l completed)
  /\ (forall l, In l completed -> cache_off pc = false /\ exists e, In e ch /\ ckey e = (l, k) /\ cnow < ce_exp e)
  /\ (NoDup ls -> (forall l, In l pending -> ~ In l completed) /\ NoDup pending).
Proof.
  revert ch. induction ls as [|l tl IH]; intros ch; simpl.
  - split; [apply sub_refl|]. split; [apply incl_refl|]. split; [apply incl_refl|].
    split; [intros l []|]. split; [intros l []|]. intros _. split; [intros l [] | constructor].
  - destruct (cache_lookup pc cnow l k ch) as [ch1 hit] eqn:L.
    pose proof (cache_lookup_sub pc cnow l k ch) as S1. rewrite L in S1. simpl in S1.
    specialize (IH ch1). destruct (partition_recent pc cnow k tl ch1) as [[ch2 pend] comp].
    destruct IH as [S2 [I1 [I2 [Cov [Hit Dis]]]]].
    assert (Hit' : forall x, In x comp -> cache_off pc = false /\ exists e, In e ch /\ ckey e = (x, k) /\ cnow < ce_exp e).
    { intros x Hx. destruct (Hit x Hx) as [Off [e [A [B D]]]]. split; [exact Off|]. exists e. split; [|split; assumption].
      apply (sub_In _ _ e S1). exact A. }
    destruct hit.
    + split; [apply (sub_trans _ ch1); assumption|].
      split; [apply incl_tl; exact I1|]. split; [apply incl_cons; [left; reflexivity | apply incl_tl; exact I2]|].
      split.
      { intros x [Hx | Hx]; [subst x; right; left; reflexivity|]. destruct (Cov x Hx) as [A | A]; [left | right; right]; exact A. }
      split.
      { intros x [Hx | Hx]; [|apply Hit'; exact Hx]. subst x.
        pose proof (cache_lookup_hit pc cnow l k ch) as Hh. rewrite L in Hh. apply Hh. reflexivity. }
      intros ND. inversion ND; subst. destruct (Dis H2) as [Dis1 NDp]. split; [|exact NDp].
      intros x Hx [Hc | Hc].
      * subst x. apply H1. apply I1. exact Hx.
      * apply (Dis1 x Hx Hc).
    + split; [apply (sub_trans _ ch1); assumption|].
      split; [apply incl_cons; [left; reflexivity | apply incl_tl; exact I1]|]. split; [apply incl_tl; exact I2|].
      split.
      { intros x [Hx | Hx]; [subst x; left; left; reflexivity|]. destruct (Cov x Hx) as [A | A]; [left; right | right]; exact A. }
      split; [exact Hit'|].
      intros ND. inversion ND; subst. destruct (Dis H2) as [Dis1 NDp]. split.
      * intros x [Hx | Hx] Hc; [subst x; apply H1; apply I2; exact Hc | apply (Dis1 x Hx Hc)].
      * constructor; [|exact NDp]. intros Hin. apply H1. apply I1. exact Hin.
Qed.

(** normalizeLeaseIDs never yields duplicates *)
Lemma norm_lease_ids_spec ids seen :
  NoDup (norm_lease_ids ids seen) /\ forall l, In l (norm_lease_ids ids seen) -> ~ In l seen.
Proof.
  revert seen. induction ids as [|r tl IH]; intros seen; simpl; [split; [constructor | intros l []]|].
  destruct r as [|l p]; [apply IH|].
  destruct (memN l seen) eqn:M; [apply IH|].
  destruct (IH (l :: seen)) as [ND Hn]. split.
  - constructor; [|exact ND]. intros Hin. apply (Hn l Hin). left. reflexivity.
  - intros x [Hx | Hx].
    + subst x. apply memN_false. exact M.
    + intros Hs. apply (Hn x Hx). right. exact Hs.
Qed.

Lemma normalize_batch_NoDup single ids maxb ls : normalize single ids maxb = NBatch ls -> NoDup ls /\ ls <> [].
Proof.
  unfold normalize. destruct single; [|destruct ids; discriminate]. destruct ids as [|r tl]; [discriminate|].
  destruct (norm_lease_ids (r :: tl) []) as [|x out] eqn:E; [discriminate|].
  destruct ((0 <? maxb) && (maxb <? Z.of_nat (length (x :: out)))); [discriminate|].
  intros H. inversion H; subst. split; [|discriminate].
  pose proof (norm_lease_ids_spec (r :: tl) []) as [ND _]. rewrite E in ND. exact ND.
Qed.

(** the size limit of normalizeLeaseIDs *)
Lemma normalize_batch_limit single ids maxb ls :
  normalize single ids maxb = NBatch ls -> 0 < maxb -> Z.of_nat (length ls) <= maxb.
Proof.
  unfold normalize. destruct single; [|destruct ids; discriminate]. destruct ids as [|r tl]; [discriminate|].
  destruct (norm_lease_ids (r :: tl) []) as [|x out] eqn:E; [discriminate|].
  destruct ((0 <? maxb) && (maxb <? Z.of_nat (length (x :: out)))) eqn:C; [discriminate|].
  intros H Hpos. inversion H; subst. apply andb_false_iff in C. destruct C as [C | C].
  - apply Z.ltb_ge in C. lia.
  - apply Z.ltb_ge in C. exact C.
Qed.

(** ** single calls: AckSingle / NackSingle / Extend *)
Definition single_hit (pc : pcfg) (cnow : Z) (k : lease_kind) (l : N) (ch : cache) : bool :=
  match kind_opk k with Some o => snd (cache_lookup pc cnow l o ch) | None => false end.

Definition single_mid (pc : pcfg) (cnow : Z) (k : lease_kind) (l : N) (ch : cache) : cache :=
  match kind_opk k with Some o => fst (cache_lookup pc cnow l o ch) | None => ch end.

Definition single_keys (k : lease_kind) (l : N) : list (N * opk) :=
  match kind_opk k with Some o => [(l, o)] | None => [] end.

Lemma pull_single_cases fl c pc cnow now k l ps :
  pull_single fl c pc cnow now k l ps =
  let ch1 := single_mid pc cnow k l (p_cache ps) in
  if single_hit pc cnow k l (p_cache ps) then (mkP (p_q ps) ch1 (p_down ps), mkResp 204 BNone, mkG [] (single_keys k l))
  else if p_down ps then (mkP (p_q ps) ch1 true, mkResp 500 (BErr CInternal), g0)
  else
    let '(q', r) := step_lease fl c now k (LKnown l false) (p_q ps) in
    match r with
    | RUnit => (mkP q' (remember_all pc cnow (single_keys k l) ch1) false, mkResp 204 BNone, mkG (single_keys k l) [])
    | RErr ENotFound | RErr EExpired => (mkP q' ch1 false, mkResp 409 (BErr CLeaseConflict), g0)
    | _ => (mkP q' ch1 false, mkResp 500 (BErr CInternal), g0)
    end.
Proof.
  unfold pull_single, single_hit, single_mid, single_keys. destruct (kind_opk k) as [o|].
  - destruct (cache_lookup pc cnow l o (p_cache ps)) as [ch1 hit]. reflexivity.
  - reflexivity.
Qed.

Lemma single_mid_sub pc cnow k l ch : sub (single_mid pc cnow k l ch) ch.
Proof. unfold single_mid. destruct (kind_opk k); [apply cache_lookup_sub | apply sub_refl]. Qed.

Lemma step_lease_set_msgs fl c now k l s :
  fst (step_lease fl c now k l s) = set_msgs s (msgs (fst (step_lease fl c now k l s))).
Proof.
  unfold step_lease. destruct (is_noop_extend k); [destruct s; reflexivity|].
  destruct l as [x p| |]; try (destruct s; reflexivity).
  destruct (lease_one c now k x (msgs s)) as [l' [|[|]]]; reflexivity.
Qed.

Lemma current_intro now x ms iss m :
  InvL ms iss -> In m ms -> m_lease m = Some x -> is_leased m = true -> now < m_until m -> current now x ms = Some m.
Proof.
  intros I Hm L Il Hu. unfold current. destruct (find_lease x ms) as [m1|] eqn:F.
  - apply find_lease_Some in F. destruct F as [H1 L1].
    assert (m1 = m) by (apply (inv_linj _ _ I m1 m x); assumption). subst m1.
    rewrite Il. apply Z.ltb_lt in Hu. rewrite Hu. reflexivity.
  - exfalso. apply (find_lease_None x ms F m Hm L).
Qed.

(** what one single call does (not the documented no-op extend), by cases: cache hit; store down; otherwise the
    store decides, and it succeeds exactly for the current unexpired lease *)
Lemma pull_single_spec fl c pc cnow now k l ps ps' r g :
  Inv (p_q ps) -> is_noop_extend k = false -> pull_single fl c pc cnow now k l ps = (ps', r, g) ->
  p_cache ps' = remember_all pc cnow (g_stored g) (single_mid pc cnow k l (p_cache ps))
  /\ (single_hit pc cnow k l (p_cache ps) = true ->
        p_q ps' = p_q ps /\ r = mkResp 204 BNone /\ g = mkG [] (single_keys k l) /\ p_down ps' = p_down ps)
  /\ (single_hit pc cnow k l (p_cache ps) = false -> p_down ps = true ->
        p_q ps' = p_q ps /\ r = mkResp 500 (BErr CInternal) /\ g = g0 /\ p_down ps' = true)
  /\ (single_hit pc cnow k l (p_cache ps) = false -> p_down ps = false ->
        p_down ps' = false /\
        exists pm, p_q ps' = set_msgs (p_q ps) (apply_pm pm (msgs (p_q ps))) /\
          match current now l (msgs (p_q ps)) with
          | Some m => r = mkResp 204 BNone /\ g = mkG (single_keys k l) []
                      /\ pm m = lease_effect c now k m /\ forall y, In y (msgs (p_q ps)) -> y <> m -> pm y = Some y
          | None => r = mkResp 409 (BErr CLeaseConflict) /\ g = g0
                    /\ forall y, In y (msgs (p_q ps)) ->
                         pm y = Some y \/ (m_lease y = Some l /\ expired now y = true /\ pm y = Some (release now y))
          end).
Proof.
  intros I Hn H. rewrite pull_single_cases in H. cbv zeta in H.
  destruct (single_hit pc cnow k l (p_cache ps)) eqn:Hit.
  { inversion H; subst. simpl. repeat split; intros; try discriminate; try reflexivity. }
  destruct (p_down ps) eqn:Dn.
  { inversion H; subst. simpl. repeat split; intros; try discriminate; try reflexivity. }
  pose proof (step_lease_set_msgs fl c now k (LKnown l false) (p_q ps)) as SM.
  destruct (step_lease fl c now k (LKnown l false) (p_q ps)) as [q' sr] eqn:E. simpl in SM.
  destruct (lease_op_fenced fl c now k l false (p_q ps) q' sr I Hn E) as [pm [Em Hc]].
  destruct (current now l (msgs (p_q ps))) as [m|] eqn:Ec.
  - destruct Hc as [Er [Hpm Hoth]]. subst sr. inversion H; subst. simpl.
    split; [reflexivity|]. split; [discriminate|]. split; [discriminate|]. intros _ _. split; [reflexivity|].
    exists pm. split; [rewrite SM, Em; reflexivity|]. repeat split; assumption.
  - destruct Hc as [Er Hy].
    assert (Hres : (ps', r, g) = (mkP q' (single_mid pc cnow k l (p_cache ps)) false, mkResp 409 (BErr CLeaseConflict), g0)).
    { destruct Er as [Er | Er]; subst sr; symmetry; exact H. }
    inversion Hres; subst. simpl.
    split; [reflexivity|]. split; [discriminate|]. split; [discriminate|]. intros _ _. split; [reflexivity|].
    exists pm. split; [rewrite SM, Em; reflexivity|]. split; [reflexivity|]. split; [reflexivity|].
    intros y Hin. destruct (Hy y Hin) as [A | [A [B [D _]]]]; [left; exact A | right; repeat split; assumption].
Qed.

(** the documented no-op: extend by a non-positive duration never reaches a message and never touches the cache *)
Lemma pull_single_noop_extend fl c pc cnow now by_ l ps :
  by_ <= 0 ->
  pull_single fl c pc cnow now (KExtend by_) l ps =
  if p_down ps then (ps, mkResp 500 (BErr CInternal), g0) else (ps, mkResp 204 BNone, g0).
Proof.
  intros H. rewrite pull_single_cases. unfold single_hit, single_mid, single_keys. simpl.
  rewrite (extend_nonpositive_is_noop fl c now by_ (LKnown l false) (p_q ps) H).
  destruct ps as [q ch d]; simpl. destruct d; reflexivity.
Qed.

(** ** batch calls *)
Lemma conflict_ids_cons_known x e cs : conflict_ids ((CKnown x, e) :: cs) = x :: conflict_ids cs.
Proof. reflexivity. Qed.

Lemma lease_effect_batch_clears c now k m m' :
  batch_kind_ok k = true -> lease_effect c now k m = Some m' -> m_lease m' = None.
Proof.
  unfold lease_effect. destruct k; simpl; intros Hk E; try discriminate.
  - destruct (0 <? c_deliv_age c); inversion E; subst; reflexivity.
  - inversion E; subst; reflexivity.
  - inversion E; subst; reflexivity.
Qed.

(** operating on lease y cannot make another lease current *)
Lemma current_before_lease_one c now k x y ms ms1 out iss :
  batch_kind_ok k = true -> InvL ms iss -> lease_one c now k y ms = (ms1, out) ->
  current now x ms1 <> None -> current now x ms <> None.
Proof.
  intros Hk I E Hc. destruct (current now x ms1) as [m'|] eqn:Ec; [|contradiction].
  apply current_spec in Ec. destruct Ec as [Hin [L [Il Hu]]].
  destruct (lease_one_pm c now k y ms ms1 out iss I E) as [pm [El [Hpm _]]].
  subst ms1. apply apply_pm_In in Hin. destruct Hin as [m [Hm Ep]].
  destruct (Hpm m Hm) as [A | [[lid [_ [_ [_ A]]]] | [lid [_ [_ [_ [_ A]]]]]]].
  - rewrite Ep in A. inversion A; subst m'. rewrite (current_intro now x ms iss m I Hm L Il Hu). discriminate.
  - rewrite Ep in A. inversion A; subst m'. simpl in L. discriminate.
  - rewrite Ep in A. symmetry in A. apply (lease_effect_batch_clears c now k m m' Hk) in A. congruence.
Qed.

Lemma lease_one_ok_current c now k y ms ms1 : lease_one c now k y ms = (ms1, LOk) -> current now y ms <> None.
Proof.
  unfold lease_one, current. destruct (find_lease y ms) as [m|]; [|discriminate].
  destruct (is_leased m); simpl; [|discriminate].
  destruct (m_until m <=? now) eqn:Eu; [discriminate|]. apply Z.leb_gt in Eu.
  assert (Hlt : (now <? m_until m) = true) by (apply Z.ltb_lt; exact Eu). rewrite Hlt. discriminate.
Qed.

(** every presented id the store does not report as a conflict was the current unexpired lease of a message *)
Lemma lease_batch_ok_current c now k xs ms iss :
  batch_kind_ok k = true -> InvL ms iss -> NoDup xs ->
  forall x, In x xs -> ~ In x (conflict_ids (snd (lease_batch c now k (map (fun l => LKnown l false) xs) ms))) ->
            current now x ms <> None.
Proof.
  intros Hk. revert ms. induction xs as [|y tl IH]; intros ms I ND x Hx Hnc; [destruct Hx|].
  simpl in Hnc. inversion ND as [|? ? Hy NDt]; subst.
  destruct (lease_one c now k y ms) as [ms1 out] eqn:E.
  assert (I1 : InvL ms1 iss) by (apply (lease_one_inv _ _ _ _ _ _ _ _ E); exact I).
  specialize (IH ms1 I1 NDt).
  destruct out as [|e].
  - destruct (lease_batch c now k (map (fun l => LKnown l false) tl) ms1) as [[ms' n] cs] eqn:Eb. simpl in Hnc, IH.
    destruct Hx as [Hx | Hx].
    + subst x. apply (lease_one_ok_current c now k y ms ms1 E).
    + apply (current_before_lease_one c now k x y ms ms1 LOk iss Hk I E). apply IH; assumption.
  - destruct (lease_batch c now k (map (fun l => LKnown l false) tl) ms1) as [[ms' n] cs] eqn:Eb. simpl in Hnc, IH.
    destruct Hx as [Hx | Hx].
    + subst x. exfalso. apply Hnc. left. reflexivity.
    + apply (current_before_lease_one c now k x y ms ms1 (LConflict e) iss Hk I E). apply IH; [exact Hx|].
      intros Hin. apply Hnc. right. exact Hin.
Qed.

Lemma lease_batch_conflicts_incl c now k xs ms z :
  In z (conflict_ids (snd (lease_batch c now k (map (fun l => LKnown l false) xs) ms))) -> In z xs.
Proof.
  revert ms. induction xs as [|y tl IH]; intros ms H; simpl in H; [exact H|].
  destruct (lease_one c now k y ms) as [ms1 out]. specialize (IH ms1).
  destruct out as [|e]; destruct (lease_batch c now k (map (fun l => LKnown l false) tl) ms1) as [[ms' n] cs]; simpl in *.
  - right. apply IH. exact H.
  - destruct H as [H | H]; [left; exact H | right; apply IH; exact H].
Qed.

(** ... and conversely a presented id that is the current unexpired lease of a message is never reported as a conflict *)
Lemma lease_batch_current_not_conflict c now k xs ms iss :
  batch_kind_ok k = true -> InvL ms iss -> NoDup xs ->
  forall x m, In x xs -> In m ms -> m_lease m = Some x -> is_leased m = true -> now < m_until m ->
  ~ In x (conflict_ids (snd (lease_batch c now k (map (fun l => LKnown l false) xs) ms))).
Proof.
  intros Hk. revert ms. induction xs as [|y tl IH]; intros ms I ND x m Hx Hm L Il Hu; [destruct Hx|].
  simpl. inversion ND as [|? ? Hy NDt]; subst.
  destruct (lease_one c now k y ms) as [ms1 out] eqn:E.
  assert (I1 : InvL ms1 iss) by (apply (lease_one_inv _ _ _ _ _ _ _ _ E); exact I).
  destruct (lease_one_pm c now k y ms ms1 out iss I E) as [pm [El [Hpm [_ Hcur]]]].
  pose proof (lease_batch_conflicts_incl c now k tl ms1) as Incl.
  specialize (IH ms1 I1 NDt).
  destruct Hx as [Hx | Hx].
  - subst y. destruct (Hcur m Hm L Il Hu) as [_ Eo]. subst out.
    destruct (lease_batch c now k (map (fun l => LKnown l false) tl) ms1) as [[ms' n] cs]. simpl in *.
    intros Hin. apply Hy. apply Incl. exact Hin.
  - assert (Nxy : x <> y) by (intros Exy; subst y; contradiction).
    assert (Hm1 : In m ms1).
    { subst ms1. apply apply_pm_In. exists m. split; [exact Hm|].
      destruct (Hpm m Hm) as [A | [[lid [A [[B | []] _]]] | [lid [A [[B | []] _]]]]]; [exact A | |]; exfalso; congruence. }
    specialize (IH x m Hx Hm1 L Il Hu).
    destruct out as [|e]; destruct (lease_batch c now k (map (fun l => LKnown l false) tl) ms1) as [[ms' n] cs]; simpl in *.
    + exact IH.
    + intros [Hin | Hin]; [apply Nxy; symmetry; exact Hin | apply IH; exact Hin].
Qed.

Lemma known_leases_map xs : known_leases (map (fun l => LKnown l false) xs) = xs.
Proof. induction xs as [|x tl IH]; simpl; [reflexivity | rewrite IH; reflexivity]. Qed.

Lemma step_lease_batch_set_msgs c now k ls s :
  fst (step_lease_batch c now k ls s) = set_msgs s (msgs (fst (step_lease_batch c now k ls s))).
Proof.
  unfold step_lease_batch. destruct (lease_batch c now _ ls (msgs s)) as [[ms' n] cs]. reflexivity.
Qed.

Definition batch_eff_kind (k : lease_kind) : lease_kind := match k with KNack d => KNack (Z.max d 0) | _ => k end.

Lemma pull_batch_spec fl c pc cnow now k o ls ps ps' r g :
  Inv (p_q ps) -> batch_kind_ok k = true -> NoDup ls -> pull_batch_call fl c pc cnow now k o ls ps = (ps', r, g) ->
  exists chmid pending completed,
    sub chmid (p_cache ps) /\ p_cache ps' = remember_all pc cnow (g_stored g) chmid
    /\ g_cached g = map (fun l => (l, o)) completed
    /\ incl pending ls /\ (forall l, In l ls -> In l pending \/ In l completed) /\ (forall l, In l pending -> ~ In l completed)
    /\ (forall l, In l completed -> cache_off pc = false /\ exists e, In e (p_cache ps) /\ ckey e = (l, o) /\ cnow < ce_exp e)
    /\ (forall p, In p (g_stored g) -> snd p = o /\ In (fst p) pending /\ current now (fst p) (msgs (p_q ps)) <> None)
    /\ exists pm, p_q ps' = set_msgs (p_q ps) (apply_pm pm (msgs (p_q ps)))
         /\ (forall m, In m (msgs (p_q ps)) -> lchange c now (batch_eff_kind k) pending m (pm m))
         /\ (p_down ps = false ->
             forall m x, In m (msgs (p_q ps)) -> m_lease m = Some x -> In x pending -> is_leased m = true -> now < m_until m ->
                         pm m = lease_effect c now (batch_eff_kind k) m /\ In (x, o) (g_stored g)).
Proof.
  intros I Hk ND H. unfold pull_batch_call in H.
  pose proof (partition_recent_spec pc cnow o ls (p_cache ps)) as PS.
  destruct (partition_recent pc cnow o ls (p_cache ps)) as [[ch1 pending] completed].
  destruct PS as [S1 [I1 [I2 [Cov [Hit Dis]]]]]. destruct (Dis ND) as [Dis1 NDp].
  exists ch1, pending, completed.
  destruct pending as [|p0 ptl] eqn:Ep.
  { inversion H; subst. simpl. split; [exact S1|]. split; [reflexivity|]. split; [reflexivity|].
    split; [exact I1|]. split; [exact Cov|]. split; [exact Dis1|]. split; [exact Hit|]. split; [intros p []|].
    exists (fun m => Some m). rewrite apply_pm_id. split; [destruct (p_q ps); reflexivity|]. split; [intros m _; left; reflexivity|].
    intros _ m x _ _ []. }
  rewrite <- Ep in *. clear Ep p0 ptl.
  destruct (p_down ps) eqn:Dn.
  { inversion H; subst. simpl. split; [exact S1|]. split; [reflexivity|]. split; [reflexivity|].
    split; [exact I1|]. split; [exact Cov|]. split; [exact Dis1|]. split; [exact Hit|]. split; [intros p []|].
    exists (fun m => Some m). rewrite apply_pm_id. split; [destruct (p_q ps); reflexivity|]. split; [intros m _; left; reflexivity|].
    discriminate. }
  pose proof (step_lease_batch_set_msgs c now k (map (fun l => LKnown l false) pending) (p_q ps)) as SM.
  pose proof (lease_batch_fenced c now k (map (fun l => LKnown l false) pending) (p_q ps)) as LF.
  pose proof (lease_batch_ok_current c now (batch_eff_kind k) pending (msgs (p_q ps)) (issued (p_q ps))) as OC.
  pose proof (lease_batch_current_not_conflict c now (batch_eff_kind k) pending (msgs (p_q ps)) (issued (p_q ps))) as NC.
  unfold step_lease_batch in *. fold (batch_eff_kind k) in *.
  assert (Hk' : batch_kind_ok (batch_eff_kind k) = true) by (destruct k; exact Hk).
  destruct (lease_batch c now (batch_eff_kind k) (map (fun l => LKnown l false) pending) (msgs (p_q ps))) as [[ms' n] cs] eqn:Eb.
  simpl in SM, OC, NC. specialize (LF _ _ Hk I eq_refl). cbv zeta in LF. fold (batch_eff_kind k) in LF.
  destruct LF as [pm [Em [Hl Heff]]]. rewrite known_leases_map in Hl, Heff. simpl in Em.
  inversion H; subst. simpl.
  split; [exact S1|]. split; [reflexivity|]. split; [reflexivity|].
  split; [exact I1|]. split; [exact Cov|]. split; [exact Dis1|]. split; [exact Hit|].
  split.
  { intros p Hp. apply in_map_iff in Hp. destruct Hp as [x [Ex Hx]]. subst p. simpl.
    apply filter_In in Hx. destruct Hx as [Hx Hf]. apply negb_true_iff in Hf. apply memN_false in Hf.
    split; [reflexivity|]. split; [exact Hx|]. apply (OC Hk' I NDp x Hx Hf). }
  exists pm. split; [reflexivity|]. split; [exact Hl|].
  intros _ m x Hm L Hx Il Hu. split; [apply (Heff m x); assumption|].
  (* the store cannot have reported x as a conflict: its effect was applied, a conflict leaves or releases *)
  apply in_map_iff. exists x. split; [reflexivity|]. apply filter_In. split; [exact Hx|].
  apply negb_true_iff. apply memN_false. intros Hc.
  exact (NC Hk' I NDp x m Hx Hm L Il Hu Hc).
Qed.

(** ** one call of the pull machine: which operation it is *)
Lemma pstep_single fl c pc ps x k l :
  call_single pc (po_call x) = Some (k, l) ->
  pstep fl c pc ps x = pull_single fl c pc (po_cnow x) (po_now x) k l ps.
Proof.
  unfold call_single, pstep. destruct (po_call x) as [route batch ttl wait|single ids|single ids dead reason delay|l0 by_|rk|sx|b];
    try discriminate.
  - unfold pull_lease_req. destruct (normalize single ids (p_max_lease_batch pc)); try discriminate.
    intros H. inversion H; subst. reflexivity.
  - unfold pull_lease_req. destruct (normalize single ids (p_max_lease_batch pc)); try discriminate.
    intros H. inversion H; subst. reflexivity.
  - destruct l0 as [|l1 p]; [discriminate|]. destruct by_ as [b|]; [|discriminate].
    intros H. inversion H; subst. reflexivity.
Qed.

Lemma pstep_batch fl c pc ps x k o ls :
  call_batch pc (po_call x) = Some (k, o, ls) ->
  pstep fl c pc ps x = pull_batch_call fl c pc (po_cnow x) (po_now x) k o ls ps
  /\ batch_kind_ok k = true /\ kind_opk k = Some o /\ NoDup ls /\ ls <> []
  /\ (0 < p_max_lease_batch pc -> Z.of_nat (length ls) <= p_max_lease_batch pc).
Proof.
  unfold call_batch, pstep. destruct (po_call x) as [route batch ttl wait|single ids|single ids dead reason delay|l0 by_|rk|sx|b];
    try discriminate.
  - unfold pull_lease_req. destruct (normalize single ids (p_max_lease_batch pc)) as [|l|ls0] eqn:En; try discriminate.
    intros H. inversion H; subst. destruct (normalize_batch_NoDup _ _ _ _ En) as [ND Ne].
    repeat split; try reflexivity; try assumption. apply (normalize_batch_limit _ _ _ _ En).
  - unfold pull_lease_req. destruct (normalize single ids (p_max_lease_batch pc)) as [|l|ls0] eqn:En; try discriminate.
    intros H. inversion H; subst. destruct (normalize_batch_NoDup _ _ _ _ En) as [ND Ne].
    repeat split; try reflexivity; try assumption; try (unfold nack_kind; destruct dead; reflexivity).
    apply (normalize_batch_limit _ _ _ _ En).
Qed.

(** every other call neither reads nor writes the cache *)
Lemma pstep_other fl c pc ps x :
  call_single pc (po_call x) = None -> call_batch pc (po_call x) = None ->
  snd (pstep fl c pc ps x) = g0 /\ p_cache (fst (fst (pstep fl c pc ps x))) = p_cache ps.
Proof.
  unfold call_single, call_batch, pstep.
  destruct (po_call x) as [route batch ttl wait|single ids|single ids dead reason delay|l0 by_|rk|sx|b]; intros H1 H2.
  - unfold pull_dequeue. destruct (p_down ps); [split; reflexivity|].
    destruct (step_dequeue _ _ _ _ _ _ _ _ _) as [q' r]. split; reflexivity.
  - unfold pull_lease_req. destruct (normalize single ids (p_max_lease_batch pc)); try discriminate. split; reflexivity.
  - unfold pull_lease_req. destruct (normalize single ids (p_max_lease_batch pc)); try discriminate. split; reflexivity.
  - unfold pull_extend_req. destruct l0 as [|l1 p]; [split; reflexivity|]. destruct by_; [discriminate | split; reflexivity].
  - split; reflexivity.
  - destruct (step fl c (p_q ps) sx (po_orc x)) as [q' r]. split; reflexivity.
  - split; reflexivity.
Qed.

Lemma call_cases pc x :
  (exists k l, call_single pc x = Some (k, l))
  \/ (exists k o ls, call_batch pc x = Some (k, o, ls))
  \/ (call_single pc x = None /\ call_batch pc x = None).
Proof.
  destruct (call_single pc x) as [[k l]|] eqn:E1; [left; exists k, l; reflexivity|].
  destruct (call_batch pc x) as [[[k o] ls]|] eqn:E2; [right; left; exists k, o, ls; reflexivity|].
  right. right. split; reflexivity.
Qed.

(** ** the queue invariant is kept by every call *)
Lemma pull_single_inv fl c pc cnow now k l ps : Inv (p_q ps) -> Inv (p_q (fst (fst (pull_single fl c pc cnow now k l ps)))).
Proof.
  intros I. rewrite pull_single_cases. cbv zeta.
  destruct (single_hit pc cnow k l (p_cache ps)); [exact I|]. destruct (p_down ps); [exact I|].
  pose proof (step_lease_inv fl c now k (LKnown l false) (p_q ps) I) as I1.
  destruct (step_lease fl c now k (LKnown l false) (p_q ps)) as [q' r]. simpl in I1.
  destruct r as [|e| | | | | | |]; try exact I1. destruct e; exact I1.
Qed.

Lemma pull_batch_inv fl c pc cnow now k o ls ps : Inv (p_q ps) -> Inv (p_q (fst (fst (pull_batch_call fl c pc cnow now k o ls ps)))).
Proof.
  intros I. unfold pull_batch_call. destruct (partition_recent pc cnow o ls (p_cache ps)) as [[ch1 pending] completed].
  destruct pending as [|p0 ptl]; [exact I|]. destruct (p_down ps); [exact I|].
  pose proof (step_lease_batch_inv c now k (map (fun l => LKnown l false) (p0 :: ptl)) (p_q ps) I) as I1.
  destruct (step_lease_batch c now k (map (fun l => LKnown l false) (p0 :: ptl)) (p_q ps)) as [q' r]. simpl in I1.
  destruct r; exact I1.
Qed.

Lemma pstep_inv fl c pc ps x : Inv (p_q ps) -> Inv (p_q (fst (fst (pstep fl c pc ps x)))).
Proof.
  intros I. destruct (call_cases pc (po_call x)) as [[k [l E]] | [[k [o [ls E]]] | [E1 E2]]].
  - rewrite (pstep_single fl c pc ps x k l E). apply pull_single_inv. exact I.
  - destruct (pstep_batch fl c pc ps x k o ls E) as [Ep _]. rewrite Ep. apply pull_batch_inv. exact I.
  - unfold pstep. unfold call_single, call_batch in E1, E2.
    destruct (po_call x) as [route batch ttl wait|single ids|single ids dead reason delay|l0 by_|rk|sx|b].
    + unfold pull_dequeue. destruct (p_down ps); [exact I|].
      pose proof (step_dequeue_inv fl c (po_now x) (Some route) (p_target pc) (pull_batch pc batch) (pull_ttl pc ttl) (po_orc x) (p_q ps) I) as I1.
      destruct (step_dequeue _ _ _ _ _ _ _ _ _) as [q' r]. exact I1.
    + unfold pull_lease_req. destruct (normalize single ids (p_max_lease_batch pc)); try discriminate. exact I.
    + unfold pull_lease_req. destruct (normalize single ids (p_max_lease_batch pc)); try discriminate. exact I.
    + unfold pull_extend_req. destruct l0 as [|l1 p]; [exact I|]. destruct by_; [discriminate | exact I].
    + exact I.
    + pose proof (step_inv fl c (p_q ps) sx (po_orc x) I) as I1. destruct (step fl c (p_q ps) sx (po_orc x)) as [q' r]. exact I1.
    + exact I.
Qed.

(** ** what a call does with the cache: look-ups only remove, then the store successes of this call are remembered *)
Lemma pull_single_cache_shape fl c pc cnow now k l ps :
  exists chmid, sub chmid (p_cache ps)
    /\ p_cache (fst (fst (pull_single fl c pc cnow now k l ps)))
       = remember_all pc cnow (g_stored (snd (pull_single fl c pc cnow now k l ps))) chmid.
Proof.
  exists (single_mid pc cnow k l (p_cache ps)). split; [apply single_mid_sub|].
  rewrite pull_single_cases. cbv zeta.
  destruct (single_hit pc cnow k l (p_cache ps)); [reflexivity|]. destruct (p_down ps); [reflexivity|].
  destruct (step_lease fl c now k (LKnown l false) (p_q ps)) as [q' r].
  destruct r as [|e| | | | | | |]; try reflexivity. destruct e; reflexivity.
Qed.

Lemma pull_batch_cache_shape fl c pc cnow now k o ls ps :
  exists chmid, sub chmid (p_cache ps)
    /\ p_cache (fst (fst (pull_batch_call fl c pc cnow now k o ls ps)))
       = remember_all pc cnow (g_stored (snd (pull_batch_call fl c pc cnow now k o ls ps))) chmid.
Proof.
  unfold pull_batch_call. pose proof (partition_recent_spec pc cnow o ls (p_cache ps)) as PS.
  destruct (partition_recent pc cnow o ls (p_cache ps)) as [[ch1 pending] completed]. destruct PS as [S1 _].
  exists ch1. split; [exact S1|].
  destruct pending as [|p0 ptl]; [reflexivity|]. destruct (p_down ps); [reflexivity|].
  destruct (step_lease_batch c now k (map (fun l => LKnown l false) (p0 :: ptl)) (p_q ps)) as [q' r].
  destruct r; reflexivity.
Qed.

Lemma pstep_cache_shape fl c pc ps x :
  exists chmid, sub chmid (p_cache ps)
    /\ p_cache (fst (fst (pstep fl c pc ps x))) = remember_all pc (po_cnow x) (g_stored (snd (pstep fl c pc ps x))) chmid.
Proof.
  destruct (call_cases pc (po_call x)) as [[k [l E]] | [[k [o [ls E]]] | [E1 E2]]].
  - rewrite (pstep_single fl c pc ps x k l E). apply pull_single_cache_shape.
  - destruct (pstep_batch fl c pc ps x k o ls E) as [Ep _]. rewrite Ep. apply pull_batch_cache_shape.
  - destruct (pstep_other fl c pc ps x E1 E2) as [Eg Ec]. exists (p_cache ps). split; [apply sub_refl|].
    rewrite Eg, Ec. reflexivity.
Qed.

(** an answer from the cache: the cache is on and held an unexpired entry for exactly this (lease id, op) *)
Lemma pstep_cached_hit fl c pc ps x p :
  In p (g_cached (snd (pstep fl c pc ps x))) ->
  cache_off pc = false /\ exists e, In e (p_cache ps) /\ ckey e = p /\ po_cnow x < ce_exp e.
Proof.
  destruct (call_cases pc (po_call x)) as [[k [l E]] | [[k [o [ls E]]] | [E1 E2]]].
  - rewrite (pstep_single fl c pc ps x k l E). rewrite pull_single_cases. cbv zeta.
    destruct (single_hit pc (po_cnow x) k l (p_cache ps)) eqn:Hit.
    + simpl. unfold single_keys, single_hit in *. destruct (kind_opk k) as [o|]; [|discriminate].
      intros [Hp | []]. subst p. apply cache_lookup_hit. exact Hit.
    + destruct (p_down ps); [intros []|].
      destruct (step_lease fl c (po_now x) k (LKnown l false) (p_q ps)) as [q' r].
      destruct r as [|e| | | | | | |]; try (intros []). destruct e; intros [].
  - destruct (pstep_batch fl c pc ps x k o ls E) as [Ep _]. rewrite Ep. unfold pull_batch_call.
    pose proof (partition_recent_spec pc (po_cnow x) o ls (p_cache ps)) as PS.
    destruct (partition_recent pc (po_cnow x) o ls (p_cache ps)) as [[ch1 pending] completed].
    destruct PS as [_ [_ [_ [_ [Hit _]]]]].
    assert (G : In p (map (fun l => (l, o)) completed) ->
                cache_off pc = false /\ exists e, In e (p_cache ps) /\ ckey e = p /\ po_cnow x < ce_exp e).
    { intros Hp. apply in_map_iff in Hp. destruct Hp as [l [El Hl]]. subst p. apply Hit. exact Hl. }
    destruct pending as [|p0 ptl]; [exact G|]. destruct (p_down ps); [exact G|].
    destruct (step_lease_batch c (po_now x) k (map (fun l => LKnown l false) (p0 :: ptl)) (p_q ps)) as [q' r].
    destruct r; exact G.
  - destruct (pstep_other fl c pc ps x E1 E2) as [Eg _]. rewrite Eg. intros [].
Qed.

(** a (lease id, op) is remembered only when the store accepted the operation on the then current, unexpired lease *)
Lemma pstep_stored_current fl c pc ps x p :
  Inv (p_q ps) -> In p (g_stored (snd (pstep fl c pc ps x))) ->
  current (po_now x) (fst p) (msgs (p_q ps)) <> None
  /\ ((exists k, call_single pc (po_call x) = Some (k, fst p) /\ kind_opk k = Some (snd p))
      \/ (exists k ls, call_batch pc (po_call x) = Some (k, snd p, ls) /\ In (fst p) ls)).
Proof.
  intros I. destruct (call_cases pc (po_call x)) as [[k [l E]] | [[k [o [ls E]]] | [E1 E2]]].
  - rewrite (pstep_single fl c pc ps x k l E).
    destruct (is_noop_extend k) eqn:Hn.
    { destruct k; try discriminate. simpl in Hn. apply Z.leb_le in Hn. rewrite (pull_single_noop_extend _ _ _ _ _ _ _ _ Hn).
      destruct (p_down ps); intros []. }
    destruct (pull_single fl c pc (po_cnow x) (po_now x) k l ps) as [[ps' r] g] eqn:Es.
    destruct (pull_single_spec fl c pc (po_cnow x) (po_now x) k l ps ps' r g I Hn Es) as [_ [H1 [H2 H3]]]. simpl.
    destruct (single_hit pc (po_cnow x) k l (p_cache ps)) eqn:Hit.
    { destruct (H1 eq_refl) as [_ [_ [Eg _]]]. subst g. intros []. }
    destruct (p_down ps) eqn:Dn.
    { destruct (H2 eq_refl eq_refl) as [_ [_ [Eg _]]]. subst g. intros []. }
    destruct (H3 eq_refl eq_refl) as [_ [pm [_ Hc]]].
    destruct (current (po_now x) l (msgs (p_q ps))) as [m|] eqn:Ec.
    + destruct Hc as [_ [Eg _]]. subst g. simpl. unfold single_keys. destruct (kind_opk k) as [o|] eqn:Ek; [|intros []].
      intros [Hp | []]. subst p. simpl. rewrite Ec. split; [discriminate|]. left. exists k. split; [exact E | exact Ek].
    + destruct Hc as [_ [Eg _]]. subst g. intros [].
  - destruct (pstep_batch fl c pc ps x k o ls E) as [Ep [Hk [_ [ND _]]]]. rewrite Ep.
    destruct (pull_batch_call fl c pc (po_cnow x) (po_now x) k o ls ps) as [[ps' r] g] eqn:Eb.
    destruct (pull_batch_spec fl c pc (po_cnow x) (po_now x) k o ls ps ps' r g I Hk ND Eb)
      as [chmid [pending [completed [_ [_ [_ [Ip [_ [_ [_ [Hst _]]]]]]]]]]].
    simpl. intros Hp. destruct (Hst p Hp) as [A [B D]]. split; [exact D|]. right. exists k, ls. subst o. split; [exact E | apply Ip; exact B].
  - destruct (pstep_other fl c pc ps x E1 E2) as [Eg _]. rewrite Eg. intros [].
Qed.

(** ** histories: the cache invariant *)
Definition justified (pc : pcfg) (past : list pevent) (ch : cache) : Prop :=
  forall e, In e ch ->
    exists e0, In e0 past /\ In (ckey e) (g_stored (pe_ghost e0)) /\ ce_exp e = po_cnow (pe_op e0) + p_recent_ttl pc.

Record CInv (pc : pcfg) (past : list pevent) (ch : cache) : Prop := mkCInv {
  ci_just : justified pc past ch;
  ci_nodup : NoDup (ckeys ch);
  ci_len : (length ch <= Z.to_nat (p_recent_cap pc))%nat;
  ci_off : cache_off pc = true -> ch = [] }.

Lemma cinv_init pc : CInv pc [] [].
Proof. constructor; [intros e [] | constructor | simpl; lia | reflexivity]. Qed.

Lemma cinv_step pc past ch chmid ev :
  CInv pc past ch -> sub chmid ch ->
  CInv pc (past ++ [ev]) (remember_all pc (po_cnow (pe_op ev)) (g_stored (pe_ghost ev)) chmid).
Proof.
  intros [J ND Len Off] S. constructor.
  - intros e He. apply remember_all_In in He. destruct He as [He | [p [Hp Ee]]].
    + destruct (J e (sub_In _ _ e S He)) as [e0 [A B]]. exists e0. split; [apply in_or_app; left; exact A | exact B].
    + exists ev. split; [apply in_or_app; right; left; reflexivity|]. subst e. unfold ckey. simpl.
      destruct p as [l k]. split; [exact Hp | reflexivity].
  - apply remember_all_NoDup. apply (sub_NoDup _ ch); assumption.
  - apply remember_all_length. pose proof (sub_length _ _ S). lia.
  - intros O. rewrite remember_all_off by exact O. specialize (Off O). subst ch. apply sub_nil_l. exact S.
Qed.

(** every event of a history is one [pstep] from a state that satisfies the queue invariant and the cache
    invariant with respect to the events before it *)
Lemma prun_decompose fl c pc : forall xs ps past,
  Inv (p_q ps) -> CInv pc past (p_cache ps) ->
  Inv (p_q (snd (prun fl c pc ps xs))) /\ CInv pc (past ++ fst (prun fl c pc ps xs)) (p_cache (snd (prun fl c pc ps xs)))
  /\ forall pre e post, fst (prun fl c pc ps xs) = pre ++ e :: post ->
       Inv (p_q (pe_before e)) /\ CInv pc (past ++ pre) (p_cache (pe_before e))
       /\ pstep fl c pc (pe_before e) (pe_op e) = (pe_after e, pe_resp e, pe_ghost e).
Proof.
  induction xs as [|x tl IH]; intros ps past I CI; simpl.
  - rewrite app_nil_r. split; [exact I|]. split; [exact CI|]. intros pre e post H. destruct pre; discriminate.
  - pose proof (pstep_inv fl c pc ps x I) as I1.
    destruct (pstep_cache_shape fl c pc ps x) as [chmid [S Ec]].
    destruct (pstep fl c pc ps x) as [[ps' r] g] eqn:Es. simpl in I1, Ec.
    set (ev := mkPev x r g ps ps').
    assert (CI1 : CInv pc (past ++ [ev]) (p_cache ps')).
    { rewrite Ec. apply (cinv_step pc past (p_cache ps) chmid ev CI S). }
    specialize (IH ps' (past ++ [ev]) I1 CI1).
    destruct (prun fl c pc ps' tl) as [evs pf]. simpl in *. destruct IH as [If [CIf Hd]].
    split; [exact If|]. split; [rewrite <- app_assoc in CIf; exact CIf|].
    intros pre e post H. destruct pre as [|e1 pre'].
    + simpl in H. inversion H; subst e. simpl. rewrite app_nil_r. split; [exact I|]. split; [exact CI | exact Es].
    + simpl in H. inversion H; subst e1. destruct (Hd pre' e post H2) as [A [B D]].
      split; [exact A|]. split; [|exact D]. rewrite <- app_assoc in B. exact B.
Qed.

Lemma trace_decompose fl c pc xs pre e post :
  pull_trace fl c pc xs = pre ++ e :: post ->
  Inv (p_q (pe_before e)) /\ CInv pc pre (p_cache (pe_before e))
  /\ pstep fl c pc (pe_before e) (pe_op e) = (pe_after e, pe_resp e, pe_ghost e).
Proof.
  intros H. destruct (prun_decompose fl c pc xs pinit [] inv_init (cinv_init pc)) as [_ [_ Hd]].
  exact (Hd pre e post H).
Qed.

(** (e) the cache along every history: bounded, one entry per key, empty when switched off, and every entry stands
    for an operation the store accepted, expiring RecentLeaseOpTTL after that call *)
Theorem cache_invariant fl c pc xs :
  let ps := snd (prun fl c pc pinit xs) in
  (length (p_cache ps) <= Z.to_nat (p_recent_cap pc))%nat
  /\ NoDup (ckeys (p_cache ps))
  /\ (cache_off pc = true -> p_cache ps = [])
  /\ (forall e, In e (p_cache ps) ->
        exists e0, In e0 (pull_trace fl c pc xs) /\ In (ckey e) (g_stored (pe_ghost e0))
                   /\ ce_exp e = po_cnow (pe_op e0) + p_recent_ttl pc)
  /\ Inv (p_q ps).
Proof.
  cbv zeta. destruct (prun_decompose fl c pc xs pinit [] inv_init (cinv_init pc)) as [I [[J ND Len Off] _]].
  simpl in J. split; [exact Len|]. split; [exact ND|]. split; [exact Off|]. split; [exact J | exact I].
Qed.

(** every remembered (lease id, op) was accepted by the store on the then current, unexpired lease *)
Theorem stored_was_current fl c pc xs e p :
  In e (pull_trace fl c pc xs) -> In p (g_stored (pe_ghost e)) ->
  current (po_now (pe_op e)) (fst p) (msgs (p_q (pe_before e))) <> None.
Proof.
  intros He Hp. apply in_split in He. destruct He as [pre [post He]].
  destruct (trace_decompose fl c pc xs pre e post He) as [I [_ Es]].
  pose proof (pstep_stored_current fl c pc (pe_before e) (pe_op e) p I) as H. rewrite Es in H. simpl in H.
  apply H. exact Hp.
Qed.

(** an answer from the cache has an earlier twin: a call with the same (lease id, op) that the store accepted,
    less than RecentLeaseOpTTL before on the server clock *)
Theorem cached_answer_has_twin fl c pc xs pre e post p :
  pull_trace fl c pc xs = pre ++ e :: post -> In p (g_cached (pe_ghost e)) ->
  0 < p_recent_ttl pc /\ 0 < p_recent_cap pc
  /\ exists e0, In e0 pre /\ In p (g_stored (pe_ghost e0))
                /\ po_cnow (pe_op e) < po_cnow (pe_op e0) + p_recent_ttl pc
                /\ current (po_now (pe_op e0)) (fst p) (msgs (p_q (pe_before e0))) <> None.
Proof.
  intros H Hp. destruct (trace_decompose fl c pc xs pre e post H) as [I [[J _ _ _] Es]].
  pose proof (pstep_cached_hit fl c pc (pe_before e) (pe_op e) p) as Hh. rewrite Es in Hh. simpl in Hh.
  destruct (Hh Hp) as [Off [ce [Hin [Ek Hlt]]]]. destruct (cache_off_false pc Off) as [T1 T2].
  split; [exact T1|]. split; [exact T2|].
  destruct (J ce Hin) as [e0 [A [B D]]]. exists e0. split; [exact A|]. rewrite Ek in B. split; [exact B|].
  split; [lia|]. apply (stored_was_current fl c pc xs e0 p); [|exact B].
  rewrite H. apply in_or_app. left. exact A.
Qed.

(** ** (a) the idempotent duplicate answer *)
Lemma kind_opk_not_noop k o : kind_opk k = Some o -> is_noop_extend k = false.
Proof. destruct k; simpl; intros H; try reflexivity; discriminate. Qed.

Theorem idempotent_answer_sound fl c pc xs pre e post k l o :
  pull_trace fl c pc xs = pre ++ e :: post ->
  call_single pc (po_call (pe_op e)) = Some (k, l) -> kind_opk k = Some o ->
  r_status (pe_resp e) = 204 ->
  current (po_now (pe_op e)) l (msgs (p_q (pe_before e))) = None ->
  p_q (pe_after e) = p_q (pe_before e)
  /\ g_cached (pe_ghost e) = [(l, o)] /\ g_stored (pe_ghost e) = []
  /\ exists e0, In e0 pre /\ In (l, o) (g_stored (pe_ghost e0))
                /\ po_cnow (pe_op e) < po_cnow (pe_op e0) + p_recent_ttl pc
                /\ current (po_now (pe_op e0)) l (msgs (p_q (pe_before e0))) <> None.
Proof.
  intros H Ec Ek Hs Hcur. destruct (trace_decompose fl c pc xs pre e post H) as [I [_ Es]].
  rewrite (pstep_single fl c pc _ _ k l Ec) in Es.
  destruct (pull_single_spec fl c pc _ _ k l _ _ _ _ I (kind_opk_not_noop k o Ek) Es) as [_ [H1 [H2 H3]]].
  destruct (single_hit pc (po_cnow (pe_op e)) k l (p_cache (pe_before e))) eqn:Hit.
  - destruct (H1 eq_refl) as [Eq [_ [Eg _]]]. split; [exact Eq|].
    unfold single_keys in Eg. rewrite Ek in Eg. rewrite Eg. simpl. split; [reflexivity|]. split; [reflexivity|].
    destruct (cached_answer_has_twin fl c pc xs pre e post (l, o) H) as [_ [_ Hex]]; [rewrite Eg; left; reflexivity|].
    exact Hex.
  - exfalso. destruct (p_down (pe_before e)) eqn:Dn.
    + destruct (H2 eq_refl eq_refl) as [_ [Er _]]. rewrite Er in Hs. discriminate.
    + destruct (H3 eq_refl eq_refl) as [_ [pm [_ Hc]]]. rewrite Hcur in Hc. destruct Hc as [Er _]. rewrite Er in Hs. discriminate.
Qed.

(** ** (b) status mapping of a single ack / nack / dead-letter / positive extend *)
Theorem status_mapping fl c pc ps x k l ps' r g :
  Inv (p_q ps) -> call_single pc (po_call x) = Some (k, l) -> is_noop_extend k = false -> p_down ps = false ->
  pstep fl c pc ps x = (ps', r, g) ->
  let hit := single_hit pc (po_cnow x) k l (p_cache ps) in
  let cur := current (po_now x) l (msgs (p_q ps)) in
  (r_status r = 204 \/ r_status r = 409)
  /\ (r_status r = 204 <-> hit = true \/ cur <> None)
  /\ (r_status r = 409 <-> hit = false /\ cur = None)
  /\ (r_status r = 204 <-> grpc_code r = GOk)
  /\ (r_status r = 409 <-> grpc_code r = GFailedPrecondition)
  /\ (hit = true -> g_cached g = single_keys k l /\ g_stored g = [] /\ p_q ps' = p_q ps)
  /\ (hit = false -> g_cached g = [] /\ (g_stored g = single_keys k l <-> cur <> None \/ single_keys k l = [])).
Proof.
  intros I Ec Hn Dn Es. cbv zeta. rewrite (pstep_single fl c pc ps x k l Ec) in Es.
  destruct (pull_single_spec fl c pc _ _ k l _ _ _ _ I Hn Es) as [_ [H1 [_ H3]]].
  destruct (single_hit pc (po_cnow x) k l (p_cache ps)) eqn:Hit.
  - destruct (H1 eq_refl) as [Eq [Er [Eg _]]]. subst r g. simpl.
    split; [left; reflexivity|]. split; [split; [intros _; left; reflexivity | reflexivity]|].
    split; [split; [discriminate | intros [A _]; discriminate]|].
    split; [split; reflexivity|]. split; [split; discriminate|].
    split; [intros _; split; [reflexivity|]; split; [reflexivity | exact Eq] | discriminate].
  - destruct (H3 eq_refl Dn) as [_ [pm [_ Hc]]].
    destruct (current (po_now x) l (msgs (p_q ps))) as [m|] eqn:Ecur.
    + destruct Hc as [Er [Eg _]]. subst r g. simpl.
      split; [left; reflexivity|]. split; [split; [intros _; right; discriminate | reflexivity]|].
      split; [split; [discriminate | intros [_ A]; discriminate]|].
      split; [split; reflexivity|]. split; [split; discriminate|].
      split; [discriminate|]. intros _. split; [reflexivity|]. split; [intros _; left; discriminate | reflexivity].
    + destruct Hc as [Er [Eg _]]. subst r g. simpl.
      split; [right; reflexivity|]. split; [split; [discriminate | intros [A | A]; [discriminate | contradiction]]|].
      split; [split; [intros _; split; reflexivity | reflexivity]|].
      split; [split; discriminate|]. split; [split; reflexivity|].
      split; [discriminate|]. intros _. split; [reflexivity|]. split.
      * intros A. right. symmetry. exact A.
      * intros [A | A]; [contradiction | symmetry; exact A].
Qed.

(** a positive extend is never answered from the cache and never recorded in it *)
Theorem positive_extend_never_idempotent fl c pc ps x l b ps' r g :
  Inv (p_q ps) -> call_single pc (po_call x) = Some (KExtend b, l) -> 0 < b -> p_down ps = false ->
  pstep fl c pc ps x = (ps', r, g) ->
  (r_status r = 204 <-> current (po_now x) l (msgs (p_q ps)) <> None)
  /\ (r_status r = 409 <-> current (po_now x) l (msgs (p_q ps)) = None)
  /\ g = g0 /\ p_cache ps' = p_cache ps.
Proof.
  intros I Ec Hb Dn Es.
  assert (Hn : is_noop_extend (KExtend b) = false) by (simpl; apply Z.leb_gt; exact Hb).
  destruct (status_mapping fl c pc ps x (KExtend b) l ps' r g I Ec Hn Dn Es) as [_ [A [B [_ [_ [_ D]]]]]].
  cbv zeta in A, B, D. unfold single_hit in A, B, D. simpl in A, B, D.
  split; [rewrite A; split; [intros [F | F]; [discriminate | exact F] | intros F; right; exact F]|].
  split; [rewrite B; split; [intros [_ F]; exact F | intros F; split; [reflexivity | exact F]]|].
  rewrite (pstep_single fl c pc ps x _ l Ec) in Es.
  destruct (pull_single_spec fl c pc _ _ _ l _ _ _ _ I Hn Es) as [Ech _].
  destruct (D eq_refl) as [G1 G2]. unfold single_keys in G2. simpl in G2.
  assert (Gs : g_stored g = []) by (apply G2; right; reflexivity).
  split; [destruct g as [gs gc]; simpl in *; subst; reflexivity|].
  rewrite Ech, Gs. reflexivity.
Qed.

(** ** (c) a call with a lease that is not current has no effect (C04_single_op_fenced at the pull layer) *)
Lemma set_msgs_same s : set_msgs s (apply_pm (fun m => Some m) (msgs s)) = s.
Proof. rewrite apply_pm_id. destruct s; reflexivity. Qed.

Theorem stale_call_no_effect fl c pc ps x k l ps' r g :
  Inv (p_q ps) -> call_single pc (po_call x) = Some (k, l) -> is_noop_extend k = false ->
  pstep fl c pc ps x = (ps', r, g) ->
  current (po_now x) l (msgs (p_q ps)) = None ->
  g_stored g = []
  /\ (exists pm, p_q ps' = set_msgs (p_q ps) (apply_pm pm (msgs (p_q ps)))
        /\ forall y, In y (msgs (p_q ps)) ->
             pm y = Some y
             \/ (m_lease y = Some l /\ expired (po_now x) y = true /\ pm y = Some (release (po_now x) y) /\ r_status r = 409))
  /\ (r_status r = 204 -> p_q ps' = p_q ps /\ single_hit pc (po_cnow x) k l (p_cache ps) = true /\ g_cached g = single_keys k l)
  /\ (r_status r = 204 \/ r_status r = 409 \/ (r_status r = 500 /\ p_down ps = true /\ p_q ps' = p_q ps)).
Proof.
  intros I Ec Hn Es Hcur. rewrite (pstep_single fl c pc ps x k l Ec) in Es.
  destruct (pull_single_spec fl c pc _ _ k l _ _ _ _ I Hn Es) as [_ [H1 [H2 H3]]].
  destruct (single_hit pc (po_cnow x) k l (p_cache ps)) eqn:Hit.
  - destruct (H1 eq_refl) as [Eq [Er [Eg _]]]. subst r g. simpl. split; [reflexivity|].
    split; [exists (fun m => Some m); split; [rewrite set_msgs_same; exact Eq | intros y _; left; reflexivity]|].
    split; [intros _; split; [exact Eq|]; split; reflexivity | left; reflexivity].
  - destruct (p_down ps) eqn:Dn.
    + destruct (H2 eq_refl eq_refl) as [Eq [Er [Eg _]]]. subst r g. simpl. split; [reflexivity|].
      split; [exists (fun m => Some m); split; [rewrite set_msgs_same; exact Eq | intros y _; left; reflexivity]|].
      split; [discriminate | right; right; split; [reflexivity|]; split; [reflexivity | exact Eq]].
    + destruct (H3 eq_refl eq_refl) as [_ [pm [Eq Hc]]]. rewrite Hcur in Hc. destruct Hc as [Er [Eg Hy]]. subst r g. simpl.
      split; [reflexivity|]. split.
      * exists pm. split; [exact Eq|]. intros y Hin. destruct (Hy y Hin) as [A | [A [B D]]]; [left; exact A|].
        right. repeat split; assumption.
      * split; [discriminate | right; left; reflexivity].
Qed.

(** batch calls: the same rule per lease id; ids answered from the cache reach no message *)
Theorem batch_call_fenced fl c pc ps x k o ls ps' r g :
  Inv (p_q ps) -> call_batch pc (po_call x) = Some (k, o, ls) -> pstep fl c pc ps x = (ps', r, g) ->
  exists pending completed,
    g_cached g = map (fun l => (l, o)) completed
    /\ incl pending ls /\ (forall l, In l ls -> In l pending \/ In l completed) /\ (forall l, In l pending -> ~ In l completed)
    /\ (forall p, In p (g_stored g) -> snd p = o /\ In (fst p) pending /\ current (po_now x) (fst p) (msgs (p_q ps)) <> None)
    /\ exists pm, p_q ps' = set_msgs (p_q ps) (apply_pm pm (msgs (p_q ps)))
         /\ (forall m, In m (msgs (p_q ps)) -> lchange c (po_now x) (batch_eff_kind k) pending m (pm m))
         /\ (p_down ps = false ->
             forall m y, In m (msgs (p_q ps)) -> m_lease m = Some y -> In y pending -> is_leased m = true -> po_now x < m_until m ->
                         pm m = lease_effect c (po_now x) (batch_eff_kind k) m /\ In (y, o) (g_stored g)).
Proof.
  intros I Ec Es. destruct (pstep_batch fl c pc ps x k o ls Ec) as [Ep [Hk [_ [ND _]]]]. rewrite Ep in Es.
  destruct (pull_batch_spec fl c pc _ _ k o ls ps ps' r g I Hk ND Es)
    as [chmid [pending [completed [_ [_ [Eg [Ip [Cov [Dis [_ [Hst Hpm]]]]]]]]]]].
  exists pending, completed.
  split; [exact Eg|]. split; [exact Ip|]. split; [exact Cov|]. split; [exact Dis|]. split; [exact Hst | exact Hpm].
Qed.

(** the batch answer: 200 without conflicts, 409 with, and over gRPC always an OK response *)
Lemma pull_batch_status fl c pc cnow now k o ls ps :
  p_down ps = false ->
  let r := snd (fst (pull_batch_call fl c pc cnow now k o ls ps)) in
  (exists n cs, r_body r = BBatch n (conflict_pairs cs) /\ (r_status r = 200 <-> cs = []) /\ (r_status r = 409 <-> cs <> []))
  /\ grpc_code r = GOk.
Proof.
  intros Dn. unfold pull_batch_call. destruct (partition_recent pc cnow o ls (p_cache ps)) as [[ch1 pending] completed].
  destruct pending as [|p0 ptl].
  { simpl. split; [|reflexivity]. eexists. exists []. split; [reflexivity|].
    split; split; intros H; try reflexivity; try discriminate. contradiction. }
  rewrite Dn. unfold step_lease_batch.
  destruct (lease_batch c now _ (map (fun l => LKnown l false) (p0 :: ptl)) (msgs (p_q ps))) as [[ms' n] cs].
  simpl. split; [|reflexivity]. eexists. exists cs. split; [reflexivity|].
  destruct cs as [|ce tl]; simpl.
  - split; split; intros H; try reflexivity; try discriminate. contradiction.
  - split; split; intros H; try reflexivity; try discriminate.
Qed.

(** ** (d) the dequeue clamps *)
Lemma pull_batch_closed pc b :
  clamp_batch (pull_batch pc b) =
  Z.min mem_dequeue_batch_cap (if 0 <? p_max_batch pc then Z.min (p_max_batch pc) (Z.max 1 b) else Z.max 1 b).
Proof.
  unfold clamp_batch, pull_batch, mem_dequeue_batch_default, mem_dequeue_batch_cap.
  destruct (b <=? 0) eqn:E1; [apply Z.leb_le in E1 | apply Z.leb_gt in E1];
  destruct (0 <? p_max_batch pc) eqn:E2; simpl; [apply Z.ltb_lt in E2 | apply Z.ltb_ge in E2 | apply Z.ltb_lt in E2 | apply Z.ltb_ge in E2].
  - destruct (p_max_batch pc <? 1) eqn:E3; [apply Z.ltb_lt in E3; lia|]. apply Z.ltb_ge in E3.
    replace (1 <=? 0) with false by reflexivity. replace (100 <? 1) with false by reflexivity. lia.
  - replace (1 <=? 0) with false by reflexivity. replace (100 <? 1) with false by reflexivity. lia.
  - destruct (p_max_batch pc <? b) eqn:E3; [apply Z.ltb_lt in E3 | apply Z.ltb_ge in E3].
    + destruct (p_max_batch pc <=? 0) eqn:E4; [apply Z.leb_le in E4; lia | apply Z.leb_gt in E4].
      destruct (100 <? p_max_batch pc) eqn:E5; [apply Z.ltb_lt in E5 | apply Z.ltb_ge in E5]; lia.
    + destruct (b <=? 0) eqn:E4; [apply Z.leb_le in E4; lia | apply Z.leb_gt in E4].
      destruct (100 <? b) eqn:E5; [apply Z.ltb_lt in E5 | apply Z.ltb_ge in E5]; lia.
  - destruct (b <=? 0) eqn:E4; [apply Z.leb_le in E4; lia | apply Z.leb_gt in E4].
    destruct (100 <? b) eqn:E5; [apply Z.ltb_lt in E5 | apply Z.ltb_ge in E5]; lia.
Qed.

Lemma pull_ttl_bounds pc t :
  0 < eff_ttl (pull_ttl pc t)
  /\ (pull_ttl pc t <= 0 -> eff_ttl (pull_ttl pc t) = mem_dequeue_leasettl_default)
  /\ (0 < pull_ttl pc t -> eff_ttl (pull_ttl pc t) = pull_ttl pc t /\ (0 < p_max_ttl pc -> pull_ttl pc t <= p_max_ttl pc))
  /\ pull_ttl pc t = (let t1 := match t with Some v => v | None => p_default_ttl pc end in
                      if 0 <? p_max_ttl pc then Z.min (p_max_ttl pc) t1 else t1).
Proof.
  split; [apply eff_ttl_pos|]. unfold eff_ttl, pull_ttl. cbv zeta.
  set (t1 := match t with Some v => v | None => p_default_ttl pc end).
  destruct (0 <? p_max_ttl pc) eqn:E1; simpl; [apply Z.ltb_lt in E1 | apply Z.ltb_ge in E1].
  - destruct (p_max_ttl pc <? t1) eqn:E2; [apply Z.ltb_lt in E2 | apply Z.ltb_ge in E2].
    + split; [intros H; lia|]. split; [|lia]. intros H.
      destruct (p_max_ttl pc <=? 0) eqn:E3; [apply Z.leb_le in E3; lia|]. split; [reflexivity | intros _; lia].
    + split; [intros H; apply Z.leb_le in H; rewrite H; reflexivity|]. split; [|lia]. intros H.
      destruct (t1 <=? 0) eqn:E3; [apply Z.leb_le in E3; lia|]. split; [reflexivity | intros _; lia].
  - split; [intros H; apply Z.leb_le in H; rewrite H; reflexivity|]. split; [|reflexivity]. intros H.
    destruct (t1 <=? 0) eqn:E3; [apply Z.leb_le in E3; lia|]. split; [reflexivity | intros F; lia].
Qed.

Lemma pull_wait_bounds pc w : 0 < p_max_wait pc -> pull_wait pc w <= p_max_wait pc.
Proof.
  intros H. unfold pull_wait. apply Z.ltb_lt in H. rewrite H. simpl.
  match goal with |- (if ?b then _ else _) <= _ => destruct b eqn:E end; [lia | apply Z.ltb_ge in E; exact E].
Qed.

Theorem pull_dequeue_clamp fl c pc now route batch ttl wait o ps ps' st req items g :
  Inv (p_q ps) ->
  pull_dequeue fl c pc now route batch ttl wait o ps = (ps', mkResp st (BItems req items), g) ->
  let s2 := deq_pre fl c now o (p_q ps) in
  let b := clamp_batch (pull_batch pc batch) in
  let t := eff_ttl (pull_ttl pc ttl) in
  st = 200 /\ p_down ps = false /\ req = (pull_batch pc batch, pull_wait pc wait, pull_ttl pc ttl)
  /\ Z.of_nat (length items) = Z.min b (Z.of_nat (length (filter (ready now (Some route) (p_target pc)) (msgs s2))))
  /\ b = Z.min mem_dequeue_batch_cap (if 0 <? p_max_batch pc then Z.min (p_max_batch pc) (Z.max 1 batch) else Z.max 1 batch)
  /\ 1 <= b <= mem_dequeue_batch_cap
  /\ (forall i lid att un, In (i, lid, att, un) items ->
        un = now + t /\ now < un /\ ~ In lid (issued (p_q ps))
        /\ exists m0, find_id i (msgs s2) = Some m0 /\ ready now (Some route) (p_target pc) m0 = true /\ att = m_attempt m0 + 1)
  /\ 0 < t
  /\ (pull_ttl pc ttl <= 0 -> t = mem_dequeue_leasettl_default)
  /\ (0 < pull_ttl pc ttl -> t = pull_ttl pc ttl /\ (0 < p_max_ttl pc -> t <= p_max_ttl pc))
  /\ (0 < p_max_wait pc -> pull_wait pc wait <= p_max_wait pc)
  /\ p_cache ps' = p_cache ps /\ g = g0.
Proof.
  intros I H. cbv zeta. unfold pull_dequeue in H. destruct (p_down ps) eqn:Dn; [discriminate|].
  destruct (step_dequeue fl c now (Some route) (p_target pc) (pull_batch pc batch) (pull_ttl pc ttl) o (p_q ps)) as [q' r] eqn:E.
  destruct r as [| | |its| | | | |]; try discriminate. inversion H; subst. clear H.
  destruct (dequeue_sound fl c now (Some route) (p_target pc) (pull_batch pc batch) (pull_ttl pc ttl) o (p_q ps) q' items I E)
    as [_ [_ [Hc Hall]]]. cbv zeta in Hc, Hall.
  destruct (pull_ttl_bounds pc ttl) as [T0 [T1 [T2 _]]].
  split; [reflexivity|]. split; [reflexivity|]. split; [reflexivity|]. split; [exact Hc|].
  split; [apply pull_batch_closed|]. split; [apply clamp_batch_range|].
  split.
  { intros i lid att un Hin. destruct (Hall i lid att un Hin) as [m0 [F [R [_ [Ea [Eu [Hlt [Hni _]]]]]]]].
    split; [exact Eu|]. split; [exact Hlt|]. split; [exact Hni|]. exists m0. repeat split; assumption. }
  split; [exact T0|]. split; [exact T1|].
  split; [intros Hp; destruct (T2 Hp) as [A B]; split; [exact A | intros Hm; rewrite A; apply B; exact Hm]|].
  split; [apply pull_wait_bounds|]. split; reflexivity.
Qed.

(** a failing store: 503 for dequeue, nothing changes *)
Lemma pull_dequeue_down fl c pc now route batch ttl wait o ps :
  p_down ps = true -> pull_dequeue fl c pc now route batch ttl wait o ps = (ps, mkResp 503 (BErr CStoreUnavailable), g0).
Proof. intros H. unfold pull_dequeue. rewrite H. reflexivity. Qed.

(** requests rejected before any operation (malformed, unknown endpoint / operation, wrong method, lease_id and
    lease_ids mixed, empty or blank-only or oversized lists, extend without lease_id / extend_by) change nothing *)
Lemma rejected_no_effect fl c pc ps x :
  call_single pc (po_call x) = None -> call_batch pc (po_call x) = None ->
  match po_call x with PAck _ _ | PNack _ _ _ _ _ | PExtend _ _ | PRaw _ => True | _ => False end ->
  fst (fst (pstep fl c pc ps x)) = ps /\ snd (pstep fl c pc ps x) = g0
  /\ In (r_status (snd (fst (pstep fl c pc ps x)))) [400; 404; 405].
Proof.
  unfold pstep, call_single, call_batch.
  destruct (po_call x) as [route batch ttl wait|single ids|single ids dead reason delay|l0 by_|rk|sx|b]; intros H1 H2 H3;
    try contradiction.
  - unfold pull_lease_req. destruct (normalize single ids (p_max_lease_batch pc)); try discriminate.
    simpl. repeat split. left. reflexivity.
  - unfold pull_lease_req. destruct (normalize single ids (p_max_lease_batch pc)); try discriminate.
    simpl. repeat split. left. reflexivity.
  - unfold pull_extend_req. destruct l0 as [|l1 p]; [simpl; repeat split; left; reflexivity|].
    destruct by_; [discriminate|]. simpl. repeat split. left. reflexivity.
  - simpl. repeat split. destruct rk; simpl; auto.
Qed.

(** leaseBatchLimit: with a positive MaxLeaseBatch the gRPC server uses the same limit as the HTTP handler *)
Lemma grpc_pcfg_id pc : 0 < p_max_lease_batch pc -> grpc_pcfg pc = pc.
Proof. intros H. unfold grpc_pcfg. apply Z.ltb_lt in H. rewrite H. destruct pc; reflexivity. Qed.
