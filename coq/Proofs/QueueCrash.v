(** C01 - crash durability on the SQLite flavour.

    A Store method is a short program of committed micro-steps: the interval-gated retention prune
    (its own transaction) followed by the method's core (one autocommit statement or one
    BEGIN IMMEDIATE .. COMMIT).  Every micro-step is itself a [step] of the model (the prune is what
    [Stats] does to the state; the core is the method under a configuration whose prune is switched
    off), so a timeline - any interleaving of the micro-steps of concurrently served requests on the
    single pooled connection - is a list of (configuration, operation, oracle) triples, a crash is a
    cut of that list (a cut inside a transaction discards it, i.e. cuts before it), and the recovered
    queue is the state after the committed prefix with the in-memory throttles reset. *)
From Coq Require Import List ZArith NArith Bool Lia.
From HK Require Import Gen.Consts Model.Queue Model.QueueHash Model.QueueMon
  Proofs.QueueBase Proofs.QueueInv Proofs.QueueInvStep Proofs.QueueStep Proofs.QueueTrace Proofs.QueueLease Proofs.QueueFence.
Import ListNotations.
Open Scope Z_scope.

Definition no_prune (c : cfg) : cfg :=
  mkCfg (c_max_depth c) (c_drop_oldest c) (c_ret_age c) 0 (c_deliv_age c) (c_dlq_age c) (c_dlq_depth c) (c_press_items c).

Lemma prune_no_prune c now hint s : prune (no_prune c) now hint s = s.
Proof. unfold prune, prune_due, prune_enabled, no_prune. simpl. reflexivity. Qed.

Lemma sql_make_room_no_prune c fuel need hint l : sql_make_room (no_prune c) fuel need hint l = sql_make_room c fuel need hint l.
Proof.
  revert need l. induction fuel as [|f IH]; intros need l; simpl; [reflexivity|].
  destruct (need <=? c_max_depth c); [reflexivity|]. destruct (sql_victim hint l); [apply IH | reflexivity].
Qed.

(** a method that prunes = the prune micro-step, then the core micro-step *)
Theorem method_is_prune_then_core c s x o :
  prunes x = true -> snd (step Sql c s x o) <> RBadOracle ->
  step Sql c s x o = step Sql (no_prune c) (prune c (op_now x) (o_gone o) s) x o.
Proof.
  intros Hp Hb. destruct x; simpl in Hp; try discriminate; cbn [step op_now] in *.
  - unfold step_enqueue in *. cbn [app] in *. rewrite prune_no_prune.
    destruct (assign_ids [e] (o_genids o)); [|exfalso; apply Hb; reflexivity].
    cbn [c_max_depth c_drop_oldest no_prune]. rewrite sql_make_room_no_prune. reflexivity.
  - destruct es as [|e0 es0]; [discriminate|]. unfold step_enqueue in *. rewrite prune_no_prune.
    destruct (assign_ids (e0 :: es0) (o_genids o)); [|exfalso; apply Hb; reflexivity].
    cbn [c_max_depth c_drop_oldest no_prune]. rewrite sql_make_room_no_prune. reflexivity.
  - unfold step_dequeue. rewrite prune_no_prune. reflexivity.
  - unfold step_list. rewrite prune_no_prune. reflexivity.
  - unfold step_list_dead. rewrite prune_no_prune. reflexivity.
  - unfold step_stats. rewrite prune_no_prune. reflexivity.
Qed.

Theorem prune_microstep_is_stats c s now o : fst (step Sql c s (Stats now) o) = prune c now (o_gone o) s.
Proof. reflexivity. Qed.

(** ** timelines of micro-steps (each with the configuration it runs under) *)
Definition mstep := (cfg * op * oracle)%type.

Fixpoint runc (fl : flavour) (s : state) (tl : list mstep) : list (cfg * event) * state :=
  match tl with
  | [] => ([], s)
  | (c, x, o) :: rest =>
      let '(s', r) := step fl c s x o in
      let '(evs, sf) := runc fl s' rest in
      ((c, mkEvent x o r (msgs s) (msgs s')) :: evs, sf)
  end.

Definition after (fl : flavour) (s : state) (tl : list mstep) : state := snd (runc fl s tl).

Lemma after_cons fl s c x o rest : after fl s ((c, x, o) :: rest) = after fl (fst (step fl c s x o)) rest.
Proof.
  unfold after. simpl. destruct (step fl c s x o) as [s' r]. simpl. destruct (runc fl s' rest) as [evs sf]. reflexivity.
Qed.

Lemma after_app fl s t1 t2 : after fl s (t1 ++ t2) = after fl (after fl s t1) t2.
Proof.
  revert s. induction t1 as [|[[c x] o] rest IH]; intros s; [reflexivity|].
  simpl app. rewrite !after_cons. apply IH.
Qed.

(** what a restart does: the rows stay, the in-memory throttles are reset *)
Definition reopen (s : state) : state := mkState (msgs s) (order s) None 0 (issued s).

(** the queue recovered after a crash that cut the timeline after [k] committed micro-steps *)
Definition recovered (tl : list mstep) (k : nat) : state := reopen (after Sql init (firstn k tl)).

Lemma after_inv fl s tl : Inv s -> Inv (after fl s tl).
Proof.
  revert s. induction tl as [|[[c x] o] rest IH]; intros s I; [exact I|].
  rewrite after_cons. apply IH. apply step_inv. exact I.
Qed.

(** never a half-written or duplicated message, whatever the crash point *)
Theorem recovered_well_formed tl k :
  Inv (recovered tl k) /\ state_ok (msgs (recovered tl k)).
Proof.
  assert (I : Inv (after Sql init (firstn k tl))) by (apply after_inv; apply inv_init).
  split; [exact I | apply (inv_state_ok _ I)].
Qed.

(** the restarted store accepts every operation again: it is an ordinary reachable state *)
Theorem recovered_continues tl k more :
  Inv (after Sql (recovered tl k) more).
Proof. apply after_inv. apply (proj1 (recovered_well_formed tl k)). Qed.

(** ** nothing nobody sent *)
Definition enqueued_by (c : cfg) (x : op) (o : oracle) (r : res) (q : msg) : Prop :=
  res_ok r = true /\ exists ies p, assign_ids (enq_list x) (o_genids o) = Some ies /\ In p ies
                                   /\ q = mk_msg (op_now x) (fst p) (snd p).

Theorem nothing_unsent fl tl s m :
  Inv s -> In m (msgs (after fl s tl)) ->
  (exists m0, In m0 (msgs s) /\ same_imm m0 m)
  \/ exists pre c x o post q, tl = pre ++ (c, x, o) :: post
       /\ enqueued_by c x o (snd (step fl c (after fl s pre) x o)) q /\ same_imm q m.
Proof.
  revert s. induction tl as [|[[c x] o] rest IH]; intros s I Hm.
  - left. exists m. split; [exact Hm | apply same_imm_refl].
  - rewrite after_cons in Hm.
    pose proof (step_inv fl c s x o I) as I1.
    destruct (IH _ I1 Hm) as [[m1 [H1 S1]] | [pre [c' [x' [o' [post [q [E [En Sq]]]]]]]]].
    + destruct (step fl c s x o) as [s' r] eqn:Es. simpl in H1, I1.
      destruct (spec_origin c x o r (msgs s) (msgs s') m1 (step_sound fl c s x o s' r I Es) H1) as [[m0 [H0 [S0 _]]] | [Hok [ies [p [EA [Hp Eq]]]]]].
      * left. exists m0. split; [exact H0 | eapply same_imm_trans; eassumption].
      * right. exists [], c, x, o, rest, m1. split; [reflexivity|]. split; [|exact S1].
        unfold after; simpl. rewrite Es. simpl. split; [exact Hok|]. exists ies, p. auto.
    + right. exists ((c, x, o) :: pre), c', x', o', post, q. split; [simpl; rewrite E; reflexivity|].
      split; [|exact Sq]. simpl app. rewrite after_cons. exact En.
Qed.

Corollary recovered_nothing_unsent tl k m :
  In m (msgs (recovered tl k)) ->
  exists pre c x o post q, firstn k tl = pre ++ (c, x, o) :: post
    /\ enqueued_by c x o (snd (step Sql c (after Sql init pre) x o)) q /\ same_imm q m.
Proof.
  intros Hm. destruct (nothing_unsent Sql (firstn k tl) init m inv_init Hm) as [[m0 [[] _]] | H]. exact H.
Qed.

(** ** an acknowledged enqueue is durable: once its core micro-step has committed, the message is in
    every later state - hence in the state recovered after any later crash - unless a later committed
    micro-step removed it for a documented reason (ack, DLQ delete, retention, drop_oldest eviction) *)
Theorem committed_message_stays fl s post q :
  Inv s -> In q (msgs s) ->
  (exists m, In m (msgs (after fl s post)) /\ same_imm q m)
  \/ exists pre c x o rest m, post = pre ++ (c, x, o) :: rest /\ In m (msgs (after fl s pre)) /\ same_imm q m
       /\ removal c x (snd (step fl c (after fl s pre) x o)) m.
Proof.
  revert s q. induction post as [|[[c x] o] rest IH]; intros s q I Hq.
  - left. exists q. split; [exact Hq | apply same_imm_refl].
  - pose proof (step_inv fl c s x o I) as I1.
    destruct (step fl c s x o) as [s' r] eqn:Es. simpl in I1.
    destruct (spec_fate c x o r (msgs s) (msgs s') q (inv_nodup _ _ I) (step_sound fl c s x o s' r I Es) Hq) as [[m' [Hm' Ch]] | Rm].
    + assert (Sq : same_imm q m') by (apply (change_same_imm c x r); exact Ch).
      rewrite after_cons, Es. simpl.
      destruct (IH s' m' I1 Hm') as [[m [Hm Sm]] | [pre [c' [x' [o' [rest' [m [E [Hm [Sm Rm]]]]]]]]]].
      * left. exists m. split; [exact Hm | eapply same_imm_trans; eassumption].
      * right. exists ((c, x, o) :: pre), c', x', o', rest', m. split; [simpl; rewrite E; reflexivity|].
        simpl app. rewrite after_cons, Es. simpl. split; [exact Hm|]. split; [eapply same_imm_trans; eassumption | exact Rm].
    + right. exists [], c, x, o, rest, q. split; [reflexivity|]. unfold after at 1 2. simpl.
      split; [exact Hq|]. split; [apply same_imm_refl|]. rewrite Es. exact Rm.
Qed.

Theorem acked_enqueue_durable pre c x o post q k :
  let tl := pre ++ (c, x, o) :: post in
  enqueued_by c x o (snd (step Sql c (after Sql init pre) x o)) q ->
  In q (msgs (fst (step Sql c (after Sql init pre) x o))) ->
  (length pre < k)%nat ->
  (exists m, In m (msgs (recovered tl k)) /\ same_imm q m)
  \/ exists pre2 c2 x2 o2 rest2 m, firstn (k - S (length pre)) post = pre2 ++ (c2, x2, o2) :: rest2
       /\ same_imm q m /\ removal c2 x2 (snd (step Sql c2 (after Sql (fst (step Sql c (after Sql init pre) x o)) pre2) x2 o2)) m.
Proof.
  intros tl En Hq Hk. subst tl. unfold recovered. unfold mstep in *.
  assert (Ef : firstn k (pre ++ (c, x, o) :: post) = pre ++ (c, x, o) :: firstn (k - S (length pre)) post).
  { rewrite firstn_app. replace (k - length pre)%nat with (S (k - S (length pre))) by lia. simpl.
    rewrite firstn_all2; [reflexivity | lia]. }
  rewrite Ef, after_app, after_cons. simpl msgs.
  set (s1 := fst (step Sql c (after Sql init pre) x o)) in *.
  assert (I1 : Inv s1) by (apply step_inv; apply after_inv; apply inv_init).
  destruct (committed_message_stays Sql s1 (firstn (k - S (length pre)) post) q I1 Hq) as [H | [pre2 [c2 [x2 [o2 [rest2 [m [E [Hm [Sm Rm]]]]]]]]]].
  - left. exact H.
  - right. exists pre2, c2, x2, o2, rest2, m. split; [exact E|]. split; [exact Sm | exact Rm].
Qed.

(** a successful enqueue core really stores its messages (so the premise above is met by every 202/200) *)
Theorem successful_enqueue_stores fl c s x o s' r q :
  Inv s -> step fl c s x o = (s', r) -> enqueued_by c x o r q -> enq_list x <> [] -> In q (msgs s').
Proof.
  intros I H [Hok [ies [p [EA [Hp Eq]]]]] Hne.
  destruct x; simpl in Hne; try contradiction; cbn [step] in H; cbn [enq_list] in EA.
  - (* single *)
    unfold step_enqueue in H. cbn [app] in H. rewrite EA in H. subst q.
    assert (Hnews : In (mk_msg now (fst p) (snd p)) (map (fun p0 : N * enq => mk_msg now (fst p0) (snd p0)) ies)) by (apply in_map_iff; exists p; split; [reflexivity | exact Hp]).
    destruct fl.
    + destruct (mem_plan _ _ _ _); [|inversion H; subst; discriminate]. destruct (pressure _ _); [inversion H; subst; discriminate|].
      destruct (negb _); [inversion H; subst; discriminate|]. inversion H; subst. simpl. apply in_or_app. right. exact Hnews.
    + match type of H with (match ?rm with _ => _ end) = _ => destruct rm end; [|inversion H; subst; discriminate].
      destruct (_ && _); [|inversion H; subst; discriminate]. inversion H; subst. simpl. apply in_or_app. right. exact Hnews.
  - destruct es as [|e0 es0]; [contradiction|]. unfold step_enqueue in H. rewrite EA in H. subst q.
    assert (Hnews : In (mk_msg now (fst p) (snd p)) (map (fun p0 : N * enq => mk_msg now (fst p0) (snd p0)) ies)) by (apply in_map_iff; exists p; split; [reflexivity | exact Hp]).
    destruct fl.
    + destruct (mem_plan _ _ _ _); [|inversion H; subst; discriminate]. destruct (negb _); [inversion H; subst; discriminate|].
      destruct (pressure _ _); [inversion H; subst; discriminate|]. inversion H; subst. simpl. apply in_or_app. right. exact Hnews.
    + match type of H with (match ?rm with _ => _ end) = _ => destruct rm end; [|inversion H; subst; discriminate].
      destruct (_ && _); [|inversion H; subst; discriminate]. inversion H; subst. simpl. apply in_or_app. right. exact Hnews.
Qed.

(** ** a fan-out request: one enqueue per target, 202 only after the last one committed *)
Fixpoint fanout (c : cfg) (now : Z) (e : enq) (targets : list N) (gen : list N) : list mstep :=
  match targets, gen with
  | t :: ts, g :: gs =>
      (no_prune c, Enqueue now (mkEnq None (e_route e) t (e_recv e) (e_next e) (e_body e) (e_hdr e) (e_trace e)),
       mkOracle [] [] [g] []) :: fanout c now e ts gs
  | _, _ => []
  end.

(** the response of the handler: 202 iff every per-target enqueue succeeded, 503 at the first failure *)
Fixpoint fanout_status (fl : flavour) (s : state) (prog : list mstep) : Z * nat :=   (* status, micro-steps executed *)
  match prog with
  | [] => (202, O)
  | (c, x, o) :: rest =>
      let '(s', r) := step fl c s x o in
      if res_ok r then let '(st, n) := fanout_status fl s' rest in (st, S n) else (503, 1%nat)
  end.

Theorem fanout_202_all_committed fl s prog :
  fst (fanout_status fl s prog) = 202 ->
  snd (fanout_status fl s prog) = length prog
  /\ forall pre c x o post, prog = pre ++ (c, x, o) :: post -> res_ok (snd (step fl c (after fl s pre) x o)) = true.
Proof.
  revert s. induction prog as [|[[c x] o] rest IH]; intros s H.
  - split; [reflexivity|]. intros pre c x o post E. destruct pre; discriminate.
  - simpl in H |- *. destruct (step fl c s x o) as [s' r] eqn:Es. destruct (res_ok r) eqn:Ok.
    + destruct (fanout_status fl s' rest) as [st n] eqn:Ef. simpl in H. subst st.
      destruct (IH s') as [Hn Hall]; [rewrite Ef; reflexivity|]. rewrite Ef in Hn. simpl in Hn.
      split; [simpl; f_equal; exact Hn|].
      intros pre c' x' o' post E. destruct pre as [|a pre'].
      * simpl in E. inversion E; subst. unfold after; simpl. rewrite Es. exact Ok.
      * simpl in E. inversion E; subst. simpl app. rewrite after_cons, Es. simpl. apply (Hall pre' c' x' o' post). reflexivity.
    + simpl in H. discriminate.
Qed.
